---------------------------- MODULE ConfigQuery ----------------------------
(***************************************************************************)
(* C20 - configuration lookups return the most specific existing entry.    *)
(*                                                                         *)
(* A FUNCTIONAL model: no scheduling, the "behaviours" are input cases.     *)
(* The module defines, side by side,                                       *)
(*   - the PROPERTY-level (declarative) functions: what a query string     *)
(*     spells, which candidate is the most specific existing one, what a   *)
(*     payload renders to; and                                             *)
(*   - the CODE-level functions, written after the mechanisms of the real  *)
(*     code (file/function cited at each definition): the anchored regular *)
(*     expressions of configuration/componentcfg/query.go, the four-step   *)
(*     fallback of apricot/local/serviceutil.go:resolveComponentQuery, the *)
(*     pongo2 rendering of apricot/local/service.go:                        *)
(*     GetAndProcessComponentConfiguration.                                *)
(* TLC checks (spec/ConfigQueryGen.tla: the states ARE the cases) that the  *)
(* code-level functions satisfy the property formulas on every case within  *)
(* the bounds; spec/ConfigQueryTrace.tla checks that the real code computes *)
(* the code-level functions (conformance) and evaluates the property       *)
(* formulas on what the real code returned (monitor).                      *)
(*                                                                         *)
(* Strings are sequences of TOKENS: every printable ASCII character, a few   *)
(* non-ASCII ones and a few multi-character words (PHYSICS, ANY, process,    *)
(* true); the fixed table Chr maps a token to the characters it stands for   *)
(* (the driver has the same table) and a token sequence is judged by what it *)
(* SPELLS (character classes, run type names, booleans).                    *)
(***************************************************************************)
EXTENDS Naturals, Sequences, FiniteSets, TLC

CONSTANT AutoEscape   \* TRUE: substituted variable values are HTML-escaped (pongo2's default, the tree as it is);
                      \* FALSE: values are substituted verbatim (what the property demands)

(* ------------------------------------------------------------------------ *)
(* Tokens                                                                   *)
(* ------------------------------------------------------------------------ *)
\* Every printable ASCII character is a token named by itself - except that the names p t P A T N Q are taken by the
\* multi-character / control tokens below, so those seven letters are named ~p ~t ~P ~A ~T ~N ~Q, and the double quote
\* is named Q.  A few non-ASCII characters are named by their code point (their Chr is an ASCII transliteration, which
\* the driver applies to every string it records: TLA+ string literals are ASCII).
LowerCh == {"a", "b", "c", "d", "e", "f", "g", "h", "i", "j", "k", "l", "m", "n", "o", "~p", "q", "r", "s",
            "~t", "u", "v", "w", "x", "y", "z"}
UpperCh == {"~A", "B", "C", "D", "E", "F", "G", "H", "I", "J", "K", "L", "M", "~N", "O", "~P", "~Q", "R",
            "S", "~T", "U", "V", "W", "X", "Y", "Z"}
Digit   == {"0", "1", "2", "3", "4", "5", "6", "7", "8", "9"}
Lower   == LowerCh \cup {"p", "t"}          \* "p" = process, "t" = true  (multi-character lowercase words)
Upper   == UpperCh
Enum    == {"P", "A"}                      \* "P" = PHYSICS, "A" = ANY (multi-character uppercase words, RunType names)
Word    == Lower \cup Upper \cup Digit \cup {"-", "_"} \cup Enum     \* the class [a-zA-Z0-9-_] (and [a-z-A-Z0-9-_])
UWord   == Upper \cup Digit \cup {"-", "_"} \cup Enum                \* the class [A-Z0-9-_]
EntryCh == Word \cup {"/"}                                          \* the class [a-z-A-Z0-9-_/]
Blank   == {" ", "T", "N", "u00A0", "u2003"}   \* space, tab, newline, NBSP, EM SPACE: what strings.TrimSpace removes
VOnly   == {",", "Q", "[", "]"}            \* value-only characters of query parameters: , " [ ]
VWord   == Word \cup VOnly                 \* the class [a-zA-Z0-9-_,"\[\]]
Punct   == {"!", "#", "$", "%", "'", "(", ")", "*", "+", ".", ":", ";", "<", ">", "?", "@", "\\", "^", "`",
            "{", "|", "}", "~"}                            \* the rest of printable ASCII: in no class
NonAscii == {"u00E9", "u03A9"}             \* e-acute, capital omega: in no class
Illegal == Punct \cup NonAscii
Tok     == Word \cup {"/"} \cup Blank \cup VOnly \cup {"=", "&"} \cup Illegal

Chr(t) == CASE t = "P" -> "PHYSICS" [] t = "A" -> "ANY" [] t = "p" -> "process" [] t = "t" -> "true"
            [] t = "T" -> "\t" [] t = "N" -> "\n" [] t = "Q" -> "\""
            [] t = "~p" -> "p" [] t = "~t" -> "t" [] t = "~P" -> "P" [] t = "~A" -> "A" [] t = "~T" -> "T"
            [] t = "~N" -> "N" [] t = "~Q" -> "Q"
            [] t = "u00A0" -> "<U+00A0>" [] t = "u2003" -> "<U+2003>" [] t = "u00E9" -> "<U+00E9>" [] t = "u03A9" -> "<U+03A9>"
            [] OTHER -> t

RECURSIVE Str(_)
Str(s) == IF s = <<>> THEN "" ELSE Chr(Head(s)) \o Str(Tail(s))

\* Token sequences are judged by the characters they SPELL (several sequences may spell the same string):
\* apricotpb.RunType_value, strconv.ParseBool and the key "process" (the driver records the real tables in a "Table"
\* line and the trace specification compares them with these).
EnumNames == {"NULL", "PHYSICS", "TECHNICAL", "PEDESTAL", "PULSER", "LASER", "CALIBRATION_ITHR_TUNING",
              "CALIBRATION_VCASN_TUNING", "CALIBRATION_THR_SCAN", "CALIBRATION_DIGITAL_SCAN", "CALIBRATION_ANALOG_SCAN",
              "CALIBRATION_FHR", "CALIBRATION_ALPIDE_SCAN", "CALIBRATION", "COSMICS", "SYNTHETIC", "NOISE",
              "CALIBRATION_PULSE_LENGTH", "CALIBRATION_VRESETD", "ANY"}
TrueStrings  == {"1", "t", "T", "TRUE", "true", "True"}
FalseStrings == {"0", "f", "F", "FALSE", "false", "False"}
ProcessKey == "process"
IsEnum(seg) == Str(seg) \in EnumNames
IsBool(seg) == Str(seg) \in TrueStrings \cup FalseStrings
BoolOf(seg) == Str(seg) \in TrueStrings
IsProcess(key) == Str(key) = ProcessKey

Min(S) == CHOOSE x \in S : \A y \in S : x <= y
Max(S) == CHOOSE x \in S : \A y \in S : x >= y
All(seq, C) == \A i \in 1..Len(seq) : seq[i] \in C
Range(f) == {f[i] : i \in DOMAIN f}

(* strings.TrimSpace *)
Trim(s) == LET nb == {i \in 1..Len(s) : s[i] \notin Blank}
           IN IF nb = {} THEN <<>> ELSE SubSeq(s, Min(nb), Max(nb))

Reject == [rejected |-> TRUE]

(* ------------------------------------------------------------------------ *)
(* (b) Query strings.  PROPERTY level: what a string spells.                *)
(*     component / RUNTYPE / role / entry, the entry being everything after *)
(*     the third separator.                                                 *)
(* ------------------------------------------------------------------------ *)
Slashes(t) == {i \in 1..Len(t) : t[i] = "/"}

WfQuery(q) == /\ q.comp # <<>> /\ All(q.comp, Word)
              /\ IsEnum(q.rt)
              /\ q.role # <<>> /\ All(q.role, Word)
              /\ q.entry # <<>> /\ All(q.entry, EntryCh)
WfEntriesQuery(q) == /\ q.comp # <<>> /\ All(q.comp, Word)
                     /\ IsEnum(q.rt)
                     /\ q.role # <<>> /\ All(q.role, Word)

PrintQ(q) == q.comp \o <<"/">> \o q.rt \o <<"/">> \o q.role \o <<"/">> \o q.entry
PrintEntries(q) == q.comp \o <<"/">> \o q.rt \o <<"/">> \o q.role

\* the set (empty or a singleton) of well-formed queries whose printed form is exactly t
Spelled(t) ==
  LET S == Slashes(t) IN
  IF Cardinality(S) < 3 THEN {} ELSE
    LET i1 == Min(S)  i2 == Min(S \ {i1})  i3 == Min(S \ {i1, i2})
        q == [comp |-> SubSeq(t, 1, i1 - 1), rt |-> SubSeq(t, i1 + 1, i2 - 1),
              role |-> SubSeq(t, i2 + 1, i3 - 1), entry |-> SubSeq(t, i3 + 1, Len(t))]
    IN IF WfQuery(q) THEN {q} ELSE {}

SpelledEntries(t) ==
  LET S == Slashes(t) IN
  IF Cardinality(S) # 2 THEN {} ELSE
    LET i1 == Min(S)  i2 == Max(S)
        q == [comp |-> SubSeq(t, 1, i1 - 1), rt |-> SubSeq(t, i1 + 1, i2 - 1), role |-> SubSeq(t, i2 + 1, Len(t))]
    IN IF WfEntriesQuery(q) THEN {q} ELSE {}

(* ------------------------------------------------------------------------ *)
(*     CODE level: query.go.  inputFullRegex / inputEntriesRegex are         *)
(*     ^ G1 G2 G3 [G4] $ with Gi = ( '/'? class+ ){1}; NewQuery trims the    *)
(*     input, matches, takes the capture groups, strips the leading '/' and  *)
(*     looks the run type up in apricotpb.RunType_value.                     *)
(* ------------------------------------------------------------------------ *)
FullGroups == << [pre |-> FALSE, cls |-> Word], [pre |-> TRUE, cls |-> UWord],
                 [pre |-> TRUE, cls |-> Word],  [pre |-> TRUE, cls |-> EntryCh] >>
EntriesGroups == SubSeq(FullGroups, 1, 3)

\* end positions j such that group g matches t[i..j]
GEnds(t, i, g) ==
  IF g.pre /\ (i > Len(t) \/ t[i] # "/") THEN {}
  ELSE LET b == IF g.pre THEN i + 1 ELSE i
       IN {j \in b..Len(t) : \A k \in b..j : t[k] \in g.cls}

\* all ways the group sequence gs matches t from position i up to the end of t ("$"); each is a sequence of <<from, to>>
RECURSIVE ReM(_, _, _)
ReM(t, i, gs) ==
  IF gs = <<>> THEN (IF i = Len(t) + 1 THEN {<<>>} ELSE {})
  ELSE UNION { { << <<i, j>> >> \o m : m \in ReM(t, j + 1, Tail(gs)) } : j \in GEnds(t, i, Head(gs)) }

ReMatch(t, gs) == ReM(t, 1, gs)          \* "^": from the first character

Cap(t, m, n) == SubSeq(t, m[n][1], m[n][2])
StripSlash(c) == IF c # <<>> /\ Head(c) = "/" THEN Tail(c) ELSE c        \* strings.TrimPrefix(c, "/")

CodeParse(s) ==                          \* componentcfg.NewQuery
  LET t == Trim(s)
      M == ReMatch(t, FullGroups)
  IN IF M = {} THEN Reject ELSE
       LET m == CHOOSE x \in M : TRUE
           rt == StripSlash(Cap(t, m, 2))
       IN IF ~IsEnum(rt) THEN Reject
          ELSE [comp |-> Cap(t, m, 1), rt |-> rt, role |-> StripSlash(Cap(t, m, 3)), entry |-> StripSlash(Cap(t, m, 4))]

CodeParseEntries(s) ==                   \* componentcfg.NewEntriesQuery (regex, then strings.Split on '/')
  LET t == Trim(s)
      M == ReMatch(t, EntriesGroups)
  IN IF M = {} THEN Reject ELSE
       LET m == CHOOSE x \in M : TRUE
           rt == StripSlash(Cap(t, m, 2))
       IN IF ~IsEnum(rt) THEN Reject
          ELSE [comp |-> Cap(t, m, 1), rt |-> rt, role |-> StripSlash(Cap(t, m, 3))]

(* property formulas on one string *)
Unambiguous(s)       == Cardinality(ReMatch(Trim(s), FullGroups)) <= 1
ParseExact(s)        == \A q \in Spelled(Trim(s)) : CodeParse(s) = q
MalformedRejected(s) == Spelled(Trim(s)) = {} => CodeParse(s) = Reject
RoundTrip(s)         == CodeParse(s) # Reject => PrintQ(CodeParse(s)) = Trim(s)
EntriesExact(s)      == /\ \A q \in SpelledEntries(Trim(s)) : CodeParseEntries(s) = q
                        /\ SpelledEntries(Trim(s)) = {} => CodeParseEntries(s) = Reject

(* ------------------------------------------------------------------------ *)
(*     Query parameters  k=v&k=v...   PROPERTY level: split on '&' and '='.  *)
(* ------------------------------------------------------------------------ *)
RECURSIVE Split(_, _)
Split(t, sep) == LET I == {i \in 1..Len(t) : t[i] = sep}
                 IN IF I = {} THEN <<t>>
                    ELSE <<SubSeq(t, 1, Min(I) - 1)>> \o Split(SubSeq(t, Min(I) + 1, Len(t)), sep)

WfPair(p) == LET kv == Split(p, "=")
             IN Len(kv) = 2 /\ kv[1] # <<>> /\ All(kv[1], Word) /\ kv[2] # <<>> /\ All(kv[2], VWord)

\* [proc |-> BOOLEAN, vars |-> set of <<key, value>>] or nothing
SpelledParams(t) ==
  LET ps == Split(t, "&") IN
  IF ~(\A i \in 1..Len(ps) : WfPair(ps[i])) THEN {} ELSE
    LET kv == [i \in 1..Len(ps) |-> Split(ps[i], "=")]
        procs == {i \in 1..Len(ps) : IsProcess(kv[i][1])}
    IN IF \E i, j \in 1..Len(ps) : i # j /\ Str(kv[i][1]) = Str(kv[j][1]) THEN {}  \* one value per key
       ELSE IF \E i \in procs : ~IsBool(kv[i][2]) THEN {}                        \* process=<bool>
       ELSE {[proc |-> \A i \in procs : BoolOf(kv[i][2]),                        \* default TRUE
              vars |-> {<<kv[i][1], kv[i][2]>> : i \in (1..Len(ps)) \ procs}]}

(*     CODE level: NewQueryParameters: TrimSpace, inputParametersRegex         *)
(*     ^(K+=V+)(&K+=V+)*$ (as the automaton below: '=' and '&' are in neither  *)
(*     class), url.ParseQuery (split on '&', then on the first '='; nothing to *)
(*     unescape within the classes), one value per key, "process" -> ParseBool *)
RECURSIVE ParamDfa(_, _, _)
ParamDfa(t, i, st) ==
  IF i > Len(t) THEN st = "v" ELSE
    LET c == t[i] IN
    CASE st = "k0" -> c \in Word /\ ParamDfa(t, i + 1, "k")
      [] st = "k"  -> (c \in Word /\ ParamDfa(t, i + 1, "k")) \/ (c = "=" /\ ParamDfa(t, i + 1, "v0"))
      [] st = "v0" -> c \in VWord /\ ParamDfa(t, i + 1, "v")
      [] st = "v"  -> (c \in VWord /\ ParamDfa(t, i + 1, "v")) \/ (c = "&" /\ ParamDfa(t, i + 1, "k0"))
      [] OTHER -> FALSE

FirstEq(p) == Min({i \in 1..Len(p) : p[i] = "="})
CodeParseParams(s) ==
  LET t == Trim(s) IN
  IF ~ParamDfa(t, 1, "k0") THEN Reject ELSE
    LET ps == Split(t, "&")
        key(i) == SubSeq(ps[i], 1, FirstEq(ps[i]) - 1)
        val(i) == SubSeq(ps[i], FirstEq(ps[i]) + 1, Len(ps[i]))
        keys == {key(i) : i \in 1..Len(ps)}
        valsOf(k) == {i \in 1..Len(ps) : Str(key(i)) = Str(k)}
    IN IF \E k \in keys : Cardinality(valsOf(k)) # 1 THEN Reject
       ELSE IF \E i \in 1..Len(ps) : IsProcess(key(i)) /\ ~IsBool(val(i)) THEN Reject
       ELSE [proc |-> \A i \in 1..Len(ps) : IsProcess(key(i)) => BoolOf(val(i)),
             vars |-> {<<key(i), val(i)>> : i \in {j \in 1..Len(ps) : ~IsProcess(key(j))}}]

ParamsExact(s) == /\ \A r \in SpelledParams(Trim(s)) : CodeParseParams(s) = r
                  /\ SpelledParams(Trim(s)) = {} => CodeParseParams(s) = Reject

(* ------------------------------------------------------------------------ *)
(* (a) Resolution.  A backend is the set B of <<runtype, role>> under which  *)
(*     the queried component/entry exists (names are the real strings).      *)
(* ------------------------------------------------------------------------ *)
AnyRT == "ANY"
AnyRole == "any"
NotFound == [notfound |-> TRUE]

Key(q) == <<q.rt, q.role>>

\* PROPERTY level: the documented order
Candidates(q) == << q,
                    [q EXCEPT !.rt = AnyRT],
                    [q EXCEPT !.role = AnyRole],
                    [q EXCEPT !.rt = AnyRT, !.role = AnyRole] >>

SpecResolve(q, B) ==
  LET c == Candidates(q)
      I == {i \in 1..4 : Key(c[i]) \in B}
  IN IF I = {} THEN NotFound ELSE c[Min(I)]

\* CODE level: serviceutil.go:resolveComponentQuery (queryToAbsPath = src.Exists on AbsoluteRaw)
WithFallbackRunType(q)  == [comp |-> q.comp, rt |-> AnyRT, role |-> q.role, entry |-> q.entry]
WithFallbackRoleName(q) == [comp |-> q.comp, rt |-> q.rt, role |-> AnyRole, entry |-> q.entry]
ExistsIn(B, q) == Key(q) \in B

CodeResolve(q, B) ==
  LET r1 == q
      r2 == WithFallbackRunType(q)
      r3 == WithFallbackRoleName(q)
      r4 == WithFallbackRunType(r3)          \* the code derives step 4 from step 3's result
  IN IF ExistsIn(B, r1) THEN r1
     ELSE IF ExistsIn(B, r2) THEN r2
     ELSE IF ExistsIn(B, r3) THEN r3
     ELSE IF ExistsIn(B, r4) THEN r4
     ELSE NotFound

\* property formulas on a result r claimed for (q, B)
ResolvedExists(q, B, r) == r # NotFound => Key(r) \in B /\ r.comp = q.comp /\ r.entry = q.entry
MostSpecific(q, B, r) ==
  LET c == Candidates(q) IN
  /\ r # NotFound => \E i \in 1..4 : c[i] = r /\ \A j \in 1..(i - 1) : Key(c[j]) \notin B
  /\ r = NotFound => \A i \in 1..4 : Key(c[i]) \notin B

(*     Entry keys with a FOLDER part: the query c/RT/role/x/y.  At each of   *)
(*     the four candidate levels the store has one of eight shapes: the      *)
(*     folder name x is absent / a plain entry / a folder, the leaf name y   *)
(*     is absent / an entry BESIDE x / an entry INSIDE x.  The entry exists   *)
(*     at a level exactly when the key x/y is stored there (YamlSource.Exists *)
(*     walks the path through folders only; ConsulSource.Exists reads the     *)
(*     exact key), whatever bears the names x and y next to it.              *)
FldLevels == {"Pr", "Ar", "Pa", "Aa"}
FldRt(k) == IF k \in {"Pr", "Pa"} THEN "PHYSICS" ELSE "ANY"
FldRole(k) == IF k \in {"Pr", "Ar"} THEN "r" ELSE "any"
FldEntry == "x/y"
FldKeys(sh) == CASE sh = 1 -> {"x"}            \* x a plain entry
                 [] sh = 2 -> {"x", "y"}       \* x a plain entry, y beside it
                 [] sh = 3 -> {"y"}            \* only y
                 [] sh = 4 -> {"x/z"}          \* x a folder without y
                 [] sh = 5 -> {"x/y"}          \* x a folder holding y: THE ENTRY
                 [] sh = 6 -> {"x/y", "y"}     \* ... and a y beside the folder
                 [] sh = 7 -> {"x/z", "y"}     \* x a folder without y, y beside it
                 [] OTHER  -> {}               \* 0: nothing
FldB(L) == {<<FldRt(k), FldRole(k)>> : k \in {j \in FldLevels : FldEntry \in FldKeys(L[j])}}
FldQ(k) == [comp |-> "c", rt |-> FldRt(k), role |-> FldRole(k), entry |-> FldEntry]

PathStr(q) == q.comp \o "/" \o q.rt \o "/" \o q.role \o "/" \o q.entry
PayloadOf(q) == "cfg:" \o PathStr(q)     \* what the driver stores under a key

(* ------------------------------------------------------------------------ *)
(* (c) Rendering.  An entry's content is a sequence of parts                 *)
(*     [k |-> "lit" | "var" | "ovr" | "ovl" | "up" | "inc", x |-> name];      *)
(*     "inc" includes the sibling entry (content sib, without "inc" parts)    *)
(*     if it exists; "ovr" / "ovl" call the one utility function that READS   *)
(*     the supplied variable stack (configuration/template/stack.go:          *)
(*     MakeUtilFuncMap closes over varStack only in util.PrefixedOverride,    *)
(*     also bound as plain PrefixedOverride); "up" calls a utility that does  *)
(*     not (strings.ToUpper).                                                 *)
(*     vars is a sequence of <<name, value token>> with distinct names.       *)
(* ------------------------------------------------------------------------ *)
LitStr(x) == CASE x = "L" -> "lit " [] x = "J" -> "x=\n " [] OTHER -> x
ValStr(x) == CASE x = "V" -> "val" [] x = "W" -> "w w" [] x = "E" -> "" [] x = "B" -> "{{ w }}"
               [] x = "Q" -> "[\"a\",\"b\"]" [] x = "H" -> "<a&b>'"
               [] x = "Z" -> "zz" [] x = "O" -> "none" [] x = "S" -> "  " [] OTHER -> x
UpStr(x)  == CASE x = "V" -> "VAL" [] x = "W" -> "W W" [] x = "Z" -> "ZZ" [] x = "O" -> "NONE" [] OTHER -> ValStr(x)  \* strings.ToUpper
Prefix0   == "p"                      \* the prefix literal used in the templates: looks up p_<name>, then <name>
EscStr(x) == CASE x = "Q" -> "[&quot;a&quot;,&quot;b&quot;]" [] x = "H" -> "&lt;a&amp;b&gt;&#39;" [] OTHER -> ValStr(x)
SiblingName == "sib"

RenderError == [ok |-> FALSE, out |-> ""]
Rendered(str) == [ok |-> TRUE, out |-> str]

Bound(vars, n) == \E i \in 1..Len(vars) : vars[i][1] = n
ValueOf(vars, n) == vars[CHOOSE i \in 1..Len(vars) : vars[i][1] = n][2]

\* util.PrefixedOverride(varname, prefix) on the variable stack vars: the value token, or "E" (nothing).
\* A value that is "none" or blank counts as absent (stack.go).
NullVal(x) == x \in {"O", "E", "S"}
Present(vars, n) == Bound(vars, n) /\ ~NullVal(ValueOf(vars, n))
PrefixedOverride(vars, n) ==
  LET pn == Prefix0 \o "_" \o n
  IN IF Present(vars, pn) THEN ValueOf(vars, pn) ELSE IF Present(vars, n) THEN ValueOf(vars, n) ELSE "E"

\* the template text stored in the backend
SrcPart(p) == CASE p.k = "lit" -> LitStr(p.x)
                [] p.k = "var" -> "{{ " \o p.x \o " }}"
                [] p.k = "ovr" -> "{{ util.PrefixedOverride(\"" \o p.x \o "\", \"" \o Prefix0 \o "\") }}"
                [] p.k = "ovl" -> "{{ PrefixedOverride(\"" \o p.x \o "\", \"" \o Prefix0 \o "\") }}"
                [] p.k = "up"  -> "{{ strings.ToUpper(" \o p.x \o ") }}"
                [] OTHER -> "{% include \"" \o SiblingName \o "\" %}"
RECURSIVE Source(_)
Source(parts) == IF parts = <<>> THEN "" ELSE SrcPart(Head(parts)) \o Source(Tail(parts))

RECURSIVE RenderWith(_, _, _, _, _)
\* esc: substitute escaped values;  returns [ok, out]
RenderWith(parts, sib, hasSib, vars, esc) ==
  IF parts = <<>> THEN Rendered("") ELSE
    LET p == Head(parts)
        rest == RenderWith(Tail(parts), sib, hasSib, vars, esc)
        one == CASE p.k = "lit" -> Rendered(LitStr(p.x))
                 [] p.k = "var" -> IF Bound(vars, p.x)
                                     THEN Rendered(IF esc THEN EscStr(ValueOf(vars, p.x)) ELSE ValStr(ValueOf(vars, p.x)))
                                     ELSE Rendered("")            \* unknown variable renders as nothing
                 [] p.k \in {"ovr", "ovl"} ->
                      LET v == PrefixedOverride(vars, p.x) IN Rendered(IF esc THEN EscStr(v) ELSE ValStr(v))
                 [] p.k = "up" -> IF Bound(vars, p.x) THEN Rendered(UpStr(ValueOf(vars, p.x)))
                                  ELSE RenderError                \* pongo2 refuses to pass nil for a string parameter
                 [] OTHER -> IF hasSib THEN RenderWith(sib, <<>>, FALSE, vars, esc) ELSE RenderError
    IN IF ~one.ok \/ ~rest.ok THEN RenderError ELSE Rendered(one.out \o rest.out)

SpecRender(parts, sib, hasSib, vars) == RenderWith(parts, sib, hasSib, vars, FALSE)     \* PROPERTY level
CodeRender(parts, sib, hasSib, vars) == RenderWith(parts, sib, hasSib, vars, AutoEscape) \* service.go + pongo2 as configured

RenderExact(parts, sib, hasSib, vars) == CodeRender(parts, sib, hasSib, vars) = SpecRender(parts, sib, hasSib, vars)
=============================================================================
