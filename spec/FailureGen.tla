---------------------------- MODULE FailureGen ----------------------------
(***************************************************************************)
(* Scenario generator for C03: the Failure model driven the way the        *)
(* harness drives the real core.  The pipeline runs to a stable state in a  *)
(* fixed priority order; at stable states the SCRIPT moves: it arms/opens   *)
(* the gates the harness has (watcher parked at env.watch.start or          *)
(* env.watch.recv, an API transition parked at env.lock.acquired = "early"  *)
(* or in its after_<EVENT> hook = "late"), requests the racing API          *)
(* transition and injects faults.  Every stable state with all gates open   *)
(* and at least one fault prints <<"CASE", shape, script>>; python turns    *)
(* the script 1:1 into scenario steps.                                      *)
(***************************************************************************)
EXTENDS Failure

CONSTANT ReuseSet \* subset of BOOLEAN: TRUE = the tasks were launched for an earlier environment, kept at its teardown and
                  \* claimed by this one (--reuseUnlockedTasks): what their executor sends still names the old environment
CONSTANT Extras   \* script families, subset of {"none", "mup", "owed", "stale", "merge", "order"}:
                  \* "none"  gates, the racing API transition parked early / late, faults
                  \* "mup"   a master-generated TASK_RUNNING update (no executor id / no ids at all), then a fault
                  \* "owed"  the racing API transition with one task's answer withheld: the task can die owing it,
                  \*         the answer is delivered late - before or after the watcher's timer (env.watch.fire held)
                  \* "stale" a stale healthy state message of the dead task is processed after its failure,
                  \*         within (timer held) or beyond the watcher's grace period
                  \* "order" the two reactions to one terminal status (go updateTaskState(ERROR) || updateTaskStatus -> INACTIVE):
                  \*         the state update is held at its entry (hook point task.state.update) until the status is INACTIVE
                  \* "merge" (FineChains) the ERROR update of the victim's role is held between its merge and its forwarding
                  \*         (hook point wf.taskrole.merged) while a stale healthy state message of the same task goes through

VARIABLES
  wgate,    \* the watcher parks at its next hook point (env.watch.start when unsub, else env.watch.recv)
  txgate,   \* "none" | "early" | "late" | "owed": where the API transition parks / waits for owedT's answer
  owedT,    \* the task whose answer is withheld
  fgate,    \* the watcher's timer callback parks at env.watch.fire
  mgate,    \* ERROR updates of task roles park right after their merge (wf.taskrole.merged)
  sgate,    \* ERROR updates of tasks park at the entry of updateTaskState (task.state.update)
  extra,    \* the script family of this behaviour
  lateMode, \* what the late answer of the task that owed it says: "ok" (done) | "error" (error, state ERROR)
  script,   \* script steps so far
  shape     \* the initial choice, kept for printing

gvars == <<wgate, txgate, owedT, fgate, mgate, sgate, extra, lateMode, script, shape>>

\* ---- pipeline under gates, in priority order --------------------------------
PickMsg == CHOOSE m \in msgs : TRUE
Held(c) == c.s = "ERROR" /\ ((mgate /\ c.pc \in {"pub", "fwd"}) \/ (sgate /\ c.pc = "task"))
FreeChains == {c \in chains : ~Held(c)}
PickChain == CHOOSE c \in FreeChains : \A d \in FreeChains : c.pc = "notify" \/ d.pc # "notify"
PickStq == CHOOSE t \in stq : TRUE
Repliers == {t \in tx.targets \ tx.replied : (alive[t] \/ t \in late) /\ ~(txgate = "owed" /\ t = owedT)}
PickReply == CHOOSE t \in Repliers : TRUE
PickIe == CHOOSE t \in ies : TRUE

P1 == msgs # {} /\ (StatusMsg(PickMsg) \/ FailureMsg(PickMsg) \/ DeviceMsg(PickMsg) \/ RunningMsg(PickMsg))
P2 == stq # {} /\ StatusInactive(PickStq)
P3 == FreeChains # {} /\ (StateToError(PickChain) \/ RolePublish(PickChain) \/ RoleForward(PickChain) \/ RootMerge(PickChain)
                      \/ NotifyDeliver(PickChain) \/ NotifyDrop(PickChain))
P4 == /\ tx.pc = "sent" /\ Repliers # {} /\ TxReply(PickReply)
      /\ (PickReply \in late => ((PickReply \in tx'.failed) <=> (lateMode = "error")))
P5 == ~wgate /\ (WatchSubscribe \/ WatchRecv)
P6 == WatchLoop \/ WatchRecvBuffered
P7 == (txgate # "early" /\ TxSend) \/ TxEnter \/ TxFail \/ (txgate # "late" /\ TxRelease)
P8 == ies # {} /\ IeAcquire(PickIe)
P9 == (~fgate /\ TimerFire) \/ GoError \/ ForceError \/ StopRunning

Prio == <<"P1", "P2", "P3", "P4", "P5", "P6", "P7", "P8", "P9">>
En(i) == CASE i = 1 -> ENABLED P1 [] i = 2 -> ENABLED P2 [] i = 3 -> ENABLED P3 [] i = 4 -> ENABLED P4
           [] i = 5 -> ENABLED P5 [] i = 6 -> ENABLED P6 [] i = 7 -> ENABLED P7 [] i = 8 -> ENABLED P8
           [] i = 9 -> ENABLED P9 [] OTHER -> FALSE
Act(i) == CASE i = 1 -> P1 [] i = 2 -> P2 [] i = 3 -> P3 [] i = 4 -> P4 [] i = 5 -> P5 [] i = 6 -> P6
            [] i = 7 -> P7 [] i = 8 -> P8 [] i = 9 -> P9 [] OTHER -> FALSE
Stable == \A i \in 1..9 : ~En(i)

G_Pipeline ==
  /\ \E i \in 1..9 : En(i) /\ (\A j \in 1..(i - 1) : ~En(j)) /\ Act(i)
  /\ UNCHANGED gvars

\* ---- script ------------------------------------------------------------------
Step(x) == script' = Append(script, x)
NFaults == Cardinality({i \in 1..Len(script) : script[i][1] = "fault"})

G_Fault(k, t) ==
  /\ Stable
  /\ (extra = "mup" => script # <<>>) /\ (extra = "owed" => txgate = "owed") /\ (extra = "merge" => mgate) /\ (extra = "order" => sgate)
  /\ CASE k \in StatusKinds -> TaskTerminal(k, t)
       [] k = "TASK_FINISHED" -> Finished(t)
       [] k \in {"EXECUTOR_LOST", "AGENT_LOST"} -> GroupLost(k, t)
       [] k = "INTERNAL_ERROR" -> InternalError(t)
       [] OTHER -> FALSE
  \* a task that dies owing its answer: the answer was already on its way (delivered by "latereply")
  /\ late' = IF txgate = "owed" /\ ~alive'[owedT] THEN late \cup {owedT} ELSE late
  \* this script step is the update itself; G_FaultVia is the same status learnt another way
  /\ \A m \in msgs' \ msgs : m.type = "status" => m.via = "direct"
  /\ Step(<<"fault", k, t>>)
  /\ UNCHANGED <<wgate, txgate, owedT, fgate, mgate, sgate, extra, lateMode, shape>>

\* (in the "mup" family: after the master-generated TASK_RUNNING update of the same or another task)
G_FaultVia(k, t, via) ==
  /\ Stable /\ txgate = "none" /\ k \in StatusKinds /\ via \in Vias \ {"direct"}
  /\ extra = "none" \/ (extra = "mup" /\ script # <<>>)
  /\ TaskTerminal(k, t)
  /\ \A m \in msgs' \ msgs : m.type = "status" => m.via = via
  /\ late' = late
  /\ Step(<<"fault", k, t, via>>)
  /\ UNCHANGED <<wgate, txgate, owedT, fgate, mgate, sgate, extra, lateMode, shape>>

\* the racing API transition, parked early (lock acquired, nothing sent) or late (state entered, lock held)
G_Api(g) ==
  /\ extra = "none" /\ Stable /\ txgate = "none" /\ g \in {"early", "late"}
  \* the transition must get as far as its after_<EVENT> hook to park there
  /\ (g = "late" => \A t \in sick : ~crit[t])
  /\ ApiAcquire
  /\ txgate' = g
  /\ Step(<<"api", IF envSt = "CONFIGURED" THEN "START" ELSE "STOP", g>>)
  /\ UNCHANGED <<wgate, owedT, fgate, mgate, sgate, extra, lateMode, shape>>

\* the racing API transition with the answer of task t withheld
G_ApiOwed(t) ==
  /\ extra = "owed" /\ Stable /\ txgate = "none" /\ alive[t] /\ t \notin sick /\ tstatus[t] = "ACTIVE" /\ script = <<>>
  /\ ApiAcquire
  /\ txgate' = "owed" /\ owedT' = t
  /\ Step(<<"api", IF envSt = "CONFIGURED" THEN "START" ELSE "STOP", "owed", t>>)
  /\ UNCHANGED <<wgate, fgate, mgate, sgate, extra, lateMode, shape>>

G_LateReply(mode) ==
  /\ Stable /\ txgate = "owed" /\ NFaults > 0 /\ mode \in {"ok", "error"}
  /\ (mode = "error" => ~alive[owedT])
  /\ txgate' = "none" /\ lateMode' = mode
  /\ Step(<<"latereply", owedT, mode>>)
  /\ UNCHANGED vars /\ UNCHANGED <<wgate, owedT, fgate, mgate, sgate, extra, shape>>

G_Stale(t) ==
  /\ extra \in {"stale", "merge"} /\ Stable /\ txgate = "none"
  /\ (extra = "merge" => mgate)
  /\ StaleUpdate(t)
  /\ Step(<<"stale", t>>)
  /\ UNCHANGED <<wgate, txgate, owedT, fgate, mgate, sgate, extra, lateMode, shape>>

G_MasterUpdate(t, v) ==
  /\ extra = "mup" /\ Stable /\ txgate = "none" /\ NFaults = 0 /\ script = <<>>
  /\ MasterUpdate(t, v)
  /\ Step(<<"mupdate", t, v>>)
  /\ UNCHANGED <<wgate, txgate, owedT, fgate, mgate, sgate, extra, lateMode, shape>>

\* hold the 500 ms timer of the watcher: what follows the fault is processed within the grace period
G_ArmF ==
  /\ Stable /\ ~fgate /\ NFaults = 0 /\ wpc \in {"select", "busy", "loop"}
  /\ (extra = "owed" /\ txgate = "owed") \/ (extra = "stale" /\ script = <<>>)
  /\ fgate' = TRUE
  /\ Step(<<"armf">>)
  /\ UNCHANGED vars /\ UNCHANGED <<wgate, txgate, owedT, mgate, sgate, extra, lateMode, shape>>

G_ArmM ==
  /\ extra = "merge" /\ Stable /\ ~mgate /\ script = <<>>
  /\ mgate' = TRUE
  /\ Step(<<"armm">>)
  /\ UNCHANGED vars /\ UNCHANGED <<wgate, txgate, owedT, fgate, sgate, extra, lateMode, shape>>

G_ReleaseM ==
  /\ Stable /\ mgate /\ NFaults > 0
  /\ mgate' = FALSE
  /\ Step(<<"releasem">>)
  /\ UNCHANGED vars /\ UNCHANGED <<wgate, txgate, owedT, fgate, sgate, extra, lateMode, shape>>

G_ArmS ==
  /\ extra = "order" /\ Stable /\ ~sgate /\ script = <<>>
  /\ sgate' = TRUE
  /\ Step(<<"arms">>)
  /\ UNCHANGED vars /\ UNCHANGED <<wgate, txgate, owedT, fgate, mgate, extra, lateMode, shape>>

\* (the pipeline is stable: the status reaction has made the task INACTIVE)
G_ReleaseS ==
  /\ Stable /\ sgate /\ NFaults > 0
  /\ sgate' = FALSE
  /\ Step(<<"releases">>)
  /\ UNCHANGED vars /\ UNCHANGED <<wgate, txgate, owedT, fgate, mgate, extra, lateMode, shape>>

G_ReleaseF ==
  /\ Stable /\ fgate /\ NFaults > 0
  /\ fgate' = FALSE
  /\ Step(<<"releasef">>)
  /\ UNCHANGED vars /\ UNCHANGED <<wgate, txgate, owedT, mgate, sgate, extra, lateMode, shape>>

\* arm the watcher gate while it waits at its select: it will park at its next receive
G_ArmW ==
  /\ extra = "none" /\ Stable /\ ~wgate /\ wpc = "select" /\ NFaults = 0 /\ budget > 1
  /\ wgate' = TRUE
  /\ Step(<<"armw">>)
  /\ UNCHANGED vars /\ UNCHANGED <<txgate, owedT, fgate, mgate, sgate, extra, lateMode, shape>>

G_ReleaseW ==
  /\ Stable /\ wgate /\ NFaults > 0
  /\ wgate' = FALSE
  /\ Step(<<"releasew">>)
  /\ UNCHANGED vars /\ UNCHANGED <<txgate, owedT, fgate, mgate, sgate, extra, lateMode, shape>>

G_ReleaseTx ==
  /\ Stable /\ txgate \in {"early", "late"} /\ NFaults > 0
  /\ txgate' = "none"
  /\ Step(<<"releasetx">>)
  /\ UNCHANGED vars /\ UNCHANGED <<wgate, owedT, fgate, mgate, sgate, extra, lateMode, shape>>

GenInit ==
  /\ Init
  /\ wgate = (wpc \in {"unsub", "busy"})
  /\ txgate = "none" /\ owedT = "none" /\ fgate = FALSE /\ mgate = FALSE /\ sgate = FALSE /\ lateMode = "ok"
  /\ extra \in Extras
  /\ (extra = "owed" => apiLeft > 0)
  /\ (extra \in {"mup", "stale", "merge", "order"} => wpc = "select")
  /\ (extra = "merge" => FineChains)
  /\ script = <<>>
  /\ \E ru \in ReuseSet : shape = [crit |-> crit, layout |-> layout, hook |-> hook, state |-> envSt, watch |-> wpc, reused |-> ru]

GenNext ==
  \/ G_Pipeline
  \/ \E k \in Kinds, t \in Tasks : G_Fault(k, t) \/ (\E via \in Vias : G_FaultVia(k, t, via))
  \/ \E g \in {"early", "late"} : G_Api(g)
  \/ G_ArmW \/ G_ReleaseW \/ G_ReleaseTx
  \/ \E t \in Tasks : G_ApiOwed(t) \/ G_Stale(t) \/ G_MasterUpdate(t, "noexec") \/ G_MasterUpdate(t, "noids")
  \/ G_LateReply("ok") \/ G_LateReply("error") \/ G_ArmF \/ G_ReleaseF \/ G_ArmM \/ G_ReleaseM \/ G_ArmS \/ G_ReleaseS

GenSpec == GenInit /\ [][GenNext]_<<vars, gvars>>

PrintCase ==
  (Stable /\ ~wgate /\ ~fgate /\ ~mgate /\ ~sgate /\ txgate = "none" /\ NFaults > 0 /\ script[Len(script)][1] \notin {"armw", "armf"})
    => PrintT(<<"CASE", shape, script>>)
=============================================================================
