----------------------------- MODULE LifecycleGen -----------------------------
(***************************************************************************)
(* Scenario generator for Lifecycle (C04 / C06): TLC -simulate walks the    *)
(* model; the API calls it takes, the faults it injects and the places      *)
(* where it parks one call to let another one overtake it are recorded in   *)
(* `hist` — the scenario the harness imposes on the real core.              *)
(*                                                                         *)
(* Sequential part: an API call starts only when no other call is in        *)
(* progress.  Concurrent pairs ("par"): call A starts and runs until the    *)
(* model action that corresponds to a hook point of the real code (gate) —  *)
(* the harness parks A's goroutine there —, then call B starts and runs      *)
(* until it returns or cannot move, then A is released and both finish.     *)
(* Each action is wrapped in G_<Action> so that TLC labels the steps.        *)
(***************************************************************************)
EXTENDS Lifecycle

CONSTANTS Pairs,      \* TRUE: generate concurrent pairs as well
          MaxPairs,   \* at most that many pairs per scenario
          MaxFaults,  \* at most that many faults per scenario
          AllowCrash, \* FALSE: do not walk into the deployments that kill the core process (Code_AllClaimedCrashes)
          GateChoices \* gates that may be used (subset of AllGates)

VARIABLES hist,   \* sequence of scenario items
          mode,   \* "seq" | "A" (A runs towards its gate) | "B0" (A parked, B to be chosen) | "B" | "end"
          pa, pb, \* the two processes of a pair: <<kind, env>>
          gate    \* the gate of A

gvars == <<hist, mode, pa, pb, gate>>

AllGates == {"envman.create.snapshot", "envman.create.registered", "task.lock", "task.roster.appended",
             "td.left", "td.released1", "td.destroyhooks", "td.released2", "td.done",
             "task.kill.send", "env.lock.acquired"}
GatesOf(kind) ==
  CASE kind = "create" -> {"envman.create.snapshot", "envman.create.registered", "task.lock", "task.roster.appended"}
    [] kind = "destroy" -> {"td.left", "td.released1", "td.destroyhooks", "td.released2", "td.done", "task.kill.send"}
    [] kind = "control" -> {"env.lock.acquired"}
    [] kind = "cleanup" -> {"task.kill.send"}
    [] OTHER -> {}
NoProc == <<"none", "none">>

(* ---- which process a step belongs to ---- *)
Quiet == InFlight = 0
\* process p may move
Free(p) == ~(mode \in {"B0", "B"} /\ p = pa) /\ (mode = "A" => p = pa) /\ (mode = "B" => p = pb)
CProc(e) == <<"create", e>>
DProc(e) == <<"destroy", e>>
XProc(e) == <<"control", e>>
KProc == <<"cleanup", "none">>
TdProc(e) == IF tdwho[e] = "c" THEN CProc(e) ELSE DProc(e)
KillerProc(k) == CASE k[2] = "api" -> KProc [] k[2] = "d" -> DProc(k[1]) [] OTHER -> CProc(k[1])

Same == UNCHANGED gvars
\* A reached its gate: it is parked
Reached(p, g) == mode = "A" /\ p = pa /\ gate = g
Step(p, g) == /\ Free(p)
              /\ IF Reached(p, g) THEN mode' = "B0" /\ UNCHANGED <<hist, pa, pb, gate>> ELSE Same

(* ---- API calls: recorded in hist ---- *)
CallRec(kind, e, more) == [do |-> kind, env |-> e] @@ more
StartSeq(rec) == /\ mode = "seq" /\ Quiet
                 /\ hist' = Append(hist, rec) /\ UNCHANGED <<mode, pa, pb, gate>>
NPairs == Cardinality({i \in 1..Len(hist) : hist[i].do = "par"})
StartA(rec, p, g) == /\ Pairs /\ mode = "seq" /\ Quiet /\ g \in GatesOf(p[1]) \cap GateChoices /\ NPairs < MaxPairs
                     /\ hist' = Append(hist, [do |-> "par", a |-> rec, gate |-> g, b |-> [do |-> "none"]])
                     /\ mode' = IF g = "env.lock.acquired" THEN "B0" ELSE "A"
                     /\ pa' = p /\ gate' = g /\ pb' = NoProc
StartB(rec, p) == /\ mode = "B0" /\ p # pa
                  /\ hist' = [hist EXCEPT ![Len(hist)].b = rec]
                  /\ mode' = "B" /\ pb' = p /\ UNCHANGED <<pa, gate>>
Start(rec, p) == StartSeq(rec) \/ (\E g \in AllGates : StartA(rec, p, g)) \/ StartB(rec, p)

\* while the crash on a fully claimed deployment is open, a new environment has a task role that no earlier
\* environment has (the harness lives in the core's process)
SafeShape(e, B, H) ==
  (ReuseUnlocked /\ Code_AllClaimedCrashes /\ ~AllowCrash) =>
     \A e2 \in Envs : cpc[e2] # "none" => ~((B \cup (H \cap HookTaskNames)) \subseteq TaskRolesOf(e2))
G_CreateCall(e, B, H, p, D, s) ==
  /\ SafeShape(e, B, H)
  /\ CreateCall(e, B, H, p, D, s)
  /\ Start(CallRec("create", e, [basic |-> B, hooks |-> H, pend |-> p, dets |-> D, script |-> s]), CProc(e))
G_DestroyCall(e, fl) == DestroyCall(e, fl) /\ Start(CallRec("destroy", e, [flags |-> fl]), DProc(e))
G_ControlCall(e, op) == ControlCall(e, op) /\ Start(CallRec("control", e, [op |-> op]), XProc(e))
G_CleanupCall == CleanupCall /\ Start(CallRec("cleanup", "none", <<>>), KProc)

\* a fault: a task of a FaultRole dies on its own, between two calls
\* (errs: the environments whose watcher will move them to ERROR: the harness waits for that before it goes on)
G_Fault(t, kind) ==
  /\ Cardinality({i \in 1..Len(hist) : hist[i].do = "fault"}) < MaxFaults
  /\ mode = "seq" /\ Quiet /\ kind \in FaultKinds /\ tenv[t] # None /\ trole[t] \in FaultRoles /\ ~killSent[t] /\ ~triggered[t]
  /\ owner[t] # None /\ running[t] /\ alive[t] /\ inRoster[t] /\ ~blank[t]
  /\ CASE kind = "TASK_FAILED" -> trole[t] \in HookTaskNames /\ TaskGone(t)
       [] kind = "EXECUTOR_LOST" -> FailureEvent(ExecGroup(t))
       [] kind = "AGENT_LOST" -> FailureEvent(AgentGroup(t))
       [] OTHER -> MasterUpdate(t)
  /\ hist' = Append(hist, [do |-> "fault", env |-> tenv[t], role |-> trole[t], kind |-> kind,
                           errs |-> {e \in Envs : werr'[e] /\ ~werr[e]}])
  /\ UNCHANGED <<mode, pa, pb, gate>>

(* ---- the steps of the calls ---- *)
G_CSnap(e) == CSnap(e) /\ Step(CProc(e), "envman.create.snapshot")
G_CRefuse(e) == CRefuse(e) /\ Free(CProc(e)) /\ Same
G_CRegister(e) == CRegister(e) /\ Step(CProc(e), "envman.create.registered")
G_CDeployLock(e) == CDeployLock(e) /\ Free(CProc(e)) /\ Same
G_Claim(e, t) == Claim(e, t) /\ Free(CProc(e)) /\ Same
G_LaunchSet(e, M) == LaunchSet(e, M) /\ Free(CProc(e)) /\ Same
G_Lock(e, t) == Lock(e, t) /\ Step(CProc(e), "task.lock")
G_RosterAppend(e, t) == RosterAppend(e, t) /\ Step(CProc(e), "task.roster.appended")
G_LockReused(e, t) == LockReused(e, t) /\ Free(CProc(e)) /\ Same
G_AcqCrash(e) == AcqCrash(e) /\ Free(CProc(e)) /\ Same
G_AcqRetry(e) == AcqRetry(e) /\ Free(CProc(e)) /\ Same
G_CDeployEnd(e, ok) == CDeployEnd(e, ok) /\ Free(CProc(e)) /\ Same
G_CConfigure(e, ok) == CConfigure(e, ok) /\ Free(CProc(e)) /\ Same
G_CReplyOk(e) == CReplyOk(e) /\ Free(CProc(e)) /\ Same
G_CLookup(e) == CLookup(e) /\ Free(CProc(e)) /\ Same
G_CReplyGone(e) == CReplyGone(e) /\ Free(CProc(e)) /\ Same
G_CTailGoError(e, ok) == CTailGoError(e, ok) /\ Free(CProc(e)) /\ Same
G_CReplyErr(e) == CReplyErr(e) /\ Free(CProc(e)) /\ Same
G_TdLock(e, who) == TdLock(e, who) /\ Free(IF who = "c" THEN CProc(e) ELSE DProc(e)) /\ Same
G_TdRefuse(e) == TdRefuse(e) /\ Free(TdProc(e)) /\ Same
G_TdLeft(e) == TdLeft(e) /\ Step(TdProc(e), "td.left")
G_Unlock(e, t) == Unlock(e, t) /\ Free(TdProc(e)) /\ Same
G_TdReleased1(e) == TdReleased1(e) /\ Step(TdProc(e), "td.released1")
G_TdRelError(e) == TdRelError(e) /\ Free(TdProc(e)) /\ Same
G_TdHooks(e, T) == TdHooks(e, T) /\ Step(TdProc(e), "td.destroyhooks")
G_TdCancel(e) == TdCancel(e) /\ Free(TdProc(e)) /\ Same
G_TdReleased2(e) == TdReleased2(e) /\ Step(TdProc(e), "td.released2")
G_TdDone(e) == TdDone(e) /\ Step(TdProc(e), "td.done")
G_TdDelete(e) == TdDelete(e) /\ Free(TdProc(e)) /\ Same
G_DPre(e, op, ok) == DPre(e, op, ok) /\ Free(DProc(e)) /\ Same
G_DPlan(e) == DPlan(e) /\ Free(DProc(e)) /\ Same
G_DGoTd(e) == DGoTd(e) /\ Free(DProc(e)) /\ Same
G_DLookup(e) == DLookup(e) /\ Free(DProc(e)) /\ Same
G_DTdNotFound(e) == DTdNotFound(e) /\ Free(DProc(e)) /\ Same
G_DReply(e) == DReply(e) /\ Free(DProc(e)) /\ Same
G_XTrans(e, ok) == XTrans(e, ok) /\ Free(XProc(e)) /\ Same
G_XGoError(e, ok) == XGoError(e, ok) /\ Free(XProc(e)) /\ Same
G_XForce(e) == XForce(e) /\ Free(XProc(e)) /\ Same
G_XReply(e) == XReply(e) /\ Free(XProc(e)) /\ Same
G_CleanupReply == CleanupReply /\ Free(KProc) /\ Same
G_KillBegin(k) == KillBegin(k) /\ Free(KillerProc(k)) /\ Same
G_KillRemove(k) == KillRemove(k) /\ Free(KillerProc(k)) /\ Same
G_KillSelect(k, t, act) == KillSelect(k, t, act) /\ Free(KillerProc(k)) /\ Same
G_KillSkip(k, t) == KillSkip(k, t) /\ Free(KillerProc(k)) /\ Same
G_KillSend(k, t) == KillSend(k, t) /\ Step(KillerProc(k), "task.kill.send")
\* the cluster moves on its own, whoever is parked
G_TaskRunning(t) == TaskRunning(t) /\ Same
G_TaskGone(t) == /\ TaskGone(t) /\ Same
                 /\ killSent[t] \/ triggered[t] \/ (script[tenv[t]] = "launchfail" /\ trole[t] = FailRole(tenv[t]))
G_AutoError(e) == AutoError(e) /\ Same

Calls ==
  \/ \E e \in Envs :
       \/ \E c \in WfChoices, D \in DetChoices, s \in Scripts : G_CreateCall(e, c[1], c[2], c[3], D, s)
       \/ \E fl \in DestroyFlags : G_DestroyCall(e, fl)
       \/ \E op \in Ops : G_ControlCall(e, op)
  \/ G_CleanupCall
  \/ \E t \in TaskIds, kind \in FaultKinds : G_Fault(t, kind)

InternalSteps ==
  \/ \E e \in Envs : G_AcqCrash(e)
  \/ \E e \in Envs :
       \/ G_CSnap(e) \/ G_CRefuse(e) \/ G_CRegister(e) \/ G_CDeployLock(e)
       \/ OneOf({t \in TaskIds : ENABLED Claim(e, t)}, LAMBDA t : G_Claim(e, t))
       \/ LET R == Launchable(e) \ RolesLaunchedNow(e) IN
            apc[e] = "acq" /\ R # {} /\ Cardinality(FreeIds) >= Cardinality(R) /\ G_LaunchSet(e, Assign(R, FreeIds))
       \/ OneOf({t \in cur[e] : owner[t] = None /\ ~appended[t]}, LAMBDA t : G_Lock(e, t))
       \/ OneOf({t \in cur[e] : ~appended[t]}, LAMBDA t : G_RosterAppend(e, t))
       \/ OneOf(claimed[e], LAMBDA t : G_LockReused(e, t))
       \/ OneOf({t \in relq[e] : owner[t] \in {e, None}}, LAMBDA t : G_Unlock(e, t))
       \/ G_AcqRetry(e)
       \/ \E ok \in BOOLEAN : G_CDeployEnd(e, ok) \/ G_CConfigure(e, ok) \/ G_CTailGoError(e, ok) \/ G_XTrans(e, ok) \/ G_XGoError(e, ok)
       \/ G_CReplyOk(e) \/ G_CReplyErr(e) \/ G_CReplyGone(e) \/ G_CLookup(e)
       \/ \E who \in {"c", "d"} : G_TdLock(e, who)
       \/ G_TdRefuse(e) \/ G_TdLeft(e) \/ G_TdReleased1(e) \/ G_TdRelError(e) \/ G_TdCancel(e) \/ G_TdReleased2(e) \/ G_TdDone(e) \/ G_TdDelete(e)
       \/ LET ht == TasksOfRoles(e, HookTaskRoles(e)) IN G_TdHooks(e, {t \in ht : running[t] /\ alive[t]})
       \/ \E op \in {"STOP_ACTIVITY", "RESET"}, ok \in BOOLEAN : G_DPre(e, op, ok)
       \/ G_DPlan(e) \/ G_DGoTd(e) \/ G_DLookup(e) \/ G_DTdNotFound(e) \/ G_DReply(e)
       \/ G_XForce(e) \/ G_XReply(e)
  \/ G_CleanupReply
  \/ \E t \in TaskIds : G_TaskRunning(t) \/ G_TaskGone(t)
  \/ \E e \in Envs : G_AutoError(e)
  \/ \E k \in Killers :
       \/ G_KillBegin(k) \/ G_KillRemove(k)
       \/ OneOf(ksel[k], LAMBDA t : G_KillSelect(k, t, running[t]))
       \/ OneOf(kq[k], LAMBDA t : G_KillSend(k, t))
       \/ OneOf({t \in kq[k] : ~alive[t]}, LAMBDA t : G_KillSkip(k, t))

Internal == ~crashed /\ InternalSteps

\* bookkeeping of the pair: no line of the scenario
ProcDone(p) ==
  CASE p[1] = "create" -> cpc[p[2]] = "ret"
    [] p[1] = "destroy" -> dpc[p[2]] = "idle"
    [] p[1] = "control" -> xpc[p[2]] = "idle"
    [] p[1] = "cleanup" -> kpc = "idle"
    [] OTHER -> TRUE
\* A returned before it reached its gate: the pair degenerates into a plain call
G_GateMissed == /\ mode = "A" /\ ProcDone(pa)
                /\ hist' = [hist EXCEPT ![Len(hist)] = [do |-> "par", a |-> @.a, gate |-> "missed", b |-> @.b]]
                /\ mode' = "seq" /\ pa' = NoProc /\ UNCHANGED <<pb, gate, vars>>
\* B returned, or cannot move while A is parked: A is released
G_Release == /\ mode = "B" /\ (ProcDone(pb) \/ ~ENABLED Internal)
             /\ mode' = "end" /\ UNCHANGED <<hist, pa, pb, gate, vars>>
\* nobody wanted to overtake A
G_NoB == /\ mode = "B0" /\ ~ENABLED Calls
         /\ mode' = "end" /\ UNCHANGED <<hist, pa, pb, gate, vars>>
G_PairOver == /\ mode = "end" /\ Quiet
              /\ mode' = "seq" /\ pa' = NoProc /\ pb' = NoProc /\ UNCHANGED <<hist, gate, vars>>

\* Progress first: a call in progress is driven to its end before the next one starts
GenNext ==
  \/ G_GateMissed \/ G_Release \/ G_PairOver
  \/ Internal
  \/ (mode = "B0" \/ (mode = "seq" /\ ~ENABLED Internal)) /\ Calls
  \/ G_NoB

GenInit == Init /\ hist = <<>> /\ mode = "seq" /\ pa = NoProc /\ pb = NoProc /\ gate = "none"
GenSpec == GenInit /\ [][GenNext]_<<vars, gvars>>
\* the scenario of a behaviour is the hist of its last state; the fingerprint ignores it
GenView == <<vars, mode, pa, pb, gate>>
PrintScn == (~ENABLED GenNext) => PrintT(<<"SCN", hist>>)
=============================================================================
