---------------------------- MODULE ChannelsGen ----------------------------
(***************************************************************************)
(* Catalogue of small channel configurations for C13 (model Channels).     *)
(* A case is built in stages (topology, primary inbound declaration "a" of *)
(* task t1, a second inbound declaration, primary outbound declaration     *)
(* "x", a second outbound declaration, stale chans.* defaults in template   *)
(* properties); every complete choice is a case.                            *)
(*  Size = "core": small domains, enumerated exhaustively (BFS) - the      *)
(*                 deterministic part of every run;                         *)
(*  Size = "mid" / "large": larger domains, exhaustive model check of the  *)
(*                 consistency invariants only (quick / thorough tier);     *)
(*  Size = "full": full domains, sampled with `tlc -simulate` (one         *)
(*                 behaviour = one uniformly drawn choice per stage).       *)
(* Tree: root -> grp -> {t1, t2};  root -> t3.  t1 is the (main) binder.   *)
(***************************************************************************)
EXTENDS Channels

CONSTANTS Size

VARIABLES stage, topo, ib1, ib2, ob1, ob2, props
gvars == <<stage, topo, ib1, ib2, ob1, ob2, props>>

NoIn == [lvl |-> "none", name |-> "", addr |-> "tcp", tr |-> "default", alias |-> "", xt |-> ""]
NoOut == [lvl |-> "none", name |-> "", tk |-> "none", tt |-> "", tn |-> "", ta |-> "", tr |-> "default"]
In(lvl, name, v) == [lvl |-> lvl, name |-> name, addr |-> v[1], tr |-> v[2], alias |-> v[3], xt |-> v[4]]
Out(lvl, name, t, tr) == [lvl |-> lvl, name |-> name, tk |-> t[1], tt |-> t[2], tn |-> t[3], ta |-> t[4], tr |-> tr]
T(id, host, grp, mode) == [id |-> id, host |-> host, grp |-> grp, mode |-> mode]

T1(h) == T("t1", h, TRUE, "direct")
T2(h) == T("t2", h, TRUE, "fairmq")
T3(h) == T("t3", h, FALSE, "direct")
ToposCore == {<<T1("h1"), T2("h1")>>, <<T1("h1"), T2("h2")>>}
ToposMid == ToposCore \cup {<<T1("h1"), T2("h2"), T3("h1")>>}
ToposLarge == ToposMid \cup {<<T1("h1")>>}
ToposFull == ToposLarge \cup {<<T1("h1"), T2("h1"), T3("h2")>>, <<T1("h1"), T2("h2"), T3("h2")>>, <<T1("h2"), T2("h1")>>}
Topos == CASE Size = "core" -> ToposCore [] Size = "mid" -> ToposCore [] Size = "large" -> ToposLarge [] OTHER -> ToposFull
Ids(t) == {t[i].id : i \in 1..Len(t)}
OwnerPresent(lvl, t) == lvl \in {"grp", "root"} \/ \E k \in Ids(t) : lvl \in {"tmpl:" \o k, "role:" \o k}

\* attribute variants <<addressing, transport, global alias, explicit target>>
AllV == {v \in {"tcp", "ipc"} \X {"default", "shmem", "zeromq"} \X {"", "g"} \X {"", "tcp", "ipc"} : v[4] # "" => v[1] = "tcp"}
CoreV == {<<"tcp", "default", "", "">>, <<"ipc", "shmem", "", "">>, <<"tcp", "shmem", "g", "">>, <<"tcp", "default", "", "tcp">>,
          <<"tcp", "zeromq", "g", "ipc">>}
SecV == {<<"tcp", "default", "", "">>, <<"ipc", "shmem", "", "">>, <<"tcp", "shmem", "g", "">>, <<"tcp", "default", "", "tcp">>,
         <<"ipc", "default", "g", "">>}
MidV == CoreV \cup {<<"ipc", "default", "g", "">>, <<"tcp", "shmem", "", "ipc">>}
T1Levels == {"tmpl:t1", "role:t1", "grp", "root"}

Ib1Dom == CASE Size = "core" -> {In(l, "a", v) : l \in {"tmpl:t1", "role:t1", "grp"}, v \in CoreV}
            [] Size = "mid" -> {In(l, "a", v) : l \in T1Levels, v \in CoreV}
            [] Size = "large" -> {In(l, "a", v) : l \in T1Levels, v \in MidV}
            \* (an alias declared at grp/root level is claimed by every task below: fewer variants of it,
            \*  so that the sample is not dominated by alias conflicts)
            [] OTHER -> {In(x[1], "a", x[2]) : x \in {y \in T1Levels \X AllV : y[1] \in {"grp", "root"} /\ y[2][3] = "g" => y[2][2] = "shmem"}}

Ib2Dom ==
  CASE Size = "core" ->
         {NoIn, In(IF ib1.lvl = "role:t1" THEN "tmpl:t1" ELSE "role:t1", "a", <<"ipc", "shmem", "", "">>),
          In("tmpl:t1", "b", <<"tcp", "shmem", "g", "">>), In("tmpl:t2", "a", <<"tcp", "shmem", "g", "">>)}
    [] Size = "mid" ->
         {NoIn}
         \cup {In(l, "a", <<"ipc", "shmem", "", "">>) : l \in T1Levels \ {ib1.lvl}}
         \cup {In(l, "b", <<"tcp", "shmem", "g", "">>) : l \in {"tmpl:t1", "role:t1"}}
         \cup {In(l, n, <<"tcp", "shmem", "g", "">>) : l \in {"tmpl:t2", "role:t2"}, n \in {"a", "b"}}
    [] OTHER ->
         LET V == IF Size = "large" THEN {<<"tcp", "default", "", "">>, <<"ipc", "shmem", "", "">>, <<"tcp", "shmem", "g", "">>} ELSE SecV
             L == IF Size = "large" THEN {"tmpl:t2", "role:t2"} ELSE {"tmpl:t2", "role:t2", "tmpl:t3", "role:t3"}
         IN {NoIn}
            \cup {In(l, "a", v) : l \in T1Levels \ {ib1.lvl}, v \in V}
            \cup {In(l, "b", v) : l \in {"tmpl:t1", "role:t1"}, v \in V}
            \cup {In(l, n, v) : l \in {x \in L : OwnerPresent(x, topo)}, n \in {"a", "b"}, v \in V}

PathA == <<"path", "t1", "a", "">>
XUpper == <<"xupper", "", "", "">>   \* upper-case scheme spelling: not an explicit address for the code, dangles
Targets == {PathA, <<"path", "t1", "b", "">>, <<"path", "t2", "a", "">>, <<"path", "t2", "b", "">>, <<"alias", "", "", "g">>,
            <<"alias", "", "", "h">>, <<"xtcp", "", "", "">>, <<"xipc", "", "", "">>, <<"path", "t1", "zz", "">>, <<"path", "nosuch", "a", "">>,
            XUpper}
BadTargets == {<<"alias", "", "", "h">>, <<"path", "t1", "zz", "">>, <<"path", "nosuch", "a", "">>, XUpper}
OutLevels == {l \in {"role:t2", "grp", "root", "role:t1", "role:t3", "tmpl:t2"} : OwnerPresent(l, topo)}
Ob1Dom ==
  CASE Size = "core" ->
         {Out("role:t2", "x", t, "default") : t \in {PathA, <<"alias", "", "", "g">>, <<"path", "t1", "zz", "">>, <<"path", "nosuch", "a", "">>}}
         \cup {Out("role:t2", "x", <<"xtcp", "", "", "">>, "zeromq"), Out("root", "x", PathA, "default")}
         \cup (IF ib2 = NoIn THEN {Out("role:t2", "x", XUpper, "zeromq")} ELSE {})
    [] Size = "mid" -> {Out(l, "x", t, "default") : l \in {"role:t2", "root", "tmpl:t2"},
                                                    t \in Targets \ {<<"path", "t2", "b", "">>, <<"xipc", "", "", "">>}}
    [] Size = "large" -> {Out(l, "x", t, "default") : l \in OutLevels \ {"role:t3", "role:t1"}, t \in Targets}
    \* (targets that dangle by construction get one transport variant only: fewer of them in the sample)
    [] OTHER -> {Out(l, "x", t, tr) : l \in OutLevels, t \in Targets \ BadTargets, tr \in {"default", "zeromq", "shmem"}}
                \cup {Out(l, "x", t, "default") : l \in OutLevels, t \in BadTargets}

Ob2Dom ==
  CASE Size = "core" ->
         IF ob1.lvl = "role:t2" /\ ob1.tk = "path" /\ ob1.tt = "t1" /\ ob1.tn = "a"
           THEN {NoOut, Out("tmpl:t2", "x", <<"xipc", "", "", "">>, "zeromq")} ELSE {NoOut}
    [] Size = "mid" ->
         IF ob1.tk = "path" /\ ob1.tn = "a" /\ ob1.lvl # "tmpl:t2" THEN {NoOut, Out("tmpl:t2", "x", <<"xipc", "", "", "">>, "zeromq")} ELSE {NoOut}
    [] Size = "large" ->
         {NoOut} \cup {Out(l, "x", <<"xipc", "", "", "">>, "zeromq") : l \in {"role:t2", "tmpl:t2"} \ {ob1.lvl}}
    [] OTHER ->
         {NoOut}
         \cup {Out(l, "x", t, "zeromq") : l \in OutLevels \ {ob1.lvl}, t \in {PathA, <<"xipc", "", "", "">>, <<"alias", "", "", "g">>, <<"path", "t1", "zz", "">>}}
         \cup {Out(l, "y", t, "default") : l \in {x \in {"role:t2", "role:t1", "root"} : OwnerPresent(x, topo)},
                                          t \in {PathA, <<"path", "t1", "b", "">>, <<"alias", "", "", "g">>, <<"xtcp", "", "", "">>}}

\* stale chans.<name>.0.* defaults left in the `properties:` of a task template: for the binder's channel
\* "a", the connector's channel "x", both, or for a channel the task does not (necessarily) have
P(t, n) == [task |-> t, name |-> n]
PropsDom ==
  LET plain == ib2 = NoIn /\ ob2 = NoOut /\ ob1.lvl = "role:t2"
  IN CASE Size = "core" ->
            IF plain /\ ob1.tk \in {"path", "alias"} /\ ob1.tn \in {"a", ""} /\ ob1.ta \in {"g", ""} /\ ob1.tt \in {"t1", ""}
              THEN {<<>>, <<P("t1", "a"), P("t2", "x")>>, <<P("t2", "a")>>} ELSE {<<>>}
       [] Size \in {"mid", "large"} -> IF plain THEN {<<>>, <<P("t1", "a"), P("t2", "x")>>, <<P("t2", "a")>>} ELSE {<<>>}
       [] OTHER -> {<<>>, <<P("t1", "a")>>, <<P("t1", "a"), P("t1", "x")>>}
                   \cup (IF "t2" \in Ids(topo) THEN {<<P("t2", "x")>>, <<P("t1", "a"), P("t2", "x")>>, <<P("t2", "a")>>, <<P("t1", "b"), P("t2", "y")>>} ELSE {})

GenInit == stage = 0 /\ topo = <<>> /\ ib1 = NoIn /\ ib2 = NoIn /\ ob1 = NoOut /\ ob2 = NoOut /\ props = <<>>
G_Topo == stage = 0 /\ \E t \in Topos : topo' = t /\ stage' = 1 /\ UNCHANGED <<ib1, ib2, ob1, ob2, props>>
G_Ib1 == stage = 1 /\ \E d \in Ib1Dom : ib1' = d /\ stage' = 2 /\ UNCHANGED <<topo, ib2, ob1, ob2, props>>
G_Ib2 == stage = 2 /\ \E d \in Ib2Dom : ib2' = d /\ stage' = 3 /\ UNCHANGED <<topo, ib1, ob1, ob2, props>>
G_Ob1 == stage = 3 /\ \E d \in Ob1Dom : ob1' = d /\ stage' = 4 /\ UNCHANGED <<topo, ib1, ib2, ob2, props>>
G_Ob2 == stage = 4 /\ \E d \in Ob2Dom : ob2' = d /\ stage' = 5 /\ UNCHANGED <<topo, ib1, ib2, ob1, props>>
G_Props == stage = 5 /\ \E d \in PropsDom : props' = d /\ stage' = 6 /\ UNCHANGED <<topo, ib1, ib2, ob1, ob2>>
\* the case is complete after stage 6; the last step has a single successor so that `tlc -simulate`
\* (which evaluates the invariants on every candidate successor) reports only the case it has drawn
G_Emit == stage = 6 /\ stage' = 7 /\ UNCHANGED <<topo, ib1, ib2, ob1, ob2, props>>
GenNext == G_Topo \/ G_Ib1 \/ G_Ib2 \/ G_Ob1 \/ G_Ob2 \/ G_Props \/ G_Emit
GenSpec == GenInit /\ [][GenNext]_gvars

Case == [tasks |-> topo, inb |-> SelectSeq(<<ib1, ib2>>, LAMBDA d : d.lvl # "none"),
         outb |-> SelectSeq(<<ob1, ob2>>, LAMBDA d : d.lvl # "none"), props |-> props]
Done == stage = 7

\* consistency invariants of the model over the catalogue
InvWellFormed == Done => WellFormed(Case)
InvExpectedIsFunction == Done => ExpectedIsFunction(Case)
InvRejectedIffBad == Done => RejectedIffBad(Case)
InvModelViolExplained == Done => ModelViolExplained(Case)

Vocab == [xin_tcp |-> XAddr("tcp"), xin_ipc |-> XAddr("ipc"), xout_tcp |-> OutXAddr("xtcp"), xout_ipc |-> OutXAddr("xipc"), xout_upper |-> OutXUpper,
          stale_address |-> StaleAddr, stale_method |-> StaleMethod, stale_transport |-> StaleTransport]
PrintCase == Done => PrintT(<<"CASE", Case, Outcome(Case), ModelViol(Case), Vocab>>)
=============================================================================
