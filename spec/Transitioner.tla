--------------------------- MODULE Transitioner ---------------------------
(***************************************************************************)
(* C16 - the task state reported after a transition is the device's real   *)
(* state.                                                                  *)
(*                                                                         *)
(* Model of                                                                *)
(*   executor/executorcmd/transitioner/fairmq.go  FairMQ.Commit,           *)
(*                                     doConfigure, doReset                *)
(*   executor/executorcmd/transitioner/direct.go  Direct.Commit            *)
(*   executor/executorcmd/client.go               RpcClient.doTransition   *)
(*     (the acceptance rule for a reply)                                   *)
(* against a controlled device (FairMQ device state machine behind the OCC *)
(* plugin, occ/plugin/OccFMQCommon.cxx doTransition; or the O2 state       *)
(* machine of occ/occlib/OccServer.cxx for the direct control mode).       *)
(*                                                                         *)
(* One behaviour = one call of Commit: the initial state chooses the       *)
(* transitioner kind, the requested O2 transition, the state the device is *)
(* really in and whether the device checks the SrcState field; every       *)
(* device request then has one of the outcomes of Outs (the quantifier of   *)
(* the property).  The state graph is a forest: every terminal state       *)
(* (pc.a = "done") is one complete outcome vector, kept in `log`.          *)
(*                                                                         *)
(* One action per device request (`Step(o)`): the code between two calls   *)
(* of DoTransition is sequential and local, so the request, the device's   *)
(* reaction, doTransition's verdict on the reply and the branch taken by   *)
(* the algorithm on the returned (state, err) form one atomic step.        *)
(***************************************************************************)
EXTENDS Naturals, Sequences, TLC

CONSTANTS
  FixRollback,       \* FALSE: doConfigure/doReset as in the tree (state "" after a transport
                     \*        error is not treated as "stuck"; falls through after a rollback)
                     \* TRUE : repaired (work/patches/C16-fix-no-rollback-after-transport-error.patch)
  FixNoop,           \* FALSE: GO_ERROR / RECOVER return (src, nil) without touching the device
                     \* TRUE : they return (src, error)
  ResetFromInitDev   \* device table has INITIALIZING DEVICE -RESET DEVICE-> IDLE (the code assumes not)

VARIABLES
  kind,    \* "fairmq" | "direct"                          (constant during a behaviour)
  req,     \* [evt, src, dst] the O2 transition passed to Commit       (constant)
  dev0,    \* the device's real state when Commit is called            (constant)
  strict,  \* the device rejects a request whose SrcState is not its state (constant)
  dev,     \* the device's real state
  pc,      \* [a |-> phase of the algorithm, k |-> step index]
  st,      \* the local variable `state` (last state returned by DoTransition)
  err,     \* the local variable `err` is non-nil
  final,   \* finalState returned by Commit (meaningful when pc.a = "done")
  log      \* the device requests issued so far, with outcome and reply

vars == <<kind, req, dev0, strict, dev, pc, st, err, final, log>>

-----------------------------------------------------------------------------
(* States, tables, the O2 <-> FairMQ map (fairmq.go NewFairMQTransitioner)  *)

FmqStates == {"IDLE", "INITIALIZING DEVICE", "INITIALIZED", "BOUND", "DEVICE READY",
              "READY", "RUNNING", "ERROR", "EXITING"}
O2States == {"STANDBY", "CONFIGURED", "RUNNING", "ERROR", "DONE"}
DevStates(k) == IF k = "fairmq" THEN FmqStates ELSE O2States

\* fmqStateForState
F(s) == CASE s = "STANDBY" -> "IDLE" [] s = "CONFIGURED" -> "READY" [] s = "RUNNING" -> "RUNNING"
          [] s = "ERROR" -> "ERROR" [] s = "DONE" -> "EXITING" [] OTHER -> ""
\* stateForFmqState: intermediate FairMQ states (and "") have no O2 image
Img(s) == CASE s = "IDLE" -> "STANDBY" [] s = "READY" -> "CONFIGURED" [] s = "RUNNING" -> "RUNNING"
            [] s = "ERROR" -> "ERROR" [] s = "EXITING" -> "DONE" [] OTHER -> ""
ImageOf(k, d) == IF k = "fairmq" THEN Img(d) ELSE d

\* the FairMQ device state machine as the code assumes it (occ/plugin/OccFMQCommon.h
\* EXPECTED_FINAL_STATE; rollbacks in fairmq.go; ERROR -END-> EXITING: ControllableTask.Kill)
FmqTable ==
  { <<"IDLE", "INIT DEVICE", "INITIALIZING DEVICE">>, <<"IDLE", "END", "EXITING">>,
    <<"INITIALIZING DEVICE", "COMPLETE INIT", "INITIALIZED">>,
    <<"INITIALIZED", "BIND", "BOUND">>, <<"INITIALIZED", "RESET DEVICE", "IDLE">>,
    <<"BOUND", "CONNECT", "DEVICE READY">>, <<"BOUND", "RESET DEVICE", "IDLE">>,
    <<"DEVICE READY", "INIT TASK", "READY">>, <<"DEVICE READY", "RESET DEVICE", "IDLE">>,
    <<"READY", "RUN", "RUNNING">>, <<"READY", "RESET TASK", "DEVICE READY">>,
    <<"RUNNING", "STOP", "READY">>, <<"ERROR", "END", "EXITING">> }
  \cup (IF ResetFromInitDev THEN {<<"INITIALIZING DEVICE", "RESET DEVICE", "IDLE">>} ELSE {})

\* occ/occlib/OccServer.cxx processStateTransition (PAUSE/RESUME left out)
DirTable ==
  { <<"STANDBY", "CONFIGURE", "CONFIGURED">>, <<"STANDBY", "EXIT", "DONE">>,
    <<"CONFIGURED", "START", "RUNNING">>, <<"CONFIGURED", "RESET", "STANDBY">>,
    <<"CONFIGURED", "EXIT", "DONE">>, <<"RUNNING", "STOP", "CONFIGURED">>,
    <<"ERROR", "RECOVER", "STANDBY">>, <<"ERROR", "EXIT", "DONE">> }

Table(k) == IF k = "fairmq" THEN FmqTable ELSE DirTable
Valid(k, d, e) == \E t \in Table(k) : t[1] = d /\ t[2] = e
Target(k, d, e) == (CHOOSE t \in Table(k) : t[1] = d /\ t[2] = e)[3]
Gone(d) == d \in {"EXITING", "DONE"}          \* the process has left: nobody answers

\* the O2 task transitions (core/task: CONFIGURE, START, STOP, RESET, EXIT; ControllableTask.Kill:
\* EXIT from ERROR; fairmq.go Commit: RECOVER, GO_ERROR "not implemented yet")
Rq(e, s, d) == [evt |-> e, src |-> s, dst |-> d]
Requests ==
  { Rq("CONFIGURE", "STANDBY", "CONFIGURED"), Rq("START", "CONFIGURED", "RUNNING"),
    Rq("STOP", "RUNNING", "CONFIGURED"), Rq("RESET", "CONFIGURED", "STANDBY"),
    Rq("EXIT", "STANDBY", "DONE"), Rq("EXIT", "CONFIGURED", "DONE"), Rq("EXIT", "ERROR", "DONE"),
    Rq("GO_ERROR", "CONFIGURED", "ERROR"), Rq("GO_ERROR", "RUNNING", "ERROR"),
    Rq("RECOVER", "ERROR", "STANDBY") }

-----------------------------------------------------------------------------
(* The device: reaction to a request r = [ev, src, dst] in state d with outcome o *)

OutcomeKinds == {"done", "refused", "errstate", "tnx", "tx", "srcmism",
                 "bogus_trigger", "bogus_event", "bogus_state"}
TransportKinds == {"tnx", "tx", "srcmism"}

Outs(k, d, str, r) ==
  IF Gone(d) THEN {"tnx"}
  ELSE IF str /\ r.src # d THEN {"srcmism"}   \* OccFMQCommon.cxx:60 / OccServer.cxx: INVALID_ARGUMENT
  ELSE IF Valid(k, d, r.ev)
    THEN {"done", "refused", "errstate", "tnx", "tx", "bogus_trigger", "bogus_event", "bogus_state"}
    ELSE {"refused", "errstate", "tnx", "bogus_state"}

After(k, d, r, o) ==
  CASE o \in {"done", "tx", "bogus_trigger", "bogus_event"} -> Target(k, d, r.ev)
    [] o = "errstate" -> "ERROR"
    [] OTHER -> d

Rep(t, ok, trig, e, s) == [transport |-> t, ok |-> ok, trig |-> trig, revent |-> e, state |-> s]
Reply(k, d, r, o) ==
  LET a == After(k, d, r, o) IN
  CASE o \in TransportKinds -> Rep(TRUE, FALSE, "", "", "")
    [] o = "done"          -> Rep(FALSE, TRUE, "EXECUTOR", r.ev, a)
    [] o = "refused"       -> Rep(FALSE, FALSE, "DEVICE_INTENTIONAL", r.ev, d)
    [] o = "errstate"      -> Rep(FALSE, FALSE, "DEVICE_ERROR", r.ev, "ERROR")
    [] o = "bogus_trigger" -> Rep(FALSE, TRUE, "DEVICE_INTENTIONAL", r.ev, a)
    [] o = "bogus_event"   -> Rep(FALSE, TRUE, "EXECUTOR", "Auto", a)
    [] o = "bogus_state"   -> Rep(FALSE, TRUE, "EXECUTOR", r.ev, d)
    [] OTHER               -> Rep(TRUE, FALSE, "", "", "")

\* client.go RpcClient.doTransition: the reply is accepted only if ok, executor-triggered, about the
\* requested event and in the expected state; otherwise (state of the reply, error); ("", error) when
\* the call itself failed
Accepted(rep, r) ==
  ~rep.transport /\ rep.ok /\ rep.trig = "EXECUTOR" /\ rep.revent = r.ev /\ rep.state = r.dst
RetState(rep) == IF rep.transport THEN "" ELSE rep.state
RetErr(rep, r) == ~Accepted(rep, r)

Entry(k, d, r, o) ==
  LET rep == Reply(k, d, r, o) IN
  [ev |-> r.ev, src |-> r.src, dst |-> r.dst, before |-> d, out |-> o, after |-> After(k, d, r, o),
   transport |-> rep.transport, ok |-> rep.ok, trig |-> rep.trig, revent |-> rep.revent,
   state |-> rep.state, rstate |-> RetState(rep), rerr |-> RetErr(rep, r)]

-----------------------------------------------------------------------------
(* The algorithm *)

Ev(e, s, d) == [ev |-> e, src |-> s, dst |-> d]
Pc(a, k) == [a |-> a, k |-> k]

\* doConfigure: the five forward steps
CfgStep(rq, k) ==
  CASE k = 1 -> Ev("INIT DEVICE", F(rq.src), "INITIALIZING DEVICE")
    [] k = 2 -> Ev("COMPLETE INIT", "INITIALIZING DEVICE", "INITIALIZED")
    [] k = 3 -> Ev("BIND", "INITIALIZED", "BOUND")
    [] k = 4 -> Ev("CONNECT", "BOUND", "DEVICE READY")
    [] OTHER -> Ev("INIT TASK", "DEVICE READY", F(rq.dst))
\* doReset: the two forward steps
RstStep(rq, k) ==
  IF k = 1 THEN Ev("RESET TASK", F(rq.src), "DEVICE READY")
           ELSE Ev("RESET DEVICE", "DEVICE READY", F(rq.dst))

\* states from which doConfigure knows a way back (RESET DEVICE)
Rollbackable == {"INITIALIZED", "BOUND", "DEVICE READY"}
\* repaired doConfigure, state unknown after step k: the device is in dst_k or src_k
Cands(rq, k) ==
  LET s == CfgStep(rq, k) IN
  SelectSeq(<<s.dst, s.src>>, LAMBDA c : c \in Rollbackable)

SingleEv(e) == CASE e = "START" -> "RUN" [] e = "STOP" -> "STOP" [] e = "EXIT" -> "END" [] OTHER -> e

\* the request issued at the current program point
Cur ==
  CASE pc.a = "single" ->
         IF kind = "fairmq" THEN Ev(SingleEv(req.evt), F(req.src), F(req.dst))
                            ELSE Ev(req.evt, req.src, req.dst)
    [] pc.a = "cfg"    -> CfgStep(req, pc.k)
    [] pc.a = "cfg.rb" -> Ev("RESET DEVICE", st, F(req.src))
    [] pc.a = "cfg.ua" -> Ev("RESET DEVICE", Cands(req, pc.k)[1], F(req.src))
    [] pc.a = "cfg.ub" -> Ev("RESET DEVICE", Cands(req, pc.k)[2], F(req.src))
    [] pc.a = "rst"    -> RstStep(req, pc.k)
    [] pc.a = "rst.rb" -> Ev("INIT TASK", "DEVICE READY", F(req.src))
    [] OTHER           -> Ev("", "", "")

Start(k, rq) ==
  IF k = "direct" THEN Pc("single", 1)
  ELSE CASE rq.evt \in {"START", "STOP"} -> Pc("single", 1)
         [] rq.evt \in {"GO_ERROR", "RECOVER"} -> Pc("noop", 0)
         [] rq.evt = "CONFIGURE" -> Pc("cfg", 1)
         [] rq.evt = "RESET" -> Pc("rst", 1)
         [] rq.evt = "EXIT" -> IF rq.src = "CONFIGURED" THEN Pc("rst", 1) ELSE Pc("single", 1)
         [] OTHER -> Pc("noop", 0)

\* what the algorithm does with (rs, re) = the (state, err) returned by DoTransition
Goto(p, rs, e) == [pc |-> p, st |-> rs, err |-> e, final |-> ""]
Ret(f, rs, e) == [pc |-> Pc("done", 0), st |-> rs, err |-> e, final |-> f]
\* return from doReset into Commit (case "EXIT": END follows only from STANDBY)
RstRet(f, rs, e) ==
  IF req.evt = "EXIT" /\ f = "STANDBY" THEN Goto(Pc("single", 1), rs, e) ELSE Ret(f, rs, e)

Nxt(rs, re) ==
  LET k == pc.k
      c == Cur IN
  CASE pc.a = "single" -> Ret(IF kind = "fairmq" THEN Img(rs) ELSE rs, rs, re)
    [] pc.a = "cfg" /\ ~FixRollback ->
         IF k \in {1, 2} THEN (IF rs # c.dst THEN Ret(Img(rs), rs, re) ELSE Goto(Pc("cfg", k + 1), rs, re))
         ELSE IF k \in {3, 4} THEN (IF rs = c.src THEN Goto(Pc("cfg.rb", k), rs, re)
                                    ELSE IF rs # c.dst THEN Ret(Img(rs), rs, re)
                                    ELSE Goto(Pc("cfg", k + 1), rs, re))
         ELSE (IF rs = c.src THEN Goto(Pc("cfg.rb", k), rs, re) ELSE Ret(Img(rs), rs, re))
    [] pc.a = "cfg.rb" /\ ~FixRollback ->      \* `state, _ = ...`: err keeps the forward step's value
         IF k < 5 THEN Goto(Pc("cfg", k + 1), rs, err) ELSE Ret(Img(rs), rs, err)
    [] pc.a = "cfg" /\ FixRollback ->
         IF rs = c.dst THEN (IF k < 5 THEN Goto(Pc("cfg", k + 1), rs, re) ELSE Ret(Img(rs), rs, re))
         ELSE IF rs = "" THEN (IF Len(Cands(req, k)) > 0 THEN Goto(Pc("cfg.ua", k), rs, re) ELSE Ret("", rs, re))
         ELSE IF rs \in Rollbackable THEN Goto(Pc("cfg.rb", k), rs, re)
         ELSE Ret(Img(rs), rs, re)
    [] pc.a = "cfg.rb" /\ FixRollback -> Ret(Img(rs), rs, err)
    [] pc.a = "cfg.ua" ->
         IF rs = F(req.src) \/ Len(Cands(req, k)) = 1 THEN Ret(Img(rs), rs, err)
         ELSE Goto(Pc("cfg.ub", k), rs, err)
    [] pc.a = "cfg.ub" -> Ret(Img(rs), rs, err)
    [] pc.a = "rst" /\ k = 1 ->
         IF rs = "DEVICE READY" THEN Goto(Pc("rst", 2), rs, re)
         ELSE IF FixRollback /\ rs = "" THEN Goto(Pc("rst.rb", 1), rs, re)
         ELSE RstRet(Img(rs), rs, re)
    [] pc.a = "rst" /\ k = 2 ->
         IF rs = "DEVICE READY" \/ (FixRollback /\ rs = "") THEN Goto(Pc("rst.rb", 2), rs, re)
         ELSE RstRet(Img(rs), rs, re)
    [] pc.a = "rst.rb" -> RstRet(Img(rs), rs, err)
    [] OTHER -> Ret("", rs, re)

Step(o) ==
  /\ pc.a \notin {"done", "noop"}
  /\ o \in Outs(kind, dev, strict, Cur)
  /\ LET e == Entry(kind, dev, Cur, o)
         n == Nxt(e.rstate, e.rerr)
     IN /\ dev' = e.after
        /\ log' = Append(log, e)
        /\ pc' = n.pc /\ st' = n.st /\ err' = n.err /\ final' = n.final
  /\ UNCHANGED <<kind, req, dev0, strict>>

\* fairmq.go Commit, case "RECOVER"/"GO_ERROR": "transition not implemented yet", finalState = src
Noop ==
  /\ pc.a = "noop"
  /\ pc' = Pc("done", 0) /\ final' = req.src /\ err' = FixNoop
  /\ UNCHANGED <<kind, req, dev0, strict, dev, st, log>>

Init ==
  /\ kind \in {"fairmq", "direct"}
  /\ req \in Requests
  /\ dev0 \in DevStates(kind)
  \* a transition that issues no device request cannot observe the device: only the consistent start
  /\ Start(kind, req).a = "noop" => dev0 = F(req.src)
  /\ strict \in BOOLEAN
  /\ dev = dev0
  /\ pc = Start(kind, req)
  /\ st = "" /\ err = FALSE /\ final = "" /\ log = <<>>

Next == (\E o \in OutcomeKinds : Step(o)) \/ Noop

Spec == Init /\ [][Next]_vars

-----------------------------------------------------------------------------
(* The property, as operators over facts (used on the model's variables here and on the facts  *)
(* recorded from the real code in TransitionerTrace)                                           *)

Intermediate(d) == d \in {"INITIALIZING DEVICE", "INITIALIZED", "BOUND", "DEVICE READY"}
Last(lg) == lg[Len(lg)]

\* the reported state is the image of the state the device is really in; "" (no O2 state: the core
\* shows UNKNOWN) only for a device in an intermediate state, or when the last request got no reply
TruthfulF(k, fin, d, lg) ==
  /\ fin # "" => fin = ImageOf(k, d)
  /\ fin = "" => (ImageOf(k, d) = "" \/ (lg # <<>> /\ Last(lg).out \in TransportKinds))

\* success is reported only if the device reached the destination
SuccessF(k, e, d, rq) == ~e => ImageOf(k, d) = rq.dst

\* a multi-step transition that did not complete is rolled back to its source whenever the device
\* accepts the rollback: if the device is left in an intermediate state from which its table has the
\* rollback event, then that rollback was requested in that state and the device did not perform it
RbEvent(rq) == IF rq.evt = "CONFIGURE" THEN "RESET DEVICE" ELSE "INIT TASK"
RollbackF(k, rq, d0, d, lg) ==
  (/\ k = "fairmq" /\ rq.evt \in {"CONFIGURE", "RESET", "EXIT"}
   /\ d0 = F(rq.src)                       \* the device really was in the source state
   /\ Intermediate(d) /\ Valid(k, d, RbEvent(rq)))
  => \E i \in 1..Len(lg) : lg[i].ev = RbEvent(rq) /\ lg[i].before = d /\ lg[i].after = d

\* mechanism (client.go doTransition): no error only if the last reply passed the four conditions
AcceptF(e, lg) ==
  (~e /\ lg # <<>>) =>
    LET x == Last(lg) IN ~x.transport /\ x.ok /\ x.trig = "EXECUTOR" /\ x.revent = x.ev /\ x.state = x.dst

\* not part of C16 (reported as an observation): with no injected fault the transition succeeds
NoFault(lg) == \A i \in 1..Len(lg) : lg[i].out \in {"done", "srcmism"}
CompletesF(k, rq, d0, e, d, lg) ==
  (d0 = (IF k = "fairmq" THEN F(rq.src) ELSE rq.src) /\ NoFault(lg) /\ lg # <<>>) => (~e /\ ImageOf(k, d) = rq.dst)

Returned == pc.a = "done"
Truthful == Returned => TruthfulF(kind, final, dev, log)
SuccessMeansThere == Returned => SuccessF(kind, err, dev, req)
Rollback == Returned => RollbackF(kind, req, dev0, dev, log)
AcceptRule == Returned => AcceptF(err, log)

TypeOK ==
  /\ kind \in {"fairmq", "direct"} /\ req \in Requests /\ strict \in BOOLEAN
  /\ dev \in DevStates(kind) /\ dev0 \in DevStates(kind)
  /\ err \in BOOLEAN /\ Len(log) <= 9

\* one record per complete behaviour: the scenario (outcome vector) and the verdicts the model
\* predicts for it (lib/props/C16.py turns these into the scenarios replayed on the real code)
Outcomes == [i \in 1..Len(log) |-> log[i].out]
EmitScn ==
  Returned =>
    PrintT(<<"SCN", kind, req.evt, req.src, req.dst, dev0, strict, Outcomes, final, err, dev,
             TruthfulF(kind, final, dev, log), SuccessF(kind, err, dev, req),
             RollbackF(kind, req, dev0, dev, log), AcceptF(err, log),
             CompletesF(kind, req, dev0, err, dev, log)>>)
=============================================================================
