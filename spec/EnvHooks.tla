------------------------------ MODULE EnvHooks ------------------------------
(***************************************************************************)
(* C08 / C09 / C10 - hooks inside environment transitions.                  *)
(*                                                                         *)
(* An interpreter of core/environment/environment.go as far as hooks go:    *)
(* the four looplab callbacks (before_event, leave_state incl. the          *)
(* transition body, enter_state, after_event), each calling handleHooks     *)
(* twice (weights < 0, built-in work, weights >= 0); handleHooks itself     *)
(* (weights = sorted union of the trigger weights and of the await weights  *)
(* pending AT THE START of the pass; per weight: start the calls and file   *)
(* them under their await expression, await what is due here, collect       *)
(* errors, stop at the first weight with a critical failure); the run       *)
(* number / run timestamp bookkeeping; ControlEnvironment's GO_ERROR         *)
(* follow-up; cancelCallsPendingAwait at teardown.  Calls are asynchronous: *)
(* CallReturns(h) may happen any time after the start.                      *)
(*                                                                         *)
(* Code_AwaitWeightNotScheduled = TRUE describes the pinned tree: an await  *)
(* weight registered during a pass is not added to that pass's weight list, *)
(* so the pass can end without awaiting it.                                 *)
(***************************************************************************)
EXTENDS Integers, Sequences, FiniteSets, TLC

CONSTANTS
  Hooks,      \* set of hook ids
  Configs,    \* set of configurations (a configuration is chosen in Init and never changes), records:
              \*   trig, await : [Hooks -> <<moment, weight>>]  (moment e.g. "before_START_ACTIVITY")
              \*   crit : [Hooks -> BOOLEAN], fails : SUBSET Hooks (hooks whose call returns an error)
              \*   plan : sequence of events to request, bodyfails : indices of plan whose task commands fail
              \*   teardown : BOOLEAN (destroy the environment after the plan)
              \*   quiet : indices of plan requested from INSIDE the core (handleDeviceEvent on END_OF_STREAM: TryTransition(
              \*           STOP_ACTIVITY), the error only logged): no caller, no GO_ERROR follow-up, a refused or cancelled
              \*           attempt leaves the environment where it was and the event may be requested again
              \*   once : hooks of `fails` whose call fails the first time it is started only
  Code_AwaitWeightNotScheduled

VARIABLE cfg
Trig == cfg.trig
Await == cfg.await
Crit == cfg.crit
Fails == cfg.fails
Plan == cfg.plan
BodyFails == cfg.bodyfails
Teardown == cfg.teardown
Quiet == cfg.quiet
Once == cfg.once
\* does call instance <<hook, n>> return an error?
FailsInst(c) == c[1] \in Fails /\ (c[1] \in Once => c[2] = 1)

Table == [CONFIGURE |-> [src |-> "DEPLOYED", dst |-> "CONFIGURED"],
          RESET |-> [src |-> "CONFIGURED", dst |-> "DEPLOYED"],
          START_ACTIVITY |-> [src |-> "CONFIGURED", dst |-> "RUNNING"],
          STOP_ACTIVITY |-> [src |-> "RUNNING", dst |-> "CONFIGURED"],
          GO_ERROR |-> [src |-> "*", dst |-> "ERROR"]]

VARIABLES
  st,       \* environment state
  ti,       \* index of the request in progress (1..Len(Plan)); Len+1 = plan finished
  tx,       \* transition in progress: [ev, src, errs (reported hooks), stop (cancelled), at (moment kind of the cancellation)]
  pos,      \* position: [mom: idle|before|leave|body|flip|enter|after|end|followup|done, pass: neg|builtin|pos, ph: weights|start|await, wl: weights left]
  inst,     \* [Hooks -> number of times the hook's call was started] (a call instance is <<hook, n>>)
  live,     \* call instances started and not yet returned
  ret,      \* call instances returned and not yet collected
  pend,     \* call instances pending await: set of <<hook, await moment, await weight, n>>
  passerr,  \* hooks whose failure was collected in this pass
  results,  \* per finished request: [ev, ok, st, src, errs, at]
  hist,     \* records [t: start|collect|cancel|passend, hs: call instances, ti, ev, m: moment name, k: moment kind, w: weight (sign for passend)]
  run,      \* [rn (0 = none), sosor, eosor, soeor, eoeor (0 = empty)]
  clock,    \* logical clock
  seen      \* [Hooks -> the run record the hook saw when it (last) started; rn = -1: never started]

vars == <<cfg, st, ti, tx, pos, inst, live, ret, pend, passerr, results, hist, run, clock, seen>>

NoRun == [rn |-> 0, sosor |-> 0, eosor |-> 0, soeor |-> 0, eoeor |-> 0]
NoView == [rn |-> -1, sosor |-> -1, eosor |-> -1, soeor |-> -1, eoeor |-> -1]
NoTx == [ev |-> "", src |-> "", errs |-> {}, stop |-> FALSE, at |-> ""]
Pos(m, p, ph, wl) == [mom |-> m, pass |-> p, ph |-> ph, wl |-> wl]
Idle == Pos("idle", "neg", "weights", <<>>)

MomentName(m) ==
  CASE m = "before" -> "before_" \o tx.ev
    [] m = "leave" -> "leave_" \o tx.src
    [] m = "enter" -> "enter_" \o Table[tx.ev].dst
    [] m = "after" -> "after_" \o tx.ev
    [] OTHER -> m
Cur == MomentName(pos.mom)
H(t, hs, w) == [t |-> t, hs |-> hs, ti |-> ti, ev |-> tx.ev, m |-> Cur, k |-> pos.mom, w |-> w]

RECURSIVE AscSeq(_)
AscSeq(T) == IF T = {} THEN <<>> ELSE LET x == CHOOSE x \in T : \A y \in T : x <= y IN <<x>> \o AscSeq(T \ {x})
Sign(w) == IF w < 0 THEN "neg" ELSE "pos"

TrigWeights(m) == {Trig[h][2] : h \in {x \in Hooks : Trig[x][1] = m}}
PendWeights(m) == {p[3] : p \in {x \in pend : x[2] = m}}
\* (the repair) await weights of the calls that this very moment will start are scheduled too
OwnAwaitWeights(m) == {Await[h][2] : h \in {x \in Hooks : Trig[x][1] = m /\ Await[x][1] = m}}
PassWeights(m, s) ==
  LET all == TrigWeights(m) \cup PendWeights(m) \cup (IF Code_AwaitWeightNotScheduled THEN {} ELSE OwnAwaitWeights(m))
  IN AscSeq({w \in all : Sign(w) = s})

Init ==
  /\ cfg \in Configs
  /\ st = "CONFIGURED" /\ ti = 1 /\ tx = NoTx /\ pos = Idle
  /\ inst = [h \in Hooks |-> 0] /\ live = {} /\ ret = {} /\ pend = {} /\ passerr = {}
  /\ results = <<>> /\ hist = <<>>
  /\ run = NoRun /\ clock = 1
  /\ seen = [h \in Hooks |-> NoView]

Legal(e) == Table[e].src = "*" \/ Table[e].src = st
StartTx(e) == /\ tx' = [ev |-> e, src |-> st, errs |-> {}, stop |-> FALSE, at |-> ""]
              /\ pos' = Pos("before", "neg", "weights", <<>>)

\* TryTransition: looplab refuses an event with no entry for the current state before any callback
Request ==
  /\ pos.mom = "idle" /\ ti <= Len(Plan)
  /\ IF Legal(Plan[ti])
       THEN /\ StartTx(Plan[ti]) /\ UNCHANGED <<cfg, results, ti>>
       ELSE /\ results' = IF ti \in Quiet THEN results   \* (the internal requester looks at the state first: nothing happens)
                           ELSE Append(results, [ev |-> Plan[ti], ok |-> FALSE, st |-> st, src |-> st, errs |-> {}, at |-> "illegal"])
            /\ ti' = ti + 1 /\ UNCHANGED <<cfg, tx, pos>>
  /\ UNCHANGED <<cfg, st, inst, live, ret, pend, passerr, hist, run, clock, seen>>

(* ------------------------------ handleHooks ---------------------------- *)
InHookPass == pos.mom \in {"before", "leave", "enter", "after"} /\ pos.pass \in {"neg", "pos"}

\* the weights of this pass are computed at its start
PassBegin ==
  /\ InHookPass /\ pos.ph = "weights"
  /\ pos' = [pos EXCEPT !.wl = PassWeights(Cur, pos.pass), !.ph = "start"]
  /\ passerr' = {}
  /\ UNCHANGED <<cfg, st, ti, tx, inst, live, ret, pend, results, hist, run, clock, seen>>

\* PHASE 1: start the calls triggered at (moment, weight) and file them under their await expression
StartCalls ==
  /\ InHookPass /\ pos.ph = "start" /\ pos.wl # <<>>
  /\ LET w == Head(pos.wl)
         S == {h \in Hooks : Trig[h] = <<Cur, w>>}
         SI == {<<h, inst[h] + 1>> : h \in S}
     IN /\ inst' = [h \in Hooks |-> IF h \in S THEN inst[h] + 1 ELSE inst[h]]
        /\ live' = live \cup SI
        /\ pend' = pend \cup {<<h, Await[h][1], Await[h][2], inst[h] + 1>> : h \in S}
        /\ seen' = [h \in Hooks |-> IF h \in S THEN run ELSE seen[h]]
        /\ hist' = hist \o [i \in 1..(IF S = {} THEN 0 ELSE 1) |-> H("start", SI, w)]
  /\ pos' = [pos EXCEPT !.ph = "await"]
  /\ UNCHANGED <<cfg, st, ti, tx, ret, passerr, results, run, clock>>

\* a call returns (asynchronously)
CallReturns(c) ==
  /\ c \in live
  /\ live' = live \ {c} /\ ret' = ret \cup {c}
  /\ UNCHANGED <<cfg, st, ti, tx, pos, inst, pend, passerr, results, hist, run, clock, seen>>

\* PHASE 2: await the calls whose await point is (moment, weight) - blocks until they returned; PHASE 4: errors
AwaitCalls ==
  /\ InHookPass /\ pos.ph = "await" /\ pos.wl # <<>>
  /\ LET w == Head(pos.wl)
         due == {p \in pend : p[2] = Cur /\ p[3] = w}
         D == {<<p[1], p[4]>> : p \in due}
         DH == {p[1] : p \in due}
     IN /\ D \subseteq ret
        /\ ret' = ret \ D
        /\ pend' = pend \ due
        /\ passerr' = passerr \cup {c[1] : c \in {d \in D : FailsInst(d)}}
        /\ hist' = hist \o [i \in 1..(IF D = {} THEN 0 ELSE 1) |-> H("collect", D, w)]
        \* stop at the first weight with a critical failure
        /\ pos' = [pos EXCEPT !.ph = "start", !.wl = IF \E d \in D : FailsInst(d) /\ Crit[d[1]] THEN <<>> ELSE Tail(pos.wl)]
  /\ UNCHANGED <<cfg, st, ti, tx, inst, live, results, run, clock, seen>>

\* end of a handleHooks pass: critical failures are reported
PassEnd ==
  /\ InHookPass /\ pos.ph = "start" /\ pos.wl = <<>>
  /\ hist' = Append(hist, H("passend", {}, IF pos.pass = "neg" THEN -1 ELSE 1))
  /\ LET cf == {h \in passerr : Crit[h]}
         next == CASE pos.mom = "before" -> "leave" [] pos.mom = "leave" -> "body" [] pos.mom = "enter" -> "after" [] OTHER -> "end"
     IN IF pos.mom \in {"before", "leave"} /\ cf # {}
          THEN \* e.Cancel + return: the transition is cancelled
               /\ tx' = [tx EXCEPT !.errs = @ \cup cf, !.stop = TRUE, !.at = pos.mom]
               /\ pos' = Pos("end", "neg", "weights", <<>>)
          ELSE /\ tx' = [tx EXCEPT !.errs = @ \cup cf]
               /\ pos' = IF pos.pass = "neg" THEN Pos(pos.mom, "builtin", "weights", <<>>) ELSE Pos(next, "neg", "weights", <<>>)
  /\ UNCHANGED <<cfg, st, ti, inst, live, ret, pend, passerr, results, run, clock, seen>>

(* ------------------- built-in work between the two passes -------------- *)
SetIfEmpty(r, f) == IF r[f] = 0 THEN [r EXCEPT ![f] = clock] ELSE r

Builtin ==
  /\ pos.mom \in {"before", "leave", "enter", "after"} /\ pos.pass = "builtin"
  /\ run' =
       CASE pos.mom = "before" /\ tx.ev = "START_ACTIVITY" ->
              \* new run number, SOSOR; the other three stamps of the previous run are cleared
              [rn |-> clock, sosor |-> clock, eosor |-> 0, soeor |-> 0, eoeor |-> 0]
         [] pos.mom = "before" /\ tx.ev \in {"STOP_ACTIVITY", "GO_ERROR"} /\ run.sosor # 0 -> SetIfEmpty(run, "soeor")
         [] pos.mom = "leave" /\ tx.src = "RUNNING" /\ run.sosor # 0 -> SetIfEmpty(run, "soeor")
         [] pos.mom = "after" /\ tx.ev = "START_ACTIVITY" -> [run EXCEPT !.eosor = clock]
         [] pos.mom = "after" /\ tx.ev = "STOP_ACTIVITY" -> [run EXCEPT !.eoeor = clock]
         [] pos.mom = "after" /\ tx.ev = "GO_ERROR" /\ run.sosor # 0 -> SetIfEmpty(run, "eoeor")
         [] OTHER -> run
  /\ clock' = clock + 1
  /\ pos' = Pos(pos.mom, "pos", "weights", <<>>)
  /\ UNCHANGED <<cfg, st, ti, tx, inst, live, ret, pend, passerr, results, hist, seen>>

(* ------------------------- body, flip, end ----------------------------- *)
Body ==
  /\ pos.mom = "body"
  /\ IF ti \in BodyFails /\ tx.ev = Plan[ti]
       THEN /\ tx' = [tx EXCEPT !.stop = TRUE, !.at = "body"]
            /\ pos' = Pos("end", "neg", "weights", <<>>)
            /\ run' = IF tx.ev = "START_ACTIVITY" THEN [run EXCEPT !.rn = 0] ELSE run  \* StartActivityTransition.do
       ELSE /\ pos' = Pos("flip", "neg", "weights", <<>>) /\ UNCHANGED <<cfg, tx, run>>
  /\ UNCHANGED <<cfg, st, ti, inst, live, ret, pend, passerr, results, hist, clock, seen>>

Flip ==
  /\ pos.mom = "flip"
  /\ st' = Table[tx.ev].dst
  /\ pos' = Pos("enter", "neg", "weights", <<>>)
  /\ UNCHANGED <<cfg, ti, tx, inst, live, ret, pend, passerr, results, hist, run, clock, seen>>

\* after_STOP_ACTIVITY drops the run number once all hooks are done; then the result of the request;
\* ControlEnvironment follows a failed request with GO_ERROR
End ==
  /\ pos.mom = "end"
  /\ LET ok == ~tx.stop /\ tx.errs = {}
         isFollowup == tx.ev = "GO_ERROR" /\ Plan[ti] # "GO_ERROR"
     IN /\ run' = IF tx.ev = "STOP_ACTIVITY" /\ ~tx.stop THEN [run EXCEPT !.rn = 0] ELSE run
        /\ IF isFollowup \/ ti \in Quiet
             THEN /\ ti' = ti + 1 /\ pos' = Idle /\ UNCHANGED results     \* (a quiet request: nobody to answer, no follow-up)
             ELSE /\ results' = Append(results, [ev |-> tx.ev, ok |-> ok, st |-> st, src |-> tx.src, errs |-> tx.errs, at |-> tx.at])
                  /\ IF ok \/ st = "ERROR"
                       THEN /\ ti' = ti + 1 /\ pos' = Idle
                       ELSE /\ UNCHANGED ti /\ pos' = Pos("followup", "neg", "weights", <<>>)
  /\ UNCHANGED <<cfg, st, tx, inst, live, ret, pend, passerr, hist, clock, seen>>

Followup ==
  /\ pos.mom = "followup"
  /\ StartTx("GO_ERROR")
  /\ UNCHANGED <<cfg, st, ti, inst, live, ret, pend, passerr, results, hist, run, clock, seen>>

\* TeardownEnvironment: run-end stamps when RUNNING, cancelCallsPendingAwait, DONE
TeardownStep ==
  /\ pos.mom = "idle" /\ ti = Len(Plan) + 1 /\ Teardown
  /\ LET C == {<<p[1], p[4]>> : p \in pend} IN
       /\ live' = live \ C /\ ret' = ret \ C
       /\ hist' = hist \o [i \in 1..(IF C = {} THEN 0 ELSE 1) |->
                             [t |-> "cancel", hs |-> C, ti |-> ti, ev |-> "DESTROY", m |-> "DESTROY", k |-> "destroy", w |-> 0]]
  /\ pend' = {}
  /\ run' = IF st = "RUNNING" THEN SetIfEmpty(SetIfEmpty(run, "soeor"), "eoeor") ELSE run
  /\ st' = "DONE" /\ pos' = Pos("done", "neg", "weights", <<>>)
  /\ UNCHANGED <<cfg, ti, tx, inst, passerr, results, clock, seen>>

Next == Request \/ PassBegin \/ StartCalls \/ (\E c \in live : CallReturns(c)) \/ AwaitCalls \/ PassEnd \/ Builtin
        \/ Body \/ Flip \/ End \/ Followup \/ TeardownStep
Spec == Init /\ [][Next]_vars

Finished == pos.mom = "done" \/ (pos.mom = "idle" /\ ti = Len(Plan) + 1 /\ ~Teardown)

(* ------------------------------ properties ----------------------------- *)
Idx(t) == {i \in 1..Len(hist) : hist[i].t = t}
Starts == Idx("start")
Collects == Idx("collect")
PassEnds == Idx("passend")

\* C08: a call is started at its trigger point and nowhere else
AtTrigger == \A i \in Starts : \A c \in hist[i].hs : Trig[c[1]] = <<hist[i].m, hist[i].w>>
\* C08: within one occurrence of a moment strictly by ascending weight (equal weights are started together)
Ordered == \A i, j \in Starts : (i < j /\ hist[i].ti = hist[j].ti /\ hist[i].ev = hist[j].ev /\ hist[i].m = hist[j].m) => hist[i].w < hist[j].w
\* C08: the state machine does not move past a call's await point until that call has returned: when the pass
\* over (moment, sign) ends, no started call is still pending on an await point of that moment and sign lying
\* at or after its trigger weight - unless a critical failure stopped the pass before that weight
Barrier ==
  \A i \in PassEnds :
    LET started == UNION {hist[k].hs : k \in {x \in Starts : x < i}}
        collected == UNION {hist[k].hs : k \in {x \in Collects : x < i}}
        stoppedAt == {hist[k].w : k \in {x \in Collects : x < i /\ hist[x].ti = hist[i].ti /\ hist[x].ev = hist[i].ev /\ hist[x].m = hist[i].m
                                                     /\ \E c \in hist[x].hs : FailsInst(c) /\ Crit[c[1]]}}
    IN \A c \in started \ collected :
         LET h == c[1] IN
         ~(/\ Await[h][1] = hist[i].m
           /\ (IF Await[h][2] < 0 THEN -1 ELSE 1) = hist[i].w
           /\ (Trig[h][1] # hist[i].m \/ Await[h][2] >= Trig[h][2])
           /\ \A s \in stoppedAt : s >= Await[h][2])
\* C08: each started call is collected exactly once, or cancelled at teardown
OnceOrCancelled ==
  /\ \A i, j \in Collects : i # j => hist[i].hs \cap hist[j].hs = {}
  /\ (pos.mom = "done") => (pend = {} /\ live = {} /\ ret = {})   \* nothing left started-but-neither-collected-nor-cancelled

\* C09: a critical failure at before_/leave_ cancels: source state kept, error reported
CancelBefore == \A i \in 1..Len(results) : results[i].at \in {"before", "leave"} => (~results[i].ok /\ results[i].st = results[i].src /\ results[i].errs # {})
\* C09: a critical failure collected at enter_/after_ is reported but the destination state is kept
KeepAfter ==
  \A i \in 1..Len(results) :
    (results[i].at = "" /\ results[i].errs # {}) => (~results[i].ok /\ results[i].st = Table[results[i].ev].dst)
\* C09: only critical failing hooks are ever reported; a transition in which nothing critical fails succeeds
NonCriticalSilent ==
  \A i \in 1..Len(results) : /\ \A h \in results[i].errs : Crit[h] /\ h \in Fails
                             /\ (results[i].errs = {} /\ results[i].at = "") => results[i].ok

\* C10: the four stamps are ordered where set
StampOrder ==
  /\ (run.eosor # 0 => run.sosor <= run.eosor)
  /\ (run.soeor # 0 /\ run.eosor # 0 => run.eosor <= run.soeor)
  /\ (run.eoeor # 0 /\ run.soeor # 0 => run.soeor <= run.eoeor)
\* C10: hooks of before_START_ACTIVITY see the new run number iff their weight is >= 0
SetBetween ==
  \A h \in Hooks : (seen[h].rn # -1 /\ Trig[h][1] = "before_START_ACTIVITY") =>
     (IF Trig[h][2] < 0 THEN seen[h].rn = 0 ELSE (seen[h].rn # 0 /\ seen[h].sosor = seen[h].rn))

TypeOK == pos.mom \in {"idle", "before", "leave", "body", "flip", "enter", "after", "end", "followup", "done"}
=============================================================================
