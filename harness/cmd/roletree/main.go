// Command roletree replays scenarios generated from spec/RoleTree.tla on REAL role trees
// (core/workflow, built from the repository with -tags verif) and records, after every model
// action, the projection of the implementation state the specification talks about: the
// cached state and status of EVERY role, where each in-flight update is parked, and what the
// ParentAdapter received.
//
// A tree is loaded from a generated workflow template (YAML) with workflow.VerifRTLoad (the
// repository's own unmarshalling and template processing, include roles resolved from memory)
// under the real ParentAdapter. Leaves are driven through the exported UpdateState /
// UpdateStatus (the entry the task manager uses).
//
// Modes (per scenario):
//
//	sched   : steps Begin / Sample / MergeEnter / MergeUnblock / MergeAssign / ReadCache / Deliver per
//	          update "thread"; the interleaving is forced by gating the hook points role.enter /
//	          role.sampled (after the read of oldState / oldStatus, before the merge) /
//	          merge.computed (inside SafeState.merge / SafeStatus.merge, under the role's lock) /
//	          role.merged per goroutine. A thread released into a merge whose role is locked by a
//	          thread parked at merge.computed cannot reach a gate: it is recorded as "blocked".
//	          If it does get through (the lock is not held), it is driven to completion first -
//	          the order the lock exists to exclude.
//	free    : free running: one goroutine per leaf applies its list of updates, no gates
//	algebra : the two product tables of the real code, pair by pair
package main

import (
	"bufio"
	"encoding/json"
	"flag"
	"fmt"
	"io"
	"os"
	"runtime"
	"strconv"
	"strings"
	"sync"
	"time"

	"github.com/AliceO2Group/Control/common/event"
	"github.com/AliceO2Group/Control/common/gera"
	"github.com/AliceO2Group/Control/common/utils/uid"
	"github.com/AliceO2Group/Control/common/verifhook"
	"github.com/AliceO2Group/Control/core/task"
	"github.com/AliceO2Group/Control/core/task/sm"
	"github.com/AliceO2Group/Control/core/workflow"
	"github.com/sirupsen/logrus"
	"github.com/spf13/viper"

	"verif/harness/vgate"
	"verif/harness/vtrace"
)

var stateNames = []string{"UNKNOWN", "STANDBY", "CONFIGURED", "RUNNING", "ERROR", "DONE", "MIXED", "INVARIANT"}
var statusNames = []string{"UNDEFINED", "INACTIVE", "PARTIAL", "ACTIVE", "UNDEPLOYABLE"}

func stateName(s sm.State) string {
	if int(s) < 0 || int(s) >= len(stateNames) {
		return "?" + strconv.Itoa(int(s))
	}
	return stateNames[s]
}

func statusName(s task.Status) string {
	if int(s) >= len(statusNames) {
		return "?" + strconv.Itoa(int(s))
	}
	return statusNames[s]
}

func stateOf(n string) (sm.State, bool) {
	for i, v := range stateNames {
		if v == n {
			return sm.State(i), true
		}
	}
	return 0, false
}

func statusOf(n string) (task.Status, bool) {
	for i, v := range statusNames {
		if v == n {
			return task.Status(i), true
		}
	}
	return 0, false
}

type Step struct {
	A    string `json:"a"`
	T    int    `json:"t"`
	Leaf int    `json:"leaf,omitempty"`
	Kind string `json:"kind,omitempty"`
	V    string `json:"v,omitempty"`
}

type Upd struct {
	Leaf int    `json:"leaf"`
	Kind string `json:"kind"`
	V    string `json:"v"`
}

type Scenario struct {
	ID      int               `json:"id"`
	Mode    string            `json:"mode"`
	Shape   string            `json:"shape"`
	Yaml    string            `json:"yaml"`
	Subs    map[string]string `json:"subs"`
	Names   []string          `json:"names"` // node id (1-based) -> role name
	Steps   []Step            `json:"steps"`
	Threads [][]Upd           `json:"threads"`
	Rounds  int               `json:"rounds"`
}

const stepTimeout = 3 * time.Second

func goid() uint64 {
	var buf [64]byte
	n := runtime.Stack(buf[:], false)
	// "goroutine 123 [running]:"
	f := strings.Fields(string(buf[:n]))
	if len(f) < 2 {
		return 0
	}
	id, _ := strconv.ParseUint(f[1], 10, 64)
	return id
}

type parkInfo struct {
	node string
	kind string
	v    int
}

type run struct {
	rec   *vtrace.Recorder
	sc    *Scenario
	sched *vgate.Sched
	mu    sync.Mutex
	tids  map[uint64]int // goroutine -> thread id
	info  map[string]parkInfo
	nodes []workflow.Role // by id-1
	idOf  map[string]int
	stCh  chan sm.State
	suCh  chan task.Status
	alive map[int]bool
	wg    sync.WaitGroup
	// per thread: the aggregator it is merging into / kind of the update / waiting for that role's lock
	curAt    map[int]int
	kindOf   map[int]string
	blocked  map[int]bool
	lastS    []string // last cache values read (a role locked by a parked merge cannot be read)
	lastT    []string
	overrun  bool
	handover bool
}

func (r *run) handler(point string, kv ...interface{}) {
	g := goid()
	r.mu.Lock()
	tid, ok := r.tids[g]
	r.mu.Unlock()
	if !ok {
		return // not one of the update goroutines (tree loading, driver)
	}
	pi := parkInfo{}
	for i := 0; i+1 < len(kv); i += 2 {
		switch kv[i] {
		case "node":
			pi.node, _ = kv[i+1].(string)
		case "kind":
			pi.kind, _ = kv[i+1].(string)
		case "v":
			pi.v, _ = kv[i+1].(int)
		}
	}
	name := point + "#" + strconv.Itoa(tid)
	r.mu.Lock()
	r.info[name] = pi
	r.mu.Unlock()
	r.sched.Handler(name, kv...)
}

func pts(tid int) (string, string, string) {
	s := strconv.Itoa(tid)
	return "role.enter#" + s, "role.merged#" + s, "done#" + s
}

func ptc(tid int) string  { return "merge.computed#" + strconv.Itoa(tid) }
func pts2(tid int) string { return "role.sampled#" + strconv.Itoa(tid) }

const blockWait = 30 * time.Millisecond

// caches of every role. A role whose lock is held by an update parked inside its merge cannot be
// read (GetState would wait): its value is the last one read - nobody can have written it.
func (r *run) cachesLk() ([]string, []string, []int, []int) {
	cs := make([]string, 0, len(r.nodes))
	ct := make([]string, 0, len(r.nodes))
	lks := make([]int, 0)
	lkt := make([]int, 0)
	if r.lastS == nil {
		r.lastS = make([]string, len(r.nodes))
		r.lastT = make([]string, len(r.nodes))
	}
	for i, n := range r.nodes {
		if _, ok := workflow.VerifRTPeekState(n); ok {
			r.lastS[i] = stateName(n.GetState())
		} else {
			lks = append(lks, i+1)
		}
		if _, ok := workflow.VerifRTPeekStatus(n); ok {
			r.lastT[i] = statusName(n.GetStatus())
		} else {
			lkt = append(lkt, i+1)
		}
		cs = append(cs, r.lastS[i])
		ct = append(ct, r.lastT[i])
	}
	return cs, ct, lks, lkt
}

func (r *run) caches() ([]string, []string) {
	cs, ct, _, _ := r.cachesLk()
	return cs, ct
}

func (r *run) drain() [][]string {
	recv := make([][]string, 0)
	for {
		select {
		case s := <-r.stCh:
			recv = append(recv, []string{"state", stateName(s)})
		case s := <-r.suCh:
			recv = append(recv, []string{"status", statusName(s)})
		default:
			return recv
		}
	}
}

func (r *run) valName(pi parkInfo) string {
	if pi.kind == "state" {
		return stateName(sm.State(pi.v))
	}
	return statusName(task.Status(pi.v))
}

// another thread is parked inside the merge of the same role, same kind
func (r *run) holderOf(tid int) int {
	for w, a := range r.alive {
		if a && w != tid && r.sched.NParked(ptc(w)) > 0 && r.curAt[w] == r.curAt[tid] && r.kindOf[w] == r.kindOf[tid] {
			return w
		}
	}
	return 0
}

// where is thread tid now: (pc, at, carried). mayBlock: the thread was released into a merge.
func (r *run) where(tid int, mayBlock bool) (string, int, string, bool) {
	pe, pm, pd := pts(tid)
	pc := ptc(tid)
	ps := pts2(tid)
	p := ""
	if mayBlock {
		p = r.sched.WaitParkedAny(blockWait, pe, pm, pd, pc, ps)
		if p == "" && r.holderOf(tid) != 0 {
			// it cannot get the role's lock: nothing more will happen until the holder goes on
			r.blocked[tid] = true
			return "blocked", r.curAt[tid], "-", true
		}
	}
	if p == "" {
		p = r.sched.WaitParkedAny(stepTimeout, pe, pm, pd, pc, ps)
	}
	if p == "" {
		return "lost", -1, "-", false
	}
	if p == pd {
		return "idle", 0, "-", true
	}
	r.mu.Lock()
	pi := r.info[p]
	r.mu.Unlock()
	if p == pc {
		// merge.computed carries no role name: it is the role the thread entered
		return "computed", r.curAt[tid], r.valName(pi), true
	}
	if p == ps {
		// the old value sampled before the merge
		return "sampled", r.curAt[tid], r.valName(pi), true
	}
	at := 0
	if pi.node != "" {
		at = r.idOf[pi.node]
	}
	if p == pe {
		r.curAt[tid] = at
		return "call", at, r.valName(pi), true
	}
	return "merged", at, r.valName(pi), true
}

func (r *run) emit(st *Step, pc string, at int, carried string, ok bool) {
	cs, ct, lks, lkt := r.cachesLk()
	nactive := 0
	for _, a := range r.alive {
		if a {
			nactive++
		}
	}
	r.rec.Emit(st.A, "scn", r.sc.ID, "t", st.T, "leaf", st.Leaf, "kind", st.Kind, "v", st.V,
		"cs", cs, "ct", ct, "q", nactive == 0, "recv", r.drain(), "pc", pc, "at", at, "carried", carried, "ok", ok,
		"lks", lks, "lkt", lkt, "handover", r.handover)
}

// the scenario cannot be followed: the step was NOT executed
func (r *run) abandon(st *Step, why string) {
	r.rec.Emit("Abandon", "scn", r.sc.ID, "t", st.T, "a", st.A, "why", why)
}

func (r *run) finishThread(tid int) {
	_, _, pd := pts(tid)
	r.sched.Release(pd)
	r.alive[tid] = false
}

// returns false when the scenario cannot be followed any further
func (r *run) doStep(st *Step) bool {
	pe, pm, _ := pts(st.T)
	switch st.A {
	case "Turn":
		// the thread takes whatever step it can take next (schedules given as an order of turns: they can be
		// followed whatever values the merges produce)
		a := r.nextAction(st.T)
		if !r.alive[st.T] || a == "" {
			return true
		}
		if a == "Sample" || a == "MergeEnter" || a == "ReadCache" {
			// not into a read of a role another update is parked in (it would wait), except the probe of that
			// very role's lock by a merge
			for w := 1; w <= 4; w++ {
				if w != st.T && r.alive[w] && r.sched.NParked(ptc(w)) > 0 &&
					(a == "ReadCache" || r.curAt[w] != r.curAt[st.T] || r.kindOf[w] != r.kindOf[st.T]) {
					return true
				}
			}
		}
		st2 := Step{T: st.T, A: a}
		return r.doStep(&st2)
	case "Run":
		// take the update to completion, one recorded step per critical section
		r.complete(st.T)
		return !r.alive[st.T]
	case "Begin":
		if r.alive[st.T] || st.Leaf < 1 || st.Leaf > len(r.nodes) {
			r.abandon(st, "thread busy or no such leaf")
			return false
		}
		pu, isPU := r.nodes[st.Leaf-1].(workflow.PublicUpdatable)
		if !isPU {
			r.abandon(st, "not a leaf role")
			return false
		}
		r.alive[st.T] = true
		started := make(chan struct{})
		r.wg.Add(1)
		go func(tid int, kind, v string) {
			defer r.wg.Done()
			g := goid()
			r.mu.Lock()
			r.tids[g] = tid
			r.mu.Unlock()
			close(started)
			if kind == "state" {
				s, _ := stateOf(v)
				pu.UpdateState(s)
			} else {
				s, _ := statusOf(v)
				pu.UpdateStatus(s)
			}
			r.handler("done")
			r.mu.Lock()
			delete(r.tids, g)
			r.mu.Unlock()
		}(st.T, st.Kind, st.V)
		<-started
	case "Sample", "Deliver":
		if !r.alive[st.T] || r.blocked[st.T] || !r.sched.WaitParked(pe, stepTimeout) {
			r.abandon(st, "thread not parked at role.enter")
			return false
		}
		r.mu.Lock()
		node := r.info[pe].node
		r.mu.Unlock()
		if (node == "") != (st.A == "Deliver") {
			r.abandon(st, "thread is at another role.enter than the step says")
			return false
		}
		r.sched.Release(pe)
	case "MergeEnter":
		if !r.alive[st.T] || r.blocked[st.T] || !r.sched.WaitParked(pts2(st.T), stepTimeout) {
			r.abandon(st, "thread not parked at role.sampled")
			return false
		}
		r.sched.Release(pts2(st.T))
	case "MergeUnblock":
		// nothing to release: the thread gets the lock by itself once the holder has gone on
		if !r.alive[st.T] || !r.blocked[st.T] || r.holderOf(st.T) != 0 {
			r.abandon(st, "thread is not waiting for a free lock")
			return false
		}
		r.blocked[st.T] = false
	case "MergeAssign":
		if !r.alive[st.T] || r.sched.NParked(ptc(st.T)) == 0 {
			r.abandon(st, "thread not parked at merge.computed")
			return false
		}
		r.mu.Lock()
		newv := r.valName(r.info[ptc(st.T)])
		r.mu.Unlock()
		r.sched.Release(ptc(st.T))
		// a thread waiting for this role's lock now gets it: once IT is parked, the assignment is done
		for u, b := range r.blocked {
			if b && u != st.T && r.curAt[u] == r.curAt[st.T] && r.kindOf[u] == r.kindOf[st.T] {
				pe2, pm2, pd2 := pts(u)
				r.sched.WaitParkedAny(stepTimeout, pe2, pm2, pd2, ptc(u), pts2(u))
				// the assigning thread re-reads the role several times on its way to role.merged and may
				// have to wait for the new holder: its arrival there is not awaited
				pc, at, carried := "merged", r.curAt[st.T], "-"
				if r.sched.WaitParkedAny(blockWait, pm) == pm {
					pc, at, carried, _ = r.where(st.T, false)
				}
				// the role is locked again (by the thread that waited), it cannot be read: what was
				// assigned is the value reported at merge.computed; the lock seen now is the successor's
				if r.lastS != nil && at >= 1 && at <= len(r.nodes) {
					if r.kindOf[st.T] == "state" {
						r.lastS[at-1] = newv
					} else {
						r.lastT[at-1] = newv
					}
				}
				r.handover = true
				r.emit(st, pc, at, carried, true)
				r.handover = false
				return true
			}
		}
	case "ReadCache":
		if !r.alive[st.T] || r.blocked[st.T] || !r.sched.WaitParked(pm, stepTimeout) {
			r.abandon(st, "thread not parked at role.merged")
			return false
		}
		r.sched.Release(pm)
	default:
		r.abandon(st, "unknown action")
		return false
	}
	if st.A == "Begin" {
		r.kindOf[st.T] = st.Kind
		r.curAt[st.T] = 0
	}
	pc, at, carried, ok := r.where(st.T, st.A == "MergeEnter" || st.A == "Sample")
	if pc == "idle" {
		r.finishThread(st.T)
	}
	r.emit(st, pc, at, carried, ok)
	if ok && (st.A == "MergeEnter" || st.A == "Sample") && pc != "blocked" && r.holderOf(st.T) != 0 {
		// The thread went through a merge of a role that another update is merging into (parked between
		// computing and assigning): the role's lock is not held. Drive this thread to completion NOW -
		// the order the lock exists to exclude - and give up the rest of the schedule.
		r.overrun = true
		r.complete(st.T)
		return false
	}
	return ok
}

// drive one thread to completion, step by step, each step recorded like the scheduled ones
func (r *run) complete(t int) {
	for n := 0; r.alive[t] && n < 64; n++ {
		st := Step{T: t, A: r.nextAction(t)}
		if st.A == "" || !r.doStep(&st) {
			return
		}
	}
}

// the step a thread can take, from where it is parked ("" = none now)
func (r *run) nextAction(t int) string {
	pe, pm, _ := pts(t)
	if r.blocked[t] {
		if r.holderOf(t) == 0 {
			return "MergeUnblock"
		}
		return ""
	}
	switch r.sched.ParkedAmong(pe, pm, ptc(t), pts2(t)) {
	case pe:
		r.mu.Lock()
		node := r.info[pe].node
		r.mu.Unlock()
		if node == "" {
			return "Deliver"
		}
		return "Sample"
	case pts2(t):
		// (a merge that would have to wait for a child's lock is not started)
		return "MergeEnter"
	case pm:
		return "ReadCache"
	case ptc(t):
		return "MergeAssign"
	}
	return ""
}

func walk(role workflow.Role, f func(workflow.Role)) {
	f(role)
	for _, c := range role.GetRoles() {
		walk(c, f)
	}
}

func kindOf(role workflow.Role) string {
	t := fmt.Sprintf("%T", role)
	switch {
	case strings.HasSuffix(t, "aggregatorRole"):
		return "agg"
	case strings.HasSuffix(t, "includeRole"):
		return "inc"
	case strings.HasSuffix(t, "taskRole"):
		// a task role with a trigger is a hook task
		if tt, ok := role.(interface{ GetTaskTraits() task.Traits }); ok && tt.GetTaskTraits().Trigger != "" {
			return "hook"
		}
		return "task"
	case strings.HasSuffix(t, "callRole"):
		return "call"
	}
	return t
}

func (r *run) load() error {
	sc := r.sc
	envId := uid.New()
	defaults, vars, userVars := gera.MakeMap[string, string](), gera.MakeMap[string, string](), gera.MakeMap[string, string]()
	pa := workflow.NewParentAdapter(
		func() uid.ID { return envId },
		func() uint32 { return 0 },
		func() gera.Map[string, string] { return defaults },
		func() gera.Map[string, string] { return vars },
		func() gera.Map[string, string] { return userVars },
		func(event.Event) {},
	)
	r.stCh = make(chan sm.State, 1<<14)
	r.suCh = make(chan task.Status, 1<<14)
	pa.SubscribeToStateChange("verif", r.stCh)
	pa.SubscribeToStatusChange("verif", r.suCh)
	parent := &workflow.VerifRTParent{ParentAdapter: pa}
	subs := make(map[string][]byte)
	for k, v := range sc.Subs {
		subs[k] = []byte(v)
	}
	root, err := workflow.VerifRTLoad([]byte(sc.Yaml), subs, parent)
	if err != nil {
		return err
	}
	byName := make(map[string]workflow.Role)
	walk(root, func(x workflow.Role) { byName[x.GetName()] = x })
	r.nodes = make([]workflow.Role, 0, len(sc.Names))
	r.idOf = make(map[string]int)
	for i, n := range sc.Names {
		x, ok := byName[n]
		if !ok {
			return fmt.Errorf("role %q not in the loaded tree", n)
		}
		r.nodes = append(r.nodes, x)
		r.idOf[n] = i + 1
	}
	if len(byName) != len(sc.Names) {
		return fmt.Errorf("loaded tree has %d roles, scenario names %d", len(byName), len(sc.Names))
	}
	return nil
}

// the structure of the tree as the real code sees it
func (r *run) structure() ([]int, []string, []bool) {
	par := make([]int, 0)
	kinds := make([]string, 0)
	crit := make([]bool, 0)
	for _, n := range r.nodes {
		p := 0
		if pr := n.GetParentRole(); pr != nil {
			p = r.idOf[pr.GetName()]
		}
		par = append(par, p)
		k := kindOf(n)
		kinds = append(kinds, k)
		if k == "task" || k == "call" || k == "hook" {
			crit = append(crit, n.IsCritical())
		} else {
			crit = append(crit, true)
		}
	}
	return par, kinds, crit
}

func (r *run) reset() bool {
	if err := r.load(); err != nil {
		r.rec.Emit("Reset", "scn", r.sc.ID, "shape", r.sc.Shape, "mode", r.sc.Mode, "loaded", false, "err", err.Error())
		return false
	}
	r.rec.Emit("Reset", "scn", r.sc.ID, "shape", r.sc.Shape, "mode", r.sc.Mode, "loaded", true, "err", "")
	cs, ct := r.caches()
	par, kinds, crit := r.structure()
	r.rec.Emit("Loaded", "scn", r.sc.ID, "cs", cs, "ct", ct, "par", par, "kinds", kinds, "crit", crit)
	return true
}

func runSched(rec *vtrace.Recorder, sc *Scenario) {
	r := &run{rec: rec, sc: sc, sched: vgate.New(), tids: map[uint64]int{}, info: map[string]parkInfo{}, alive: map[int]bool{},
		curAt: map[int]int{}, kindOf: map[int]string{}, blocked: map[int]bool{}}
	verifhook.SetHandler(nil)
	if !r.reset() {
		return
	}
	for t := 1; t <= 4; t++ {
		pe, pm, pd := pts(t)
		r.sched.Gate(pe, pm, pd, ptc(t), pts2(t))
	}
	verifhook.SetHandler(r.handler)
	for i := range sc.Steps {
		if !r.doStep(&sc.Steps[i]) {
			break
		}
	}
	// finish the schedule: every update still in flight is driven to completion step by step, each
	// step recorded like the scheduled ones. A thread inside a merge goes first (it may hold a lock
	// others wait for), then the lowest thread that can move.
	for n := 0; n < 256; n++ {
		moved := false
		for pass := 0; pass < 2 && !moved; pass++ {
			for t := 1; t <= 4 && !moved; t++ {
				if !r.alive[t] {
					continue
				}
				a := r.nextAction(t)
				if a == "" || (pass == 0 && a != "MergeAssign" && a != "MergeUnblock") {
					continue
				}
				if a == "MergeEnter" || a == "ReadCache" || a == "Sample" {
					// (not while another thread holds a lock this step would have to wait for)
					busy := false
					for w := 1; w <= 4; w++ {
						if w != t && r.alive[w] && r.sched.NParked(ptc(w)) > 0 {
							busy = true
						}
					}
					if busy {
						continue
					}
				}
				st := Step{T: t, A: a}
				r.doStep(&st)
				moved = true
			}
		}
		if !moved {
			// a thread on its way to a gate (it had to wait for a lock that is free now)?
			any := false
			for t := 1; t <= 4; t++ {
				if r.alive[t] && !r.blocked[t] {
					pe, pm, pd := pts(t)
					if r.sched.WaitParkedAny(stepTimeout, pe, pm, pd, ptc(t), pts2(t)) != "" {
						any = true
						break
					}
				}
			}
			if !any {
				break
			}
		}
	}
	// whatever could not be driven runs on its own; then record the quiescent tree
	inflight := 0
	for _, a := range r.alive {
		if a {
			inflight++
		}
	}
	r.sched.ReleaseAll()
	done := make(chan struct{})
	go func() { r.wg.Wait(); close(done) }()
	finished := true
	select {
	case <-done:
	case <-time.After(stepTimeout):
		finished = false
	}
	verifhook.SetHandler(nil)
	cs, ct := r.caches()
	rec.Emit("Settle", "scn", sc.ID, "cs", cs, "ct", ct, "recv", r.drain(), "ok", finished, "inflight", inflight)
}

func runFree(rec *vtrace.Recorder, sc *Scenario) {
	r := &run{rec: rec, sc: sc, sched: vgate.New(), tids: map[uint64]int{}, info: map[string]parkInfo{}, alive: map[int]bool{},
		curAt: map[int]int{}, kindOf: map[int]string{}, blocked: map[int]bool{}}
	verifhook.SetHandler(nil)
	if !r.reset() {
		return
	}
	told := make([]string, len(r.nodes)) // last value told, per node, per kind ("" = never)
	toldT := make([]string, len(r.nodes))
	start := make(chan struct{})
	var wg sync.WaitGroup
	for _, th := range sc.Threads {
		for _, u := range th {
			if u.Kind == "state" {
				told[u.Leaf-1] = u.V
			} else {
				toldT[u.Leaf-1] = u.V
			}
		}
		wg.Add(1)
		go func(th []Upd) {
			defer wg.Done()
			<-start
			for _, u := range th {
				pu := r.nodes[u.Leaf-1].(workflow.PublicUpdatable)
				if u.Kind == "state" {
					s, _ := stateOf(u.V)
					pu.UpdateState(s)
				} else {
					s, _ := statusOf(u.V)
					pu.UpdateStatus(s)
				}
			}
		}(th)
	}
	close(start)
	finished := make(chan struct{})
	go func() { wg.Wait(); close(finished) }()
	ok := true
	select {
	case <-finished:
	case <-time.After(10 * time.Second):
		ok = false
	}
	cs, ct := r.caches()
	recv := r.drain()
	lastS, lastT := "none", "none"
	for _, x := range recv {
		if x[0] == "state" {
			lastS = x[1]
		} else {
			lastT = x[1]
		}
	}
	rec.Emit("FreeEnd", "scn", sc.ID, "cs", cs, "ct", ct, "told", told, "toldt", toldT, "nthreads", len(sc.Threads),
		"ok", ok, "lasts", lastS, "lastt", lastT, "nrecv", len(recv))
}

func runAlgebra(rec *vtrace.Recorder, sc *Scenario) {
	rec.Emit("Reset", "scn", sc.ID, "shape", "S01", "mode", "algebra", "loaded", false, "err", "")
	for a := range stateNames {
		for b := range stateNames {
			rec.Emit("ProdS", "scn", sc.ID, "a", stateNames[a], "b", stateNames[b], "r", stateName(sm.State(a).X(sm.State(b))))
		}
	}
	for a := range statusNames {
		for b := range statusNames {
			rec.Emit("ProdT", "scn", sc.ID, "a", statusNames[a], "b", statusNames[b], "r", statusName(task.Status(a).X(task.Status(b))))
		}
	}
}

func main() {
	scnPath := flag.String("scenarios", "", "scenario file (NDJSON)")
	tracePath := flag.String("trace", "", "trace output (NDJSON)")
	flag.Parse()
	logrus.SetOutput(io.Discard)
	logrus.SetLevel(logrus.PanicLevel)
	viper.Set("config_endpoint", "mock://")
	viper.Set("enableKafka", false)
	f, err := os.Open(*scnPath)
	if err != nil {
		fmt.Fprintln(os.Stderr, err)
		os.Exit(3)
	}
	defer f.Close()
	rec, err := vtrace.New(*tracePath)
	if err != nil {
		fmt.Fprintln(os.Stderr, err)
		os.Exit(3)
	}
	rd := bufio.NewReaderSize(f, 1<<20)
	n := 0
	for {
		line, err := rd.ReadBytes('\n')
		if len(line) > 1 {
			var sc Scenario
			if e := json.Unmarshal(line, &sc); e != nil {
				fmt.Fprintln(os.Stderr, "bad scenario:", e)
				os.Exit(3)
			}
			switch sc.Mode {
			case "free":
				rounds := sc.Rounds
				if rounds < 1 {
					rounds = 1
				}
				for i := 0; i < rounds; i++ {
					runFree(rec, &sc)
				}
			case "algebra":
				runAlgebra(rec, &sc)
			default:
				runSched(rec, &sc)
			}
			n++
		}
		if err != nil {
			break
		}
	}
	lines := rec.Lines()
	if err := rec.Close(); err != nil {
		fmt.Fprintln(os.Stderr, err)
		os.Exit(3)
	}
	fmt.Printf("scenarios=%d lines=%d\n", n, lines)
}
