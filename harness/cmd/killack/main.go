// Command killack replays operation schedules generated from spec/KillAck.tla on the real
// common/utils/safeacks.SafeAcks: every operation runs in its own goroutine; the driver records the
// invocation and, when it observes it, the completion with its result. An operation that has not
// completed is simply not (yet) reported: the trace specification decides whether that is allowed.
package main

import (
	"bufio"
	"encoding/json"
	"flag"
	"fmt"
	"os"
	"strings"
	"sync"
	"time"

	"github.com/AliceO2Group/Control/common/utils/safeacks"

	"verif/harness/vtrace"
)

type Step struct {
	T  string `json:"t"`
	Op string `json:"op"`
	K  string `json:"k"`
}

type Scenario struct {
	ID    int    `json:"id"`
	Steps []Step `json:"steps"`
}

type result struct {
	t, res string
}

var par = flag.Int("par", 12, "scenarios run in parallel")
var grace = flag.Duration("grace", 150*time.Millisecond, "how long an operation may take before it is called blocked")

func main() {
	in := flag.String("scenarios", "", "")
	out := flag.String("trace", "", "")
	flag.Parse()
	f, err := os.Open(*in)
	if err != nil {
		fmt.Fprintln(os.Stderr, err)
		os.Exit(2)
	}
	rec, err := vtrace.New(*out)
	if err != nil {
		fmt.Fprintln(os.Stderr, err)
		os.Exit(2)
	}
	sc := bufio.NewScanner(f)
	sc.Buffer(make([]byte, 1<<20), 1<<26)
	n := 0
	var scns []*Scenario
	for sc.Scan() {
		if len(strings.TrimSpace(sc.Text())) == 0 {
			continue
		}
		var s Scenario
		if err := json.Unmarshal(sc.Bytes(), &s); err != nil {
			fmt.Fprintln(os.Stderr, err)
			os.Exit(2)
		}
		scns = append(scns, &s)
		n++
	}
	bufs := make([]*buf, len(scns))
	sem := make(chan struct{}, *par)
	var wg sync.WaitGroup
	for i := range scns {
		i := i
		bufs[i] = &buf{}
		wg.Add(1)
		sem <- struct{}{}
		go func() {
			defer wg.Done()
			run(bufs[i], scns[i])
			<-sem
		}()
	}
	wg.Wait()
	for _, b := range bufs {
		for _, e := range b.evs {
			rec.Emit(e.ev, e.kv...)
		}
	}
	rec.Close()
	fmt.Printf("scenarios=%d lines=%d\n", n, rec.Lines())
}

// buf collects the events of one scenario in the order the scenario's own driver goroutine emitted them; the
// scenarios run in parallel (each on its own SafeAcks) and are written out one after the other.
type buf struct {
	evs []bufEv
}
type bufEv struct {
	ev string
	kv []interface{}
}

func (b *buf) Emit(ev string, kv ...interface{}) { b.evs = append(b.evs, bufEv{ev, kv}) }

func run(rec *buf, s *Scenario) {
	acks := safeacks.NewAcks()
	rec.Emit("Reset", "scn", s.ID)
	var mu sync.Mutex
	done := []result{}
	busy := map[string]bool{}
	chans := map[string]chan struct{}{}
	flush := func() {
		mu.Lock()
		for _, d := range done {
			rec.Emit("Done", "scn", s.ID, "t", d.t, "res", d.res)
			delete(busy, d.t)
		}
		done = done[:0]
		mu.Unlock()
	}
	for _, st := range s.Steps {
		st := st
		flush()
		mu.Lock()
		isBusy := busy[st.T]
		mu.Unlock()
		if isBusy {
			select {
			case <-chans[st.T]:
				flush()
				isBusy = false
			case <-time.After(*grace):
			}
		}
		if isBusy {
			// the model reuses a thread only after its operation finished; on the implementation it is still blocked
			rec.Emit("StillBlocked", "scn", s.ID, "t", st.T)
			continue
		}
		mu.Lock()
		busy[st.T] = true
		mu.Unlock()
		rec.Emit("Invoke", "scn", s.ID, "t", st.T, "op", st.Op, "k", st.K)
		ch := make(chan struct{})
		go func() {
			var res string
			defer func() {
				if r := recover(); r != nil {
					res = "panic"
				}
				mu.Lock()
				done = append(done, result{st.T, res})
				mu.Unlock()
				close(ch)
			}()
			switch st.Op {
			case "register":
				if err := acks.RegisterAck(st.K); err != nil {
					res = "error"
				} else {
					res = "ok"
				}
			case "expects":
				res = fmt.Sprint(acks.ExpectsAck(st.K))
			case "send":
				if err := acks.TrySendAck(st.K); err != nil {
					res = "error"
				} else {
					res = "nil"
				}
			case "recv":
				res = fmt.Sprint(acks.TryReceiveAck(st.K))
			}
		}()
		chans[st.T] = ch
		select {
		case <-ch:
			// operations this one released finish on their own; give them a moment so that the next invocation
			// meets a quiescent object (what the model's generator assumed; any other order is still explained
			// by the trace specification's silent steps)
			time.Sleep(200 * time.Microsecond)
		case <-time.After(10 * time.Millisecond):
		}
	}
	// whoever has not returned by now gets a long grace period before being called blocked
	for _, ch := range chans {
		select {
		case <-ch:
		case <-time.After(*grace):
		}
	}
	flush()
	mu.Lock()
	blocked := make([]string, 0)
	for t := range busy {
		blocked = append(blocked, t)
	}
	mu.Unlock()
	rec.Emit("End", "scn", s.ID, "blocked", blocked)
}
