package main

import (
	"context"
	"net"
	"sort"
	"sync"
	"time"

	odcpb "github.com/AliceO2Group/Control/core/integration/odc/protos"
	"google.golang.org/grpc"
	"google.golang.org/grpc/codes"
	"google.golang.org/grpc/keepalive"
	"google.golang.org/grpc/status"
)

// fakeODC is an in-process ODC server behind the real odc.proto service. It keeps one table, partition -> IDLE | READY | RUNNING |
// EXITING | ERROR (absent = no session). Every request PARKS on arrival and takes effect when the driver says so, with the scripted
// fault: none (the table decides: a legal request is executed, an illegal one refused with status ERROR) | rc (refused although legal)
// | err (gRPC error, no effect) | lost (executed, the reply is a gRPC error).
// Run: none -> IDLE; Configure: IDLE -> READY; Start: READY -> RUNNING; Stop: RUNNING -> READY; Reset: READY -> IDLE; Terminate:
// IDLE -> EXITING; Shutdown: anything -> none; SetProperties needs IDLE / READY / RUNNING; Status lists the sessions; GetState
// reports one. One NDJSON line per request of a hook or of the poller's Status at the moment it takes effect.
type fakeODC struct {
	odcpb.UnimplementedODCServer
	addr string
	gs   *grpc.Server
	log  func(map[string]interface{})

	mu       sync.Mutex
	cond     *sync.Cond
	part     map[string]string
	runnr    map[string]uint64
	arrivals []*request
}

type request struct {
	m     string
	pid   string
	runnr uint64
	ch    chan interface{} // *odcpb.GeneralReply | *odcpb.StateReply | *odcpb.StatusReply | error
	held  interface{}      // the reply, computed but not sent yet
}

func startFakeODC(log func(map[string]interface{})) (*fakeODC, error) {
	lis, err := net.Listen("tcp", "127.0.0.1:0")
	if err != nil {
		return nil, err
	}
	s := &fakeODC{addr: lis.Addr().String(), log: log, part: map[string]string{}, runnr: map[string]uint64{}}
	s.cond = sync.NewCond(&s.mu)
	s.gs = grpc.NewServer(grpc.KeepaliveEnforcementPolicy(keepalive.EnforcementPolicy{MinTime: time.Second, PermitWithoutStream: true}))
	odcpb.RegisterODCServer(s.gs, s)
	go func() { _ = s.gs.Serve(lis) }()
	return s, nil
}

func (s *fakeODC) park(ctx context.Context, q *request) (interface{}, error) {
	q.ch = make(chan interface{}, 1)
	s.mu.Lock()
	s.arrivals = append(s.arrivals, q)
	s.cond.Broadcast()
	s.mu.Unlock()
	select {
	case rp := <-q.ch:
		if err, ok := rp.(error); ok {
			return nil, err
		}
		return rp, nil
	case <-ctx.Done():
		return nil, status.Error(codes.Canceled, "caller gone")
	}
}

func general(rp interface{}, err error) (*odcpb.GeneralReply, error) {
	if err != nil {
		return nil, err
	}
	return rp.(*odcpb.GeneralReply), nil
}
func state(rp interface{}, err error) (*odcpb.StateReply, error) {
	if err != nil {
		return nil, err
	}
	return rp.(*odcpb.StateReply), nil
}

func (s *fakeODC) Run(ctx context.Context, in *odcpb.RunRequest) (*odcpb.GeneralReply, error) {
	return general(s.park(ctx, &request{m: "Run", pid: in.GetPartitionid(), runnr: in.GetRunnr()}))
}
func (s *fakeODC) SetProperties(ctx context.Context, in *odcpb.SetPropertiesRequest) (*odcpb.GeneralReply, error) {
	return general(s.park(ctx, &request{m: "SetProperties", pid: in.GetPartitionid(), runnr: in.GetRunnr()}))
}
func (s *fakeODC) Shutdown(ctx context.Context, in *odcpb.ShutdownRequest) (*odcpb.GeneralReply, error) {
	return general(s.park(ctx, &request{m: "Shutdown", pid: in.GetPartitionid(), runnr: in.GetRunnr()}))
}
func (s *fakeODC) Configure(ctx context.Context, in *odcpb.ConfigureRequest) (*odcpb.StateReply, error) {
	return state(s.park(ctx, &request{m: "Configure", pid: in.GetRequest().GetPartitionid(), runnr: in.GetRequest().GetRunnr()}))
}
func (s *fakeODC) Start(ctx context.Context, in *odcpb.StartRequest) (*odcpb.StateReply, error) {
	return state(s.park(ctx, &request{m: "Start", pid: in.GetRequest().GetPartitionid(), runnr: in.GetRequest().GetRunnr()}))
}
func (s *fakeODC) Stop(ctx context.Context, in *odcpb.StopRequest) (*odcpb.StateReply, error) {
	return state(s.park(ctx, &request{m: "Stop", pid: in.GetRequest().GetPartitionid(), runnr: in.GetRequest().GetRunnr()}))
}
func (s *fakeODC) Reset(ctx context.Context, in *odcpb.ResetRequest) (*odcpb.StateReply, error) {
	return state(s.park(ctx, &request{m: "Reset", pid: in.GetRequest().GetPartitionid(), runnr: in.GetRequest().GetRunnr()}))
}
func (s *fakeODC) Terminate(ctx context.Context, in *odcpb.TerminateRequest) (*odcpb.StateReply, error) {
	return state(s.park(ctx, &request{m: "Terminate", pid: in.GetRequest().GetPartitionid(), runnr: in.GetRequest().GetRunnr()}))
}
func (s *fakeODC) GetState(ctx context.Context, in *odcpb.StateRequest) (*odcpb.StateReply, error) {
	return state(s.park(ctx, &request{m: "GetState", pid: in.GetPartitionid()}))
}
func (s *fakeODC) Status(ctx context.Context, in *odcpb.StatusRequest) (*odcpb.StatusReply, error) {
	rp, err := s.park(ctx, &request{m: "Status"})
	if err != nil {
		return nil, err
	}
	return rp.(*odcpb.StatusReply), nil
}

// waitArrivals blocks until n requests have parked (returned in order of arrival), or done is closed (nil, true), or the grace period
// expires (what has arrived so far, false).
func (s *fakeODC) waitArrivals(n int, done chan struct{}, grace time.Duration) ([]*request, bool) {
	stop := make(chan struct{})
	defer close(stop)
	expired, isDone := false, false
	go func() {
		t := time.NewTimer(grace)
		defer t.Stop()
		select {
		case <-done: // nil channel: never
			s.mu.Lock()
			isDone = true
		case <-t.C:
			s.mu.Lock()
			expired = true
		case <-stop:
			return
		}
		s.cond.Broadcast()
		s.mu.Unlock()
	}()
	s.mu.Lock()
	defer s.mu.Unlock()
	for {
		if len(s.arrivals) >= n && n > 0 {
			out := s.arrivals[:n:n]
			s.arrivals = s.arrivals[n:]
			return out, false
		}
		if isDone {
			return nil, true
		}
		if expired {
			out := s.arrivals
			s.arrivals = nil
			return out, false
		}
		s.cond.Wait()
	}
}

func (s *fakeODC) st(pid string) string {
	if x, ok := s.part[pid]; ok {
		return x
	}
	return "none"
}

var legalFrom = map[string][]string{
	"Run": {"none"}, "SetProperties": {"IDLE", "READY", "RUNNING"}, "Configure": {"IDLE"}, "Start": {"READY"}, "Stop": {"RUNNING"},
	"Reset": {"READY"}, "Terminate": {"IDLE"}, "Shutdown": {"IDLE", "READY", "RUNNING", "EXITING", "ERROR"},
}
var targetOf = map[string]string{"Run": "IDLE", "Configure": "READY", "Start": "RUNNING", "Stop": "READY", "Reset": "IDLE", "Terminate": "EXITING",
	"Shutdown": "none"}

// compute executes q on the table under the fault; returns the reply (or error), what the caller sees (ok | rc | err) and, for
// Status, the number of partitions listed.
func (s *fakeODC) compute(q *request, fault string) (interface{}, string, int) {
	before := s.st(q.pid)
	legal := true
	if from, ok := legalFrom[q.m]; ok {
		legal = false
		for _, x := range from {
			legal = legal || x == before
		}
	}
	if legal && (fault == "none" || fault == "lost") {
		if tgt, ok := targetOf[q.m]; ok {
			if tgt == "none" {
				delete(s.part, q.pid)
				delete(s.runnr, q.pid)
			} else {
				s.part[q.pid] = tgt
				if q.m == "Start" {
					s.runnr[q.pid] = q.runnr
				}
			}
		}
	}
	if fault == "err" || fault == "lost" {
		return status.Error(codes.Unavailable, "injected failure of ODC"), "err", 0
	}
	res, st := "ok", odcpb.ReplyStatus_SUCCESS
	var oerr *odcpb.Error
	if !legal { // refused by the state machine: status ERROR with an error description
		res, st = "rc", odcpb.ReplyStatus_ERROR
		oerr = &odcpb.Error{Code: 105, Msg: "request refused: " + q.m + " in state " + before}
	} else if fault == "rc" { // injected refusal: status ERROR alone (the other form of a failed reply)
		res, st = "rc", odcpb.ReplyStatus_ERROR
	}
	if q.m == "Status" {
		rep := &odcpb.StatusReply{Status: st, Error: oerr, Msg: "fake"}
		if res == "ok" {
			keys := make([]string, 0)
			for k := range s.part {
				keys = append(keys, k)
			}
			sort.Strings(keys)
			for _, k := range keys {
				rep.Partitions = append(rep.Partitions, &odcpb.PartitionStatus{Partitionid: k, Sessionid: "sess-" + k[:4], Status: odcpb.SessionStatus_RUNNING,
					State: s.part[k], Runnr: s.runnr[k]})
			}
		}
		return rep, res, len(rep.Partitions)
	}
	gr := &odcpb.GeneralReply{Status: st, Error: oerr, Msg: "fake", Partitionid: q.pid, Sessionid: "sess", State: s.st(q.pid), Runnr: q.runnr}
	switch q.m {
	case "Run", "SetProperties", "Shutdown":
		return gr, res, 0
	case "GetState":
		return &odcpb.StateReply{Reply: gr, Devices: []*odcpb.Device{{Id: 1, State: s.st(q.pid), Path: "main/dev", Host: "epn001"}}}, res, 0
	}
	return &odcpb.StateReply{Reply: gr}, res, 0
}

// apply: the request takes effect now; send = the reply goes out now (else it is held in q.held).
func (s *fakeODC) apply(q *request, fault string, send bool, alias func(string) string, extra map[string]interface{}) (string, int) {
	s.mu.Lock()
	before := s.st(q.pid)
	rp, res, n := s.compute(q, fault)
	if extra != nil {
		line := map[string]interface{}{"m": q.m, "p": alias(q.pid), "runnr": int(q.runnr), "f": fault, "res": res, "before": before, "after": s.st(q.pid)}
		if sr, ok := rp.(*odcpb.StatusReply); ok {
			list := map[string]string{}
			for _, x := range sr.GetPartitions() {
				list[alias(x.GetPartitionid())] = x.GetState()
			}
			line["list"] = list
		}
		for k, v := range extra {
			line[k] = v
		}
		s.log(line)
	}
	s.mu.Unlock()
	if send {
		q.ch <- rp
	} else {
		q.held = rp
	}
	return res, n
}

func (s *fakeODC) release(q *request) { q.ch <- q.held }

func (s *fakeODC) own(pid string) {
	s.mu.Lock()
	if st := s.st(pid); st == "IDLE" || st == "READY" || st == "RUNNING" {
		s.part[pid] = "ERROR"
	}
	s.mu.Unlock()
}

func (s *fakeODC) table(pids map[string]string) map[string]string {
	s.mu.Lock()
	defer s.mu.Unlock()
	out := map[string]string{}
	for pid, a := range pids {
		out[a] = s.st(pid)
	}
	return out
}

func (s *fakeODC) reset() {
	s.mu.Lock()
	s.part, s.runnr = map[string]string{}, map[string]uint64{}
	s.mu.Unlock()
}

func (s *fakeODC) stray() int {
	s.mu.Lock()
	defer s.mu.Unlock()
	return len(s.arrivals)
}
