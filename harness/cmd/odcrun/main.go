// Command odcrun replays scenarios generated from spec/OdcRun.tla (X07) on the real ODC integration plugin
// (core/integration/odc). One fake ODC server (fakeodc.go, the real odc.proto service over a real gRPC connection) and one real
// plugin (odc.NewPlugin + Init: dials and starts its polling goroutine, interval 1 ms) serve all scenarios of a process. Steps:
//
//	hook  - the plugin's CallStack function (PartitionInitialize, Configure, Start, Stop, Reset, PartitionTerminate, EnsureCleanup,
//	        EnsureCleanupLegacy) is invoked - if it is not in progress - with a real *callable.Call; the request it has sent PARKS in
//	        the fake server and takes effect now with the scripted fault (none | rc | err | lost)
//	shut  - one of the parallel Shutdown requests of an EnsureCleanup in progress (by partition) takes effect
//	own   - a device of a partition crashes (-> ERROR)
//	ecs   - NewRun (run_number of the next hooks) | GoError | Destroy (the environment leaves the manager's map: its partition
//	        becomes an orphan for the cleanup of others)
//	pollq - the poller's parked Status request takes effect (snapshot); the GetState requests that follow park
//	polls - they are answered: the plugin replaces cachedStatus and reports state changes to the environment manager
//
// All synchronisation is blocking: a step waits until the goroutine it released has returned or parked again; the poller is at rest
// when its next Status request has parked. The notifications to the environment manager are sent from goroutines of their own: the
// driver knows how many to expect from the "odc.partitionStateChanged" events the plugin publishes synchronously (captured through
// the.VerifSetWriterFactory) and reads them from the manager's incoming channel (swapped for its own by reflection, so that the
// manager's event loop - which would need real environments - does not see them).
package main

import (
	"bufio"
	"encoding/json"
	"flag"
	"fmt"
	"io"
	"os"
	"reflect"
	"sort"
	"strconv"
	"strings"
	"sync"
	"time"
	"unsafe"

	"github.com/AliceO2Group/Control/common/event"
	"github.com/AliceO2Group/Control/common/event/topic"
	pb "github.com/AliceO2Group/Control/common/protos"
	"github.com/AliceO2Group/Control/common/utils/uid"
	"github.com/AliceO2Group/Control/core/environment"
	"github.com/AliceO2Group/Control/core/integration/odc"
	"github.com/AliceO2Group/Control/core/task"
	"github.com/AliceO2Group/Control/core/the"
	"github.com/AliceO2Group/Control/core/workflow/callable"
	"github.com/sirupsen/logrus"
	"github.com/spf13/viper"

	"verif/harness/vtrace"
)

type Step struct {
	K   string `json:"k"`
	E   string `json:"e"`
	Fn  string `json:"fn"`
	F   string `json:"f"`
	C   string `json:"c"`
	New bool   `json:"new"` // hook: this step starts an invocation
	N   int    `json:"n"`   // hook: requests the hook is expected to park after this one (default 1; EnsureCleanup's Status: the Shutdowns)
	P   string `json:"p"`   // shut, own: partition (environment alias)
	R   int    `json:"r"`   // NewRun
}

type Scenario struct {
	ID    int      `json:"id"`
	Envs  []string `json:"envs"`
	Steps []Step   `json:"steps"`
}

var watchdog = flag.Duration("watchdog", 120*time.Second, "how long a blocking wait may last before the run is declared wedged (exit 2)")
var grace = flag.Duration("grace", 2*time.Second, "how long the driver waits for something the code under test may never do, before recording that it did not")

func die(format string, a ...interface{}) {
	fmt.Fprintf(os.Stderr, "odcrun: "+format+"\n", a...)
	os.Exit(2)
}

func field(v reflect.Value, name string, typ reflect.Type) unsafe.Pointer {
	f := v.FieldByName(name)
	if !f.IsValid() || (typ != nil && f.Type() != typ) {
		die("%s has no field %s of the expected type (the code changed shape: adapt the driver)", v.Type(), name)
	}
	return unsafe.Pointer(f.UnsafeAddr())
}

// ---------- environment manager: ids for the cleanup, and the channel the plugin's notifications go to ----------

type envManager struct {
	mu    *sync.RWMutex
	m     *map[uid.ID]*environment.Environment
	notes chan event.Event
}

func newEnvManager() *envManager {
	old := make(chan event.Event)
	mgr := environment.NewEnvManager(nil, old)
	v := reflect.ValueOf(mgr).Elem()
	em := &envManager{mu: (*sync.RWMutex)(field(v, "mu", reflect.TypeOf(sync.RWMutex{}))),
		m:     (*map[uid.ID]*environment.Environment)(field(v, "m", reflect.TypeOf(map[uid.ID]*environment.Environment{}))),
		notes: make(chan event.Event, 4096)}
	// The manager's event loop would act on the notifications (it needs real environments for that) and would compete with the driver
	// for them. It is parked for good first: a TasksReleasedEvent for an environment with a pending teardown nobody waits for makes the
	// loop block on handing the event over. The blocking send below returns once the loop has taken the event.
	dummy := uid.New()
	pt := (*map[uid.ID]chan *event.TasksReleasedEvent)(field(v, "pendingTeardownsCh", reflect.TypeOf(map[uid.ID]chan *event.TasksReleasedEvent{})))
	em.mu.Lock()
	(*pt)[dummy] = make(chan *event.TasksReleasedEvent)
	em.mu.Unlock()
	old <- event.NewTasksReleasedEvent(dummy, nil, nil)
	// from now on NotifyIntegratedServiceEvent sends to the driver's channel
	*(*chan event.Event)(field(v, "incomingEventCh", reflect.TypeOf(make(chan event.Event)))) = em.notes
	return em
}

func (em *envManager) set(ids []uid.ID) {
	em.mu.Lock()
	for k := range *em.m {
		delete(*em.m, k)
	}
	for _, id := range ids {
		(*em.m)[id] = new(environment.Environment)
	}
	em.mu.Unlock()
}

func (em *envManager) remove(id uid.ID) {
	em.mu.Lock()
	delete(*em.m, id)
	em.mu.Unlock()
}

// ---------- capture of what the plugin publishes: partition state changes (counted and kept) ----------

type capture struct {
	mu  sync.Mutex
	pub [][]string // environment id, state
}

func (c *capture) WriteEvent(e interface{}) {
	ev, ok := e.(*pb.Ev_IntegratedServiceEvent)
	if !ok || ev.GetName() != "odc.partitionStateChanged" {
		return
	}
	var pl struct {
		State string `json:"state"`
	}
	_ = json.Unmarshal([]byte(ev.GetPayload()), &pl)
	c.mu.Lock()
	c.pub = append(c.pub, []string{ev.GetEnvironmentId(), pl.State})
	c.mu.Unlock()
}
func (c *capture) WriteEventWithTimestamp(e interface{}, _ time.Time) { c.WriteEvent(e) }
func (c *capture) Close()                                             {}
func (c *capture) take() [][]string {
	c.mu.Lock()
	defer c.mu.Unlock()
	out := c.pub
	c.pub = nil
	return out
}

// ---------- a parent role for the calls ----------

type role struct {
	env  uid.ID
	setG func(k, v string)
}

func (r *role) GetPath() string { return "verif.odc" }
func (r *role) GetTaskTraits() task.Traits {
	return task.Traits{Trigger: "x", Timeout: "1h", Critical: true}
}
func (r *role) GetEnvironmentId() uid.ID                         { return r.env }
func (r *role) ConsolidatedVarStack() (map[string]string, error) { return map[string]string{}, nil }
func (r *role) SendEvent(event.Event)                            {}
func (r *role) SetRuntimeVar(string, string)                     {}
func (r *role) SetRuntimeVars(map[string]string)                 {}
func (r *role) DeleteRuntimeVar(string)                          {}
func (r *role) DeleteRuntimeVars([]string)                       {}
func (r *role) SetGlobalRuntimeVar(k, v string)                  { r.setG(k, v) }
func (r *role) SetGlobalRuntimeVars(map[string]string)           {}
func (r *role) DeleteGlobalRuntimeVar(string)                    {}
func (r *role) DeleteGlobalRuntimeVars([]string)                 {}
func (r *role) GetCurrentRunNumber() uint32                      { return 0 }

// ---------- one scenario ----------

type envState struct {
	alias string
	id    uid.ID
	live  bool
	rn    int
	gvars map[string]string // global runtime vars the plugin set (e.g. __odc_partitioninitialize_called)
	fn    string
	done  chan struct{}
	call  *callable.Call
	reqs  []*request // parked requests of the hook in progress
}

type runner struct {
	rec  *vtrace.Recorder
	srv  *fakeODC
	p    *odc.Plugin
	em   *envManager
	cap  *capture
	scn  *Scenario
	envs map[string]*envState
	byID map[string]string
	poll *request   // the poller's parked Status request
	held bool       // ... has taken effect, its reply is held (nothing to ask GetState for, or the call failed)
	gets []*request // the poller's parked GetState requests

	orphans    []*request // requests nobody in the scenario asked for (failed at the end)
	unexpected bool
}

func (r *runner) emit(ev string, kv ...interface{}) {
	r.rec.Emit(ev, append([]interface{}{"scn", r.scn.ID}, kv...)...)
}

func (r *runner) alias(id string) string {
	if a, ok := r.byID[id]; ok {
		return a
	}
	return id
}

func (r *runner) stuck(what string) {
	r.emit("Stuck", "what", what)
	r.rec.Close()
	die("scenario %d: %s did not happen within %s", r.scn.ID, what, *watchdog)
}

// waitPoller blocks until the poller has parked its next Status request; false: something else arrived first (a request of a hook
// the scenario did not expect) - it is kept for the end of the scenario.
func (r *runner) waitPoller() bool {
	for {
		qs, _ := r.srv.waitArrivals(1, nil, *watchdog)
		if len(qs) != 1 {
			r.stuck("the poller sending its next Status request")
		}
		if qs[0].m == "Status" {
			r.poll, r.held, r.gets = qs[0], false, nil
			return true
		}
		r.orphans = append(r.orphans, qs[0])
		if len(r.orphans) > 64 {
			r.stuck("the poller sending its next Status request (other requests keep arriving)")
		}
		r.unexpected = true
	}
}

// waitHook blocks until the hook of es has returned (true) or parked n more requests (false); short = fewer arrived within the grace.
func (r *runner) waitHook(es *envState, n int) (returned bool, short bool) {
	if n <= 0 {
		// the scenario expects the hook to return; a request it parks instead is kept (the observation shows it) and reported
		qs, done := r.srv.waitArrivals(1, es.done, *watchdog)
		if done {
			return true, false
		}
		if len(qs) == 0 {
			r.stuck("hook " + es.fn + " of " + es.alias + " returning")
		}
		es.reqs = append(es.reqs, qs...)
		return false, true
	}
	g := *watchdog
	if n > 1 {
		g = *grace
	}
	qs, done := r.srv.waitArrivals(n, es.done, g)
	if done {
		return true, false
	}
	es.reqs = append(es.reqs, qs...)
	if len(qs) < n {
		if n == 1 {
			r.stuck("hook " + es.fn + " of " + es.alias + " returning or sending its next request")
		}
		return false, true
	}
	return false, false
}

func (r *runner) finish(es *envState, c string) {
	failed := es.call.VarStack["__call_error"] != ""
	r.emit("Ret", "e", es.alias, "fn", es.fn, "failed", failed, "reason", es.call.VarStack["__call_error_reason"], "c", c)
	es.fn, es.done, es.call, es.reqs = "", nil, nil, nil
}

func (r *runner) varStack(es *envState) map[string]string {
	vs := map[string]string{"environment_id": string(es.id), "__call_timeout": "1h", "pdp_config_option": "Manual XML",
		"odc_topology": "<topology name=\"verif\"/>", "odc_plugin": "slurm", "odc_resources": "{\"zone\":\"online\",\"n\":1}",
		"run_type": "PHYSICS", "detectors": "[\"TPC\"]", "__fmq_cleanup_count": "1", "run_start_time_ms": "1000", "run_end_time_ms": "2000"}
	if es.rn != 0 {
		vs["run_number"] = strconv.Itoa(es.rn)
	}
	for k, v := range es.gvars {
		vs[k] = v
	}
	return vs
}

func (r *runner) run() {
	s := r.scn
	r.srv.reset()
	r.cap.take()
	for len(r.em.notes) > 0 {
		<-r.em.notes
	}
	r.envs, r.byID = map[string]*envState{}, map[string]string{}
	ids := make([]uid.ID, 0)
	sort.Strings(s.Envs)
	for _, a := range s.Envs {
		id := uid.New()
		r.envs[a] = &envState{alias: a, id: id, live: true, gvars: map[string]string{}}
		r.byID[string(id)] = a
		ids = append(ids, id)
	}
	r.em.set(ids)
	// the plugin's cache belongs to the previous scenario: forget it (the poller is parked, nobody touches it)
	pv := reflect.ValueOf(r.p).Elem()
	cmu := (*sync.RWMutex)(field(pv, "cachedStatusMu", reflect.TypeOf(sync.RWMutex{})))
	cmu.Lock()
	*(**odc.OdcStatus)(field(pv, "cachedStatus", reflect.TypeOf(&odc.OdcStatus{}))) = nil
	cmu.Unlock()
	r.emit("Reset", "envs", s.Envs)
	r.observe(nil, nil)
	aborted := false
	for i, st := range s.Steps {
		var notes, pub [][]string
		switch st.K {
		case "own":
			r.srv.own(string(r.envs[st.P].id))
			r.emit("Own", "p", st.P)
		case "ecs":
			es := r.envs[st.E]
			switch st.Fn {
			case "NewRun":
				es.rn = st.R
			case "Destroy":
				es.live = false
				r.em.remove(es.id)
			}
			r.emit("Ecs", "a", st.Fn, "e", st.E, "r", st.R)
		case "hook", "shut":
			es := r.envs[st.E]
			if st.K == "hook" && (es.fn == "") != st.New {
				r.emit("Mismatch", "step", i, "why", fmt.Sprintf("hook %s of %s: in progress %v, the scenario starts one %v", st.Fn, st.E, es.fn != "", st.New))
				aborted = true
				break
			}
			first := es.fn == ""
			if es.fn == "" {
				es.fn = st.Fn
				es.call = callable.NewCall("odc."+st.Fn+"()", "", &role{env: es.id, setG: func(k, v string) { es.gvars[k] = v }})
				es.call.VarStack = r.varStack(es)
				f, ok := r.p.CallStack(es.call)[st.Fn].(func() string)
				if !ok {
					die("scenario %d: the plugin's CallStack has no function %s", s.ID, st.Fn)
				}
				es.done = make(chan struct{})
				done := es.done
				go func() {
					defer close(done)
					f()
				}()
				if ret, _ := r.waitHook(es, 1); ret {
					r.emit("Skip", "e", st.E, "fn", st.Fn)
					r.finish(es, st.C)
					break
				}
			}
			// the request this step is about
			idx := -1
			for k, q := range es.reqs {
				if st.K == "hook" || r.alias(q.pid) == st.P {
					idx = k
					break
				}
			}
			if idx < 0 || (st.K == "shut" && es.reqs[idx].m != "Shutdown") {
				r.emit("Mismatch", "step", i, "why", "the hook of "+st.E+" has no such request parked")
				aborted = true
				break
			}
			q := es.reqs[idx]
			es.reqs = append(es.reqs[:idx], es.reqs[idx+1:]...)
			res, _ := r.srv.apply(q, st.F, true, r.alias, map[string]interface{}{"src": "hook", "e": st.E, "fn": es.fn, "scn": s.ID, "first": first})
			_ = res
			n := 1
			if st.K == "shut" {
				n = 0
				if len(es.reqs) > 0 {
					break // its parallel siblings stay parked; the released one finishes on its own
				}
			} else if es.fn == "EnsureCleanup" && q.m == "Status" {
				n = st.N
			}
			ret, short := r.waitHook(es, n)
			if short {
				r.observe(nil, nil)
				r.emit("Mismatch", "step", i, "why", fmt.Sprintf("the hook of %s has %d requests parked, the scenario expects %d more or its return", st.E, len(es.reqs), n))
				aborted = true
				break
			}
			if ret {
				r.finish(es, st.C)
			}
		case "pollq":
			if r.poll == nil || r.held || len(r.gets) > 0 {
				r.emit("Mismatch", "step", i, "why", "the poller is not parked at a fresh Status request")
				aborted = true
				break
			}
			// the snapshot is taken now; if there is nothing to ask GetState for (or the call fails) the reply itself is held
			r.srv.mu.Lock()
			k := len(r.srv.part)
			r.srv.mu.Unlock()
			hold := st.F != "none" || k == 0
			_, n := r.srv.apply(r.poll, st.F, !hold, r.alias, map[string]interface{}{"src": "poll", "e": "", "fn": "poll", "scn": s.ID, "first": false})
			r.held = hold
			if !hold {
				qs, _ := r.srv.waitArrivals(n, nil, *watchdog)
				if len(qs) != n {
					r.stuck("the poller asking GetState for every partition")
				}
				r.gets = qs
			}
		case "polls":
			if r.poll == nil || (!r.held && len(r.gets) == 0) {
				r.emit("Mismatch", "step", i, "why", "no poll is under way")
				aborted = true
				break
			}
			if r.held {
				r.srv.release(r.poll)
			}
			for _, q := range r.gets {
				r.srv.apply(q, "none", true, r.alias, nil)
			}
			r.waitPoller() // queryPartitionStatus has finished: the cache is replaced, the events are published
			if r.unexpected {
				r.emit("Mismatch", "step", i, "why", "requests of a hook arrived that the scenario does not know")
				aborted = true
			}
			pub = r.cap.take()
			notes = make([][]string, 0)
			for range pub { // one notification goroutine per published change
				select {
				case ev := <-r.em.notes:
					if oe, ok := ev.(interface {
						GetEnvironmentId() uid.ID
						GetState() string
					}); ok {
						notes = append(notes, []string{r.alias(string(oe.GetEnvironmentId())), oe.GetState()})
					} else {
						notes = append(notes, []string{"?", fmt.Sprintf("%T", ev)})
					}
				case <-time.After(*grace):
				}
			}
			for k := range pub {
				pub[k][0] = r.alias(pub[k][0])
			}
			r.emit("PollStore")
		default:
			die("scenario %d: unknown step kind %q", s.ID, st.K)
		}
		if aborted {
			break
		}
		r.observe(notes, pub)
	}
	// The end of the scenario: every request that is parked or still arrives is failed until all hooks have returned; then the poller
	// is brought back to a fresh, parked Status request. Bounded: a plugin that never comes to rest is a wedged run (exit 2).
	pending := func() bool {
		for _, a := range s.Envs {
			if r.envs[a].fn != "" {
				return true
			}
		}
		return false
	}
	for _, a := range s.Envs {
		for _, q := range r.envs[a].reqs {
			r.srv.apply(q, "err", true, r.alias, nil)
		}
		r.envs[a].reqs = nil
	}
	for _, q := range r.orphans {
		r.srv.apply(q, "err", true, r.alias, nil)
	}
	r.orphans = nil
	if r.held {
		r.srv.release(r.poll)
	} else if len(r.gets) > 0 {
		for _, q := range r.gets {
			r.srv.apply(q, "none", true, r.alias, nil)
		}
	} else if r.poll != nil && pending() {
		r.srv.apply(r.poll, "err", true, r.alias, nil)
	} else if r.poll != nil && r.srv.stray() == 0 {
		goto rest // nothing to clean up: the poller is parked at a fresh request
	}
	r.poll, r.held, r.gets = nil, false, nil
	for round := 0; pending(); round++ {
		if round > 2000 {
			r.stuck("the hooks coming to an end")
		}
		for _, a := range s.Envs {
			es := r.envs[a]
			if es.fn == "" {
				continue
			}
			select {
			case <-es.done:
				es.fn = ""
			default:
			}
		}
		if !pending() {
			break
		}
		qs, _ := r.srv.waitArrivals(1, nil, 50*time.Millisecond)
		for _, q := range qs {
			r.srv.apply(q, "err", true, r.alias, nil)
		}
	}
	// whatever the poller has under way is failed until it parks a Status request with nothing else around
	for round := 0; ; round++ {
		if round > 2000 {
			r.stuck("the poller coming to rest")
		}
		qs, _ := r.srv.waitArrivals(1, nil, *watchdog)
		if len(qs) == 0 {
			r.stuck("the poller sending a Status request")
		}
		if qs[0].m == "Status" && r.srv.stray() == 0 {
			r.poll = qs[0]
			break
		}
		r.srv.apply(qs[0], "err", true, r.alias, nil)
	}
rest:
	r.emit("Fin")
}

func sortPairs(x [][]string) [][]string {
	if x == nil {
		return make([][]string, 0)
	}
	sort.Slice(x, func(i, j int) bool { return x[i][0]+"/"+x[i][1] < x[j][0]+"/"+x[j][1] })
	return x
}

func (r *runner) observe(notes, pub [][]string) {
	pids := map[string]string{}
	hp := map[string][]string{}
	hpl := make([][]string, 0)
	for a, es := range r.envs {
		for _, q := range es.reqs {
			hpl = append(hpl, []string{a, es.fn, q.m, r.alias(q.pid)})
		}
	}
	sort.Slice(hpl, func(i, j int) bool { return strings.Join(hpl[i], "/") < strings.Join(hpl[j], "/") })
	for a, es := range r.envs {
		pids[string(es.id)] = a
		l := make([]string, 0)
		for _, q := range es.reqs {
			if q.m == "Shutdown" && es.fn == "EnsureCleanup" {
				l = append(l, "Shutdown:"+r.alias(q.pid))
			} else {
				l = append(l, q.m)
			}
		}
		sort.Strings(l)
		hp[a] = l
	}
	pp := "Status"
	if r.held || len(r.gets) > 0 {
		pp = "snap"
	}
	gd := map[string]string{}
	for _, a := range r.scn.Envs {
		gd[a] = "-"
	}
	if txt := r.p.GetData(nil); txt != "" {
		var m map[string]map[string]string
		if err := json.Unmarshal([]byte(txt), &m); err != nil {
			die("GetData is not JSON: %v", err)
		}
		for id, x := range m {
			gd[r.alias(id)] = x["state"]
		}
	}
	r.emit("Obs", "odc", r.srv.table(pids), "hp", hp, "pp", pp, "gd", gd, "notes", sortPairs(notes), "pub", sortPairs(pub), "polled", notes != nil,
		"stray", r.srv.stray(), "hpl", hpl)
}

func main() {
	in := flag.String("scenarios", "", "")
	out := flag.String("trace", "", "")
	flag.Parse()
	logrus.SetOutput(io.Discard)
	logrus.SetLevel(logrus.PanicLevel)
	viper.Set("enableKafka", false)
	viper.Set("odcPollingInterval", "1ms")
	f, err := os.Open(*in)
	if err != nil {
		die("%v", err)
	}
	rec, err := vtrace.New(*out)
	if err != nil {
		die("%v", err)
	}
	cap := &capture{}
	the.VerifSetWriterFactory(func(topic.Topic) event.Writer { return cap })
	em := newEnvManager()
	srv, err := startFakeODC(func(line map[string]interface{}) { rec.EmitMap("Req", line) })
	if err != nil {
		die("fake ODC: %v", err)
	}
	viper.Set("odcEndpoint", srv.addr)
	p, ok := odc.NewPlugin("//" + srv.addr).(*odc.Plugin)
	if !ok || p == nil {
		die("odc.NewPlugin did not return a *odc.Plugin")
	}
	if err := p.Init("verif"); err != nil {
		die("plugin Init: %v", err)
	}
	r0 := &runner{rec: rec, srv: srv, p: p, em: em, cap: cap, scn: &Scenario{}}
	r0.waitPoller()
	poll := r0.poll
	sc := bufio.NewScanner(f)
	sc.Buffer(make([]byte, 1<<20), 1<<26)
	n := 0
	t0 := time.Now()
	for sc.Scan() {
		if len(strings.TrimSpace(sc.Text())) == 0 {
			continue
		}
		var s Scenario
		if err := json.Unmarshal(sc.Bytes(), &s); err != nil {
			die("%v", err)
		}
		r := &runner{rec: rec, srv: srv, p: p, em: em, cap: cap, scn: &s, poll: poll}
		r.run()
		poll = r.poll
		n++
	}
	rec.Close()
	fmt.Printf("scenarios=%d lines=%d wall=%.1fs\n", n, rec.Lines(), time.Since(t0).Seconds())
}
