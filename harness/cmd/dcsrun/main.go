// Command dcsrun replays scenarios generated from spec/DcsRun.tla (X05) on the real DCS integration plugin
// (core/integration/dcs). One fake DCS gateway (fakedcs.go, the real dcs.proto service over a real gRPC connection) and one
// real plugin (dcs.NewPlugin + Init: dials, subscribes, starts its event goroutine) serve all scenarios of a process; between
// scenarios the plugin's maps are cleared. Steps:
//
//	hb / sc - a HEARTBEAT / STATE_CHANGE_EVENT on the Subscribe stream (the plugin's detector cache)
//	ecs     - NewRun / EndRun / GoError / Destroy: what the environment does on its own (run_number of the next hooks)
//	open    - the plugin's CallStack function (PrepareForRun, StartOfRun, EndOfRun, Cleanup) is invoked with a real
//	          *callable.Call in its own goroutine; f = "fail" makes the gRPC call itself return an error
//	ev      - one RunEvent {detector, state} on the open stream of the environment's hook
//	end     - the stream ends: eof | tmo (status DeadlineExceeded, or - "ctmo" - the hook's own deadline expiring) | grpc | unk
//
// Synchronisation is blocking and exact: the plugin's gRPC client stub is wrapped (RpcClient.ConfiguratorClient is an exported
// embedded interface) so that the driver knows when the hook goroutine has entered stream.Recv() again - everything the hook
// does with an event, and the bookkeeping after the call opened, is finished by then - or has returned. Heartbeats are
// acknowledged by the event the plugin publishes from updateDetectorOpAvailabilities (captured through the.VerifSetWriterFactory).
// The only timers are a watchdog (exit 2, inconclusive) and the plugin's own 1 s sleep when the availability gate is closed.
// After each step: pendingEORs (unexported, by reflection), the gateway's table, the detector cache (GetData),
// PartitionInfo.SorSuccessful (GetEnvironmentsData) and, for a hook in progress, whether it has set __call_error.
package main

import (
	"bufio"
	"context"
	"encoding/json"
	"flag"
	"fmt"
	"io"
	"os"
	"reflect"
	"sort"
	"strconv"
	"strings"
	"sync"
	"time"
	"unsafe"

	"github.com/AliceO2Group/Control/common/event"
	"github.com/AliceO2Group/Control/common/event/topic"
	pb "github.com/AliceO2Group/Control/common/protos"
	"github.com/AliceO2Group/Control/common/utils/uid"
	"github.com/AliceO2Group/Control/core/environment"
	"github.com/AliceO2Group/Control/core/integration/dcs"
	dcspb "github.com/AliceO2Group/Control/core/integration/dcs/protos"
	"github.com/AliceO2Group/Control/core/task"
	"github.com/AliceO2Group/Control/core/the"
	"github.com/AliceO2Group/Control/core/workflow/callable"
	"github.com/sirupsen/logrus"
	"github.com/spf13/viper"
	"google.golang.org/grpc"
	"google.golang.org/grpc/codes"
	"google.golang.org/grpc/status"

	"verif/harness/vtrace"
)

type Step struct {
	K   string `json:"k"`
	E   string `json:"e"`
	Fn  string `json:"fn"`
	F   string `json:"f"`
	C   string `json:"c"`
	R   int    `json:"r"`
	D   string `json:"d"`
	S   string `json:"s"`
	P   string `json:"p"`   // hb: pfr availability; sc: which ("pfr"|"sor")
	V   string `json:"v"`   // hb: sor availability; sc: value ("yes"|"no")
	How string `json:"how"` // end
	To  string `json:"to"`  // open: __call_timeout (default 1h)
}

type Scenario struct {
	ID    int                 `json:"id"`
	Dets  map[string][]string `json:"dets"` // environment alias -> dcs_detectors
	Other []string            `json:"other"`
	Steps []Step              `json:"steps"`
}

var watchdog = flag.Duration("watchdog", 120*time.Second, "how long a blocking wait may last before the run is declared wedged (exit 2)")

func die(format string, a ...interface{}) {
	fmt.Fprintf(os.Stderr, "dcsrun: "+format+"\n", a...)
	os.Exit(2)
}

// ---------- synchronisation with the hook goroutines ----------

type syncer struct {
	mu   sync.Mutex
	cond *sync.Cond
	hb   int // events published by updateDetectorOpAvailabilities
}

func newSyncer() *syncer { s := &syncer{}; s.cond = sync.NewCond(&s.mu); return s }

// wait blocks until pred() holds (pred is evaluated under the syncer's mutex); false = watchdog.
func (s *syncer) wait(pred func() bool) bool {
	stop := make(chan struct{})
	defer close(stop)
	expired := false
	go func() {
		t := time.NewTimer(*watchdog)
		defer t.Stop()
		select {
		case <-t.C:
			s.mu.Lock()
			expired = true
			s.cond.Broadcast()
			s.mu.Unlock()
		case <-stop:
		}
	}()
	s.mu.Lock()
	defer s.mu.Unlock()
	for !pred() {
		if expired {
			return false
		}
		s.cond.Wait()
	}
	return true
}

func (s *syncer) signal(f func()) {
	s.mu.Lock()
	f()
	s.cond.Broadcast()
	s.mu.Unlock()
}

// invocation is one hook call in progress.
type invocation struct {
	recvs    int  // times the hook has entered Recv on its stream
	returned bool // the hook function has returned
	opened   bool // the gRPC call returned a stream
}

// wrapped client stub: injects "the call itself fails" and reports Recv entries
type stubWrap struct {
	dcspb.ConfiguratorClient
	sy       *syncer
	cur      *invocation // the invocation being opened (one at a time)
	failNext bool
}

type streamWrap struct {
	grpc.ClientStream
	recv func() (*dcspb.RunEvent, error)
	sy   *syncer
	inv  *invocation
}

func (w *streamWrap) Recv() (*dcspb.RunEvent, error) {
	w.sy.signal(func() { w.inv.recvs++ })
	return w.recv()
}

func (c *stubWrap) open(f func() (grpc.ClientStream, func() (*dcspb.RunEvent, error), error)) (*streamWrap, error) {
	var inv *invocation
	fail := false
	c.sy.signal(func() { inv = c.cur; fail = c.failNext; c.failNext = false })
	if fail {
		return nil, status.Error(codes.Unavailable, "injected: the DCS gateway cannot be reached")
	}
	cs, recv, err := f()
	if err != nil {
		return nil, err
	}
	if inv == nil {
		inv = &invocation{}
	}
	c.sy.signal(func() { inv.opened = true })
	return &streamWrap{ClientStream: cs, recv: recv, sy: c.sy, inv: inv}, nil
}

func (c *stubWrap) PrepareForRun(ctx context.Context, in *dcspb.PfrRequest, opts ...grpc.CallOption) (dcspb.Configurator_PrepareForRunClient, error) {
	return c.open(func() (grpc.ClientStream, func() (*dcspb.RunEvent, error), error) {
		s, err := c.ConfiguratorClient.PrepareForRun(ctx, in, opts...)
		if err != nil {
			return nil, nil, err
		}
		return s, s.Recv, nil
	})
}
func (c *stubWrap) StartOfRun(ctx context.Context, in *dcspb.SorRequest, opts ...grpc.CallOption) (dcspb.Configurator_StartOfRunClient, error) {
	return c.open(func() (grpc.ClientStream, func() (*dcspb.RunEvent, error), error) {
		s, err := c.ConfiguratorClient.StartOfRun(ctx, in, opts...)
		if err != nil {
			return nil, nil, err
		}
		return s, s.Recv, nil
	})
}
func (c *stubWrap) EndOfRun(ctx context.Context, in *dcspb.EorRequest, opts ...grpc.CallOption) (dcspb.Configurator_EndOfRunClient, error) {
	return c.open(func() (grpc.ClientStream, func() (*dcspb.RunEvent, error), error) {
		s, err := c.ConfiguratorClient.EndOfRun(ctx, in, opts...)
		if err != nil {
			return nil, nil, err
		}
		return s, s.Recv, nil
	})
}

// capture writer: only counts what updateDetectorOpAvailabilities publishes (acknowledgement of a heartbeat)
type capture struct{ sy *syncer }

func (c *capture) WriteEvent(e interface{}) {
	if ev, ok := e.(*pb.Ev_IntegratedServiceEvent); ok && ev.GetName() == "dcs.updateDetectorOpAvailabilities" {
		c.sy.signal(func() { c.sy.hb++ })
	}
}
func (c *capture) WriteEventWithTimestamp(e interface{}, _ time.Time) { c.WriteEvent(e) }
func (c *capture) Close()                                             {}

// ---------- unexported state of the plugin and of the environment manager, by reflection ----------

func field(v reflect.Value, name string, typ reflect.Type) unsafe.Pointer {
	f := v.FieldByName(name)
	if !f.IsValid() || (typ != nil && f.Type() != typ) {
		die("%s has no field %s of the expected type (the code changed shape: adapt the driver)", v.Type(), name)
	}
	return unsafe.Pointer(f.UnsafeAddr())
}

type envManager struct {
	mu *sync.RWMutex
	m  *map[uid.ID]*environment.Environment
}

func newEnvManager() *envManager {
	mgr := environment.NewEnvManager(nil, make(chan event.Event))
	if environment.ManagerInstance() != mgr {
		die("environment.ManagerInstance() is not the manager just created")
	}
	v := reflect.ValueOf(mgr).Elem()
	return &envManager{mu: (*sync.RWMutex)(field(v, "mu", reflect.TypeOf(sync.RWMutex{}))),
		m: (*map[uid.ID]*environment.Environment)(field(v, "m", reflect.TypeOf(map[uid.ID]*environment.Environment{})))}
}

func (em *envManager) set(ids []uid.ID) {
	em.mu.Lock()
	for k := range *em.m {
		delete(*em.m, k)
	}
	for _, id := range ids {
		(*em.m)[id] = new(environment.Environment)
	}
	em.mu.Unlock()
}

func (em *envManager) remove(id uid.ID) {
	em.mu.Lock()
	delete(*em.m, id)
	em.mu.Unlock()
}

// ---------- a parent role for the calls ----------

type role struct{ env uid.ID }

func (r *role) GetPath() string { return "verif.dcs" }
func (r *role) GetTaskTraits() task.Traits {
	return task.Traits{Trigger: "x", Timeout: "1h", Critical: true}
}
func (r *role) GetEnvironmentId() uid.ID                         { return r.env }
func (r *role) ConsolidatedVarStack() (map[string]string, error) { return map[string]string{}, nil }
func (r *role) SendEvent(event.Event)                            {}
func (r *role) SetRuntimeVar(string, string)                     {}
func (r *role) SetRuntimeVars(map[string]string)                 {}
func (r *role) DeleteRuntimeVar(string)                          {}
func (r *role) DeleteRuntimeVars([]string)                       {}
func (r *role) SetGlobalRuntimeVar(string, string)               {}
func (r *role) SetGlobalRuntimeVars(map[string]string)           {}
func (r *role) DeleteGlobalRuntimeVar(string)                    {}
func (r *role) DeleteGlobalRuntimeVars([]string)                 {}
func (r *role) GetCurrentRunNumber() uint32                      { return 0 }

// ---------- the process-wide fixture ----------

type fixture struct {
	rec   *vtrace.Recorder
	sy    *syncer
	srv   *fakeDCS
	p     *dcs.Plugin
	stub  *stubWrap
	em    *envManager
	pend  map[string]int64
	dmap  *dcs.DCSDetectorInfoMap
	dmu   *sync.RWMutex
	scnID int
}

func newFixture(rec *vtrace.Recorder) *fixture {
	fx := &fixture{rec: rec, sy: newSyncer()}
	the.VerifSetWriterFactory(func(topic.Topic) event.Writer { return &capture{sy: fx.sy} })
	fx.em = newEnvManager()
	srv, err := startFakeDCS(func(line map[string]interface{}) {
		line["scn"] = fx.scnID
		rec.EmitMap("Req", line)
	})
	if err != nil {
		die("fake DCS: %v", err)
	}
	fx.srv = srv
	viper.Set("dcsServiceEndpoint", srv.addr)
	p, ok := dcs.NewPlugin("//" + srv.addr).(*dcs.Plugin)
	if !ok || p == nil {
		die("dcs.NewPlugin did not return a *dcs.Plugin")
	}
	if err := p.Init("verif"); err != nil {
		die("plugin Init: %v", err)
	}
	fx.p = p
	// the Subscribe stream of Init has reached the gateway
	srv.mu.Lock()
	for srv.nsub == 0 {
		srv.cond.Wait()
	}
	srv.mu.Unlock()
	v := reflect.ValueOf(p).Elem()
	fx.pend = *(*map[string]int64)(field(v, "pendingEORs", reflect.TypeOf(map[string]int64{})))
	fx.dmap = (*dcs.DCSDetectorInfoMap)(field(v, "detectorMap", reflect.TypeOf(dcs.DCSDetectorInfoMap{})))
	fx.dmu = (*sync.RWMutex)(field(v, "detectorMapMu", reflect.TypeOf(sync.RWMutex{})))
	rc := *(**dcs.RpcClient)(field(v, "dcsClient", reflect.TypeOf(&dcs.RpcClient{})))
	if rc == nil || rc.ConfiguratorClient == nil {
		die("the plugin has no client after Init")
	}
	fx.stub = &stubWrap{ConfiguratorClient: rc.ConfiguratorClient, sy: fx.sy}
	rc.ConfiguratorClient = fx.stub
	return fx
}

// ---------- one scenario ----------

type envState struct {
	alias string
	id    uid.ID
	dets  []string
	rn    int
	live  bool
	fn    string // hook in progress
	f     string // ... and the fault scripted for its call
	op    string
	inv   *invocation
	call  *callable.Call
}

type runner struct {
	fx   *fixture
	scn  *Scenario
	envs map[string]*envState
	ord  []string
	all  []string // every detector of the scenario
}

func (r *runner) emit(ev string, kv ...interface{}) {
	r.fx.rec.Emit(ev, append([]interface{}{"scn", r.scn.ID}, kv...)...)
}

func avail(kind, v string) dcspb.DetectorState {
	switch v {
	case "yes":
		if kind == "pfr" {
			return dcspb.DetectorState_PFR_AVAILABLE
		}
		return dcspb.DetectorState_SOR_AVAILABLE
	case "no":
		if kind == "pfr" {
			return dcspb.DetectorState_PFR_UNAVAILABLE
		}
		return dcspb.DetectorState_SOR_UNAVAILABLE
	}
	return dcspb.DetectorState_NULL_STATE
}

func availName(s string) string {
	switch s {
	case "PFR_AVAILABLE", "SOR_AVAILABLE":
		return "yes"
	case "PFR_UNAVAILABLE", "SOR_UNAVAILABLE":
		return "no"
	case "NULL_STATE":
		return "null"
	}
	return s
}

func runState(op, s string) dcspb.DetectorState {
	switch s {
	case "OK":
		return dcspb.DetectorState_RUN_OK
	case "FAIL":
		if op == "EOR" {
			return dcspb.DetectorState_EOR_FAILURE
		}
		return dcspb.DetectorState_SOR_FAILURE
	case "UNAV":
		if op == "PFR" {
			return dcspb.DetectorState_PFR_UNAVAILABLE
		}
		return dcspb.DetectorState_SOR_UNAVAILABLE
	case "TMO":
		return dcspb.DetectorState_TIMEOUT
	}
	if op == "EOR" {
		return dcspb.DetectorState_EOR_PROGRESSING
	}
	return dcspb.DetectorState_SOR_PROGRESSING
}

func detector(name string) dcspb.Detector {
	v, ok := dcspb.Detector_value[name]
	if !ok {
		die("unknown detector %q in a scenario", name)
	}
	return dcspb.Detector(v)
}

func (r *runner) stuck(what string) {
	r.emit("Stuck", "what", what)
	r.fx.rec.Close()
	die("scenario %d: %s did not happen within %s", r.scn.ID, what, *watchdog)
}

// heartbeat sends a HEARTBEAT with a one-detector matrix and waits until the plugin has processed it.
func (r *runner) heartbeat(d string, p, s dcspb.DetectorState) {
	fx := r.fx
	var before int
	fx.sy.signal(func() { before = fx.sy.hb })
	fx.srv.sub <- &dcspb.Event{Eventtype: dcspb.EventType_HEARTBEAT, DetectorMatrix: []*dcspb.DetectorInfo{
		{Detector: detector(d), PfrAvailability: p, SorAvailability: s}}}
	if !fx.sy.wait(func() bool { return fx.sy.hb > before }) {
		r.stuck("the plugin processing a heartbeat")
	}
}

// named lists the scenario's detectors that the text mentions.
func (r *runner) named(text string) []string {
	out := make([]string, 0)
	for _, d := range r.all {
		if strings.Contains(text, d) {
			out = append(out, d)
		}
	}
	return out
}

func (r *runner) finish(es *envState, c string) {
	failed := es.call.VarStack["__call_error"] != ""
	reason := es.call.VarStack["__call_error_reason"]
	r.emit("Ret", "e", es.alias, "fn", es.fn, "failed", failed, "named", r.named(reason), "reason", reason, "c", c,
		"sent", es.inv.opened, "f", es.f)
	es.fn, es.op, es.inv, es.call = "", "", nil, nil
}

func (r *runner) run() {
	fx, s := r.fx, r.scn
	fx.scnID = s.ID
	// reset the plugin's maps and the gateway's table
	for k := range fx.pend {
		delete(fx.pend, k)
	}
	fx.dmu.Lock()
	for k := range *fx.dmap {
		delete(*fx.dmap, k)
	}
	fx.dmu.Unlock()
	fx.srv.reset()
	r.envs = map[string]*envState{}
	r.ord, r.all = nil, nil
	for a := range s.Dets {
		r.ord = append(r.ord, a)
	}
	sort.Strings(r.ord)
	ids := make([]uid.ID, 0)
	for _, a := range r.ord {
		id := uid.New()
		r.envs[a] = &envState{alias: a, id: id, dets: s.Dets[a], live: true}
		ids = append(ids, id)
		r.all = append(r.all, s.Dets[a]...)
	}
	r.all = append(r.all, s.Other...)
	sort.Strings(r.all)
	fx.em.set(ids)
	r.emit("Reset", "dets", s.Dets, "other", s.Other)
	r.observe()

	aborted := false
	for i, st := range s.Steps {
		switch st.K {
		case "hb":
			r.heartbeat(st.D, avail("pfr", st.P), avail("sor", st.V))
			r.emit("Hb", "d", st.D, "p", st.P, "s", st.V)
		case "sc":
			fx.srv.sub <- &dcspb.Event{Eventtype: dcspb.EventType_STATE_CHANGE_EVENT, DetectorMatrix: []*dcspb.DetectorInfo{
				{Detector: detector(st.D), State: avail(st.P, st.V), Timestamp: "2026-01-01 00:00:00.000"}}}
			// no publication acknowledges a state change: a heartbeat for a detector nobody uses follows it on the same stream
			r.heartbeat("LHC", dcspb.DetectorState_NULL_STATE, dcspb.DetectorState_NULL_STATE)
			r.emit("Sc", "d", st.D, "w", st.P, "v", st.V)
		case "ecs":
			es := r.envs[st.E]
			switch st.Fn {
			case "NewRun":
				es.rn = st.R
			case "EndRun":
				es.rn = 0
			case "GoError":
			case "Destroy":
				es.live, es.rn = false, 0
				fx.em.remove(es.id)
			default:
				die("scenario %d: unknown ecs action %q", s.ID, st.Fn)
			}
			r.emit("Ecs", "a", st.Fn, "e", st.E, "r", st.R)
		case "open":
			es := r.envs[st.E]
			if es.fn != "" {
				r.emit("Mismatch", "step", i, "why", "a hook of "+st.E+" is still in progress")
				aborted = true
				break
			}
			dj, _ := json.Marshal(es.dets)
			to := st.To
			if to == "" {
				to = "1h"
			}
			vs := map[string]string{"environment_id": string(es.id), "dcs_detectors": string(dj), "run_type": "PHYSICS", "__call_timeout": to}
			if es.rn != 0 {
				vs["run_number"] = strconv.Itoa(es.rn)
			}
			es.call = callable.NewCall("dcs."+st.Fn+"()", "", &role{env: es.id})
			es.call.VarStack = vs
			f, ok := fx.p.CallStack(es.call)[st.Fn].(func() string)
			if !ok {
				die("scenario %d: the plugin's CallStack has no function %s", s.ID, st.Fn)
			}
			es.fn, es.f, es.inv = st.Fn, st.F, &invocation{}
			inv := es.inv
			fx.sy.signal(func() { fx.stub.cur = inv; fx.stub.failNext = st.F == "fail" })
			fx.srv.mu.Lock()
			fx.srv.expect = st.E
			nreq := fx.srv.nreq
			fx.srv.mu.Unlock()
			go func() {
				f()
				fx.sy.signal(func() { inv.returned = true })
			}()
			// until the hook has returned, or is waiting for the first event of its stream
			if !fx.sy.wait(func() bool { return inv.returned || inv.recvs > 0 }) {
				r.stuck("hook " + st.Fn + " returning or opening its stream")
			}
			fx.sy.signal(func() { fx.stub.cur = nil; fx.stub.failNext = false })
			if es.inv.returned {
				r.finish(es, st.C)
				break
			}
			// ... and the gateway has the request
			fx.srv.mu.Lock()
			t0 := time.Now()
			for fx.srv.nreq == nreq || fx.srv.streams[st.E] == nil {
				if time.Since(t0) > *watchdog {
					fx.srv.mu.Unlock()
					r.stuck("the request of " + st.Fn + " arriving at the gateway")
				}
				fx.srv.cond.Wait()
			}
			es.op = fx.srv.streams[st.E].op
			fx.srv.mu.Unlock()
			r.emit("Open", "e", st.E, "fn", st.Fn)
		case "ev":
			es := r.envs[st.E]
			ss := fx.srv.stream(st.E)
			if es.fn == "" || ss == nil {
				r.emit("Mismatch", "step", i, "why", "no stream of "+st.E+" is open")
				aborted = true
				break
			}
			var before int
			inv := es.inv
			fx.sy.signal(func() { before = inv.recvs })
			ss.cmd <- streamCmd{ev: &dcspb.RunEvent{Detector: detector(st.D), State: runState(es.op, st.S)}}
			if !fx.sy.wait(func() bool { return inv.returned || inv.recvs > before }) {
				r.stuck("the hook taking an event")
			}
			r.emit("Ev", "e", st.E, "d", st.D, "s", st.S)
			if inv.returned { // the model never lets a hook return on an event: the trace specification will call it drift
				r.finish(es, st.C)
			}
		case "end":
			es := r.envs[st.E]
			ss := fx.srv.stream(st.E)
			if es.fn == "" || (ss == nil && st.How != "ctmo") {
				r.emit("Mismatch", "step", i, "why", "no stream of "+st.E+" is open")
				aborted = true
				break
			}
			inv := es.inv
			if st.How != "ctmo" { // "ctmo": the hook's own deadline ends the call
				ss.cmd <- streamCmd{end: true, err: endError(st.How)}
			}
			if !fx.sy.wait(func() bool { return inv.returned }) {
				r.stuck("the hook returning after the end of its stream")
			}
			// the gateway's side of the stream is gone too (it learns of a deadline on the caller's side only by the cancellation)
			fx.srv.mu.Lock()
			for fx.srv.streams[st.E] != nil {
				fx.srv.cond.Wait()
			}
			fx.srv.mu.Unlock()
			r.emit("End", "e", st.E, "how", st.How)
			r.finish(es, st.C)
		default:
			die("scenario %d: unknown step kind %q", s.ID, st.K)
		}
		if aborted {
			break
		}
		r.observe()
	}
	// hooks still in progress: end their streams
	for _, a := range r.ord {
		es := r.envs[a]
		if es.fn == "" {
			continue
		}
		if ss := fx.srv.stream(a); ss != nil {
			ss.cmd <- streamCmd{end: true}
		}
		inv := es.inv
		if !fx.sy.wait(func() bool { return inv.returned }) {
			r.stuck("a hook returning at the end of the scenario")
		}
	}
	r.emit("Fin")
}

// observe records what the specification predicts after every step.
func (r *runner) observe() {
	fx := r.fx
	pend := map[string]int64{}
	ss := map[string]bool{}
	cerr := map[string]string{}
	byID := map[string]string{}
	ids := make([]uid.ID, 0)
	for _, a := range r.ord {
		es := r.envs[a]
		pend[a] = 0
		ss[a] = false
		cerr[a] = "none"
		byID[string(es.id)] = a
		if es.live {
			ids = append(ids, es.id)
		}
		if es.fn != "" {
			cerr[a] = "ok"
			if es.call.VarStack["__call_error"] != "" {
				cerr[a] = "fail"
			}
		}
	}
	stray := 0
	for id, rn := range fx.pend {
		if a, ok := byID[id]; ok {
			pend[a] = rn
			if rn == 0 {
				pend[a] = -1
			}
		} else {
			stray++
		}
	}
	inrun := map[string]int{}
	for _, d := range r.all {
		inrun[d] = 0
	}
	for d, v := range fx.srv.table() {
		inrun[d] = v
	}
	// the detector cache as GetData publishes it
	av := map[string][]string{}
	for _, d := range r.all {
		av[d] = []string{"unknown", "unknown"}
	}
	if data := fx.p.GetData(nil); data != "" {
		var out struct {
			Detectors map[string]struct{ PfrAvailability, SorAvailability string } `json:"detectors"`
		}
		if err := json.Unmarshal([]byte(data), &out); err != nil {
			die("GetData is not JSON: %v", err)
		}
		for d, x := range out.Detectors {
			if _, ok := av[d]; ok {
				av[d] = []string{availName(x.PfrAvailability), availName(x.SorAvailability)}
			}
		}
	}
	for id, txt := range fx.p.GetEnvironmentsData(ids) {
		var pi struct{ SorSuccessful bool }
		if err := json.Unmarshal([]byte(txt), &pi); err != nil {
			die("GetEnvironmentsData is not JSON: %v", err)
		}
		ss[byID[string(id)]] = pi.SorSuccessful
	}
	r.emit("Obs", "pend", pend, "stray", stray, "inrun", inrun, "avail", av, "ss", ss, "cerr", cerr)
}

// stress lets two environments cycle through StartOfRun / EndOfRun at the same time against a gateway that acknowledges at
// once. pendingEORs is a plain map written by every hook call (and read by GetData) without a lock: the Go runtime may abort
// the process ("concurrent map writes"). Not part of the model (which moves one goroutine at a time); reported as an observation.
func stress(rec *vtrace.Recorder, n int) {
	fx := newFixture(rec)
	fx.srv.mu.Lock()
	fx.srv.auto = true
	fx.srv.mu.Unlock()
	ids := []uid.ID{uid.New(), uid.New()}
	fx.em.set(ids)
	dets := []string{`["ITS"]`, `["MFT"]`}
	var wg sync.WaitGroup
	for k := 0; k < 2; k++ {
		wg.Add(1)
		go func(k int) {
			defer wg.Done()
			for i := 1; i <= n; i++ {
				for _, fn := range []string{"StartOfRun", "EndOfRun"} {
					call := callable.NewCall("dcs."+fn+"()", "", &role{env: ids[k]})
					call.VarStack = map[string]string{"environment_id": string(ids[k]), "dcs_detectors": dets[k], "run_number": strconv.Itoa(2*i + k),
						"__call_timeout": "1h"}
					fx.p.CallStack(call)[fn].(func() string)()
				}
				if i%64 == 0 {
					_ = fx.p.GetData(nil)
				}
			}
		}(k)
	}
	wg.Wait()
	fmt.Printf("stress cycles=%d\n", n)
}

func main() {
	in := flag.String("scenarios", "", "")
	out := flag.String("trace", "", "")
	nstress := flag.Int("stress", 0, "stress mode: number of SOR/EOR cycles per environment (no scenarios)")
	flag.Parse()
	logrus.SetOutput(io.Discard)
	logrus.SetLevel(logrus.PanicLevel)
	viper.Set("enableKafka", false)
	var f *os.File
	var err error
	if *nstress == 0 {
		if f, err = os.Open(*in); err != nil {
			die("%v", err)
		}
	}
	rec, err := vtrace.New(*out)
	if err != nil {
		die("%v", err)
	}
	if *nstress > 0 {
		stress(rec, *nstress)
		return
	}
	fx := newFixture(rec)
	sc := bufio.NewScanner(f)
	sc.Buffer(make([]byte, 1<<20), 1<<26)
	n := 0
	t0 := time.Now()
	for sc.Scan() {
		if len(strings.TrimSpace(sc.Text())) == 0 {
			continue
		}
		var s Scenario
		if err := json.Unmarshal(sc.Bytes(), &s); err != nil {
			die("%v", err)
		}
		(&runner{fx: fx, scn: &s}).run()
		n++
	}
	rec.Close()
	fmt.Printf("scenarios=%d lines=%d wall=%.1fs\n", n, rec.Lines(), time.Since(t0).Seconds())
}
