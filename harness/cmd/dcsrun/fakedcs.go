package main

import (
	"errors"
	"net"
	"sync"
	"time"

	dcspb "github.com/AliceO2Group/Control/core/integration/dcs/protos"
	"google.golang.org/grpc"
	"google.golang.org/grpc/codes"
	"google.golang.org/grpc/keepalive"
	"google.golang.org/grpc/status"
)

// fakeDCS is an in-process DCS gateway behind the real dcs.proto Configurator service. It answers nothing on its own:
// every event of every stream (the Subscribe stream and the PFR / SOR / EOR streams) and every stream end is sent when
// the scenario says so. Its own view is one table: inrun[detector] = the run the detector got a SOR for and no EOR yet.
// One NDJSON line per request at the moment it arrives (= takes effect in the table).
type fakeDCS struct {
	dcspb.UnimplementedConfiguratorServer
	addr string
	gs   *grpc.Server
	log  func(map[string]interface{})

	mu      sync.Mutex
	cond    *sync.Cond
	sub     chan *dcspb.Event     // events to send on the (latest) Subscribe stream
	nsub    int                   // Subscribe streams opened so far
	nreq    int                   // operation requests received so far
	expect  string                // alias of the environment whose hook is being invoked
	streams map[string]*srvStream // open operation streams by environment alias
	inrun   map[string]int
	auto    bool // stress mode: every operation stream acknowledges all detectors and ends at once
}

type streamCmd struct {
	ev  *dcspb.RunEvent
	end bool
	err error
}

type srvStream struct {
	op  string
	cmd chan streamCmd
}

func startFakeDCS(log func(map[string]interface{})) (*fakeDCS, error) {
	lis, err := net.Listen("tcp", "127.0.0.1:0")
	if err != nil {
		return nil, err
	}
	s := &fakeDCS{addr: lis.Addr().String(), log: log, streams: map[string]*srvStream{}, inrun: map[string]int{},
		sub: make(chan *dcspb.Event, 16)}
	s.cond = sync.NewCond(&s.mu)
	s.gs = grpc.NewServer(grpc.KeepaliveEnforcementPolicy(keepalive.EnforcementPolicy{MinTime: time.Second, PermitWithoutStream: true}))
	dcspb.RegisterConfiguratorServer(s.gs, s)
	go func() { _ = s.gs.Serve(lis) }()
	return s, nil
}

func (s *fakeDCS) Subscribe(_ *dcspb.SubscriptionRequest, stream dcspb.Configurator_SubscribeServer) error {
	s.mu.Lock()
	s.nsub++
	s.cond.Broadcast()
	s.mu.Unlock()
	for {
		select {
		case ev := <-s.sub:
			if err := stream.Send(ev); err != nil {
				return err
			}
		case <-stream.Context().Done():
			return nil
		}
	}
}

func detNames(reqs []*dcspb.DetectorOperationRequest) []string {
	out := make([]string, 0, len(reqs))
	for _, r := range reqs {
		out = append(out, r.GetDetector().String())
	}
	return out
}

// serve registers an operation stream under the environment being invoked, applies the request to the table, records it,
// and then does what the scenario says until it says "end".
func (s *fakeDCS) serve(op string, run int, dets []string, send func(*dcspb.RunEvent) error, done <-chan struct{}) error {
	st := &srvStream{op: op, cmd: make(chan streamCmd)}
	s.mu.Lock()
	alias := s.expect
	if s.auto {
		alias = ""
	}
	switch op {
	case "SOR":
		for _, d := range dets {
			s.inrun[d] = run
		}
	case "EOR":
		for _, d := range dets {
			if s.inrun[d] == run {
				delete(s.inrun, d)
			}
		}
	}
	if s.auto {
		s.mu.Unlock()
		for _, d := range dets {
			_ = send(&dcspb.RunEvent{Detector: dcspb.Detector(dcspb.Detector_value[d]), State: dcspb.DetectorState_RUN_OK})
		}
		return nil
	}
	s.streams[alias] = st
	s.nreq++
	s.log(map[string]interface{}{"e": alias, "op": op, "run": run, "dets": dets, "inrun": s.tableLocked()})
	s.cond.Broadcast()
	s.mu.Unlock()
	for {
		select {
		case c := <-st.cmd:
			if c.end {
				s.mu.Lock()
				delete(s.streams, alias)
				s.cond.Broadcast()
				s.mu.Unlock()
				return c.err
			}
			if err := send(c.ev); err != nil {
				return err
			}
		case <-done:
			s.mu.Lock()
			if s.streams[alias] == st {
				delete(s.streams, alias)
			}
			s.cond.Broadcast()
			s.mu.Unlock()
			return status.Error(codes.Canceled, "caller gone")
		}
	}
}

func (s *fakeDCS) PrepareForRun(in *dcspb.PfrRequest, stream dcspb.Configurator_PrepareForRunServer) error {
	return s.serve("PFR", 0, detNames(in.GetDetectors()), stream.Send, stream.Context().Done())
}
func (s *fakeDCS) StartOfRun(in *dcspb.SorRequest, stream dcspb.Configurator_StartOfRunServer) error {
	return s.serve("SOR", int(in.GetRunNumber()), detNames(in.GetDetectors()), stream.Send, stream.Context().Done())
}
func (s *fakeDCS) EndOfRun(in *dcspb.EorRequest, stream dcspb.Configurator_EndOfRunServer) error {
	return s.serve("EOR", int(in.GetRunNumber()), detNames(in.GetDetectors()), stream.Send, stream.Context().Done())
}

func (s *fakeDCS) tableLocked() map[string]int {
	out := map[string]int{}
	for k, v := range s.inrun {
		out[k] = v
	}
	return out
}

func (s *fakeDCS) table() map[string]int {
	s.mu.Lock()
	defer s.mu.Unlock()
	return s.tableLocked()
}

func (s *fakeDCS) reset() {
	s.mu.Lock()
	s.inrun = map[string]int{}
	s.mu.Unlock()
}

// stream returns the open operation stream of the environment (nil if none).
func (s *fakeDCS) stream(alias string) *srvStream {
	s.mu.Lock()
	defer s.mu.Unlock()
	return s.streams[alias]
}

func endError(how string) error {
	switch how {
	case "eof":
		return nil
	case "tmo":
		return status.Error(codes.DeadlineExceeded, "DCS gateway: operation deadline exceeded")
	case "grpc":
		return status.Error(codes.Unavailable, "DCS gateway: injected stream failure")
	case "unk":
		return errors.New("not a gRPC status")
	}
	return nil
}

func (s *fakeDCS) stop() { s.gs.Stop() }
