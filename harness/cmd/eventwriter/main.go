// Command eventwriter replays schedules generated from spec/EventWriter.tla on the real
// common/event.KafkaWriter (built from /repo with -tags verif) and records, after every
// model action, the projection of the implementation state the specification talks about.
//
// Modes:
//
//	-mode sched : each scenario is a sequence of model actions; gated hook points force the order
//	-mode free  : free-running stress (no gates): producers, a slow broker and Close at a random instant
package main

import (
	"bufio"
	"encoding/json"
	"flag"
	"fmt"
	"math/rand"
	"os"
	"strconv"
	"strings"
	"sync"
	"sync/atomic"
	"time"

	"github.com/AliceO2Group/Control/common/event"
	pb "github.com/AliceO2Group/Control/common/protos"
	"github.com/AliceO2Group/Control/common/verifhook"
	"github.com/segmentio/kafka-go"
	"google.golang.org/protobuf/proto"

	"verif/harness/vgate"
	"verif/harness/vtrace"
)

type Exp struct {
	Wpc   string `json:"wpc"`
	Bpc   string `json:"bpc"`
	Woken bool   `json:"woken"`
	Cpc   string `json:"cpc"`
}

type Step struct {
	A   string `json:"a"`
	P   string `json:"p,omitempty"`
	Exp Exp    `json:"exp"`
}

type Scenario struct {
	ID  int `json:"id"`
	Cfg struct {
		Producers []string `json:"producers"`
		ChanCap   int      `json:"chancap"`
	} `json:"cfg"`
	Steps []Step `json:"steps"`
	// free mode
	Free *struct {
		NEvents   int   `json:"nevents"`
		BrokerUs  int   `json:"broker_us"`
		CloseAtUs int   `json:"close_at_us"`
		Seed      int64 `json:"seed"`
		// Stall: the broker accepts nothing until every producer has returned (or 20 s have passed): a flood
		// against a stalled broker.  The run is then judged on counts (the item list would be too long).
		Stall bool `json:"stall,omitempty"`
		// PadKB > 0: every event carries a payload of that many kilobytes (integrated-service events with a long Payload)
		PadKB int `json:"pad_kb,omitempty"`
		// FirstMs > 0: the broker takes that long over the FIRST batch only (recorded when it has taken it)
		FirstMs int `json:"first_ms,omitempty"`
	} `json:"free,omitempty"`
}

const stepTimeout = 1500 * time.Millisecond

// makeEvent builds an event "about environment env-<p>"; the type rotates with n so that
// all environment-keyed event types are exercised. The (p, n) identity travels in a string field.
func makeEvent(p string, n int) interface{} {
	id := p + ":" + strconv.Itoa(n)
	env := "env-" + p
	switch n % 5 {
	case 0:
		return &pb.Ev_EnvironmentEvent{EnvironmentId: env, Message: id}
	case 1:
		// run events of one environment with different run numbers (and with none): still "about the same environment"
		rn := uint32(0)
		if n%10 != 1 {
			rn = uint32(560000 + n%3)
		}
		return &pb.Ev_RunEvent{EnvironmentId: env, Error: id, RunNumber: rn}
	case 2:
		return &pb.Ev_RoleEvent{EnvironmentId: env, Name: id}
	case 3:
		return &pb.Ev_CallEvent{EnvironmentId: env, Func: id}
	default:
		return &pb.Ev_IntegratedServiceEvent{EnvironmentId: env, Name: id}
	}
}

func makeBigEvent(p string, n int, padKB int) interface{} {
	return &pb.Ev_IntegratedServiceEvent{EnvironmentId: "env-" + p, Name: p + ":" + strconv.Itoa(n), Payload: strings.Repeat("x", padKB*1024)}
}

func decode(m kafka.Message) (id string, env string, key string, err error) {
	var e pb.Event
	if err = proto.Unmarshal(m.Value, &e); err != nil {
		return
	}
	key = string(m.Key)
	switch pl := e.Payload.(type) {
	case *pb.Event_EnvironmentEvent:
		id, env = pl.EnvironmentEvent.Message, pl.EnvironmentEvent.EnvironmentId
	case *pb.Event_RunEvent:
		id, env = pl.RunEvent.Error, pl.RunEvent.EnvironmentId
	case *pb.Event_RoleEvent:
		id, env = pl.RoleEvent.Name, pl.RoleEvent.EnvironmentId
	case *pb.Event_CallEvent:
		id, env = pl.CallEvent.Func, pl.CallEvent.EnvironmentId
	case *pb.Event_IntegratedServiceEvent:
		id, env = pl.IntegratedServiceEvent.Name, pl.IntegratedServiceEvent.EnvironmentId
	default:
		err = fmt.Errorf("unexpected payload %T", e.Payload)
	}
	return
}

type item struct {
	P string `json:"p"`
	N int    `json:"n"`
}

type run struct {
	rec       *vtrace.Recorder
	sc        *Scenario
	sched     *vgate.Sched
	w         *event.KafkaWriter
	mu        sync.Mutex
	delivered [][]item
	keysOK    bool
	badKey    string
	count     map[string]int
	closeRet  chan struct{}
	closed    bool
	brokerCh  chan chan struct{} // writeFn parks: sends its release channel
	brokerPk  []chan struct{}
	seen      int
	waits     int
	lastWpc   string
	nsteps    int
	diverged  bool
}

func (r *run) writeFn(msgs []kafka.Message) {
	b := make([]item, 0, len(msgs))
	for _, m := range msgs {
		id, env, key, err := decode(m)
		if err != nil {
			id = "?:0"
		}
		parts := strings.SplitN(id, ":", 2)
		n, _ := strconv.Atoi(parts[len(parts)-1])
		b = append(b, item{P: parts[0], N: n})
		if key != env {
			r.mu.Lock()
			r.keysOK = false
			r.badKey = fmt.Sprintf("%s key=%q env=%q", id, key, env)
			r.mu.Unlock()
		}
	}
	r.mu.Lock()
	r.delivered = append(r.delivered, b)
	r.mu.Unlock()
	// the broker: a gate like any other
	r.sched.Handler("broker", "n", len(msgs))
}

var wPoints = []string{"evw.w.select", "evw.w.prepop", "broker", "evw.w.exit"}
var bPoints = []string{"evw.b.recv", "evw.b.closed", "evw.b.signalled", "evw.b.released"}

var wName = map[string]string{"evw.w.select": "select", "evw.w.prepop": "prepop", "broker": "writing", "evw.w.exit": "exit", "": "none"}
var bName = map[string]string{"evw.b.recv": "recv", "evw.b.closed": "closed", "evw.b.signalled": "signalled", "evw.b.released": "released", "": "none"}
var wPoint = map[string]string{"select": "evw.w.select", "prepop": "evw.w.prepop", "writing": "broker", "exit": "evw.w.exit"}
var bPoint = map[string]string{"recv": "evw.b.recv", "closed": "evw.b.closed", "signalled": "evw.b.signalled", "released": "evw.b.released"}

func (r *run) observe(ev string, st *Step, extra ...interface{}) {
	defer func() { r.nsteps++ }()
	// wait for the parks the model predicts (observable program counters only)
	okW, okB := true, true
	if p, ok := wPoint[st.Exp.Wpc]; ok {
		okW = r.sched.WaitParked(p, stepTimeout)
	} else if st.Exp.Wpc == "wait" && !st.Exp.Woken && r.lastWpc != "wait" {
		// the writer is predicted to block in cond.Wait: wait until it really is there (the hook
		// point is reached under the buffer lock, which Wait releases atomically)
		okW = r.sched.WaitArrived("evw.fifo.wait", r.waits+1, stepTimeout)
	}
	r.waits = r.sched.Arrived("evw.fifo.wait")
	r.lastWpc = st.Exp.Wpc
	if p, ok := bPoint[st.Exp.Bpc]; ok {
		okB = r.sched.WaitParked(p, stepTimeout)
	}
	closeReturned := false
	if st.Exp.Cpc == "returned" {
		select {
		case <-r.closeRet:
			closeReturned = true
		case <-time.After(stepTimeout):
		}
	} else {
		select {
		case <-r.closeRet:
			closeReturned = true
		default:
		}
	}
	buflen := -1
	if !st.Exp.Woken {
		buflen = r.w.VerifBufferLength()
	}
	r.mu.Lock()
	nb := len(r.delivered)
	newb := make([][]item, 0)
	if !st.Exp.Woken {
		// (a woken writer pops concurrently with this observation: its batch is observed at the next step)
		newb = append(newb, r.delivered[r.seen:]...)
		r.seen = nb
	}
	keysOK := r.keysOK
	r.mu.Unlock()
	wobs := wName[r.sched.ParkedAmong(wPoints...)]
	if st.Exp.Woken {
		wobs = "skip"
	}
	kv := []interface{}{
		"scn", r.sc.ID,
		"wpc", wobs,
		"bpc", bName[r.sched.ParkedAmong(bPoints...)],
		"buflen", buflen, "nbatches", nb, "newb", newb, "keysok", keysOK,
		"closed", closeReturned, "parksok", okW && okB,
	}
	if !(okW && okB) {
		r.diverged = true
	}
	kv = append(kv, extra...)
	r.rec.Emit(ev, kv...)
}

func (r *run) doStep(st *Step) {
	switch st.A {
	case "Write":
		r.count[st.P]++
		n := r.count[st.P]
		done := make(chan struct{})
		go func() {
			r.w.WriteEvent(makeEvent(st.P, n))
			close(done)
		}()
		returned := true
		select {
		case <-done:
		case <-time.After(stepTimeout):
			returned = false
		}
		r.observe("Write", st, "p", st.P, "n", n, "returned", returned)
	case "CloseBegin":
		r.closed = true
		go func() {
			r.w.Close()
			close(r.closeRet)
		}()
		r.observe("CloseBegin", st)
	case "BatchRecv", "BatchSeesClosed", "WriterWake", "CloseEnd":
		// autonomous in the implementation: only wait for the predicted effect
		r.observe(st.A, st)
	case "BatchPush":
		n := r.sched.Arrived("evw.b.pushed")
		err := r.sched.Release("evw.b.recv")
		if err == nil {
			r.sched.WaitArrived("evw.b.pushed", n+1, stepTimeout)
		}
		r.observe(st.A, st, "released", err == nil)
	case "BatchSignal":
		err := r.sched.Release("evw.b.closed")
		r.observe(st.A, st, "released", err == nil)
	case "BatchRelease":
		err := r.sched.Release("evw.b.signalled")
		r.observe(st.A, st, "released", err == nil)
	case "BatchExit":
		err := r.sched.Release("evw.b.released")
		r.observe(st.A, st, "released", err == nil)
	case "WriterSelectDone", "WriterSelectDefault":
		err := r.sched.Release("evw.w.select")
		r.observe(st.A, st, "released", err == nil)
	case "WriterPopEnter":
		err := r.sched.Release("evw.w.prepop")
		r.observe(st.A, st, "released", err == nil)
	case "BrokerAck":
		err := r.sched.Release("broker")
		r.observe(st.A, st, "released", err == nil)
	case "WriterExit":
		err := r.sched.Release("evw.w.exit")
		r.observe(st.A, st, "released", err == nil)
	default:
		panic("unknown action " + st.A)
	}
}

func runSched(rec *vtrace.Recorder, sc *Scenario) {
	r := &run{rec: rec, sc: sc, sched: vgate.New(), keysOK: true, count: map[string]int{}, closeRet: make(chan struct{})}
	r.sched.Gate(wPoints...)
	r.sched.Gate(bPoints...)
	verifhook.SetHandler(r.sched.Handler)
	rec.Emit("Reset", "scn", sc.ID, "mode", "sched", "chancap", sc.Cfg.ChanCap, "producers", sc.Cfg.Producers)
	r.w = event.VerifNewWriter("verif", sc.Cfg.ChanCap, r.writeFn)
	r.sched.WaitParked("evw.w.select", stepTimeout)
	for i := range sc.Steps {
		r.doStep(&sc.Steps[i])
		if r.diverged {
			// the implementation did not reach the state the schedule expects: the rest of the
			// schedule cannot be imposed; go to the free-running tail
			break
		}
	}
	// free-run tail: let everything go, close if the schedule did not, and see what Close leaves behind
	if !r.closed {
		go func() {
			r.w.Close()
			close(r.closeRet)
		}()
	}
	r.sched.ReleaseAll()
	returned := false
	select {
	case <-r.closeRet:
		returned = true
	case <-time.After(400 * time.Millisecond):
	}
	r.mu.Lock()
	flat := []item{}
	maxb := 0
	for _, b := range r.delivered {
		flat = append(flat, b...)
		if len(b) > maxb {
			maxb = len(b)
		}
	}
	keysOK := r.keysOK
	r.mu.Unlock()
	acc := map[string]int{}
	for k, v := range r.count {
		acc[k] = v
	}
	rec.Emit("FreeRunEnd", "scn", sc.ID, "closed", returned, "accepted", acc, "flat", flat, "maxbatch", maxb, "keysok", keysOK,
		"buflen", r.w.VerifBufferLength())
	verifhook.SetHandler(nil)
}

// runFree: no gates at all. Producers publish NEvents each as fast as they can, the broker takes
// BrokerUs per batch, Close is called CloseAtUs after the last producer returned.
func runFree(rec *vtrace.Recorder, sc *Scenario) {
	verifhook.SetHandler(nil)
	r := &run{rec: rec, sc: sc, sched: vgate.New(), keysOK: true, count: map[string]int{}, closeRet: make(chan struct{})}
	rng := rand.New(rand.NewSource(sc.Free.Seed))
	brokerDelay := time.Duration(sc.Free.BrokerUs) * time.Microsecond
	var mu sync.Mutex
	delivered := [][]item{}
	keysOK := true
	release := make(chan struct{})
	if !sc.Free.Stall {
		close(release)
	}
	var first int32
	w := event.VerifNewWriter("verif", sc.Cfg.ChanCap, func(msgs []kafka.Message) {
		<-release
		if sc.Free.FirstMs > 0 {
			if atomic.CompareAndSwapInt32(&first, 0, 1) { // (only the first batch is slow; later ones must not wait behind a lock here)
				time.Sleep(time.Duration(sc.Free.FirstMs) * time.Millisecond)
			}
		}
		b := make([]item, 0, len(msgs))
		for _, m := range msgs {
			id, env, key, _ := decode(m)
			parts := strings.SplitN(id, ":", 2)
			n, _ := strconv.Atoi(parts[len(parts)-1])
			b = append(b, item{P: parts[0], N: n})
			if key != env {
				mu.Lock()
				keysOK = false
				mu.Unlock()
			}
		}
		mu.Lock()
		delivered = append(delivered, b)
		mu.Unlock()
		if brokerDelay > 0 {
			time.Sleep(brokerDelay)
		}
	})
	rec.Emit("Reset", "scn", sc.ID, "mode", "free", "chancap", sc.Cfg.ChanCap, "producers", sc.Cfg.Producers)
	var wg sync.WaitGroup
	for _, p := range sc.Cfg.Producers {
		wg.Add(1)
		jitter := rng.Intn(50)
		go func(p string) {
			defer wg.Done()
			for n := 1; n <= sc.Free.NEvents; n++ {
				if sc.Free.PadKB > 0 {
					w.WriteEvent(makeBigEvent(p, n, sc.Free.PadKB))
				} else {
					w.WriteEvent(makeEvent(p, n))
				}
				if jitter > 0 && n%7 == 0 {
					time.Sleep(time.Duration(jitter) * time.Microsecond)
				}
			}
		}(p)
	}
	prodret := true
	if sc.Free.Stall {
		pd := make(chan struct{})
		go func() { wg.Wait(); close(pd) }()
		select {
		case <-pd:
		case <-time.After(20 * time.Second):
			prodret = false
		}
		close(release)
	}
	wg.Wait()
	if sc.Free.CloseAtUs > 0 {
		time.Sleep(time.Duration(sc.Free.CloseAtUs) * time.Microsecond)
	}
	go func() {
		w.Close()
		close(r.closeRet)
	}()
	returned := false
	closeWait := 3 * time.Second
	if sc.Free.Stall || sc.Free.FirstMs > 0 {
		closeWait = 30 * time.Second
	}
	select {
	case <-r.closeRet:
		returned = true
	case <-time.After(closeWait):
	}
	mu.Lock()
	flat := []item{}
	maxb := 0
	for _, b := range delivered {
		flat = append(flat, b...)
		if len(b) > maxb {
			maxb = len(b)
		}
	}
	k := keysOK
	mu.Unlock()
	acc := map[string]int{}
	for _, p := range sc.Cfg.Producers {
		acc[p] = sc.Free.NEvents
	}
	if sc.Free.Stall {
		// judged on counts: per producer the number delivered, whether each producer's items came in order, once
		ndel := map[string]int{}
		last := map[string]int{}
		inorder := true
		for _, it := range flat {
			ndel[it.P]++
			if it.N != last[it.P]+1 {
				inorder = false
			}
			last[it.P] = it.N
		}
		for _, p := range sc.Cfg.Producers {
			if _, ok := ndel[p]; !ok {
				ndel[p] = 0
			}
		}
		rec.Emit("FreeRunEnd", "scn", sc.ID, "closed", returned, "accepted", acc, "flat", []item{}, "maxbatch", maxb, "keysok", k,
			"buflen", w.VerifBufferLength(), "prodret", prodret, "ndel", ndel, "inorder", inorder)
		return
	}
	rec.Emit("FreeRunEnd", "scn", sc.ID, "closed", returned, "accepted", acc, "flat", flat, "maxbatch", maxb, "keysok", k,
		"buflen", w.VerifBufferLength())
}

func main() {
	in := flag.String("scenarios", "", "NDJSON scenarios")
	out := flag.String("trace", "", "NDJSON trace output")
	flag.Parse()
	f, err := os.Open(*in)
	if err != nil {
		fmt.Fprintln(os.Stderr, err)
		os.Exit(2)
	}
	rec, err := vtrace.New(*out)
	if err != nil {
		fmt.Fprintln(os.Stderr, err)
		os.Exit(2)
	}
	sc := bufio.NewScanner(f)
	sc.Buffer(make([]byte, 1<<20), 1<<26)
	n := 0
	for sc.Scan() {
		if len(strings.TrimSpace(sc.Text())) == 0 {
			continue
		}
		var s Scenario
		if err := json.Unmarshal(sc.Bytes(), &s); err != nil {
			fmt.Fprintln(os.Stderr, "bad scenario:", err)
			os.Exit(2)
		}
		if s.Free != nil {
			runFree(rec, &s)
		} else {
			runSched(rec, &s)
		}
		n++
	}
	if err := rec.Close(); err != nil {
		fmt.Fprintln(os.Stderr, err)
		os.Exit(2)
	}
	fmt.Printf("scenarios=%d lines=%d\n", n, rec.Lines())
}
