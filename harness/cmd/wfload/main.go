// Command wfload renders abstract workflow templates (the flat node lists produced by
// spec/WorkflowLoadGen.tla) to YAML with a fixed injective mapping, loads each of them through
// the REAL core/workflow unmarshalling + ProcessTemplates (workflow.VerifWLLoad, tag verif) under
// each of the 8 settings of the three concurrency switches and several repetitions / schedules,
// and records for every load the projection of the processed role tree the specification talks
// about (kind, name, path, probed variable stack, traits, constraint values, connect targets,
// children with iterators flattened as GetRoles does) plus a hash of the full canonical dump.
//
// Schedules ("sched" of a Load line):
//
//	free      no hook handler, whatever the Go scheduler does
//	perturb   seeded random yields at the start of every child goroutine
//	first:K   in every concurrent iterator child processing, child K runs first and is parked
//	          after its ProcessTemplates returned until all its siblings finished theirs
//	          (gates only, no sleeps)
package main

import (
	"bufio"
	"crypto/sha256"
	"encoding/hex"
	"encoding/json"
	"errors"
	"flag"
	"fmt"
	"io"
	"math/rand"
	"os"
	"runtime"
	"strconv"
	"strings"
	"sync"
	"time"

	"github.com/AliceO2Group/Control/common/verifhook"
	"github.com/AliceO2Group/Control/core/repos"
	"github.com/AliceO2Group/Control/core/workflow"
	"github.com/sirupsen/logrus"
	"github.com/spf13/viper"
)

// ---------- abstract template (see spec/WorkflowLoad.tla) ----------

type ForSpec struct {
	T   string `json:"t"` // list | var | dep | be
	S   string `json:"s"` // list: JSON list text
	B   int    `json:"b"`
	E   int    `json:"e"`
	Bv  string `json:"bv"` // be: variable giving `begin` ("" = the literal b)
	Ev  string `json:"ev"` // be: variable giving `end` ("" = the literal e)
	X   string `json:"x"`  // var: variable holding a JSON list text; dep: variable selecting the list variable cards_<value>
	Var string `json:"var"`
}

type Node struct {
	Par int         `json:"par"`
	K   string      `json:"k"` // agg | task | call | inc
	Nm  string      `json:"nm"`
	Np  []string    `json:"np"`
	En  [3]string   `json:"en"` // T|F|eq|ne, var, const
	Vs  [][3]string `json:"vs"` // name, lit|ref, value
	Ds  [][3]string `json:"ds"`
	Ps  bool        `json:"ps"`
	Pu  string      `json:"pu"` // "" | name | var | cons | bind | conn | load: the field with an unterminated "{{"
	X   string      `json:"x"`  // none | hook | cons | chan | conn | bind | bindp
	Sub string      `json:"sub"`
	For []ForSpec   `json:"for"`
}

type Case struct {
	ID    int             `json:"id"`
	T     []Node          `json:"T"`
	Uv    [][2]string     `json:"uv"`
	Sp    string          `json:"sp"`              // spelling of the boolean-ish fields (metamorphic: must not change the loaded tree)
	Sched []string        `json:"sched,omitempty"` // extra schedules beyond the default plan
	Raw   json.RawMessage `json:"-"`
}

type Header struct {
	Catalogue bool              `json:"catalogue"`
	Subs      map[string][]Node `json:"subs"`
	Probe     []string          `json:"probe"`
}

func yq(s string) string {
	return "\"" + strings.ReplaceAll(strings.ReplaceAll(s, "\\", "\\\\"), "\"", "\\\"") + "\""
}

func params(np []string) string {
	var b strings.Builder
	for _, p := range np {
		b.WriteString("-{{ " + p + " }}")
	}
	return b.String()
}

// spellEnabled returns the YAML scalar (already quoted / block form) for the `enabled` value v under spelling sp;
// lit tells whether v is the literal "true" / "false" (then case and "1"/"0" spellings apply) or a template expression.
// ind is the indentation of the key (block scalars need it).
func spellEnabled(v string, lit bool, sp string, ind string) string {
	dq := func(x string) string { // YAML double-quoted, keeping \n and \t escapes
		x = strings.ReplaceAll(x, "\\", "\\\\")
		x = strings.ReplaceAll(x, "\"", "\\\"")
		x = strings.ReplaceAll(x, "\n", "\\n")
		x = strings.ReplaceAll(x, "\t", "\\t")
		return "\"" + x + "\""
	}
	switch sp {
	case "lead":
		return dq(" " + v)
	case "trail":
		return dq(v + " ")
	case "both":
		return dq("\t" + v + " \n")
	case "block": // folded block scalar: the value ends with a newline
		return ">\n" + ind + "  " + v
	case "upper":
		if lit {
			return dq(strings.ToUpper(v))
		}
		return dq(v + "\n")
	case "cap":
		if lit {
			return dq(strings.ToUpper(v[:1]) + v[1:])
		}
		return dq("\n" + v)
	case "one", "onesp":
		w := v
		if lit {
			w = map[string]string{"true": "1", "false": "0"}[v]
		}
		if sp == "onesp" {
			w += " "
		}
		return dq(w)
	}
	return dq(v)
}

// spellBool: YAML booleans (`critical`) in the spellings YAML itself accepts
func spellBool(b bool, sp string) string {
	v := strconv.FormatBool(b)
	switch sp {
	case "upper", "both":
		return strings.ToUpper(v)
	case "cap", "block":
		return strings.ToUpper(v[:1]) + v[1:]
	}
	return v
}

var spelling = "canon" // of the case being rendered

func kids(T []Node, i int) []int {
	out := make([]int, 0)
	for j := range T {
		if T[j].Par == i+1 {
			out = append(out, j)
		}
	}
	return out
}

func vmap(w *strings.Builder, ind, key string, vs [][3]string) {
	if len(vs) == 0 {
		return
	}
	w.WriteString(ind + key + ":\n")
	for _, v := range vs {
		val := v[2]
		if v[1] == "ref" {
			val = "{{ " + v[2] + " }}"
		}
		w.WriteString(ind + "  " + v[0] + ": " + yq(val) + "\n")
	}
}

// render writes node i (0-based) as a YAML mapping whose keys are indented by ind; first=true
// means the first key is written after a "- " list marker.
func render(w *strings.Builder, T []Node, i int, ind string, listItem bool) {
	n := T[i]
	pre := ind
	if listItem {
		pre = ind[:len(ind)-2] + "- "
	}
	name := n.Nm + params(n.Np)
	if n.Ps {
		name += "-{{ nosuch }}"
	}
	if n.Pu == "name" {
		name += "-{{ flag }" // unterminated
	}
	w.WriteString(pre + "name: " + yq(name) + "\n")
	switch n.En[0] {
	case "T":
		if spelling != "canon" { // canonical: the key is omitted (default "true")
			w.WriteString(ind + "enabled: " + spellEnabled("true", true, spelling, ind) + "\n")
		}
	case "F":
		w.WriteString(ind + "enabled: " + spellEnabled("false", true, spelling, ind) + "\n")
	case "eq":
		w.WriteString(ind + "enabled: " + spellEnabled("{{ "+n.En[1]+" == '"+n.En[2]+"' }}", false, spelling, ind) + "\n")
	case "ne":
		w.WriteString(ind + "enabled: " + spellEnabled("{{ "+n.En[1]+" != '"+n.En[2]+"' }}", false, spelling, ind) + "\n")
	}
	if len(n.For) == 1 {
		f := n.For[0]
		w.WriteString(ind + "for:\n")
		switch f.T {
		case "list":
			w.WriteString(ind + "  range: " + yq(f.S) + "\n")
		case "var":
			w.WriteString(ind + "  range: " + yq("{{ "+f.X+" }}") + "\n")
		case "dep":
			// the range depends on an (outer iteration) variable: the list held by the variable cards_<value of x>
			w.WriteString(ind + "  range: " + yq("{{ $env['cards_' + "+f.X+"] }}") + "\n")
		case "be":
			b, e := strconv.Itoa(f.B), strconv.Itoa(f.E)
			if f.Bv != "" {
				b = "{{ " + f.Bv + " }}"
			}
			if f.Ev != "" {
				e = "{{ " + f.Ev + " }}"
			}
			w.WriteString(ind + "  begin: " + yq(b) + "\n")
			w.WriteString(ind + "  end: " + yq(e) + "\n")
		}
		w.WriteString(ind + "  var: " + f.Var + "\n")
	}
	vmap(w, ind, "defaults", n.Ds)
	vs := n.Vs
	if n.Pu == "var" {
		vs = append(append([][3]string{}, vs...), [3]string{"zz", "lit", "{{ flag"})
	}
	vmap(w, ind, "vars", vs)
	// constraints / connect / bind declarations: from the extra x and, last, the unterminated one (pu)
	cons, conn, bind := make([]string, 0), make([]string, 0), make([]string, 0)
	switch n.X {
	case "cons":
		cons = append(cons, "c"+params(n.Np))
	case "chan":
		conn = append(conn, "{{ Parent().Path }}.peer:in")
	case "conn": // a target that depends on the iteration variable(s)
		conn = append(conn, "peer"+params(n.Np)+":in")
	case "bind": // a global alias that depends on the iteration variable(s)
		bind = append(bind, "g"+params(n.Np))
	case "bindp":
		bind = append(bind, "data-{{ Parent().Name }}")
	}
	switch n.Pu {
	case "cons":
		cons = append(cons, "{{ host")
	case "conn":
		conn = append(conn, "tcp://{{ host:1")
	case "bind":
		bind = append(bind, "g-{{ it")
	}
	if len(cons) > 0 {
		w.WriteString(ind + "constraints:\n")
		for _, v := range cons {
			w.WriteString(ind + "  - attribute: machine_id\n")
			w.WriteString(ind + "    value: " + yq(v) + "\n")
		}
	}
	if len(conn) > 0 {
		w.WriteString(ind + "connect:\n")
		for j, v := range conn {
			w.WriteString(ind + "  - name: out" + strconv.Itoa(j) + "\n")
			w.WriteString(ind + "    type: push\n")
			w.WriteString(ind + "    target: " + yq(v) + "\n")
		}
	}
	if len(bind) > 0 {
		w.WriteString(ind + "bind:\n")
		for j, v := range bind {
			w.WriteString(ind + "  - name: in" + strconv.Itoa(j) + "\n")
			w.WriteString(ind + "    type: pull\n")
			w.WriteString(ind + "    global: " + yq(v) + "\n")
		}
	}
	switch n.K {
	case "agg":
		ks := kids(T, i)
		if len(ks) == 0 {
			w.WriteString(ind + "roles: []\n")
		} else {
			w.WriteString(ind + "roles:\n")
			for _, c := range ks {
				render(w, T, c, ind+"    ", true)
			}
		}
	case "task":
		w.WriteString(ind + "task:\n")
		if n.Pu == "load" {
			w.WriteString(ind + "  load: " + yq("cls-{{ flag") + "\n")
		} else {
			w.WriteString(ind + "  load: cls\n")
		}
		if n.X == "hook" {
			w.WriteString(ind + "  trigger: before_START\n")
			w.WriteString(ind + "  critical: " + spellBool(false, spelling) + "\n")
		}
	case "call":
		w.WriteString(ind + "call:\n")
		w.WriteString(ind + "  func: testplugin.Noop()\n")
		if n.X == "hook" {
			w.WriteString(ind + "  trigger: before_START\n")
			w.WriteString(ind + "  critical: " + spellBool(false, spelling) + "\n")
		}
	case "inc":
		w.WriteString(ind + "include: " + n.Sub + "\n")
	}
}

func renderRoot(T []Node, sp string) string {
	if sp == "" {
		sp = "canon"
	}
	spelling = sp
	var w strings.Builder
	render(&w, T, 0, "", false)
	return w.String()
}

// ---------- projection of the real dump ----------

type PNode struct {
	K  string        `json:"k"`
	N  string        `json:"n"`
	P  string        `json:"p"`
	St [][2]string   `json:"st"`
	Tr []interface{} `json:"tr"`
	Cv []string      `json:"cv"`
	Cn []string      `json:"cn"`
	Bd []string      `json:"bd"` // `global` aliases of the bind declarations
	Ch []*PNode      `json:"ch"`
}

var probe = []string{"flag", "it", "jt"}

func project(d *workflow.VerifWLNode) []*PNode {
	if d.Kind == "iter" { // transparent, as aggregator.GetRoles
		out := make([]*PNode, 0)
		for _, c := range d.Children {
			out = append(out, project(c)...)
		}
		return out
	}
	k := d.Kind
	if k == "include" {
		k = "inc"
	}
	n := &PNode{K: k, N: d.Name, P: d.Path, St: make([][2]string, 0), Tr: make([]interface{}, 0),
		Cv: make([]string, 0), Cn: make([]string, 0), Bd: make([]string, 0), Ch: make([]*PNode, 0)}
	for _, key := range probe {
		if v, ok := d.Stack[key]; ok {
			n.St = append(n.St, [2]string{key, v})
		}
	}
	if d.Traits != nil {
		n.Tr = []interface{}{d.Traits.Trigger, d.Traits.Await, d.Traits.Timeout, d.Traits.Critical}
	}
	for _, c := range d.Constraints {
		n.Cv = append(n.Cv, c[1])
	}
	for _, c := range d.Connect {
		n.Cn = append(n.Cn, c.Target)
	}
	for _, c := range d.Bind {
		n.Bd = append(n.Bd, c.Global)
	}
	for _, c := range d.Children {
		n.Ch = append(n.Ch, project(c)...)
	}
	return []*PNode{n}
}

func compact(n *PNode) string {
	s := fmt.Sprintf("%s:%s@%s%v", n.K, n.N, n.P, n.St)
	if len(n.Tr) > 0 {
		s += fmt.Sprintf("tr%v", n.Tr)
	}
	if len(n.Cv) > 0 {
		s += fmt.Sprintf("cv%v", n.Cv)
	}
	if len(n.Cn) > 0 {
		s += fmt.Sprintf("cn%v", n.Cn)
	}
	if len(n.Bd) > 0 {
		s += fmt.Sprintf("bd%v", n.Bd)
	}
	if len(n.Ch) > 0 {
		parts := make([]string, 0)
		for _, c := range n.Ch {
			parts = append(parts, compact(c))
		}
		s += "{ " + strings.Join(parts, " ; ") + " }"
	}
	return s
}

// ---------- schedules ----------

type iterState struct {
	startGateOpen bool // child K reached its done point
	done          int
}

type sched struct {
	mu    sync.Mutex
	cond  *sync.Cond
	mode  string // perturb | first
	k     int
	rng   *rand.Rand
	iters map[interface{}]*iterState
	hits  int
}

func newSched(mode string, k int, seed int64) *sched {
	s := &sched{mode: mode, k: k, rng: rand.New(rand.NewSource(seed)), iters: map[interface{}]*iterState{}}
	s.cond = sync.NewCond(&s.mu)
	return s
}

func kvGet(kv []interface{}, key string) interface{} {
	for i := 0; i+1 < len(kv); i += 2 {
		if kv[i] == key {
			return kv[i+1]
		}
	}
	return nil
}

func (s *sched) handler(point string, kv ...interface{}) {
	switch s.mode {
	case "perturb":
		if strings.HasSuffix(point, ".start") {
			s.mu.Lock()
			n := s.rng.Intn(4)
			s.mu.Unlock()
			for i := 0; i < n; i++ {
				runtime.Gosched()
			}
		}
	case "first":
		if point != "wl.iter.child.start" && point != "wl.iter.child.done" {
			return
		}
		it := kvGet(kv, "iter")
		idx := kvGet(kv, "idx").(int)
		n := kvGet(kv, "n").(int)
		if s.k >= n || n < 2 {
			return
		}
		s.mu.Lock()
		defer s.mu.Unlock()
		st := s.iters[it]
		if st == nil {
			st = &iterState{}
			s.iters[it] = st
		}
		if point == "wl.iter.child.start" {
			if idx != s.k {
				for !st.startGateOpen {
					s.cond.Wait()
				}
			}
			return
		}
		// done point
		st.done++
		if idx == s.k {
			s.hits++
			st.startGateOpen = true
			s.cond.Broadcast()
			for st.done < n {
				s.cond.Wait()
			}
		} else {
			s.cond.Broadcast()
		}
	}
}

// ---------- trace: one line per case, written through at once (a crash of the loader must not lose finished cases) ----------

type caseRecorder struct {
	f   *os.File
	seq int
}

// openRecorder opens the trace; with resume the file is kept and the ids of the cases already in it are returned.
func openRecorder(path string, resume bool) (*caseRecorder, map[int]bool, error) {
	done := map[int]bool{}
	r := &caseRecorder{}
	if resume {
		if fh, err := os.Open(path); err == nil {
			sc := bufio.NewScanner(fh)
			sc.Buffer(make([]byte, 1<<20), 1<<26)
			for sc.Scan() {
				var x struct {
					Scn int `json:"scn"`
				}
				if json.Unmarshal(sc.Bytes(), &x) == nil && x.Scn != 0 {
					done[x.Scn] = true
					r.seq++
				}
			}
			fh.Close()
		}
	}
	flags := os.O_CREATE | os.O_WRONLY | os.O_APPEND
	if !resume {
		flags |= os.O_TRUNC
	}
	f, err := os.OpenFile(path, flags, 0o644)
	if err != nil {
		return nil, nil, err
	}
	r.f = f
	return r, done, nil
}

func (r *caseRecorder) EmitMap(ev string, m map[string]interface{}) {
	r.seq++
	m["ev"] = ev
	m["seq"] = r.seq
	b, err := json.Marshal(m)
	if err != nil {
		panic(err)
	}
	if _, err := r.f.Write(append(b, '\n')); err != nil {
		fmt.Fprintln(os.Stderr, err)
		os.Exit(3)
	}
}

func (r *caseRecorder) Close() error { return r.f.Close() }

// ---------- main ----------

type loadResult struct {
	ok   bool
	tree []*PNode
	hash string
	emsg string
	full *workflow.VerifWLNode
}

func doLoad(doc []byte, subs map[string][]byte, repo repos.IRepo, uv map[string]string) (res loadResult) {
	subLoader := func(name string) ([]byte, error) {
		if d, ok := subs[name]; ok {
			return d, nil
		}
		return nil, errors.New("sub-workflow " + name + " not found")
	}
	role, err := workflow.VerifWLLoad(doc, subLoader, repo, uv, map[string]string{})
	if err != nil {
		m := err.Error()
		if len(m) > 160 {
			m = m[:160]
		}
		return loadResult{ok: false, tree: make([]*PNode, 0), hash: "", emsg: m}
	}
	d := workflow.VerifWLDump(role)
	b, jerr := json.Marshal(d)
	if jerr != nil {
		panic(jerr)
	}
	h := sha256.Sum256(b)
	tree := project(d)
	if !d.IsEnabled { // the root itself ended up disabled (left empty): no live tree
		tree = make([]*PNode, 0)
	}
	return loadResult{ok: true, tree: tree, hash: hex.EncodeToString(h[:8]), full: d}
}

func main() {
	scnPath := flag.String("scenarios", "", "scenario NDJSON")
	tracePath := flag.String("trace", "", "trace NDJSON output")
	reps := flag.Int("reps", 3, "repetitions per switch setting (rep 1 free, rep 2 perturb, rep 3.. free)")
	seed := flag.Int64("seed", 1, "seed for perturbation")
	shard := flag.Int("shard", 0, "process only cases whose position modulo -shards equals this")
	shards := flag.Int("shards", 1, "number of shards")
	resume := flag.Bool("resume", false, "keep the trace file and skip the cases already recorded in it (restart after a crash of the loader)")
	curPath := flag.String("cur", "", "file that always names the load in progress (read by the check when this process dies)")
	dbg := flag.String("debug", "", "debug: render + load the case with this id, print YAML and the full dump")
	flag.Parse()

	logrus.SetOutput(io.Discard)
	logrus.SetLevel(logrus.PanicLevel)
	viper.Set("config_endpoint", "mock://")
	_, repoV, err := repos.NewRepo("/home/user/git/ControlWorkflows", "", "/var/lib/o2/aliecs/repos")
	if err != nil {
		fmt.Fprintln(os.Stderr, "repo:", err)
		os.Exit(3)
	}
	repo := &repoV

	f, err := os.Open(*scnPath)
	if err != nil {
		fmt.Fprintln(os.Stderr, err)
		os.Exit(3)
	}
	defer f.Close()
	var rec *caseRecorder
	done := map[int]bool{}
	if *dbg == "" {
		rec, done, err = openRecorder(*tracePath, *resume)
		if err != nil {
			fmt.Fprintln(os.Stderr, err)
			os.Exit(3)
		}
	}
	subsYaml := map[string][]byte{}
	sc := bufio.NewScanner(f)
	sc.Buffer(make([]byte, 1<<20), 1<<26)
	ncases, nloads, pos := 0, 0, 0
	t0 := time.Now()
	for sc.Scan() {
		line := sc.Bytes()
		if len(strings.TrimSpace(string(line))) == 0 {
			continue
		}
		var hdr Header
		if json.Unmarshal(line, &hdr) == nil && hdr.Catalogue {
			for id, T := range hdr.Subs {
				subsYaml[id] = []byte(renderRoot(T, "canon"))
			}
			if len(hdr.Probe) > 0 {
				probe = hdr.Probe
			}
			continue
		}
		var c Case
		if err := json.Unmarshal(line, &c); err != nil {
			fmt.Fprintln(os.Stderr, "bad scenario line:", err)
			os.Exit(3)
		}
		var rawm map[string]json.RawMessage
		_ = json.Unmarshal(line, &rawm)
		doc := []byte(renderRoot(c.T, c.Sp))
		uv := map[string]string{}
		for _, p := range c.Uv {
			uv[p[0]] = p[1]
		}
		if *dbg != "" {
			if strconv.Itoa(c.ID) != *dbg {
				continue
			}
			fmt.Println(string(doc))
			for id, y := range subsYaml {
				fmt.Printf("--- sub %s\n%s", id, y)
			}
			for _, sw := range [][3]bool{{false, false, false}, {true, true, true}} {
				viper.Set("concurrentWorkflowTemplateProcessing", sw[0])
				viper.Set("concurrentWorkflowTemplateIteratorProcessing", sw[1])
				viper.Set("concurrentIteratorRoleExpansion", sw[2])
				r := doLoad(doc, subsYaml, repo, uv)
				fmt.Printf("--- sw=%v ok=%v hash=%s err=%s\n", sw, r.ok, r.hash, r.emsg)
				for _, n := range r.tree {
					fmt.Println(compact(n))
				}
				if r.full != nil && os.Getenv("WFLOAD_FULL") != "" {
					b, _ := json.MarshalIndent(r.full, "", " ")
					fmt.Println(string(b))
				}
			}
			return
		}
		pos++
		if pos%*shards != *shard {
			continue
		}
		if done[c.ID] {
			continue
		}
		ncases++
		type outcome struct {
			Ok      bool     `json:"ok"`
			Hash    string   `json:"hash"`
			Tree    []*PNode `json:"tree"`
			Emsg    string   `json:"emsg"`
			Crashed bool     `json:"crashed"` // only ever true in lines the check writes for a load that killed this process
		}
		outs := make([]outcome, 0, 2)
		outKeys := make([]string, 0, 2)
		runs := make([][]interface{}, 0, 32)
		for s := 0; s < 8; s++ {
			sw := [3]int{s & 1, (s >> 1) & 1, (s >> 2) & 1}
			viper.Set("concurrentWorkflowTemplateProcessing", sw[0] == 1)
			viper.Set("concurrentWorkflowTemplateIteratorProcessing", sw[1] == 1)
			viper.Set("concurrentIteratorRoleExpansion", sw[2] == 1)
			plan := make([]string, 0, *reps+len(c.Sched))
			for r := 1; r <= *reps; r++ {
				if r == 2 {
					plan = append(plan, "perturb")
				} else {
					plan = append(plan, "free")
				}
			}
			if sw[1] == 1 {
				plan = append(plan, c.Sched...)
			}
			for r, mode := range plan {
				var sd *sched
				switch {
				case mode == "free":
					verifhook.SetHandler(nil)
				case mode == "perturb":
					sd = newSched("perturb", 0, *seed*1000003+int64(c.ID)*31+int64(s))
					verifhook.SetHandler(sd.handler)
				case strings.HasPrefix(mode, "first:"):
					k, _ := strconv.Atoi(strings.TrimPrefix(mode, "first:"))
					sd = newSched("first", k, 0)
					verifhook.SetHandler(sd.handler)
				}
				if *curPath != "" {
					cur := fmt.Sprintf("{\"scn\":%d,\"run\":[%d,%d,%d,%d,%q]}\n", c.ID, sw[0], sw[1], sw[2], r+1, mode)
					if err := os.WriteFile(*curPath, []byte(cur), 0o644); err != nil {
						fmt.Fprintln(os.Stderr, err)
						os.Exit(3)
					}
				}
				res := doLoad(doc, subsYaml, repo, uv)
				verifhook.SetHandler(nil)
				nloads++
				hits := 0
				if sd != nil {
					hits = sd.hits
				}
				// identical outcomes (ok, full-dump hash, projected tree) are recorded once
				tb, _ := json.Marshal(res.tree)
				key := fmt.Sprintf("%v|%s|%s", res.ok, res.hash, tb)
				oi := -1
				for i, k := range outKeys {
					if k == key {
						oi = i
						break
					}
				}
				if oi < 0 {
					outKeys = append(outKeys, key)
					outs = append(outs, outcome{res.ok, res.hash, res.tree, res.emsg, false})
					oi = len(outs) - 1
				}
				runs = append(runs, []interface{}{sw[0], sw[1], sw[2], r + 1, mode, oi + 1, hits})
			}
		}
		rec.EmitMap("Case", map[string]interface{}{"scn": c.ID, "T": rawm["T"], "uv": rawm["uv"], "sp": c.Sp, "outs": outs, "runs": runs})
	}
	if err := sc.Err(); err != nil {
		fmt.Fprintln(os.Stderr, err)
		os.Exit(3)
	}
	if rec != nil {
		if err := rec.Close(); err != nil {
			fmt.Fprintln(os.Stderr, err)
			os.Exit(3)
		}
	}
	fmt.Printf("cases=%d loads=%d wall=%.1fs\n", ncases, nloads, time.Since(t0).Seconds())
}
