package main

import (
	"context"
	"encoding/json"
	"fmt"
	"net"
	"os"
	"os/exec"
	"os/signal"
	"sync"
	"syscall"
	"time"

	pb "github.com/AliceO2Group/Control/executor/protos"
	"google.golang.org/grpc"
)

// fakeocc: a stand-in for an OCC-controlled device (control mode DIRECT).  It is started by the
// real ControllableTask.Launch as "/bin/sh -c '<harness> -mode fakeocc ...; exit $?'", listens on
// the control port, answers GetState/Transition/EventStream, and appends what it sees (transition
// requests, TERM/INT signals, its own exit) to the scenario's trace file.
//
// behaviours: sleep  - obeys TERM/INT (exits 0)
//             ignore - ignores TERM and INT
//             fork   - like sleep, and forks a helper process (same process group) that lives on
//             exit0 / exit3 - like sleep, and exits with that code when the release FIFO is written
//             stuck  - never reaches STANDBY (stays in INITIALIZING)
//             done0   - like sleep; once it has reached DONE (EXIT) it exits 0 at once
//             done3   - like sleep; 300 ms after reaching DONE it exits 3 (crash in its shutdown path)
//             donesig - like sleep; 300 ms after reaching DONE it dies by a signal (SIGKILL to itself)
//             nodone  - refuses EXIT (never reaches DONE); exits 3 when told to terminate
//             fmq      - a FairMQ device (control mode FAIRMQ: FairMQ state and event names), otherwise like sleep
//             midstate - a FairMQ device that, once the executor has seen it IDLE, sits in an intermediate
//                        FairMQ state ("BINDING") for ever and refuses every transition; obeys TERM/INT
//             resetstuck - a FairMQ device whose RESET DEVICE fails by staying in DEVICE READY (not ok); the
//                        roll-back INIT TASK to READY works; otherwise like fmq
//             slow     - a FairMQ device whose CONNECT step (in the middle of CONFIGURE) takes 12 s; otherwise like fmq

type occLog struct {
	mu sync.Mutex
	f  *os.File
}

func (l *occLog) emit(m map[string]interface{}) {
	l.mu.Lock()
	defer l.mu.Unlock()
	b, _ := json.Marshal(m)
	l.f.Write(append(b, '\n'))
}

type occServer struct {
	pb.UnimplementedOccServer
	mu       sync.Mutex
	state    string
	log      *occLog
	nget     int
	ntrans   int
	stopping chan struct{}
	beh      string
	leave    chan int // exit code to leave with (-1: die by a signal)
}

var fmqTransitions = map[string][2]string{ // event -> (src, dst), FairMQ state machine
	"INIT DEVICE":   {"IDLE", "INITIALIZING DEVICE"},
	"COMPLETE INIT": {"INITIALIZING DEVICE", "INITIALIZED"},
	"BIND":          {"INITIALIZED", "BOUND"},
	"CONNECT":       {"BOUND", "DEVICE READY"},
	"INIT TASK":     {"DEVICE READY", "READY"},
	"RUN":           {"READY", "RUNNING"},
	"STOP":          {"RUNNING", "READY"},
	"RESET TASK":    {"READY", "DEVICE READY"},
	"RESET DEVICE":  {"DEVICE READY", "IDLE"},
	"END":           {"IDLE", "EXITING"},
}

var occTransitions = map[string][2]string{ // event -> (src, dst), control mode DIRECT
	"CONFIGURE": {"STANDBY", "CONFIGURED"},
	"START":     {"CONFIGURED", "RUNNING"},
	"STOP":      {"RUNNING", "CONFIGURED"},
	"RESET":     {"CONFIGURED", "STANDBY"},
	"EXIT":      {"", "DONE"},
}

func (s *occServer) GetState(ctx context.Context, _ *pb.GetStateRequest) (*pb.GetStateReply, error) {
	s.mu.Lock()
	defer s.mu.Unlock()
	s.nget++
	if s.nget == 1 {
		s.log.emit(map[string]interface{}{"ev": "Occ", "rpc": "GetState", "st": s.state})
	}
	reply := &pb.GetStateReply{State: s.state, Pid: int32(os.Getpid())}
	if s.beh == "midstate" && s.state == "IDLE" {
		// the executor has now seen it IDLE (and will report TASK_RUNNING): from here on it is in an intermediate state
		s.state = "BINDING"
	}
	return reply, nil
}

func (s *occServer) Transition(ctx context.Context, r *pb.TransitionRequest) (*pb.TransitionReply, error) {
	if s.beh == "slow" && r.GetTransitionEvent() == "CONNECT" {
		time.Sleep(12 * time.Second) // the step is under way: the state changes when it completes
	}
	s.mu.Lock()
	defer s.mu.Unlock()
	t, known := occTransitions[r.GetTransitionEvent()]
	if s.beh == "fmq" || s.beh == "midstate" || s.beh == "resetstuck" || s.beh == "slow" {
		t, known = fmqTransitions[r.GetTransitionEvent()]
	}
	ok := known && (t[0] == "" || t[0] == s.state) && s.state != "INITIALIZING" && s.state != "BINDING"
	if s.beh == "nodone" && r.GetTransitionEvent() == "EXIT" {
		ok = false
	}
	if s.beh == "resetstuck" && r.GetTransitionEvent() == "RESET DEVICE" {
		ok = false
	}
	if ok {
		s.state = t[1]
		if s.state == "DONE" || s.state == "EXITING" { // what the device does once it is DONE
			switch s.beh {
			case "done0":
				time.AfterFunc(5*time.Millisecond, func() { s.leave <- 0 })
			case "done3":
				time.AfterFunc(300*time.Millisecond, func() { s.leave <- 3 })
			case "donesig":
				time.AfterFunc(300*time.Millisecond, func() { s.leave <- -1 })
			}
		}
	}
	s.ntrans++
	if s.ntrans <= 200 { // a caller stuck in a loop must not flood the record
		s.log.emit(map[string]interface{}{"ev": "Occ", "rpc": "Transition", "event": r.GetTransitionEvent(), "ok": ok, "st": s.state})
	}
	return &pb.TransitionReply{Trigger: pb.StateChangeTrigger_EXECUTOR, State: s.state, TransitionEvent: r.GetTransitionEvent(), Ok: ok}, nil
}

func (s *occServer) EventStream(_ *pb.EventStreamRequest, srv pb.Occ_EventStreamServer) error {
	select {
	case <-srv.Context().Done():
	case <-s.stopping:
	}
	return nil
}

func runFakeOcc(port int, logPath, beh, fifo string) int {
	f, err := os.OpenFile(logPath, os.O_APPEND|os.O_WRONLY|os.O_CREATE, 0644)
	if err != nil {
		fmt.Fprintln(os.Stderr, "fakeocc:", err)
		return 97
	}
	lg := &occLog{f: f}
	sigc := make(chan os.Signal, 8)
	signal.Notify(sigc, syscall.SIGTERM, syscall.SIGINT)

	if beh == "fork" {
		// a helper in the same process group, not tied to our lifetime
		c := exec.Command("/bin/sleep", "600")
		if err := c.Start(); err != nil {
			fmt.Fprintln(os.Stderr, "fakeocc: fork:", err)
			return 97
		}
		go c.Wait()
	}
	srv := &occServer{state: "STANDBY", log: lg, stopping: make(chan struct{}), beh: beh, leave: make(chan int, 4)}
	if beh == "stuck" {
		srv.state = "INITIALIZING"
	}
	if beh == "fmq" || beh == "midstate" || beh == "resetstuck" || beh == "slow" {
		srv.state = "IDLE"
	}
	lis, err := net.Listen("tcp", fmt.Sprintf("127.0.0.1:%d", port))
	if err != nil {
		// harness trouble (port taken), never an observation about the executor
		lg.emit(map[string]interface{}{"ev": "HarnessError", "what": "fakeocc cannot listen: " + err.Error()})
		return 98
	}
	g := grpc.NewServer()
	pb.RegisterOccServer(g, srv)
	go g.Serve(lis)

	rel := make(chan int, 1)
	if (beh == "exit0" || beh == "exit3") && fifo != "" {
		go func() {
			// blocks until the driver opens the FIFO for writing
			fh, err := os.Open(fifo)
			if err != nil {
				return
			}
			buf := make([]byte, 8)
			fh.Read(buf)
			if beh == "exit3" {
				rel <- 3
			} else {
				rel <- 0
			}
		}()
	}
	for {
		select {
		case sg := <-sigc:
			name := "TERM"
			if sg == syscall.SIGINT {
				name = "INT"
			}
			lg.emit(map[string]interface{}{"ev": "Sig", "sig": name, "obeyed": beh != "ignore"})
			if beh != "ignore" {
				close(srv.stopping)
				if beh == "nodone" {
					return 3
				}
				return 0
			}
		case code := <-srv.leave:
			lg.emit(map[string]interface{}{"ev": "ChildExit", "code": code})
			if code < 0 {
				syscall.Kill(os.Getpid(), syscall.SIGKILL)
				time.Sleep(time.Second)
			}
			close(srv.stopping)
			return code
		case code := <-rel:
			lg.emit(map[string]interface{}{"ev": "ChildExit", "code": code})
			close(srv.stopping)
			return code
		case <-time.After(10 * time.Minute):
			return 96 // safety net: never linger
		}
	}
}
