// Command exectask replays scenarios generated from spec/ExecTask.tla on the REAL executor code
// (executor/handlers.go + executor/executable/*.go, built from /repo with -tags verif) against REAL
// child processes, and records what the executor reported and what survived.
//
// Modes:
//
//	(default)      supervisor: reads scenarios (NDJSON), runs each one in its own child process
//	               ("-mode one"), several in parallel, and writes ONE trace file.  A panic or a hang
//	               of the executor code is an observation (ExecutorExit line), not a harness crash.
//	-mode one      plays the executor's event loop for one scenario: LAUNCH / MESSAGE / KILL events
//	               go through the unmodified handlers (executor.VerifExecutor), the task's child is a
//	               real /bin/sh process (or the fake OCC device below) in its own process group.
//	-mode fakeocc  a fake OCC device (gRPC server on the control port) used as the child of
//	               controllable tasks.
package main

import (
	"bufio"
	"bytes"
	"encoding/json"
	"flag"
	"fmt"
	"net"
	"os"
	"os/exec"
	"path/filepath"
	"regexp"
	"sort"
	"strings"
	"sync"
	"syscall"
	"time"

	"verif/harness/vtrace"
)

var siteRe = regexp.MustCompile(`github\.com/AliceO2Group/Control/executor(?:/executable)?\.([^\s(]*(?:\(\*[A-Za-z]+\))?[^\s(]*)\(`)

// panicSite extracts the innermost frame of the executor's own code from a Go panic dump.
func panicSite(stderr string) (bool, string, string) {
	i := strings.Index(stderr, "panic: ")
	if i < 0 {
		i = strings.Index(stderr, "fatal error: ")
		if i < 0 {
			return false, "", ""
		}
	}
	msg := stderr[i:]
	if j := strings.Index(msg, "\n"); j > 0 {
		msg = msg[:j]
	}
	site := ""
	for _, line := range strings.Split(stderr[i:], "\n") {
		if strings.HasPrefix(line, "\t") {
			continue
		}
		if m := siteRe.FindStringSubmatch(line); m != nil {
			site = m[1]
			break
		}
	}
	return true, site, msg
}

type result struct {
	id    int
	lines []map[string]interface{}
}

// controlPort picks the control port of scenario idx: unique within this run, offset by the
// supervisor's pid so that concurrent runs do not meet, and free at the time of the probe.
func controlPort(idx int) int {
	// below the ephemeral range (32768+), where outgoing connections of anybody may sit on a port
	p := 10000 + (os.Getpid()%10)*2200 + idx%2200
	for k := 0; k < 10; k++ {
		l, err := net.Listen("tcp", fmt.Sprintf("127.0.0.1:%d", p))
		if err == nil {
			l.Close()
			return p
		}
		p += 2203
		if p > 32000 {
			p -= 22000
		}
	}
	return p
}

// runScenario runs one scenario in its own process; a control port that turned out to be taken
// (harness trouble) gets one more attempt on another port.
func runScenario(self, work string, raw []byte, deadline time.Duration, idx int) result {
	res := runScenarioOnce(self, work, raw, deadline, idx)
	for _, m := range res.lines {
		if m["ev"] == "HarnessError" && strings.Contains(fmt.Sprint(m["what"]), "cannot listen") {
			return runScenarioOnce(self, work, raw, deadline, idx+1103)
		}
	}
	return res
}

func runScenarioOnce(self, work string, raw []byte, deadline time.Duration, idx int) result {
	var sc Scenario
	if err := json.Unmarshal(raw, &sc); err != nil {
		return result{id: -1}
	}
	dir := filepath.Join(work, fmt.Sprintf("c17s%dp%d", sc.ID, os.Getpid()))
	os.RemoveAll(dir)
	os.MkdirAll(dir, 0755)
	scnPath := filepath.Join(dir, "scn.json")
	os.WriteFile(scnPath, raw, 0644)
	tag := filepath.Base(dir)

	cmd := exec.Command(self, "-mode", "one", "-scn", scnPath, "-dir", dir, "-port", fmt.Sprint(controlPort(idx)))
	var stderr bytes.Buffer
	cmd.Stderr = &stderr
	cmd.Stdout = &stderr
	cmd.SysProcAttr = &syscall.SysProcAttr{Setpgid: true}
	t0 := time.Now()
	res := result{id: sc.ID}
	add := func(m map[string]interface{}) {
		m["scn"] = sc.ID
		res.lines = append(res.lines, m)
	}
	add(map[string]interface{}{"ev": "Reset", "kind": sc.Kind, "beh": sc.Beh, "hold": sc.Hold, "user": sc.User, "down": sc.Down, "cls": sc.Cls})
	if err := cmd.Start(); err != nil {
		add(map[string]interface{}{"ev": "HarnessError", "what": err.Error()})
		return res
	}
	done := make(chan error, 1)
	go func() { done <- cmd.Wait() }()
	timedOut := false
	var werr error
	select {
	case werr = <-done:
	case <-time.After(deadline):
		timedOut = true
		syscall.Kill(-cmd.Process.Pid, syscall.SIGKILL)
		werr = <-done
	}
	left := killTagged(tag)
	// what the scenario process (and the fake device) recorded
	if f, err := os.Open(filepath.Join(dir, "trace.ndjson")); err == nil {
		s := bufio.NewScanner(f)
		s.Buffer(make([]byte, 1<<20), 1<<20)
		var recorded []map[string]interface{}
		for s.Scan() {
			var m map[string]interface{}
			if json.Unmarshal(s.Bytes(), &m) == nil {
				recorded = append(recorded, m)
			}
		}
		f.Close()
		// The request is a fact from the moment it is issued (ReqIssued, written before the handler runs); its
		// verdict (Req, written when the handler has returned) takes that place in the record: what the device
		// process wrote in between (it appends to the file on its own) is a consequence of the request.  If the
		// executor died before the verdict could be written, the request was delivered.
		skip := map[int]bool{}
		for i, m := range recorded {
			if skip[i] {
				continue
			}
			if m["ev"] != "ReqIssued" {
				add(m)
				continue
			}
			verdict := -1
			for k := i + 1; k < len(recorded); k++ {
				if recorded[k]["ev"] == "Req" {
					verdict = k
					break
				}
			}
			if verdict >= 0 {
				add(recorded[verdict])
				skip[verdict] = true
			} else {
				m["ev"] = "Req"
				m["delivered"] = true
				add(m)
			}
		}
	}
	code, sig := 0, ""
	if werr != nil {
		if ee, ok := werr.(*exec.ExitError); ok {
			ws := ee.Sys().(syscall.WaitStatus)
			if ws.Signaled() {
				sig = ws.Signal().String()
				code = -1
			} else {
				code = ws.ExitStatus()
			}
		} else {
			code = -2
		}
	}
	switch {
	case timedOut:
		add(map[string]interface{}{"ev": "HarnessError", "what": "scenario process exceeded its deadline", "stderr": tailStr(stderr.String(), 400)})
	case code == 0:
	case code == 3: // LoopHung already recorded by the scenario process
	default:
		isPanic, site, msg := panicSite(stderr.String())
		if isPanic {
			add(map[string]interface{}{"ev": "ExecutorExit", "code": code, "signal": sig, "panic": true, "site": site, "msg": msg,
				"leftover": left})
		} else {
			add(map[string]interface{}{"ev": "HarnessError", "what": fmt.Sprintf("scenario process exit %d %s", code, sig),
				"stderr": tailStr(stderr.String(), 400)})
		}
	}
	add(map[string]interface{}{"ev": "Fin", "wall_ms": int(time.Since(t0).Milliseconds())})
	os.RemoveAll(dir)
	return res
}

func tailStr(s string, n int) string {
	if len(s) > n {
		return s[len(s)-n:]
	}
	return s
}

func supervise(scnFile, traceFile, work string, par int, deadline time.Duration) int {
	self, _ := os.Executable()
	fh, err := os.Open(scnFile)
	if err != nil {
		fmt.Fprintln(os.Stderr, err)
		return 2
	}
	var raws [][]byte
	s := bufio.NewScanner(fh)
	s.Buffer(make([]byte, 1<<22), 1<<22)
	for s.Scan() {
		if len(bytes.TrimSpace(s.Bytes())) > 0 {
			raws = append(raws, append([]byte(nil), s.Bytes()...))
		}
	}
	fh.Close()
	os.MkdirAll(work, 0755)
	results := make([]result, len(raws))
	var wg sync.WaitGroup
	sem := make(chan struct{}, par)
	for i := range raws {
		wg.Add(1)
		sem <- struct{}{}
		go func(i int) {
			defer wg.Done()
			defer func() { <-sem }()
			results[i] = runScenario(self, work, raws[i], deadline, i)
		}(i)
	}
	wg.Wait()
	sort.SliceStable(results, func(a, b int) bool { return results[a].id < results[b].id })
	rec, err := vtrace.New(traceFile)
	if err != nil {
		fmt.Fprintln(os.Stderr, err)
		return 2
	}
	n, herr := 0, 0
	for _, r := range results {
		for _, m := range r.lines {
			ev, _ := m["ev"].(string)
			if ev == "HarnessError" {
				herr++
			}
			delete(m, "ev")
			rec.EmitMap(ev, m)
			n++
		}
	}
	rec.Close()
	fmt.Printf("scenarios=%d lines=%d harness_errors=%d\n", len(results), n, herr)
	return 0
}

func main() {
	mode := flag.String("mode", "", "one | fakeocc | (supervisor)")
	scns := flag.String("scenarios", "", "scenario file (NDJSON)")
	trace := flag.String("trace", "", "trace file to write")
	work := flag.String("work", "/tmp/verif-c17", "scratch directory")
	par := flag.Int("par", 12, "scenarios run in parallel")
	deadline := flag.Duration("deadline", 120*time.Second, "per-scenario deadline")
	scn := flag.String("scn", "", "(one) scenario file")
	dir := flag.String("dir", "", "(one) scenario directory")
	port := flag.Int("port", 0, "(fakeocc) control port")
	logf := flag.String("log", "", "(fakeocc) trace file to append to")
	beh := flag.String("beh", "sleep", "(fakeocc) behaviour")
	fifo := flag.String("fifo", "", "(fakeocc) release fifo")
	flag.Parse()
	switch *mode {
	case "one":
		os.Exit(runOne(*scn, *dir, *port))
	case "fakeocc":
		os.Exit(runFakeOcc(*port, *logf, *beh, *fifo))
	default:
		os.Exit(supervise(*scns, *trace, *work, *par, *deadline))
	}
}
