package main

import (
	"bytes"
	"os"
	"strconv"
	"strings"
	"syscall"
	"time"
)

// Proc is a live (non-zombie) process carrying the scenario tag in its environment.
type Proc struct {
	Pid   int    `json:"pid"`
	Pgid  int    `json:"pgid"`
	Comm  string `json:"comm"`
	State string `json:"state"`
	Ppid  int    `json:"ppid"`
}

// taggedProcs scans /proc for processes whose environment contains tag (VERIF_TAG=<...>).
// Children inherit the environment, so this finds the task's shell and everything it forked.
// Zombies (state Z) have already terminated and are not counted. self and skip are excluded.
func taggedProcs(tag string, skip map[int]bool) []Proc {
	res := make([]Proc, 0)
	ents, err := os.ReadDir("/proc")
	if err != nil {
		return res
	}
	needle := []byte("VERIF_TAG=" + tag)
	for _, e := range ents {
		pid, err := strconv.Atoi(e.Name())
		if err != nil || pid == os.Getpid() || skip[pid] {
			continue
		}
		env, err := os.ReadFile("/proc/" + e.Name() + "/environ")
		if err != nil || !bytes.Contains(env, needle) {
			continue
		}
		ok := false
		for _, kv := range bytes.Split(env, []byte{0}) {
			if bytes.Equal(kv, needle) {
				ok = true
				break
			}
		}
		if !ok {
			continue
		}
		st, err := os.ReadFile("/proc/" + e.Name() + "/stat")
		if err != nil {
			continue
		}
		// pid (comm) state ppid pgrp ...
		s := string(st)
		rp := strings.LastIndex(s, ")")
		lp := strings.Index(s, "(")
		if rp < 0 || lp < 0 {
			continue
		}
		f := strings.Fields(s[rp+1:])
		if len(f) < 3 || f[0] == "Z" || f[0] == "X" {
			continue
		}
		pgid, _ := strconv.Atoi(f[2])
		ppid, _ := strconv.Atoi(f[1])
		res = append(res, Proc{Pid: pid, Pgid: pgid, Comm: s[lp+1 : rp], State: f[0], Ppid: ppid})
	}
	return res
}

// taggedProcsSure: "nothing alive" is only believed when three scans a few milliseconds apart agree - the
// environment of a process that is in the middle of exec reads as empty for a moment (seen under heavy load).
func taggedProcsSure(tag string) []Proc {
	for k := 0; ; k++ {
		ps := taggedProcs(tag, nil)
		if len(ps) > 0 || k == 2 {
			return ps
		}
		time.Sleep(8 * time.Millisecond)
	}
}

// groupAlive probes a process group the way the property talks about it: kill(-pgid, 0).
// (A group whose only members are zombies still answers; taggedProcs is the authoritative probe.)
func groupAlive(pgid int) bool {
	if pgid <= 1 {
		return false
	}
	return syscall.Kill(-pgid, 0) == nil
}

func killTagged(tag string) int {
	n := 0
	for i := 0; i < 5; i++ {
		ps := taggedProcs(tag, nil)
		if len(ps) == 0 {
			break
		}
		for _, p := range ps {
			if syscall.Kill(p.Pid, syscall.SIGKILL) == nil {
				n++
			}
		}
	}
	return n
}
