package main

import (
	"context"
	"encoding/json"
	"errors"
	"fmt"
	"io"
	"net"
	"os"
	"path/filepath"
	"strings"
	"sync"
	"syscall"
	"time"

	"github.com/AliceO2Group/Control/common/utils/uid"
	"github.com/AliceO2Group/Control/core/controlcommands"
	aliexec "github.com/AliceO2Group/Control/executor"
	mesos "github.com/mesos/mesos-go/api/v1/lib"
	"github.com/mesos/mesos-go/api/v1/lib/executor"
	"github.com/mesos/mesos-go/api/v1/lib/executor/calls"
	"github.com/sirupsen/logrus"
)

// ---- scenario -------------------------------------------------------------------------------

type Step struct {
	A string `json:"a"`           // model action
	R string `json:"r,omitempty"` // request (Req, Body) or signal (KSig)
}

type Scenario struct {
	ID    int    `json:"id"`
	Kind  string `json:"kind"` // basic | hook | ctl
	Beh   string `json:"beh"`  // child behaviour
	Hold  bool   `json:"hold"` // the event loop handles agent events before a queued terminal status
	Down  bool   `json:"down"` // the agent refuses the executor's UPDATE calls
	User  bool   `json:"user"` // the task has a user configured (TaskCommandInfo.user = root; the harness runs as root)
	Steps []Step `json:"steps"`
	Cls   string `json:"cls,omitempty"`
}

// ---- recorder + the driver's view of what has been observed so far ---------------------------

type view struct {
	launched     bool
	runningSeen  bool // status TASK_RUNNING seen
	started      bool // a child was started (START / Trigger answered without error)
	released     bool
	procTerminal bool // the event loop has processed a terminal status of the task
	reapSeen     bool // BASIC_TASK_TERMINATED seen (basic, hook) / final status seen (ctl)
	occSeen      bool // the device answered its first GetState (ctl)
	nStatus      map[string]int
	nResp        map[string]int
	nBTT         int
	nProc        int
	nStatus2     map[string]int // statuses of the second task
	nProc2       int
	nSig         map[string]int
	nOcc         map[string]int
	nReq         map[string]int // delivered requests by type
	held         []mesos.TaskStatus
	cmdReq       map[string]string // command id -> request name
	lastStop     time.Time
	stopOrKill   bool
}

type recorder struct {
	mu    sync.Mutex
	f     *os.File
	v     view
	sc    *Scenario
	ended bool // after the End line nothing more belongs to the run (the harness kills what is left)
}

func (r *recorder) emitLocked(ev string, m map[string]interface{}) {
	if r.ended {
		return
	}
	if m == nil {
		m = map[string]interface{}{}
	}
	m["ev"] = ev
	b, err := json.Marshal(m)
	if err != nil {
		panic(err)
	}
	r.f.Write(append(b, '\n'))
}

func (r *recorder) emit(ev string, m map[string]interface{}, upd func(v *view)) {
	r.mu.Lock()
	defer r.mu.Unlock()
	if upd != nil {
		upd(&r.v)
	}
	r.emitLocked(ev, m)
}

func (r *recorder) await(what string, timeout time.Duration, cond func(v *view) bool) bool {
	dl := time.Now().Add(timeout)
	for {
		r.mu.Lock()
		ok := cond(&r.v)
		r.mu.Unlock()
		if ok {
			return true
		}
		if time.Now().After(dl) {
			r.emit("Note", map[string]interface{}{"timeout": what}, nil)
			return false
		}
		time.Sleep(time.Millisecond)
	}
}

// instant of the child's life as far as the driver has observed it (same definition as Inst in
// spec/ExecTask.tla, which computes it from the history of observable actions).
func (v *view) inst(sc *Scenario) string {
	if sc.Kind == "ctl" {
		switch {
		case v.procTerminal:
			return "gone"
		case v.reapSeen:
			return "reaped"
		case v.released:
			return "exiting"
		case v.runningSeen:
			return "running"
		case v.occSeen:
			return "polling"
		default:
			return "starting"
		}
	}
	switch {
	case v.reapSeen:
		return "reaped"
	case v.released || (v.started && sc.Beh == "crash"):
		return "exiting"
	case v.started:
		return "running"
	case !v.runningSeen:
		return "launching"
	default:
		return "nochild"
	}
}

func terminal(s string) bool {
	return s == "TASK_FINISHED" || s == "TASK_FAILED" || s == "TASK_KILLED"
}

// ---- one scenario ---------------------------------------------------------------------------

type runner struct {
	sc     *Scenario
	dir    string
	tag    string
	fifo   string
	rec    *recorder
	vx     *aliexec.VerifExecutor
	loopMu sync.Mutex // the executor's event loop is one goroutine: its steps never overlap
	ti     mesos.TaskInfo
	ti2    mesos.TaskInfo // a second task of the same executor (step "Second")
	envId  uid.ID
	self   string
	await  map[string]int
	port   int
}

func freePort() int {
	l, err := net.Listen("tcp", "127.0.0.1:0")
	if err != nil {
		return 47100 + os.Getpid()%500
	}
	defer l.Close()
	return l.Addr().(*net.TCPAddr).Port
}

func (rn *runner) script() (string, int) {
	f := rn.fifo
	rdy := filepath.Join(rn.dir, "ready") // the script creates it once it is set up (traps, forked child)
	port := 0
	var s string
	switch rn.sc.Kind {
	case "ctl":
		port = rn.port
		if port == 0 {
			port = freePort()
		}
		if rn.sc.Beh == "noready" {
			s = fmt.Sprintf("read x < %s; exit 0", f) // never listens on the control port
		} else {
			s = fmt.Sprintf("%s -mode fakeocc -port %d -log %s -beh %s -fifo %s; exit $?", rn.self, port,
				filepath.Join(rn.dir, "trace.ndjson"), rn.sc.Beh, f)
		}
	default:
		switch rn.sc.Beh {
		case "exit0":
			s = fmt.Sprintf(": > %s; read x < %s; exit 0", rdy, f)
		case "exit3":
			s = fmt.Sprintf(": > %s; read x < %s; exit 3", rdy, f)
		case "fork": // a grandchild in the same process group that outlives the shell
			// ready only once the forked child has exec'ed (its comm says so): from then on it is a stable fact
			s = fmt.Sprintf("/bin/sleep 600 & until read c < /proc/$!/comm && [ \"$c\" = sleep ]; do :; done; : > %s; read x < %s; exit 0", rdy, f)
		case "ignore":
			s = fmt.Sprintf("trap '' TERM INT; : > %s; while :; do read x < %s; done", rdy, f)
		case "crash":
			s = "exec /nonexistent/verif-no-such-command"
		default: // sleep: runs until killed
			s = fmt.Sprintf(": > %s; while :; do read x < %s; done", rdy, f)
		}
	}
	return s, port
}

func (rn *runner) send(_ context.Context, req calls.Request) (mesos.Response, error) {
	call := req.Call()
	if call == nil {
		return nil, nil
	}
	switch call.Type {
	case executor.Call_UPDATE:
		st := call.Update.Status.GetState().String()
		if rn.sc.Down { // the fake agent refuses the update (the executor keeps it in failedTasks / logs the failure)
			rn.rec.emit("Note", map[string]interface{}{"update_refused": st}, nil)
			return nil, errors.New("verif: agent API unavailable")
		}
		rn.rec.emit("Note", map[string]interface{}{"update": st}, nil)
	case executor.Call_MESSAGE:
		var m map[string]interface{}
		if err := json.Unmarshal(call.Message.Data, &m); err != nil {
			rn.rec.emit("Note", map[string]interface{}{"badmessage": string(call.Message.Data)}, nil)
			return nil, nil
		}
		switch m["_messageType"] {
		case "MesosCommandResponse":
			id, _ := m["id"].(string)
			errs, _ := m["error"].(string)
			state, _ := m["state"].(string)
			rn.rec.mu.Lock()
			r := rn.rec.v.cmdReq[id]
			rn.rec.v.nResp[r]++
			if (r == "START" || r == "Trigger") && errs == "" {
				rn.rec.v.started = true
			}
			if r == "STOP" {
				rn.rec.v.lastStop = time.Now()
				rn.rec.v.stopOrKill = true
			}
			rn.rec.emitLocked("Resp", map[string]interface{}{"r": r, "state": state, "err": errs != "", "errs": errs})
			rn.rec.mu.Unlock()
		case "DeviceEvent":
			t, _ := m["type"].(float64)
			if int(t) == 2 { // BASIC_TASK_TERMINATED
				final := ""
				switch f := m["finalMesosState"].(type) {
				case float64:
					final = mesos.TaskState(int32(f)).String()
				case string:
					final = f
				}
				code, _ := m["exitCode"].(float64)
				vol, _ := m["voluntaryTermination"].(bool)
				rn.rec.emit("DevEvent", map[string]interface{}{"type": "BASIC_TASK_TERMINATED",
					"final": final, "exit": int(code), "vol": vol},
					func(v *view) { v.nBTT++; v.reapSeen = true })
			} else {
				rn.rec.emit("Note", map[string]interface{}{"devevent": int(t)}, nil)
			}
		default:
			rn.rec.emit("Note", map[string]interface{}{"message": fmt.Sprint(m["_messageType"])}, nil)
		}
	default:
		rn.rec.emit("Note", map[string]interface{}{"call": call.Type.String()}, nil)
	}
	return nil, nil
}

// pump plays the two non-event branches of eventLoop's select.
func (rn *runner) pump() {
	for {
		select {
		case st := <-rn.vx.StatusCh():
			name := st.GetState().String()
			if st.TaskID.Value == rn.ti2.TaskID.Value && rn.ti2.TaskID.Value != "" {
				// the second task of the same executor: facts for the monitor, not steps of the model
				rn.rec.emit("Status2", map[string]interface{}{"state": name}, func(v *view) { v.nStatus2[name]++ })
				rn.loopMu.Lock()
				rn.guard("ProcStatus2", func() { rn.vx.PerformStatusUpdate(st) })
				rn.loopMu.Unlock()
				rn.rec.emit("Proc2", map[string]interface{}{"state": name}, func(v *view) { v.nProc2++ })
				continue
			}
			hold := false
			rn.rec.emit("Status", map[string]interface{}{"state": name}, func(v *view) {
				// statusCh is FIFO: behind a held terminal status everything waits
				hold = rn.sc.Hold && (terminal(name) || len(v.held) > 0)
				v.nStatus[name]++
				if name == "TASK_RUNNING" {
					v.runningSeen = true
				}
				if terminal(name) && rn.sc.Kind == "ctl" {
					v.reapSeen = true
				}
				if hold {
					v.held = append(v.held, st)
				}
			})
			if !hold {
				rn.process(st)
			}
		case m := <-rn.vx.MessageCh():
			rn.loopMu.Lock()
			rn.vx.SendOutgoingMessage(m)
			rn.loopMu.Unlock()
		}
	}
}

func (rn *runner) process(st mesos.TaskStatus) {
	rn.loopMu.Lock()
	defer rn.loopMu.Unlock()
	rn.guard("ProcStatus", func() { rn.vx.PerformStatusUpdate(st) })
	rn.rec.emit("Proc", map[string]interface{}{"state": st.GetState().String()}, func(v *view) {
		v.nProc++
		if terminal(st.GetState().String()) {
			v.procTerminal = true
		}
	})
}

// guard runs one step of the event loop; a step that does not return is an executor hang.
func (rn *runner) guard(what string, f func()) {
	done := make(chan struct{})
	go func() { f(); close(done) }()
	select {
	case <-done:
	case <-time.After(15 * time.Second):
		b, _ := json.Marshal(map[string]interface{}{"ev": "LoopHung", "step": what})
		rn.rec.f.Write(append(b, '\n'))
		killTagged(rn.tag)
		os.Exit(3)
	}
}

func (rn *runner) launch() {
	script, port := rn.script()
	mode := map[string]string{"basic": "basic", "hook": "hook", "ctl": "direct"}[rn.sc.Kind]
	if rn.sc.Kind == "ctl" && (rn.sc.Beh == "fmq" || rn.sc.Beh == "midstate" || rn.sc.Beh == "resetstuck" || rn.sc.Beh == "slow") {
		mode = "fairmq" // FairMQ transitioner: FairMQ state names, multi-step CONFIGURE / RESET
	}
	tci := map[string]interface{}{
		"shell": true, "value": script, "env": []string{"VERIF_TAG=" + rn.tag},
		"controlPort": port, "controlMode": mode,
	}
	if rn.sc.User {
		tci["user"] = "root" // prepareTaskCmd: user.Lookup + syscall.Credential on the child's SysProcAttr
	}
	data, _ := json.Marshal(tci)
	envs := rn.envId.String()
	rn.ti = mesos.TaskInfo{
		Name:     "verif-exectask#" + rn.tag,
		TaskID:   mesos.TaskID{Value: "task-" + rn.tag},
		AgentID:  mesos.AgentID{Value: "agent-1"},
		Executor: &mesos.ExecutorInfo{ExecutorID: mesos.ExecutorID{Value: "executor-1"}},
		Labels:   &mesos.Labels{Labels: []mesos.Label{{Key: "environmentId", Value: &envs}}},
		Data:     data,
	}
	rn.loopMu.Lock()
	defer rn.loopMu.Unlock()
	var err error
	rn.guard("Launch", func() {
		err = rn.vx.HandleEvent(&executor.Event{Type: executor.Event_LAUNCH, Launch: &executor.Event_Launch{Task: rn.ti}})
	})
	rn.rec.emit("Launch", map[string]interface{}{"ok": err == nil, "active": rn.vx.IsActive(rn.ti.TaskID)},
		func(v *view) { v.launched = true })
}

var transitions = map[string][2]string{
	"CONFIGURE": {"STANDBY", "CONFIGURED"},
	"START":     {"CONFIGURED", "RUNNING"},
	"STOP":      {"RUNNING", "CONFIGURED"},
	"RESET":     {"CONFIGURED", "STANDBY"},
}

func (rn *runner) request(r string) {
	target := controlcommands.MesosCommandTarget{AgentId: rn.ti.AgentID, ExecutorId: rn.ti.Executor.ExecutorID, TaskId: rn.ti.TaskID}
	var data []byte
	var id string
	switch r {
	case "Kill":
	case "Trigger":
		c := controlcommands.NewMesosCommand_TriggerHook(rn.envId, []controlcommands.MesosCommandTarget{target})
		id = c.Id.String()
		data, _ = json.Marshal(c)
	default:
		t := transitions[r]
		c := controlcommands.NewMesosCommand_Transition(rn.envId, []controlcommands.MesosCommandTarget{target}, t[0], r, t[1], nil)
		id = c.Id.String()
		data, _ = json.Marshal(c)
	}
	rn.loopMu.Lock()
	defer rn.loopMu.Unlock()
	// the line is written atomically with the lookup: nothing can be recorded between the instant
	// the driver believes in and the handler's decision
	rn.rec.mu.Lock()
	defer rn.rec.mu.Unlock()
	v := &rn.rec.v
	if id != "" {
		v.cmdReq[id] = r
	}
	inst := v.inst(rn.sc)
	// written before the handler runs: if the executor dies inside the handler's goroutine before the
	// verdict can be written, the supervisor turns this line into the Req line (it was delivered)
	rn.rec.emitLocked("ReqIssued", map[string]interface{}{"r": r, "inst": inst, "nth": v.nReq[r] + 1,
		"late": v.nStatus["TASK_FINISHED"]+v.nStatus["TASK_FAILED"]+v.nStatus["TASK_KILLED"] > 0})
	var err error
	rn.guard("Req "+r, func() {
		if r == "Kill" {
			err = rn.vx.HandleKill(rn.ti.TaskID)
		} else {
			err = rn.vx.HandleMessage(data)
		}
	})
	// handleMessageEvent's named result is also written by the goroutine it spawns (e.g. "RPC is
	// down"); only the lookup failure means the request did not reach the task
	delivered := err == nil || !(strings.HasPrefix(err.Error(), "no active task") || err.Error() == "invalid task ID")
	nth := v.nReq[r] + 1
	if delivered {
		v.nReq[r]++
		if r == "Kill" {
			v.lastStop = time.Now()
			v.stopOrKill = true
		}
	}
	// late: a terminal status of this task has already been handed to the event loop
	late := v.nStatus["TASK_FINISHED"]+v.nStatus["TASK_FAILED"]+v.nStatus["TASK_KILLED"] > 0
	rn.rec.emitLocked("Req", map[string]interface{}{"r": r, "inst": inst, "nth": nth, "delivered": delivered, "late": late})
}

func (rn *runner) release() {
	rn.rec.emit("Release", nil, func(v *view) { v.released = true })
	dl := time.Now().Add(8 * time.Second)
	for {
		fd, err := syscall.Open(rn.fifo, syscall.O_WRONLY|syscall.O_NONBLOCK, 0)
		if err == nil {
			syscall.Write(fd, []byte("x\n"))
			syscall.Close(fd)
			return
		}
		if time.Now().After(dl) {
			rn.rec.emit("Note", map[string]interface{}{"timeout": "release: no reader on the fifo"}, nil)
			return
		}
		time.Sleep(2 * time.Millisecond)
	}
}

func (rn *runner) procHeld() {
	var st mesos.TaskStatus
	ok := rn.rec.await("held status", 15*time.Second, func(v *view) bool {
		if len(v.held) > 0 {
			st = v.held[0]
			v.held = v.held[1:]
			return true
		}
		return false
	})
	if !ok {
		return
	}
	rn.process(st)
	for { // what queued up behind it, up to the next terminal status
		var nx *mesos.TaskStatus
		rn.rec.mu.Lock()
		if len(rn.rec.v.held) > 0 && !terminal(rn.rec.v.held[0].GetState().String()) {
			h := rn.rec.v.held[0]
			nx = &h
			rn.rec.v.held = rn.rec.v.held[1:]
		}
		rn.rec.mu.Unlock()
		if nx == nil {
			return
		}
		rn.process(*nx)
	}
}

// awaitNext waits for one more occurrence of a kind of evidence than was awaited before.
func (rn *runner) awaitNext(key string, timeout time.Duration, count func(v *view) int) bool {
	rn.await[key]++
	want := rn.await[key]
	return rn.rec.await(key, timeout, func(v *view) bool { return count(v) >= want })
}

const settle = 120 * time.Millisecond

func (rn *runner) step(st Step) {
	ctl := rn.sc.Kind == "ctl"
	switch st.A {
	case "Launch":
		rn.launch()
	case "Req":
		rn.request(st.R)
	case "Release":
		rn.release()
	case "ProcHeld":
		rn.procHeld()
	case "Timer":
		rn.awaitNext("status TASK_RUNNING", 8*time.Second, func(v *view) int { return v.nStatus["TASK_RUNNING"] })
	case "Body":
		switch {
		case st.R == "Kill" && !ctl:
			rn.awaitNext("status TASK_FINISHED", 8*time.Second, func(v *view) int { return v.nStatus["TASK_FINISHED"] })
		case st.R == "Kill":
			time.Sleep(settle)
		default:
			r := st.R
			wait := 8 * time.Second
			if rn.sc.Beh == "slow" {
				wait = 25 * time.Second // one step of its CONFIGURE takes 12 s
			}
			rn.awaitNext("resp "+r, wait, func(v *view) int { return v.nResp[r] })
			if rn.sc.Beh == "slow" && r == "CONFIGURE" {
				time.Sleep(3500 * time.Millisecond) // anything the device is still asked to do belongs to the record
			}
			if (r == "START" || r == "Trigger") && !ctl && rn.sc.Beh != "crash" {
				// "running" means the child is set up (it has forked what it forks), not merely exec'ed
				dl := time.Now().Add(8 * time.Second)
				for time.Now().Before(dl) {
					if _, err := os.Stat(filepath.Join(rn.dir, "ready")); err == nil {
						break
					}
					time.Sleep(time.Millisecond)
				}
			}
		}
	case "Reap":
		rn.awaitNext("BASIC_TASK_TERMINATED", 8*time.Second, func(v *view) int { return v.nBTT })
	case "Proc":
		rn.awaitNext("proc", 8*time.Second, func(v *view) int { return v.nProc })
	case "LDial":
		if rn.sc.Beh != "noready" {
			rn.rec.await("first GetState", 6*time.Second, func(v *view) bool { return v.occSeen })
		}
	case "LPoll":
		rn.rec.await("status after polling", 6*time.Second, func(v *view) bool {
			return v.nStatus["TASK_RUNNING"]+v.nStatus["TASK_FAILED"] > 0
		})
	case "LWait", "LFail":
		rn.rec.await("final status", 45*time.Second, func(v *view) bool {
			return v.nStatus["TASK_FINISHED"]+v.nStatus["TASK_FAILED"]+v.nStatus["TASK_KILLED"] > 0
		})
	case "KWalk":
		time.Sleep(settle)
	case "KClose":
		time.Sleep(settle)
	case "Nop":
	case "KSig":
		if st.R == "KILL" || st.R == "" {
			time.Sleep(settle)
		} else {
			s := st.R
			rn.awaitNext("sig "+s, 9*time.Second, func(v *view) int { return v.nSig[s] })
		}
	case "KEnd":
		dl := time.Now().Add(16 * time.Second)
		for rn.vx.IsActive(rn.ti.TaskID) && time.Now().Before(dl) {
			time.Sleep(5 * time.Millisecond)
		}
	case "Second":
		rn.second()
	case "Settle":
		time.Sleep(settle)
	default:
		rn.rec.emit("Note", map[string]interface{}{"unknown_step": st.A}, nil)
	}
}

// second: the same executor goes on with other work - LAUNCH of a second (basic) task, its TASK_RUNNING, a KILL
// for it, its terminal status.  Each step of the event loop is guarded: one that does not return is a hang.
func (rn *runner) second() {
	rn.rec.mu.Lock()
	rn.rec.emitLocked("Second", map[string]interface{}{"step": "launch"}) // written before the call: a hang leaves it
	rn.rec.mu.Unlock()
	rn.loopMu.Lock()
	var err error
	rn.guard("Launch2", func() {
		err = rn.vx.HandleEvent(&executor.Event{Type: executor.Event_LAUNCH, Launch: &executor.Event_Launch{Task: rn.ti2}})
	})
	rn.loopMu.Unlock()
	rn.rec.emit("Second", map[string]interface{}{"step": "launched", "ok": err == nil}, nil)
	rn.rec.await("second task TASK_RUNNING", 8*time.Second, func(v *view) bool { return v.nStatus2["TASK_RUNNING"] > 0 && v.nProc2 > 0 })
	rn.loopMu.Lock()
	rn.guard("Kill2", func() { err = rn.vx.HandleKill(rn.ti2.TaskID) })
	rn.loopMu.Unlock()
	rn.rec.emit("Second", map[string]interface{}{"step": "killed", "ok": err == nil}, nil)
	rn.rec.await("second task terminal status", 8*time.Second, func(v *view) bool { return v.nStatus2["TASK_FINISHED"] > 0 && v.nProc2 > 1 })
}

// secondTask describes the second task (built before the event loop's goroutines start).
func (rn *runner) secondTask() {
	data, _ := json.Marshal(map[string]interface{}{"shell": true, "value": "true", "env": []string{"VERIF_TAG=" + rn.tag},
		"controlPort": 0, "controlMode": "basic"})
	envs := rn.envId.String()
	rn.ti2 = mesos.TaskInfo{
		Name:     "verif-exectask-second#" + rn.tag,
		TaskID:   mesos.TaskID{Value: "task2-" + rn.tag},
		AgentID:  mesos.AgentID{Value: "agent-1"},
		Executor: &mesos.ExecutorInfo{ExecutorID: mesos.ExecutorID{Value: "executor-1"}},
		Labels:   &mesos.Labels{Labels: []mesos.Label{{Key: "environmentId", Value: &envs}}},
		Data:     data,
	}
}

// tail reads what the device process appends to the trace file into the view (the file is the
// single record; the device's lines are its own observations).
func (rn *runner) tail() {
	f, err := os.Open(filepath.Join(rn.dir, "trace.ndjson"))
	if err != nil {
		return
	}
	var buf []byte
	tmp := make([]byte, 4096)
	for {
		n, _ := f.Read(tmp)
		if n == 0 {
			time.Sleep(2 * time.Millisecond)
			continue
		}
		buf = append(buf, tmp[:n]...)
		for {
			i := -1
			for k, c := range buf {
				if c == '\n' {
					i = k
					break
				}
			}
			if i < 0 {
				break
			}
			var m map[string]interface{}
			if json.Unmarshal(buf[:i], &m) == nil {
				rn.rec.mu.Lock()
				switch m["ev"] {
				case "Occ":
					if m["rpc"] == "GetState" {
						rn.rec.v.occSeen = true
					} else {
						e, _ := m["event"].(string)
						rn.rec.v.nOcc[e]++
					}
				case "Sig":
					s, _ := m["sig"].(string)
					rn.rec.v.nSig[s]++
				}
				rn.rec.mu.Unlock()
			}
			buf = buf[i+1:]
		}
	}
}

func runOne(scnPath, dir string, port int) int {
	logrus.SetOutput(io.Discard)
	logrus.SetLevel(logrus.PanicLevel)
	raw, err := os.ReadFile(scnPath)
	if err != nil {
		fmt.Fprintln(os.Stderr, "one:", err)
		return 90
	}
	var sc Scenario
	if err := json.Unmarshal(raw, &sc); err != nil {
		fmt.Fprintln(os.Stderr, "one:", err)
		return 90
	}
	f, err := os.OpenFile(filepath.Join(dir, "trace.ndjson"), os.O_APPEND|os.O_WRONLY|os.O_CREATE, 0644)
	if err != nil {
		fmt.Fprintln(os.Stderr, "one:", err)
		return 90
	}
	self, _ := os.Executable()
	rn := &runner{sc: &sc, dir: dir, tag: filepath.Base(dir), fifo: filepath.Join(dir, "release.fifo"), self: self,
		envId: uid.New(), await: map[string]int{}, port: port}
	rn.rec = &recorder{f: f, sc: &sc, v: view{nStatus: map[string]int{}, nStatus2: map[string]int{}, nResp: map[string]int{}, nSig: map[string]int{},
		nOcc: map[string]int{}, nReq: map[string]int{}, cmdReq: map[string]string{}}}
	if err := syscall.Mkfifo(rn.fifo, 0600); err != nil {
		fmt.Fprintln(os.Stderr, "one: mkfifo:", err)
		return 90
	}
	rn.vx = aliexec.NewVerifExecutor(calls.SenderFunc(rn.send))
	rn.secondTask()
	go rn.pump()
	if sc.Kind == "ctl" {
		go rn.tail()
	}
	for _, st := range sc.Steps {
		rn.step(st)
	}
	// End.  First let what is in flight come to rest (answers to delivered requests, the reaper of a
	// child that was told to exit), then probe: the probe and the End line are one atomic record, and
	// the wait for an empty group (stop/kill escalation bound) is decided on what has been recorded
	// up to that very moment - so the End line is consistent with the lines before it.
	rn.rec.await("answers", 1500*time.Millisecond, func(v *view) bool {
		want, got := 0, 0
		for r, n := range v.nReq {
			if r != "Kill" {
				want += n
			}
		}
		for _, n := range v.nResp {
			got += n
		}
		return got >= want
	})
	rn.rec.mu.Lock()
	expectReap := rn.rec.v.started && (rn.rec.v.released || sc.Beh == "crash") && sc.Kind != "ctl"
	rn.rec.mu.Unlock()
	if expectReap {
		rn.rec.await("reaper", 3*time.Second, func(v *view) bool { return v.reapSeen })
	}
	bound := 1500 * time.Millisecond
	if sc.Kind == "ctl" {
		bound = 13 * time.Second // GetState 5 s + DONE 1 s + TERM 2 s + INT 3 s + 2 s
	}
	var failedAt time.Time
	for {
		rn.rec.mu.Lock()
		sk, last := rn.rec.v.stopOrKill, rn.rec.v.lastStop
		if !sk && sc.Kind == "ctl" && rn.rec.v.nStatus["TASK_FAILED"] > 0 {
			// a failed start-up runs the TERM/INT/KILL escalation on its own
			if failedAt.IsZero() {
				failedAt = time.Now()
			}
			sk, last = true, failedAt
		}
		procs := taggedProcsSure(rn.tag)
		busy := sk && sc.Kind == "ctl" && rn.vx.IsActive(rn.ti.TaskID) // the Kill goroutine is still at it
		if !sk || time.Now().After(last.Add(bound)) || (len(procs) == 0 && !busy) {
			groups := map[int]bool{}
			comms := make([]string, 0)
			for _, p := range procs {
				groups[p.Pgid] = groupAlive(p.Pgid)
				comms = append(comms, p.Comm)
			}
			ngroups := 0
			for _, alive := range groups {
				if alive {
					ngroups++
				}
			}
			rn.rec.emitLocked("End", map[string]interface{}{"alive": len(procs), "groups": ngroups, "comms": comms,
				"active": rn.vx.IsActive(rn.ti.TaskID), "waited": sk})
			rn.rec.ended = true
			rn.rec.mu.Unlock()
			break
		}
		rn.rec.mu.Unlock()
		time.Sleep(20 * time.Millisecond)
	}
	killTagged(rn.tag)
	return 0
}
