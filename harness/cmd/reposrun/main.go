//go:build verif

// reposrun (X10) runs operation sequences of the model spec/Repos.tla on the REAL repos.RepoManager
// (core/repos, exported API only).  repos.Instance is a process-wide singleton, so every life of a manager
// (start, restart) is one child process of this driver (`reposrun -child`), which builds the manager with
// repos.Instance(apricot local service on consul://<fake Consul of harness/coresim>) and executes the
// operations the parent sends on stdin.  The parent owns what survives a restart: the fake Consul (runtime KV,
// where PUTs can be scripted to fail) and the working directory (coreWorkingDir/repos = the clones on disk).
//
// Repositories, offline: identifiers are 127.0.0.1/o/<name> (an "https" repository for the code).  The upstream of
// each is a local git repository made with the git CLI (branches = revisions, one commit and one workflow file
// per revision); "the network" is simulated by the parent placing the clone (git clone <upstream>, origin = the
// local path) into the clone directory before an AddRepo / start that needs it: git.PlainClone then answers
// ErrRepositoryAlreadyExists, which AddRepo tolerates by design (persistent repos), and everything else
// (refresh = fetch from origin, revisions, checkout) is the real code on a real clone.
package main

import (
	"bufio"
	"encoding/json"
	"flag"
	"fmt"
	"io"
	"os"
	"os/exec"
	"path/filepath"
	"sort"
	"strings"

	"github.com/AliceO2Group/Control/apricot/local"
	"github.com/AliceO2Group/Control/core/repos"
	"github.com/sirupsen/logrus"
	"github.com/spf13/viper"

	"verif/harness/coresim"
	"verif/harness/vtrace"
)

const prefix = "127.0.0.1/o/"
const globalRev = "master"

// upstream repositories: name -> revisions (branches)
var upstream = map[string][]string{"r1": {"master", "dev"}, "r2": {"master", "dev"}, "r3": {"master"}}

type Op struct {
	Op   string `json:"op"`
	N    string `json:"n"`    // repository (short name), "bad" = a path that cannot be resolved, "" = none
	I    int    `json:"i"`    // index
	R    string `json:"r"`    // revision
	F    bool   `json:"f"`    // the runtime KV refuses writes during this operation
	Path string `json:"path"` // filled by the parent
}

type Scenario struct {
	ID    int    `json:"id"`
	Steps []Op   `json:"steps"`
	Cfg   string `json:"cfg"` // configured default repository (viper defaultRepo)
}

type RepoView struct {
	ID   string `json:"id"`
	Drev string `json:"drev"`
	Def  bool   `json:"def"`
}

type Result struct {
	Res    string     `json:"res"`    // ok | err | panic
	Err    string     `json:"err"`    // error text
	S1     string     `json:"s1"`     // first string result (revision / new default / resolved revision)
	B1     bool       `json:"b1"`     // AddRepo: is the global default revision
	Repos  []RepoView `json:"repos"`  // GetOrderedRepolistKeys + GetAllRepos
	Hashes []string   `json:"hashes"` // commit -> revision table is the parent's; here: the hash GetWorkflow's repo reports
}

func short(id string) string { return strings.TrimPrefix(id, prefix) }

func long(n string) string {
	if n == "bad" {
		return "127.0.0.1/x" // two segments: "repo path resolution failed"
	}
	return prefix + n
}

// ---------------------------------------------------------------- child
func view(m *repos.RepoManager) []RepoView {
	out := make([]RepoView, 0)
	all := m.GetAllRepos()
	for _, k := range m.GetOrderedRepolistKeys() {
		r := all[k]
		out = append(out, RepoView{ID: short(r.GetIdentifier()), Drev: r.GetDefaultRevision(), Def: r.IsDefault()})
	}
	return out
}

func child(consul, work, cfg string) {
	logrus.SetOutput(io.Discard)
	viper.Set("coreWorkingDir", work)
	viper.Set("globalDefaultRevision", globalRev)
	viper.Set("defaultRepo", long(cfg))
	viper.Set("reposSshKey", "")
	enc := json.NewEncoder(os.Stdout)
	svc, err := local.NewService("consul://" + consul)
	if err != nil {
		enc.Encode(Result{Res: "harness", Err: err.Error(), Repos: []RepoView{}})
		os.Exit(3)
	}
	m := repos.Instance(svc) // log.Fatal = exit 1 when the default repository cannot be opened
	enc.Encode(Result{Res: "ok", Repos: view(m)})
	in := bufio.NewScanner(os.Stdin)
	in.Buffer(make([]byte, 1<<20), 1<<20)
	for in.Scan() {
		var op Op
		if err := json.Unmarshal(in.Bytes(), &op); err != nil {
			enc.Encode(Result{Res: "harness", Err: err.Error(), Repos: []RepoView{}})
			os.Exit(3)
		}
		res := Result{Res: "ok"}
		func() {
			defer func() {
				if p := recover(); p != nil {
					res.Res, res.Err = "panic", fmt.Sprint(p)
				}
			}()
			var err error
			switch op.Op {
			case "add":
				res.S1, res.B1, err = m.AddRepo(op.Path, op.R)
			case "remove":
				res.S1, err = m.RemoveRepoByIndex(op.I)
				res.S1 = short(res.S1)
			case "defidx":
				err = m.UpdateDefaultRepoByIndex(op.I)
			case "defname":
				err = m.UpdateDefaultRepo(op.Path)
			case "revidx":
				res.S1, err = m.UpdateDefaultRevisionByIndex(op.I, op.R)
			case "refresh":
				err = m.RefreshRepos()
			case "refreshidx":
				err = m.RefreshRepoByIndex(op.I)
			case "getwf":
				var rp repos.IRepo
				var p string
				p, rp, err = m.GetWorkflow(op.Path)
				if err == nil {
					res.S1 = rp.GetHash()
					res.Hashes = []string{p, short(rp.GetIdentifier())}
				}
			default:
				res.Res, res.Err = "harness", "unknown op "+op.Op
			}
			if err != nil {
				res.Res, res.Err = "err", err.Error()
			}
		}()
		res.Repos = view(m)
		if res.Hashes == nil {
			res.Hashes = []string{}
		}
		enc.Encode(res)
	}
}

// ---------------------------------------------------------------- parent
type Parent struct {
	root   string            // scratch
	hashes map[string]string // name/commit -> revision
	self   string
	rec    *vtrace.Recorder
}

func git(dir string, args ...string) error {
	c := exec.Command("git", append([]string{"-C", dir}, args...)...)
	c.Env = append(os.Environ(), "GIT_CONFIG_GLOBAL=/dev/null", "GIT_CONFIG_SYSTEM=/dev/null", "GIT_AUTHOR_NAME=v", "GIT_AUTHOR_EMAIL=v@v",
		"GIT_COMMITTER_NAME=v", "GIT_COMMITTER_EMAIL=v@v", "GIT_AUTHOR_DATE=2020-01-01T00:00:00Z", "GIT_COMMITTER_DATE=2020-01-01T00:00:00Z")
	out, err := c.CombinedOutput()
	if err != nil {
		return fmt.Errorf("git %v: %v: %s", args, err, out)
	}
	return nil
}

func gitOut(dir string, args ...string) (string, error) {
	c := exec.Command("git", append([]string{"-C", dir}, args...)...)
	out, err := c.Output()
	return strings.TrimSpace(string(out)), err
}

func (p *Parent) makeUpstreams() error {
	p.hashes = map[string]string{}
	for name, revs := range upstream {
		d := filepath.Join(p.root, "up", name)
		if err := os.MkdirAll(filepath.Join(d, "workflows"), 0755); err != nil {
			return err
		}
		if err := git(d, "init", "-q", "-b", "master"); err != nil {
			return err
		}
		for k, rev := range revs {
			if k > 0 {
				if err := git(d, "checkout", "-q", "-b", rev, "master"); err != nil {
					return err
				}
			}
			wf := fmt.Sprintf("name: wf\ndescription: %s of %s\nroles: []\n", rev, name)
			if err := os.WriteFile(filepath.Join(d, "workflows", "wf.yaml"), []byte(wf), 0644); err != nil {
				return err
			}
			if err := git(d, "add", "."); err != nil {
				return err
			}
			if err := git(d, "commit", "-q", "-m", rev+" of "+name); err != nil {
				return err
			}
			h, err := gitOut(d, "rev-parse", "HEAD")
			if err != nil {
				return err
			}
			p.hashes[name+"/"+h] = rev
		}
		if err := git(d, "checkout", "-q", "master"); err != nil {
			return err
		}
		// the template clone, copied when "the network" delivers a clone
		t := filepath.Join(p.root, "tpl", name)
		if err := os.MkdirAll(filepath.Dir(t), 0755); err != nil {
			return err
		}
		if err := git(p.root, "clone", "-q", d, t); err != nil {
			return err
		}
	}
	return nil
}

func cloneDir(work, name string) string { return filepath.Join(work, "repos", "127.0.0.1", "o", name) }

// deliver: what a successful git.PlainClone would leave behind
func (p *Parent) deliver(work, name string) error {
	if _, ok := upstream[name]; !ok {
		return nil
	}
	d := cloneDir(work, name)
	if _, err := os.Stat(filepath.Join(d, ".git")); err == nil {
		return nil
	}
	if err := os.MkdirAll(filepath.Dir(d), 0755); err != nil {
		return err
	}
	return exec.Command("cp", "-a", filepath.Join(p.root, "tpl", name), d).Run()
}

func disk(work string) []string {
	out := make([]string, 0)
	ents, _ := os.ReadDir(filepath.Join(work, "repos", "127.0.0.1", "o"))
	for _, e := range ents {
		if _, err := os.Stat(filepath.Join(work, "repos", "127.0.0.1", "o", e.Name(), ".git")); err == nil {
			out = append(out, e.Name())
		}
	}
	sort.Strings(out)
	return out
}

type kvRev struct {
	ID  string `json:"id"`
	Rev string `json:"rev"`
}

func kvView(c *coresim.Consul) (string, bool, []kvRev, bool) {
	kd, hasD := c.Get("o2/runtime/aliecs/default_repo")
	revs := make([]kvRev, 0)
	raw, hasR := c.Get("o2/runtime/aliecs/default_revisions")
	if hasR {
		m := map[string]string{}
		if json.Unmarshal([]byte(raw), &m) != nil {
			hasR = false
		}
		for k, v := range m {
			revs = append(revs, kvRev{short(k), v})
		}
		sort.Slice(revs, func(i, j int) bool { return revs[i].ID < revs[j].ID })
	}
	return short(kd), hasD, revs, hasR
}

type Child struct {
	cmd *exec.Cmd
	in  io.WriteCloser
	out *bufio.Scanner
}

func (p *Parent) start(consul, work, cfg string) (*Child, *Result, error) {
	c := &Child{cmd: exec.Command(p.self, "-child", "-consul", consul, "-work", work, "-cfg", cfg)}
	c.cmd.Stderr = nil
	var err error
	if c.in, err = c.cmd.StdinPipe(); err != nil {
		return nil, nil, err
	}
	so, err := c.cmd.StdoutPipe()
	if err != nil {
		return nil, nil, err
	}
	c.out = bufio.NewScanner(so)
	c.out.Buffer(make([]byte, 1<<20), 1<<20)
	if err = c.cmd.Start(); err != nil {
		return nil, nil, err
	}
	r, err := c.read()
	return c, r, err
}

func (c *Child) read() (*Result, error) {
	if !c.out.Scan() {
		c.cmd.Wait()
		return &Result{Res: "fatal", Repos: []RepoView{}, Hashes: []string{}}, nil
	}
	var r Result
	if err := json.Unmarshal(c.out.Bytes(), &r); err != nil {
		return nil, fmt.Errorf("child said %q: %v", c.out.Text(), err)
	}
	if r.Res == "harness" {
		return nil, fmt.Errorf("child: %s", r.Err)
	}
	if r.Repos == nil {
		r.Repos = []RepoView{}
	}
	if r.Hashes == nil {
		r.Hashes = []string{}
	}
	return &r, nil
}

func (c *Child) stop() {
	if c == nil {
		return
	}
	c.in.Close()
	c.cmd.Wait()
}

func (p *Parent) emit(scn int, ev string, op *Op, r *Result, c *coresim.Consul, work string) {
	kd, hasD, revs, hasR := kvView(c)
	m := map[string]interface{}{"scn": scn, "res": r.Res, "err": r.Err, "s1": r.S1, "b1": r.B1, "repos": r.Repos,
		"kdef": kd, "haskdef": hasD, "krevs": revs, "haskrevs": hasR, "disk": disk(work), "wfrev": "", "wfrepo": "", "wfpath": ""}
	if op != nil {
		m["op"], m["n"], m["i"], m["r"], m["f"] = op.Op, op.N, op.I, op.R, op.F
	}
	if len(r.Hashes) == 2 { // GetWorkflow: which revision is checked out
		m["wfrepo"] = r.Hashes[1]
		m["wfpath"] = strings.TrimPrefix(r.Hashes[0], work+"/")
		m["wfrev"] = p.hashes[r.Hashes[1]+"/"+r.S1]
		if head, err := gitOut(cloneDir(work, r.Hashes[1]), "rev-parse", "HEAD"); err != nil || head != r.S1 {
			m["wfrev"] = "HEAD-differs"
		}
	}
	p.rec.EmitMap(ev, m)
}

func (p *Parent) run(s *Scenario) error {
	work := filepath.Join(p.root, fmt.Sprintf("s%d", s.ID))
	if err := os.MkdirAll(filepath.Join(work, "repos"), 0755); err != nil {
		return err
	}
	defer os.RemoveAll(work)
	consul, err := coresim.NewConsul()
	if err != nil {
		return err
	}
	defer consul.Close()
	fail := false
	consul.Hook = func(method, key string, q map[string]string) int {
		if fail && method == "PUT" {
			return 500
		}
		return 0
	}
	p.rec.Emit("Reset", "scn", s.ID, "cfg", s.Cfg)
	if err := p.deliver(work, s.Cfg); err != nil {
		return err
	}
	ch, r, err := p.start(consul.Addr(), work, s.Cfg)
	if err != nil {
		return err
	}
	defer func() { ch.stop() }()
	p.emit(s.ID, "Start", nil, r, consul, work)
	dead := r.Res == "fatal"
	for k := range s.Steps {
		op := s.Steps[k]
		if dead {
			break
		}
		if op.Op == "restart" {
			ch.stop()
			// the default repository recorded in the KV (else the configured one) has to be reachable
			kd, hasD, _, _ := kvView(consul)
			if !hasD || kd == "" {
				kd = s.Cfg
			}
			if err := p.deliver(work, kd); err != nil {
				return err
			}
			ch, r, err = p.start(consul.Addr(), work, s.Cfg)
			if err != nil {
				return err
			}
			p.emit(s.ID, "Op", &op, r, consul, work)
			dead = r.Res == "fatal"
			continue
		}
		switch op.Op {
		case "add", "defname":
			op.Path = long(op.N)
			if op.Op == "add" {
				if err := p.deliver(work, op.N); err != nil {
					return err
				}
			}
		case "getwf":
			op.Path = "wf"
			if op.N != "" {
				op.Path = long(op.N) + "/workflows/wf"
			}
			if op.R != "" {
				op.Path += "@" + op.R
			}
		}
		b, _ := json.Marshal(op)
		fail = op.F
		if _, err := ch.in.Write(append(b, '\n')); err != nil {
			return err
		}
		r, err = ch.read()
		fail = false
		if err != nil {
			return err
		}
		p.emit(s.ID, "Op", &op, r, consul, work)
		dead = r.Res == "fatal"
	}
	return nil
}

func main() {
	isChild := flag.Bool("child", false, "")
	consul := flag.String("consul", "", "")
	work := flag.String("work", "", "")
	cfg := flag.String("cfg", "r1", "")
	scn := flag.String("scenarios", "", "")
	trace := flag.String("trace", "", "")
	root := flag.String("root", "", "scratch directory")
	flag.Parse()
	if *isChild {
		child(*consul, *work, *cfg)
		return
	}
	self, err := os.Executable()
	if err != nil {
		panic(err)
	}
	rec, err := vtrace.New(*trace)
	if err != nil {
		panic(err)
	}
	p := &Parent{root: *root, self: self, rec: rec}
	if err := os.MkdirAll(p.root, 0755); err != nil {
		panic(err)
	}
	defer os.RemoveAll(p.root)
	if err := p.makeUpstreams(); err != nil {
		fmt.Println("upstreams:", err)
		os.RemoveAll(p.root)
		os.Exit(2)
	}
	f, err := os.Open(*scn)
	if err != nil {
		panic(err)
	}
	in := bufio.NewScanner(f)
	in.Buffer(make([]byte, 1<<22), 1<<22)
	for in.Scan() {
		var s Scenario
		if err := json.Unmarshal(in.Bytes(), &s); err != nil {
			panic(err)
		}
		if s.Cfg == "" {
			s.Cfg = "r1"
		}
		if err := p.run(&s); err != nil {
			fmt.Println("scenario", s.ID, ":", err)
			rec.Close()
			os.RemoveAll(p.root)
			os.Exit(2)
		}
	}
	rec.Emit("Fin")
	rec.Close()
}
