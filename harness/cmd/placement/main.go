// Command placement binds spec/Placement.tla (property C05: tasks are placed only where
// constraints and resources allow) to the real AliECS placement code.
//
// Modes:
//
//	-mode pure  : every scenario is an input case enumerated by TLC from the catalogues of
//	              spec/Placement.tla (PlacementGen); the driver calls the REAL functions
//	                constraint.Attributes.Satisfy, constraint.Constraints.MergeParent,
//	                workflow role tree (YAML -> roles -> GenerateTaskDescriptors -> getConstraints),
//	                task.Manager.BuildDescriptorConstraints (also: several task roles sharing one class registry
//	                entry, deployed twice), task.Resources.Satisfy,
//	                port.RangesFromExpression, taskclass.ResourceWants.UnmarshalYAML
//	              and records {"ev":"Pure","scn","fn","in","out"}. No expectation is computed here:
//	              spec/PlacementTrace.tla does that inside TLC.
//	-mode synth : SELF-TEST of the round-level part of spec/PlacementTrace.tla. Fabricates a handful of
//	              OFFERS rounds with a toy allocator (NOT AliECS code), some correct, some broken in a
//	              chosen way (P1..P5, panic), in the line format lib/props/C05.py derives from the
//	              whole-core simulation's record of real rounds. Says nothing about the real scheduler;
//	              the expected verdict per round is written to -expect.
package main

import (
	"bufio"
	"encoding/json"
	"flag"
	"fmt"
	"io"
	"os"
	"sort"

	"github.com/AliceO2Group/Control/core/task"
	"github.com/AliceO2Group/Control/core/task/channel"
	"github.com/AliceO2Group/Control/core/task/constraint"
	"github.com/AliceO2Group/Control/core/task/taskclass"
	"github.com/AliceO2Group/Control/core/task/taskclass/port"
	"github.com/AliceO2Group/Control/core/workflow"
	mesos "github.com/mesos/mesos-go/api/v1/lib"
	"github.com/mesos/mesos-go/api/v1/lib/resources"
	"github.com/sirupsen/logrus"
	"gopkg.in/yaml.v3"

	"verif/harness/vtrace"
)

type pair = [2]string

type resIn struct {
	HasCpu bool        `json:"hascpu"`
	Cpu    int         `json:"cpu"`
	HasMem bool        `json:"hasmem"`
	Mem    int         `json:"mem"`
	Ports  [][2]uint64 `json:"ports"`
}

type wantIn struct {
	Cpu    int         `json:"cpu"`
	Mem    int         `json:"mem"`
	Static [][2]uint64 `json:"static"`
	Tcp    int         `json:"tcp"`
	Ipc    int         `json:"ipc"`
}

type caseIn struct {
	// Satisfy
	Attrs []pair `json:"attrs,omitempty"`
	Cts   []pair `json:"cts,omitempty"`
	// MergeParent
	Child  []pair `json:"child,omitempty"`
	Parent []pair `json:"parent,omitempty"`
	// RoleChain
	Levels   [][]pair `json:"levels,omitempty"`
	HasClass bool     `json:"hasclass,omitempty"`
	Class    []pair   `json:"class,omitempty"`
	Agents   [][]pair `json:"agents,omitempty"`
	// SharedClass (class = the template's constraints, agents as above)
	Root   []pair     `json:"root,omitempty"`
	Descs  [][][]pair `json:"descs,omitempty"`
	Rounds int        `json:"rounds,omitempty"`
	// ResSatisfy
	Res  *resIn  `json:"res,omitempty"`
	Want *wantIn `json:"want,omitempty"`
	// ParseRanges
	Expr *string `json:"expr,omitempty"`
}

type scenario struct {
	ID int             `json:"id"`
	Fn string          `json:"fn"`
	In json.RawMessage `json:"in"`
}

func mkAttrs(ps []pair) constraint.Attributes {
	if len(ps) == 0 {
		return nil // an offer without attributes
	}
	as := make(constraint.Attributes, 0, len(ps))
	for _, p := range ps {
		as = append(as, mesos.Attribute{Name: p[0], Type: mesos.TEXT, Text: &mesos.Value_Text{Value: p[1]}})
	}
	return as
}

func mkCts(ps []pair) constraint.Constraints {
	cs := make(constraint.Constraints, 0, len(ps))
	for _, p := range ps {
		cs = append(cs, constraint.Constraint{Attribute: p[0], Value: p[1]})
	}
	return cs
}

func ctPairs(cs constraint.Constraints) []pair {
	out := make([]pair, 0, len(cs))
	for _, c := range cs {
		out = append(out, pair{c.Attribute, c.Value})
	}
	return out
}

func rangePairs(rs port.Ranges) [][2]uint64 {
	out := make([][2]uint64, 0, len(rs))
	for _, r := range rs {
		out = append(out, [2]uint64{r.Begin, r.End})
	}
	return out
}

func ctYAML(ps []pair) []map[string]string {
	out := make([]map[string]string, 0, len(ps))
	for _, p := range ps {
		out = append(out, map[string]string{"attribute": p[0], "value": p[1]})
	}
	return out
}

// roleTreeYAML renders levels (root role first, task role last) as a workflow template document.
func roleTreeYAML(levels [][]pair) ([]byte, error) {
	n := len(levels)
	node := map[string]interface{}{
		"name": fmt.Sprintf("t%d", n),
		"task": map[string]interface{}{"load": "verif-class"},
	}
	if len(levels[n-1]) > 0 {
		node["constraints"] = ctYAML(levels[n-1])
	}
	for i := n - 2; i >= 0; i-- {
		parent := map[string]interface{}{
			"name":  fmt.Sprintf("r%d", i+1),
			"roles": []interface{}{node},
		}
		if len(levels[i]) > 0 {
			parent["constraints"] = ctYAML(levels[i])
		}
		node = parent
	}
	return yaml.Marshal(node)
}

func doCase(fn string, in *caseIn) (out interface{}, err error) {
	switch fn {
	case "Satisfy":
		return mkAttrs(in.Attrs).Satisfy(mkCts(in.Cts)), nil
	case "MergeParent":
		child, parent := mkCts(in.Child), mkCts(in.Parent)
		merged := child.MergeParent(parent)
		return map[string]interface{}{"merged": ctPairs(merged), "parent_after": ctPairs(parent), "child_after": ctPairs(child)}, nil
	case "SharedClass":
		// several task roles load ONE task class; the class object is the registry entry every descriptor's
		// constraints are merged over (Manager.BuildDescriptorConstraints), in this and in every later deployment
		if len(in.Descs) < 1 {
			return nil, fmt.Errorf("SharedClass needs descriptors")
		}
		groups := make([]interface{}, 0, len(in.Descs))
		for i, d := range in.Descs {
			if len(d) != 2 {
				return nil, fmt.Errorf("descriptor %d: want [group level, task level]", i)
			}
			t := map[string]interface{}{"name": fmt.Sprintf("t%d", i+1), "task": map[string]interface{}{"load": "verif-class"}}
			if len(d[1]) > 0 {
				t["constraints"] = ctYAML(d[1])
			}
			g := map[string]interface{}{"name": fmt.Sprintf("g%d", i+1), "roles": []interface{}{t}}
			if len(d[0]) > 0 {
				g["constraints"] = ctYAML(d[0])
			}
			groups = append(groups, g)
		}
		rootNode := map[string]interface{}{"name": "root", "roles": groups}
		if len(in.Root) > 0 {
			rootNode["constraints"] = ctYAML(in.Root)
		}
		doc, e := yaml.Marshal(rootNode)
		if e != nil {
			return nil, e
		}
		root, e := workflow.VerifRoleTreeFromYAML(doc)
		if e != nil {
			return nil, fmt.Errorf("role tree: %v", e)
		}
		ds := root.GenerateTaskDescriptors()
		if len(ds) != len(in.Descs) {
			return nil, fmt.Errorf("expected %d descriptors, got %d", len(in.Descs), len(ds))
		}
		class := &taskclass.Class{Constraints: mkCts(in.Class)}
		roles := make([][]pair, 0, len(ds))
		for _, d := range ds {
			roles = append(roles, ctPairs(d.RoleConstraints))
		}
		rounds := make([][][]pair, 0, in.Rounds)
		sat := make([][][]bool, 0, in.Rounds)
		for r := 0; r < in.Rounds; r++ {
			finals := make([][]pair, 0, len(ds))
			sats := make([][]bool, 0, len(ds))
			for _, d := range ds {
				final := task.VerifDescriptorConstraints(class, d.RoleConstraints)
				finals = append(finals, ctPairs(final))
				sa := make([]bool, 0, len(in.Agents))
				for _, a := range in.Agents {
					sa = append(sa, mkAttrs(a).Satisfy(final))
				}
				sats = append(sats, sa)
			}
			rounds = append(rounds, finals)
			sat = append(sat, sats)
		}
		return map[string]interface{}{"role": roles, "rounds": rounds, "sat": sat, "class_after": ctPairs(class.Constraints)}, nil
	case "RoleChain":
		if len(in.Levels) < 2 {
			return nil, fmt.Errorf("RoleChain needs a root role and a task role")
		}
		doc, e := roleTreeYAML(in.Levels)
		if e != nil {
			return nil, e
		}
		root, e := workflow.VerifRoleTreeFromYAML(doc)
		if e != nil {
			return nil, fmt.Errorf("role tree: %v", e)
		}
		ds := root.GenerateTaskDescriptors()
		if len(ds) != 1 {
			return nil, fmt.Errorf("expected 1 descriptor, got %d", len(ds))
		}
		role := ds[0].RoleConstraints
		var class *taskclass.Class
		if in.HasClass {
			class = &taskclass.Class{Constraints: mkCts(in.Class)}
		}
		final := task.VerifDescriptorConstraints(class, role)
		sat := make([]bool, 0, len(in.Agents))
		for _, a := range in.Agents {
			sat = append(sat, mkAttrs(a).Satisfy(final))
		}
		return map[string]interface{}{"role": ctPairs(role), "final": ctPairs(final), "sat": sat}, nil
	case "ResSatisfy":
		res := make(mesos.Resources, 0, 3)
		if in.Res.HasCpu {
			res = append(res, resources.NewCPUs(float64(in.Res.Cpu)/1000).Resource)
		}
		if in.Res.HasMem {
			res = append(res, resources.NewMemory(float64(in.Res.Mem)).Resource)
		}
		if len(in.Res.Ports) > 0 {
			b := resources.BuildRanges()
			for _, r := range in.Res.Ports {
				b = b.Span(r[0], r[1])
			}
			res = append(res, resources.Build().Name(resources.NamePorts).Ranges(b.Ranges).Resource)
		}
		w := task.Wants{Cpu: float64(in.Want.Cpu) / 1000, Memory: float64(in.Want.Mem)}
		w.StaticPorts = make(port.Ranges, 0, len(in.Want.Static))
		for _, r := range in.Want.Static {
			w.StaticPorts = append(w.StaticPorts, port.Range{Begin: r[0], End: r[1]})
		}
		for i := 0; i < in.Want.Tcp; i++ {
			w.InboundChannels = append(w.InboundChannels, channel.Inbound{
				Channel: channel.Channel{Name: fmt.Sprintf("tcp%d", i)}, Addressing: channel.TCP})
		}
		for i := 0; i < in.Want.Ipc; i++ {
			w.InboundChannels = append(w.InboundChannels, channel.Inbound{
				Channel: channel.Channel{Name: fmt.Sprintf("ipc%d", i)}, Addressing: channel.IPC})
		}
		return task.Resources(res).Satisfy(&w), nil
	case "ParseRanges":
		rs, e := port.RangesFromExpression(*in.Expr)
		doc, e2 := yaml.Marshal(map[string]string{"cpu": "1", "memory": "64", "ports": *in.Expr})
		if e2 != nil {
			return nil, e2
		}
		var rw taskclass.ResourceWants
		e3 := yaml.Unmarshal(doc, &rw)
		return map[string]interface{}{"ok": e == nil, "ranges": rangePairs(rs),
			"yaml_ok": e3 == nil, "yaml_ranges": rangePairs(rw.Ports)}, nil
	}
	return nil, fmt.Errorf("unknown fn %q", fn)
}

func runPure(scnFile, traceFile string) error {
	f, err := os.Open(scnFile)
	if err != nil {
		return err
	}
	defer f.Close()
	rec, err := vtrace.New(traceFile)
	if err != nil {
		return err
	}
	sc := bufio.NewScanner(f)
	sc.Buffer(make([]byte, 1<<20), 1<<24)
	n := 0
	for sc.Scan() {
		if len(sc.Bytes()) == 0 {
			continue
		}
		var s scenario
		if err := json.Unmarshal(sc.Bytes(), &s); err != nil {
			return fmt.Errorf("scenario line %d: %v", n+1, err)
		}
		var in caseIn
		if err := json.Unmarshal(s.In, &in); err != nil {
			return fmt.Errorf("scenario %d: %v", s.ID, err)
		}
		var out interface{}
		var cerr error
		var panicked interface{}
		func() {
			defer func() { panicked = recover() }()
			out, cerr = doCase(s.Fn, &in)
		}()
		if panicked != nil {
			rec.Emit("PurePanic", "scn", s.ID, "fn", s.Fn, "in", s.In, "what", fmt.Sprint(panicked))
		} else if cerr != nil {
			return fmt.Errorf("scenario %d (%s): %v", s.ID, s.Fn, cerr) // harness trouble, never a verdict
		} else {
			rec.Emit("Pure", "scn", s.ID, "fn", s.Fn, "in", s.In, "out", out)
		}
		n++
	}
	if err := sc.Err(); err != nil {
		return err
	}
	fmt.Printf("cases=%d lines=%d\n", n, rec.Lines())
	return rec.Close()
}

// ---------------------------------------------------------------------------------------------
// synth: toy OFFERS rounds for the self-test of the round-level trace specification
// ---------------------------------------------------------------------------------------------

type sCt struct {
	Attr  string `json:"attr"`
	Value string `json:"value"`
}
type sOffer struct {
	ID    string            `json:"id"`
	Host  string            `json:"host"`
	Attrs map[string]string `json:"attrs"`
	Cpus  int               `json:"cpus"`
	Mem   int               `json:"mem"`
	Ports [][2]int          `json:"ports"`
}
type sDesc struct {
	ID           string   `json:"id"`
	Constraints  []sCt    `json:"constraints,omitempty"`
	Chain        [][]sCt  `json:"chain,omitempty"`
	Cpu          int      `json:"cpu"`
	Mem          int      `json:"mem"`
	Static       [][2]int `json:"static,omitempty"`
	StaticExpr   *string  `json:"static_expr,omitempty"`
	TcpInbound   int      `json:"tcp_inbound"`
	IpcInbound   int      `json:"ipc_inbound"`
	Controllable bool     `json:"controllable"`
	staticPorts  []int    // toy allocator's own reading of the static ports
	cts          []sCt    // toy allocator's own reading of the effective constraints
}
type sTask struct {
	Desc    string `json:"desc"`
	Cpu     int    `json:"cpu"`
	Mem     int    `json:"mem"`
	Ports   []int  `json:"ports"`
	Dynamic []int  `json:"dynamic,omitempty"`
	Control *int   `json:"control,omitempty"`
}
type sAccept struct {
	Offer string
	Tasks []sTask
}
type sExec struct {
	Cpu int `json:"cpu"`
	Mem int `json:"mem"`
}
type sRound struct {
	name    string
	offers  []sOffer
	descs   []sDesc
	exec    sExec
	mutate  func(r *sResult)
	expect  []string // names of the soft invariants expected to fail (empty: none)
	noDrift bool     // the toy allocator follows the repaired model on this round: conformance must hold
}
type sResult struct {
	accepts      []sAccept
	declined     []string
	deployed     []string
	undeployed   []string
	undeployable []string
	panic        string
}

func portSet(rs [][2]int) map[int]bool {
	m := map[int]bool{}
	for _, r := range rs {
		for p := r[0]; p <= r[1]; p++ {
			m[p] = true
		}
	}
	return m
}

func minAtLeast(free map[int]bool, lo int) (int, bool) {
	best, ok := 0, false
	for p := range free {
		if p >= lo && (!ok || p < best) {
			best, ok = p, true
		}
	}
	return best, ok
}

func toySat(attrs map[string]string, cts []sCt) bool {
	for _, c := range cts {
		v, ok := attrs[c.Attr]
		if !ok {
			return false
		}
		hit := v == c.Value
		start := 0
		for i := 0; i <= len(v); i++ {
			if i == len(v) || v[i] == ',' {
				if v[start:i] == c.Value {
					hit = true
				}
				start = i + 1
			}
		}
		if !hit {
			return false
		}
	}
	return true
}

// toyAllocate: a correct little allocator in the order the scheduler uses (descriptors with a
// machine_id constraint first on "their" offer in request order, then the others from the last to the first).
func toyAllocate(r *sRound) *sResult {
	res := &sResult{}
	byMachine := map[string]string{}
	for _, o := range r.offers {
		if m, ok := o.Attrs["machine_id"]; ok {
			byMachine[m] = o.ID
		}
	}
	pre := map[string][]int{}
	todo := []int{}
	for i := range r.descs {
		d := &r.descs[i]
		req := ""
		for _, c := range d.cts {
			if c.Attr == "machine_id" {
				req = c.Value
				break
			}
		}
		if req == "" {
			todo = append(todo, i)
		} else if oid, ok := byMachine[req]; ok {
			pre[oid] = append(pre[oid], i)
		} else {
			res.undeployable = append([]string{d.ID}, res.undeployable...)
		}
	}
	used := map[string]bool{}
	if len(res.undeployable) == 0 {
		for _, o := range r.offers {
			free := portSet(o.Ports)
			cpu, mem := o.Cpus, o.Mem
			tasks := []sTask{}
			try := func(d *sDesc) bool {
				if !toySat(o.Attrs, d.cts) {
					return false
				}
				if d.Cpu+r.exec.Cpu > cpu || d.Mem+r.exec.Mem > mem {
					return false
				}
				f2 := map[int]bool{}
				for p := range free {
					f2[p] = true
				}
				for _, p := range d.staticPorts {
					if !f2[p] {
						return false
					}
					delete(f2, p)
				}
				ports := append([]int{}, d.staticPorts...)
				dyn := []int{}
				for k := 0; k < d.TcpInbound; k++ {
					p, ok := minAtLeast(f2, 9000)
					if !ok {
						return false
					}
					delete(f2, p)
					dyn = append(dyn, p)
					ports = append(ports, p)
				}
				ctl, ok := minAtLeast(f2, 30000)
				if !ok {
					return false
				}
				delete(f2, ctl)
				ports = append(ports, ctl)
				if len(f2) == 0 { // keep clear of the real matcher's "ports exhausted" corner
					return false
				}
				free = f2
				cpu -= d.Cpu + r.exec.Cpu
				mem -= d.Mem + r.exec.Mem
				c := ctl
				tasks = append(tasks, sTask{Desc: d.ID, Cpu: d.Cpu + r.exec.Cpu, Mem: d.Mem + r.exec.Mem, Ports: ports, Dynamic: dyn, Control: &c})
				res.deployed = append(res.deployed, d.ID)
				return true
			}
			failed := false
			for _, i := range pre[o.ID] {
				if !try(&r.descs[i]) {
					res.undeployable = append(res.undeployable, r.descs[i].ID)
					failed = true
					break
				}
			}
			if !failed && len(res.undeployable) == 0 {
				left := []int{}
				for k := len(todo) - 1; k >= 0; k-- {
					if !try(&r.descs[todo[k]]) {
						left = append([]int{todo[k]}, left...)
					}
				}
				todo = left
			}
			res.accepts = append(res.accepts, sAccept{Offer: o.ID, Tasks: tasks})
			if len(tasks) > 0 {
				used[o.ID] = true
			}
		}
	}
	for _, o := range r.offers {
		if !used[o.ID] {
			res.declined = append(res.declined, o.ID)
		}
	}
	for _, i := range todo {
		res.undeployed = append(res.undeployed, r.descs[i].ID)
	}
	return res
}

func strs(s []string) []string {
	if s == nil {
		return []string{}
	}
	return s
}

func ct(a, v string) sCt { return sCt{a, v} }

func synthRounds() []*sRound {
	offA := sOffer{ID: "o1", Host: "hA", Attrs: map[string]string{"machine_id": "hA", "rack": "r1"}, Cpus: 4000, Mem: 4096,
		Ports: [][2]int{{9000, 9010}, {30000, 30010}}}
	offB := sOffer{ID: "o2", Host: "hB", Attrs: map[string]string{"machine_id": "hB", "rack": "r1,r2"}, Cpus: 3000, Mem: 1024,
		Ports: [][2]int{{9000, 9003}, {31000, 31001}}}
	offC := sOffer{ID: "o3", Host: "hC", Attrs: map[string]string{"machine_id": "hC", "rack": "r3"}, Cpus: 1000, Mem: 512,
		Ports: [][2]int{{9000, 9003}, {30000, 30003}}}
	expr := "9005-9006"
	d1 := sDesc{ID: "d1", Constraints: []sCt{ct("machine_id", "hA")}, Cpu: 1000, Mem: 128, Static: [][2]int{{9005, 9006}},
		TcpInbound: 1, Controllable: true, staticPorts: []int{9005, 9006}}
	d1e := d1
	d1e.Static, d1e.StaticExpr = nil, &expr
	d2 := sDesc{ID: "d2", Chain: [][]sCt{{ct("rack", "r9")}, {ct("rack", "r2")}, {}}, Cpu: 500, Mem: 64,
		TcpInbound: 2, IpcInbound: 1, Controllable: true}
	d2.cts = []sCt{ct("rack", "r2")}
	d3 := sDesc{ID: "d3", Constraints: []sCt{ct("rack", "r1")}, Cpu: 1500, Mem: 256, TcpInbound: 0, Controllable: false}
	d4 := sDesc{ID: "d4", Constraints: []sCt{ct("rack", "r7"), ct("machine_id", "hA")}, Cpu: 100, Mem: 32, Controllable: true}
	d5 := sDesc{ID: "d5", Constraints: []sCt{ct("machine_id", "hZ")}, Cpu: 100, Mem: 32, Controllable: true}
	d6 := sDesc{ID: "d6", Constraints: []sCt{}, Cpu: 3000, Mem: 64, Controllable: true}
	for _, d := range []*sDesc{&d1, &d1e, &d3, &d4, &d5, &d6} {
		d.cts = d.Constraints
	}
	exec := sExec{Cpu: 10, Mem: 64}
	descs := func(ds ...sDesc) []sDesc { return ds }
	task := func(r *sResult, id string) *sTask {
		for i := range r.accepts {
			for j := range r.accepts[i].Tasks {
				if r.accepts[i].Tasks[j].Desc == id {
					return &r.accepts[i].Tasks[j]
				}
			}
		}
		panic("synth: no task " + id)
	}
	return []*sRound{
		{name: "ok: three descriptors on two agents, third offer declined", offers: []sOffer{offA, offB, offC}, descs: descs(d1, d2, d3), exec: exec,
			noDrift: true},
		{name: "ok: static ranges given as template text, class/root/task constraint chain", offers: []sOffer{offA, offB}, descs: descs(d1e, d2), exec: exec,
			noDrift: true},
		{name: "ok: nothing deployable (no offer from the required machine): everything declined", offers: []sOffer{offA, offB}, descs: descs(d5, d3), exec: exec,
			noDrift: true},
		{name: "ok: descriptor that fits nowhere stays undeployed", offers: []sOffer{offC}, descs: descs(d6), exec: exec, noDrift: true},
		{name: "P1: launched on an agent failing a NON-LAST constraint", offers: []sOffer{offA}, descs: descs(d4), exec: exec,
			mutate: func(r *sResult) {
				c := 30000
				r.accepts[0].Tasks = []sTask{{Desc: "d4", Cpu: 110, Mem: 96, Ports: []int{30000}, Dynamic: []int{}, Control: &c}}
				r.deployed, r.undeployable, r.declined = []string{"d4"}, nil, nil
			}, expect: []string{"P1_ConstraintsAndResources"}},
		{name: "P1+P4: launched on an offer with too little cpu", offers: []sOffer{offC}, descs: descs(d6), exec: exec,
			mutate: func(r *sResult) {
				c := 30000
				r.accepts[0].Tasks = []sTask{{Desc: "d6", Cpu: 3010, Mem: 128, Ports: []int{30000}, Dynamic: []int{}, Control: &c}}
				r.deployed, r.undeployed, r.declined = []string{"d6"}, nil, nil
			}, expect: []string{"P1_ConstraintsAndResources", "P4_OfferNotExceeded"}},
		{name: "P2: static range cut to its first port (a-b read as a-a)", offers: []sOffer{offA}, descs: descs(d1e), exec: exec,
			mutate: func(r *sResult) {
				t := task(r, "d1")
				t.Ports = []int{9005, t.Dynamic[0], *t.Control}
			}, expect: []string{"P2_TaskPorts"}},
		{name: "P2: dynamic port taken from inside the static range", offers: []sOffer{offA}, descs: descs(d1), exec: exec,
			mutate: func(r *sResult) {
				t := task(r, "d1")
				t.Dynamic = []int{9005}
				t.Ports = []int{9005, 9006, *t.Control}
			}, expect: []string{"P2_TaskPorts"}},
		{name: "P2: no control port for a controllable task", offers: []sOffer{offA}, descs: descs(d1), exec: exec,
			mutate: func(r *sResult) {
				t := task(r, "d1")
				t.Ports = t.Ports[:len(t.Ports)-1]
				t.Control = nil
			}, expect: []string{"P2_TaskPorts"}},
		{name: "P3: two tasks on one agent share a port", offers: []sOffer{offB}, descs: descs(d2, d3), exec: exec,
			mutate: func(r *sResult) {
				t2, t3 := task(r, "d2"), task(r, "d3")
				// d3 has no channels: hand it d2's control port as its own
				c := *t2.Control
				t3.Ports = []int{c}
				t3.Control = &c
			}, expect: []string{"P3_PortsOfferedAndDistinct"}},
		{name: "P3: control port that was never offered", offers: []sOffer{offB}, descs: descs(d3), exec: exec,
			mutate: func(r *sResult) {
				t := task(r, "d3")
				t.Ports = []int{47101}
				c := 47101
				t.Control = &c
			}, expect: []string{"P3_PortsOfferedAndDistinct"}},
		{name: "P4: cpu not subtracted between the tasks of one offer", offers: []sOffer{offB}, descs: descs(d3, d2), exec: exec,
			mutate: func(r *sResult) {
				// pretend d3 wanted (and got) more than was left after d2
				for i := range r.accepts[0].Tasks {
					if r.accepts[0].Tasks[i].Desc == "d3" {
						r.accepts[0].Tasks[i].Cpu = 2600
					}
				}
			}, expect: []string{"P4_OfferNotExceeded"}},
		{name: "P4: task requests less memory than its template wants", offers: []sOffer{offA}, descs: descs(d3), exec: exec,
			mutate: func(r *sResult) { task(r, "d3").Mem = 100 }, expect: []string{"P4_OfferNotExceeded"}},
		{name: "P5: unused offer neither declined nor accepted empty", offers: []sOffer{offA, offC}, descs: descs(d1), exec: exec,
			mutate: func(r *sResult) {
				r.declined = nil
				r.accepts = r.accepts[:1]
			}, expect: []string{"P5_UnusedDeclined"}},
		{name: "P0: task for a descriptor that was not requested", offers: []sOffer{offA}, descs: descs(d1), exec: exec,
			mutate: func(r *sResult) { task(r, "d1").Desc = "dX" }, expect: []string{"P0_KnownIds"}},
		{name: "panic in the OFFERS handler (no port >= 30000 left)", offers: []sOffer{offC}, descs: descs(d3), exec: exec,
			mutate: func(r *sResult) {
				r.accepts, r.declined = nil, nil
				r.panic = "runtime error: index out of range [0] with length 0"
			}, expect: []string{"NoPanic"}},
	}
}

func runSynth(traceFile, expectFile string) error {
	rec, err := vtrace.New(traceFile)
	if err != nil {
		return err
	}
	type exp struct {
		Scn     int      `json:"scn"`
		Name    string   `json:"name"`
		Expect  []string `json:"expect"`
		NoDrift bool     `json:"nodrift"`
	}
	exps := []exp{}
	for i, r := range synthRounds() {
		scn := 9000 + i
		res := toyAllocate(r)
		if r.mutate != nil {
			r.mutate(res)
		}
		descs := make([]map[string]interface{}, 0, len(r.descs))
		for _, d := range r.descs {
			m := map[string]interface{}{"id": d.ID, "cpu": d.Cpu, "mem": d.Mem, "tcp_inbound": d.TcpInbound,
				"ipc_inbound": d.IpcInbound, "controllable": d.Controllable}
			if d.Chain != nil {
				m["chain"] = d.Chain
			} else {
				cs := d.Constraints
				if cs == nil {
					cs = []sCt{}
				}
				m["constraints"] = cs
			}
			if d.StaticExpr != nil {
				m["static_expr"] = *d.StaticExpr
			} else {
				st := d.Static
				if st == nil {
					st = [][2]int{}
				}
				m["static"] = st
			}
			descs = append(descs, m)
		}
		rec.Emit("Round", "scn", scn, "offers", r.offers, "descs", descs, "exec", r.exec, "synthetic", r.name)
		if res.panic != "" {
			rec.Emit("Panic", "scn", scn, "what", res.panic)
		} else {
			for _, a := range res.accepts {
				ts := a.Tasks
				if ts == nil {
					ts = []sTask{}
				}
				for k := range ts {
					if ts[k].Dynamic == nil {
						ts[k].Dynamic = []int{}
					}
				}
				rec.Emit("Accept", "scn", scn, "offer", a.Offer, "tasks", ts)
			}
			if len(res.declined) > 0 {
				rec.Emit("Decline", "scn", scn, "offers", res.declined)
			}
			sort.Strings(res.deployed)
			rec.Emit("Verdict", "scn", scn, "deployed", strs(res.deployed), "undeployed", strs(res.undeployed), "undeployable", strs(res.undeployable))
		}
		e := r.expect
		if e == nil {
			e = []string{}
		}
		exps = append(exps, exp{scn, r.name, e, r.noDrift})
	}
	b, _ := json.MarshalIndent(exps, "", " ")
	if err := os.WriteFile(expectFile, b, 0o644); err != nil {
		return err
	}
	fmt.Printf("synthetic rounds=%d lines=%d\n", len(exps), rec.Lines())
	return rec.Close()
}

func main() {
	mode := flag.String("mode", "pure", "pure | synth")
	scn := flag.String("scenarios", "", "scenario NDJSON (pure)")
	tr := flag.String("trace", "", "trace NDJSON to write")
	expect := flag.String("expect", "", "synth: file receiving the expected verdict per synthetic round")
	flag.Parse()
	logrus.SetOutput(io.Discard)
	logrus.SetLevel(logrus.PanicLevel)
	var err error
	switch *mode {
	case "pure":
		err = runPure(*scn, *tr)
	case "synth":
		err = runSynth(*tr, *expect)
	default:
		err = fmt.Errorf("unknown mode %q", *mode)
	}
	if err != nil {
		fmt.Fprintln(os.Stderr, "placement:", err)
		os.Exit(3)
	}
}
