// configquery drives the real configuration-lookup code of AliECS for property C20:
//
//	configuration/componentcfg: NewQuery, NewEntriesQuery, NewQueryParameters, Query.Path/Raw/AbsoluteRaw
//	apricot/local:              NewService("file://...yaml"), ResolveComponentQuery, GetComponentConfiguration,
//	                            GetAndProcessComponentConfiguration
//
// Input: the NDJSON cases enumerated by TLC from spec/ConfigQueryGen.tla (and spec/ConfigQueryEdit.tla).
// Output: one NDJSON trace line per case with the input and everything the real code returned; the expected
// values are NOT computed here - spec/ConfigQueryTrace.tla computes them from the TLA+ definitions.
//
// Strings are sequences of tokens; tokChr is the fixed token -> characters table (the same as Chr in
// spec/ConfigQuery.tla): all of printable ASCII, a few non-ASCII characters, a few words.  The model judges a token
// sequence by what it spells; the real tables it relies on (run type names, ParseBool, "process") are recorded in a
// "Table" line and compared by the trace specification.
package main

import (
	"bufio"
	"bytes"
	"encoding/json"
	"flag"
	"fmt"
	"io"
	"os"
	"path/filepath"
	"runtime"
	"sort"
	"strconv"
	"strings"
	"sync"
	"sync/atomic"

	"github.com/sirupsen/logrus"

	"github.com/AliceO2Group/Control/apricot/local"
	apricotpb "github.com/AliceO2Group/Control/apricot/protos"
	"github.com/AliceO2Group/Control/configuration/componentcfg"

	"verif/harness/fakeconsul"
	"verif/harness/vtrace"
)

// tokChr: every printable ASCII character is a token named by itself, except that the names p t P A T N Q belong to
// the words / control characters below (those seven letters are named ~p ... ~Q) and the double quote is named Q;
// a few non-ASCII characters are named by their code point.  Same table as Chr in spec/ConfigQuery.tla.
var tokChr = func() map[string]string {
	m := map[string]string{
		"p": "process", "t": "true", "P": "PHYSICS", "A": "ANY", "T": "\t", "N": "\n", "Q": "\"",
		"u00A0": "\u00a0", "u2003": "\u2003", "u00E9": "\u00e9", "u03A9": "\u03a9",
	}
	for c := rune(0x20); c <= 0x7e; c++ {
		name := string(c)
		switch c {
		case 'p', 't', 'P', 'A', 'T', 'N', 'Q':
			name = "~" + name
		case '"':
			continue // named Q
		}
		m[name] = string(c)
	}
	return m
}()

// esc transliterates non-ASCII characters in every recorded string (TLA+ string literals are ASCII)
func esc(s string) string {
	ascii := true
	for i := 0; i < len(s); i++ {
		if s[i] >= 0x80 {
			ascii = false
			break
		}
	}
	if ascii {
		return s
	}
	var b strings.Builder
	for _, r := range s {
		if r < 0x80 {
			b.WriteRune(r)
		} else {
			fmt.Fprintf(&b, "<U+%04X>", r)
		}
	}
	return b.String()
}

var litStr = map[string]string{"L": "lit ", "J": "x=\n "}
var valStr = map[string]string{"V": "val", "W": "w w", "E": "", "B": "{{ w }}", "Q": "[\"a\",\"b\"]", "H": "<a&b>'",
	"Z": "zz", "O": "none", "S": "  "}

const prefix0 = "p" // the prefix literal of util.PrefixedOverride in generated templates

const siblingName = "sib"

func fatal(f string, a ...interface{}) {
	fmt.Fprintf(os.Stderr, "configquery: "+f+"\n", a...)
	os.Exit(3)
}

// emitTable records the real tables the model's judgement of spelled strings relies on (EnumNames, TrueStrings,
// FalseStrings, ProcessKey in spec/ConfigQuery.tla); the trace specification compares them.
func emitTable(rec *vtrace.Recorder) {
	enums := make([]string, 0, len(apricotpb.RunType_value))
	for name := range apricotpb.RunType_value {
		enums = append(enums, name)
	}
	sort.Strings(enums)
	trues, falses := []string{}, []string{}
	for _, c := range []string{"1", "t", "T", "TRUE", "true", "True", "0", "f", "F", "FALSE", "false", "False",
		"", "2", "-1", "yes", "no", "y", "n", "on", "off", "tRUE", "truE", "tr", "fALSE", "Yes", "TRUE ", " true", "01", "00"} {
		if v, err := strconv.ParseBool(c); err == nil {
			if v {
				trues = append(trues, c)
			} else {
				falses = append(falses, c)
			}
		}
	}
	p, err := componentcfg.NewQueryParameters("process=false&processs=x&Process=y")
	procOnly := err == nil && !p.ProcessTemplates && len(p.VarStack) == 2
	rec.Emit("Table", "enums", enums, "trues", trues, "falses", falses, "processkey", procOnly)
}

func str(toks []string) string {
	var b strings.Builder
	for _, t := range toks {
		c, ok := tokChr[t]
		if !ok {
			fatal("unknown token %q", t)
		}
		b.WriteString(c)
	}
	return b.String()
}

type part struct {
	K string `json:"k"`
	X string `json:"x"`
}

type qrec struct {
	Comp  string `json:"comp"`
	Rt    string `json:"rt"`
	Role  string `json:"role"`
	Entry string `json:"entry"`
}

type tcase struct {
	K      string         `json:"k"`
	S      []string       `json:"s"`
	Q      *qrec          `json:"q"`
	B      [][]string     `json:"B"`
	Parts  []part         `json:"parts"`
	Sib    []part         `json:"sib"`
	HasSib bool           `json:"hasSib"`
	Vars   [][]string     `json:"vars"`
	Corner string         `json:"corner"`
	Be     string         `json:"be"`
	L      map[string]int `json:"L"`
}

type M = map[string]interface{}

func doStr(rec *vtrace.Recorder, scn int, c *tcase) {
	s := str(c.S)
	full := M{"ok": false, "comp": "", "rt": "", "role": "", "entry": "", "raw": "", "path": "", "abs": ""}
	if q, err := componentcfg.NewQuery(s); err == nil {
		full = M{"ok": true, "comp": esc(q.Component), "rt": apricotpb.RunType_name[int32(q.RunType)], "role": esc(q.RoleName),
			"entry": esc(q.EntryKey), "raw": esc(q.Raw()), "path": esc(q.Path()), "abs": esc(q.AbsoluteRaw())}
	}
	ent := M{"ok": false, "comp": "", "rt": "", "role": ""}
	if q, err := componentcfg.NewEntriesQuery(s); err == nil {
		ent = M{"ok": true, "comp": esc(q.Component), "rt": apricotpb.RunType_name[int32(q.RunType)], "role": esc(q.RoleName)}
	}
	rec.Emit("Str", "scn", scn, "s", c.S, "str", esc(s), "full", full, "ent", ent,
		"valid", M{"full": componentcfg.IsStringValidQueryPath(s), "ent": componentcfg.IsStringValidEntriesQueryPath(s)})
}

func doPar(rec *vtrace.Recorder, scn int, c *tcase) {
	s := str(c.S)
	res := M{"ok": false, "proc": false, "vars": [][]string{}}
	if p, err := componentcfg.NewQueryParameters(s); err == nil {
		keys := make([]string, 0, len(p.VarStack))
		for k := range p.VarStack {
			keys = append(keys, k)
		}
		sort.Strings(keys)
		vars := make([][]string, 0, len(keys))
		for _, k := range keys {
			vars = append(vars, []string{esc(k), esc(p.VarStack[k])})
		}
		res = M{"ok": true, "proc": p.ProcessTemplates, "vars": vars}
	}
	rec.Emit("Par", "scn", scn, "s", c.S, "str", esc(s), "res", res)
}

// backend file: o2/components/<component>/<RUNTYPE>/<role>/<entry...> = payload (JSON is YAML flow syntax)
type backend struct {
	root M
	path string
}

func newBackend(path string) *backend { return &backend{root: M{}, path: path} }

func (b *backend) put(key string, payload string) {
	segs := strings.Split("o2/components/"+key, "/")
	m := b.root
	for i, s := range segs {
		if i == len(segs)-1 {
			m[s] = payload
			return
		}
		n, ok := m[s].(M)
		if !ok {
			n = M{}
			m[s] = n
		}
		m = n
	}
}

func (b *backend) remove(key string) {
	segs := strings.Split("o2/components/"+key, "/")
	m := b.root
	for i, s := range segs {
		if i == len(segs)-1 {
			delete(m, s)
			return
		}
		n, ok := m[s].(M)
		if !ok {
			return
		}
		m = n
	}
}

func (b *backend) service() *local.Service {
	b.write()
	svc, err := local.NewService("file://" + b.path)
	if err != nil || svc == nil {
		fatal("NewService(file://%s): %v", b.path, err)
	}
	return svc
}

// write (re)writes the backing file - also behind the back of a service that is using it
func (b *backend) write() {
	var buf bytes.Buffer
	enc := json.NewEncoder(&buf)
	enc.SetEscapeHTML(false)
	if err := enc.Encode(b.root); err != nil {
		fatal("encode backend: %v", err)
	}
	if err := os.WriteFile(b.path, buf.Bytes(), 0o644); err != nil {
		fatal("write backend: %v", err)
	}
}

func pathOf(comp, rt, role, entry string) string { return comp + "/" + rt + "/" + role + "/" + entry }

func mkQuery(q *qrec) *componentcfg.Query {
	v, ok := apricotpb.RunType_value[q.Rt]
	if !ok {
		fatal("unknown run type %q in case", q.Rt)
	}
	return &componentcfg.Query{Component: q.Comp, RunType: apricotpb.RunType(v), RoleName: q.Role, EntryKey: q.Entry}
}

func got(payload string, err error) M {
	if err != nil {
		return M{"ok": false, "payload": ""}
	}
	return M{"ok": true, "payload": payload}
}

var resRT = []string{"PHYSICS", "TECHNICAL", "ANY"}
var resRoles = []string{"r", "s", "any"}

// one fake Consul agent per worker (identified by its backend file) for the "res" / "fld" cases, emptied per case.
// Every case makes a new service, whose HTTP client keeps its connection open: the agent is replaced now and then,
// which closes those connections.
type consulSlot struct {
	srv  *fakeconsul.Server
	uses int
}

var consulSrv sync.Map

func consulFor(file string) *fakeconsul.Server {
	v, _ := consulSrv.LoadOrStore(file, &consulSlot{})
	slot := v.(*consulSlot) // used by one worker only
	if slot.srv != nil && slot.uses >= 100 {
		slot.srv.Close()
		slot.srv = nil
	}
	if slot.srv == nil {
		slot.srv, slot.uses = fakeconsul.New(), 0
	}
	slot.uses++
	return slot.srv
}

func doRes(rec *vtrace.Recorder, scn int, c *tcase, file string) {
	var be sstore
	switch c.Be {
	case "", "file":
		c.Be = "file"
		be = &fileStore{newBackend(file)}
	case "consul":
		srv := consulFor(file)
		srv.DeleteTree("")
		be = &consulStore{srv}
	default:
		fatal("case %d: unknown backend %q", scn, c.Be)
	}
	present := map[string]bool{}
	for _, k := range c.B {
		present[k[0]+"/"+k[1]] = true
		be.put(pathOf(c.Q.Comp, k[0], k[1], c.Q.Entry), "cfg:"+pathOf(c.Q.Comp, k[0], k[1], c.Q.Entry))
	}
	// distractors: another entry and another component exist exactly where the queried entry does NOT
	for _, rt := range resRT {
		for _, ro := range resRoles {
			if !present[rt+"/"+ro] {
				be.put(pathOf(c.Q.Comp, rt, ro, "other"), "cfg:"+pathOf(c.Q.Comp, rt, ro, "other"))
				be.put(pathOf("d", rt, ro, c.Q.Entry), "cfg:"+pathOf("d", rt, ro, c.Q.Entry))
				// ... and longer-named neighbours: keys that merely START with the entry's name are not the entry
				be.put(pathOf(c.Q.Comp, rt, ro, c.Q.Entry+"-full"), "long:"+pathOf(c.Q.Comp, rt, ro, c.Q.Entry))
				if c.Be == "consul" { // (in the file backend a key below the entry would make the entry a folder)
					be.put(pathOf(c.Q.Comp, rt, ro, c.Q.Entry+"/sub"), "below:"+pathOf(c.Q.Comp, rt, ro, c.Q.Entry))
				}
			}
		}
	}
	svc := be.service()
	q := mkQuery(c.Q)
	before := *q
	res := M{"found": false, "comp": "", "rt": "", "role": "", "entry": "", "raw": ""}
	get := M{"ok": false, "payload": ""}
	proc := M{"ok": false, "payload": ""}
	r, err := svc.ResolveComponentQuery(q)
	if err == nil && r != nil {
		res = M{"found": true, "comp": r.Component, "rt": apricotpb.RunType_name[int32(r.RunType)], "role": r.RoleName,
			"entry": r.EntryKey, "raw": r.Raw()}
		get = got(svc.GetComponentConfiguration(r))
		proc = got(svc.GetAndProcessComponentConfiguration(r, map[string]string{}))
	}
	direct := got(svc.GetComponentConfiguration(q))
	b := c.B
	if b == nil {
		b = [][]string{}
	}
	rec.Emit("Res", "scn", scn, "q", c.Q, "B", b, "be", c.Be, "res", res, "get", get, "proc", proc, "direct", direct,
		"qkept", *q == before)
}

// keys stored at a candidate level of the query c/RT/role/x/y, by shape (FldKeys in spec/ConfigQuery.tla)
var fldKeys = map[int][]string{0: {}, 1: {"x"}, 2: {"x", "y"}, 3: {"y"}, 4: {"x/z"}, 5: {"x/y"}, 6: {"x/y", "y"}, 7: {"x/z", "y"}}

// doFld: an entry key with a folder part; per candidate level the folder name is absent / a plain entry / a folder and
// the leaf name absent / beside / inside.  Recorded like a "res" case (the trace specification derives existence from L).
func doFld(rec *vtrace.Recorder, scn int, c *tcase, file string) {
	var be sstore
	switch c.Be {
	case "", "file":
		c.Be = "file"
		be = &fileStore{newBackend(file)}
	case "consul":
		srv := consulFor(file)
		srv.DeleteTree("")
		be = &consulStore{srv}
	default:
		fatal("case %d: unknown backend %q", scn, c.Be)
	}
	for lvl, kq := range keyQuery {
		keys, ok := fldKeys[c.L[lvl]]
		if !ok {
			fatal("case %d: unknown shape %d", scn, c.L[lvl])
		}
		for _, k := range keys {
			p := pathOf(kq.Comp, kq.Rt, kq.Role, k)
			be.put(p, "cfg:"+p)
		}
	}
	be.put("d/ANY/any/x/y", "cfg:d/ANY/any/x/y") // another component has it everywhere it matters
	svc := be.service()
	q := mkQuery(c.Q)
	before := *q
	res := M{"found": false, "comp": "", "rt": "", "role": "", "entry": "", "raw": ""}
	get := M{"ok": false, "payload": ""}
	proc := M{"ok": false, "payload": ""}
	r, err := svc.ResolveComponentQuery(q)
	if err == nil && r != nil {
		res = M{"found": true, "comp": r.Component, "rt": apricotpb.RunType_name[int32(r.RunType)], "role": r.RoleName,
			"entry": r.EntryKey, "raw": r.Raw()}
		get = got(svc.GetComponentConfiguration(r))
		proc = got(svc.GetAndProcessComponentConfiguration(r, map[string]string{}))
	}
	direct := got(svc.GetComponentConfiguration(q))
	rec.Emit("Res", "scn", scn, "q", c.Q, "B", [][]string{}, "L", c.L, "be", c.Be, "res", res, "get", get, "proc", proc,
		"direct", direct, "qkept", *q == before)
}

func source(parts []part) string {
	var b strings.Builder
	for _, p := range parts {
		switch p.K {
		case "lit":
			t, ok := litStr[p.X]
			if !ok {
				fatal("unknown literal %q", p.X)
			}
			b.WriteString(t)
		case "var":
			b.WriteString("{{ " + p.X + " }}")
		case "ovr":
			b.WriteString("{{ util.PrefixedOverride(\"" + p.X + "\", \"" + prefix0 + "\") }}")
		case "ovl":
			b.WriteString("{{ PrefixedOverride(\"" + p.X + "\", \"" + prefix0 + "\") }}")
		case "up":
			b.WriteString("{{ strings.ToUpper(" + p.X + ") }}")
		case "inc":
			b.WriteString("{% include \"" + siblingName + "\" %}")
		default:
			fatal("unknown part kind %q", p.K)
		}
	}
	return b.String()
}

func doRnd(rec *vtrace.Recorder, scn int, c *tcase, file string) {
	be := newBackend(file)
	src := source(c.Parts)
	sibsrc := ""
	be.put("c/PHYSICS/r/e", src)
	if c.HasSib {
		sibsrc = source(c.Sib)
		be.put("c/PHYSICS/r/"+siblingName, sibsrc)
	}
	be.put("c/ANY/any/"+siblingName, "WRONG-SIBLING") // includes are relative to the entry's own directory
	svc := be.service()
	vars := map[string]string{}
	varsReal := make([][]string, 0, len(c.Vars))
	for _, v := range c.Vars {
		val, ok := valStr[v[1]]
		if !ok {
			fatal("unknown value %q", v[1])
		}
		vars[v[0]] = val
		varsReal = append(varsReal, []string{v[0], val})
	}
	q := &componentcfg.Query{Component: "c", RunType: apricotpb.RunType_PHYSICS, RoleName: "r", EntryKey: "e"}
	raw := got(svc.GetComponentConfiguration(q))
	out := got(svc.GetAndProcessComponentConfiguration(q, vars))
	parts, sib, cv := c.Parts, c.Sib, c.Vars
	if sib == nil {
		sib = []part{}
	}
	if cv == nil {
		cv = [][]string{}
	}
	rec.Emit("Rnd", "scn", scn, "parts", parts, "sib", sib, "hasSib", c.HasSib, "vars", cv, "varsReal", varsReal,
		"src", src, "sibsrc", sibsrc, "raw", raw, "out", out)
}

// ---- sequences of requests against ONE long-lived service (spec/ConfigQuerySvc.tla) ----

var entryPath = map[string]string{"D1e": "c/PHYSICS/r/e", "D1f": "c/PHYSICS/r/f", "D1s": "c/PHYSICS/r/" + siblingName,
	"D2e": "c/ANY/any/e", "D2f": "c/ANY/any/f", "D2s": "c/ANY/any/" + siblingName,
	// entries in subfolders: their relative includes mean the subfolder (S1 has a namesake "sib" one level up, S3 has not)
	"S1m": "c/PHYSICS/r/sub/main", "S1s": "c/PHYSICS/r/sub/" + siblingName,
	"S3m": "c/TECHNICAL/r/sub/main", "S3s": "c/TECHNICAL/r/sub/" + siblingName}

// the four candidate entries c/RT/role/x of a lookup (Keys in spec/ConfigQuerySvc.tla)
var keyQuery = map[string]qrec{"Pr": {"c", "PHYSICS", "r", "x"}, "Ar": {"c", "ANY", "r", "x"},
	"Pa": {"c", "PHYSICS", "any", "x"}, "Aa": {"c", "ANY", "any", "x"}}

func keyPath(k string) string {
	q, ok := keyQuery[k]
	if !ok {
		fatal("unknown candidate key %q", k)
	}
	return pathOf(q.Comp, q.Rt, q.Role, q.Entry)
}

func payloadX(k string, ver int) string {
	if ver == 2 {
		return "new:" + keyPath(k)
	}
	return "cfg:" + keyPath(k)
}

// the backing store under the one service of a sequence: a YAML file, or a fake Consul agent
type sstore interface {
	put(key, payload string)    // (external) write of o2/components/<key>
	remove(key string)          // (external) removal
	mirror(key, payload string) // the service itself wrote this: keep the harness' picture in step
	commit()                    // make the external writes visible
	service() *local.Service
	faultOn(f []int) // existence checks (positions, from 1) of the next request cannot be answered
	faultOff()
	close()
}

type fileStore struct{ be *backend }

func (f *fileStore) put(k, p string)    { f.be.put(k, p) }
func (f *fileStore) remove(k string)    { f.be.remove(k) }
func (f *fileStore) mirror(k, p string) { f.be.put(k, p) }
func (f *fileStore) commit()            { f.be.write() }
func (f *fileStore) service() *local.Service {
	return f.be.service()
}
func (f *fileStore) faultOn(_ []int) { // the file is momentarily unparseable: every check of the request fails
	if err := os.WriteFile(f.be.path, []byte("o2: [\"unterminated\n  - : :\n"), 0o644); err != nil {
		fatal("break backend file: %v", err)
	}
}
func (f *fileStore) faultOff() { f.be.write() }
func (f *fileStore) close()    {}

type consulStore struct{ srv *fakeconsul.Server }

func (c *consulStore) put(k, p string)    { c.srv.PutString("o2/components/"+k, p) }
func (c *consulStore) remove(k string)    { c.srv.Delete("o2/components/" + k) }
func (c *consulStore) mirror(_, _ string) {}
func (c *consulStore) commit()            {}
func (c *consulStore) service() *local.Service {
	svc, err := local.NewService(c.srv.URI())
	if err != nil || svc == nil {
		fatal("NewService(%s): %v", c.srv.URI(), err)
	}
	return svc
}
func (c *consulStore) faultOn(f []int) { // the i-th KV read of the request is answered with HTTP 500
	n := 0
	c.srv.SetScript(func(r *fakeconsul.Request) *fakeconsul.Fault {
		if r.Op != fakeconsul.OpGet && r.Op != fakeconsul.OpKeys && r.Op != fakeconsul.OpList {
			return nil
		}
		n++
		for _, i := range f {
			if i == n {
				return &fakeconsul.Fault{Status: 500, Body: "scripted backend fault"}
			}
		}
		return nil
	})
}
func (c *consulStore) faultOff() { c.srv.SetScript(nil) }
func (c *consulStore) close()    { c.srv.Close() }

type sstep struct {
	A     string     `json:"a"`
	E     string     `json:"e"`
	V     int        `json:"v"`
	F     []int      `json:"f"`
	Vars  [][]string `json:"vars"`
	Parts []part     `json:"parts"`
}

type scenario struct {
	ID      int               `json:"id"`
	Content map[string][]part `json:"content"`
	Store   map[string]int    `json:"store"`
	Backend string            `json:"backend"`
	Nbrs    []string          `json:"nbrs"`
	Stress  *struct {
		Workers int `json:"workers"`
		Repeat  int `json:"repeat"`
		Filler  int `json:"filler"`
	} `json:"stress"`
	Steps []sstep `json:"steps"`
}

func entryQuery(e string) *componentcfg.Query {
	p, ok := entryPath[e]
	if !ok {
		fatal("unknown entry %q", e)
	}
	q, err := componentcfg.NewQuery(p)
	if err != nil {
		fatal("entry path %q: %v", p, err)
	}
	return q
}

func doScenario(rec *vtrace.Recorder, sc *scenario, file string) {
	var be sstore
	switch sc.Backend {
	case "", "file":
		sc.Backend = "file"
		be = &fileStore{newBackend(file)}
	case "consul":
		be = &consulStore{fakeconsul.New()}
	default:
		fatal("scenario %d: unknown backend %q", sc.ID, sc.Backend)
	}
	defer be.close()
	content := M{}
	for e, parts := range sc.Content {
		be.put(entryPath[e], source(parts))
		if parts == nil {
			parts = []part{}
		}
		content[e] = parts
	}
	store := M{}
	for k := range keyQuery {
		v := sc.Store[k]
		store[k] = v
		if v != 0 {
			be.put(keyPath(k), payloadX(k, v))
		}
	}
	nbrs := sc.Nbrs
	if nbrs == nil {
		nbrs = []string{}
	}
	for _, k := range nbrs { // longer-named neighbours of the candidate entry x at this level
		be.put(keyPath(k)+"-full", "long:"+keyPath(k))
		if sc.Backend == "consul" {
			be.put(keyPath(k)+"/sub", "below:"+keyPath(k))
		}
	}
	if sc.Stress != nil {
		// a bigger store: re-reading it takes longer (entries of another component, never asked for)
		for i := 0; i < sc.Stress.Filler; i++ {
			be.put(fmt.Sprintf("zz/ANY/any/filler%04d", i), fmt.Sprintf("filler payload number %d {{ not rendered }}", i))
		}
	}
	svc := be.service() // ONE service for the whole sequence
	rec.Emit("Reset", "scn", sc.ID, "content", content, "store", store, "backend", sc.Backend, "nbrs", nbrs)
	faults := func(f []int) []int {
		if f == nil {
			return []int{}
		}
		return f
	}
	emit := rec.Emit // a concurrent run aggregates instead (below)
	step := func(st sstep) {
		switch st.A {
		case "Process":
			vars := map[string]string{}
			varsReal := make([][]string, 0, len(st.Vars))
			for _, v := range st.Vars {
				val, ok := valStr[v[1]]
				if !ok {
					fatal("unknown value %q", v[1])
				}
				vars[v[0]] = val
				varsReal = append(varsReal, []string{v[0], val})
			}
			cv := st.Vars
			if cv == nil {
				cv = [][]string{}
			}
			g := got(svc.GetAndProcessComponentConfiguration(entryQuery(st.E), vars))
			emit("Process", "scn", sc.ID, "e", st.E, "path", entryPath[st.E], "vars", cv, "varsReal", varsReal,
				"ok", g["ok"], "payload", g["payload"])
		case "Raw":
			g := got(svc.GetComponentConfiguration(entryQuery(st.E)))
			emit("Raw", "scn", sc.ID, "e", st.E, "path", entryPath[st.E], "ok", g["ok"], "payload", g["payload"])
		case "Invalidate":
			svc.InvalidateComponentTemplateCache()
			emit("Invalidate", "scn", sc.ID)
		case "Update":
			src := source(st.Parts)
			_, _, err := svc.ImportComponentConfiguration(entryQuery(st.E), src, false)
			be.mirror(entryPath[st.E], src) // the harness' picture of the store follows what the service wrote
			parts := st.Parts
			if parts == nil {
				parts = []part{}
			}
			emit("Update", "scn", sc.ID, "e", st.E, "path", entryPath[st.E], "parts", parts, "src", src, "ok", err == nil)
		case "ExternalEdit": // somebody else rewrites the backing file; the service is not told
			if st.V == 0 {
				be.remove(keyPath(st.E))
			} else {
				be.put(keyPath(st.E), payloadX(st.E, st.V))
			}
			be.commit()
			emit("ExternalEdit", "scn", sc.ID, "e", st.E, "path", keyPath(st.E), "v", st.V)
		case "Resolve":
			kq := keyQuery[st.E]
			res := M{"comp": "", "rt": "", "role": "", "entry": ""}
			ok, raw := false, ""
			if len(st.F) > 0 {
				be.faultOn(st.F)
			}
			r, err := svc.ResolveComponentQuery(mkQuery(&kq))
			if len(st.F) > 0 {
				be.faultOff()
			}
			if err == nil && r != nil {
				ok, raw = true, r.Raw()
				res = M{"comp": r.Component, "rt": apricotpb.RunType_name[int32(r.RunType)], "role": r.RoleName, "entry": r.EntryKey}
			}
			emit("Resolve", "scn", sc.ID, "e", st.E, "path", keyPath(st.E), "f", faults(st.F), "ok", ok, "payload", raw, "res", res)
		case "GetX":
			kq := keyQuery[st.E]
			if len(st.F) > 0 {
				be.faultOn(st.F)
			}
			g := got(svc.GetComponentConfiguration(mkQuery(&kq)))
			if len(st.F) > 0 {
				be.faultOff()
			}
			emit("GetX", "scn", sc.ID, "e", st.E, "path", keyPath(st.E), "f", faults(st.F), "ok", g["ok"], "payload", g["payload"])
		default:
			fatal("scenario %d: unknown step %q", sc.ID, st.A)
		}
	}
	if sc.Stress == nil {
		for _, st := range sc.Steps {
			step(st)
		}
		return
	}
	// free-running stress: the (read-only, undisturbed) requests are dealt to several goroutines which issue them
	// concurrently against the ONE service; every answer is recorded when it arrives and judged like a sequential one
	for _, st := range sc.Steps {
		if !(st.A == "Process" || st.A == "Raw" || ((st.A == "Resolve" || st.A == "GetX") && len(st.F) == 0)) {
			fatal("scenario %d: step %q cannot be part of a concurrent run", sc.ID, st.A)
		}
	}
	// identical answers to the same request are recorded once, with their number: every DISTINCT answer is judged
	type agg struct {
		ev string
		m  M
		n  int
	}
	var amu sync.Mutex
	seen := map[string]*agg{}
	order := []*agg{}
	emit = func(ev string, kv ...interface{}) {
		m := M{}
		for i := 0; i+1 < len(kv); i += 2 {
			m[kv[i].(string)] = kv[i+1]
		}
		b, err := json.Marshal(m)
		if err != nil {
			fatal("marshal answer: %v", err)
		}
		key := ev + "|" + string(b)
		amu.Lock()
		a, ok := seen[key]
		if !ok {
			a = &agg{ev: ev, m: m}
			seen[key] = a
			order = append(order, a)
		}
		a.n++
		amu.Unlock()
	}
	jitter.set(true)
	logrus.SetLevel(logrus.DebugLevel) // the code under test reaches its log calls: each is a point where the goroutine yields
	var wg sync.WaitGroup
	start := make(chan struct{})
	for w := 0; w < sc.Stress.Workers; w++ {
		wg.Add(1)
		go func(w int) {
			defer wg.Done()
			<-start
			for r := 0; r < sc.Stress.Repeat; r++ {
				for i := range sc.Steps {
					step(sc.Steps[(i+w)%len(sc.Steps)])
				}
			}
		}(w)
	}
	close(start)
	wg.Wait()
	logrus.SetLevel(logrus.PanicLevel)
	jitter.set(false)
	total := 0
	for _, a := range order {
		a.m["count"] = a.n
		total += a.n
		rec.EmitMap(a.ev, a.m)
	}
	rec.Emit("StressEnd", "scn", sc.ID, "requests", total, "distinct", len(order), "workers", sc.Stress.Workers)
}

// jitterHook makes every log call of the code under test a point where the goroutine gives up the processor
type jitterHook struct{ on atomic.Bool }

func (h *jitterHook) Levels() []logrus.Level { return logrus.AllLevels }
func (h *jitterHook) Fire(*logrus.Entry) error {
	if h.on.Load() {
		runtime.Gosched()
	}
	return nil
}
func (h *jitterHook) set(on bool) { h.on.Store(on) }

var jitter = &jitterHook{}

var nworkers = 4 // independent cases / request sequences handled at a time

func runScenarios(path, tracePath, file string) int {
	in, err := os.Open(path)
	if err != nil {
		fatal("%v", err)
	}
	defer in.Close()
	rec, err := vtrace.New(tracePath)
	if err != nil {
		fatal("%v", err)
	}
	sc := bufio.NewScanner(in)
	sc.Buffer(make([]byte, 1<<20), 1<<24)
	n := 0
	var rest []*scenario
	for sc.Scan() {
		line := bytes.TrimSpace(sc.Bytes())
		if len(line) == 0 {
			continue
		}
		s := &scenario{}
		if err := json.Unmarshal(line, s); err != nil {
			fatal("scenario %d: %v", n+1, err)
		}
		n++
		if s.Stress != nil {
			doScenario(rec, s, file) // a concurrent run has the process to itself
		} else {
			rest = append(rest, s)
		}
	}
	if err := sc.Err(); err != nil {
		fatal("%v", err)
	}
	// the sequential request sequences are independent of each other: several at a time, each worker with its own store
	// file and its own trace part (the lines of one sequence must stay together); the parts are appended afterwards
	var wg sync.WaitGroup
	parts := make([]string, nworkers)
	for w := 0; w < nworkers; w++ {
		parts[w] = fmt.Sprintf("%s.w%d", tracePath, w)
		wg.Add(1)
		go func(w int) {
			defer wg.Done()
			prec, err := vtrace.New(parts[w])
			if err != nil {
				fatal("%v", err)
			}
			for i := w; i < len(rest); i += nworkers {
				doScenario(prec, rest[i], fmt.Sprintf("%s.w%d.yaml", file, w))
			}
			if err := prec.Close(); err != nil {
				fatal("%v", err)
			}
		}(w)
	}
	wg.Wait()
	extra := 0
	for _, p := range parts {
		b, err := os.ReadFile(p)
		if err != nil {
			fatal("%v", err)
		}
		for _, l := range bytes.Split(b, []byte("\n")) {
			if len(bytes.TrimSpace(l)) == 0 {
				continue
			}
			var m map[string]interface{}
			if err := json.Unmarshal(l, &m); err != nil {
				fatal("%v", err)
			}
			ev, _ := m["ev"].(string)
			delete(m, "ev")
			delete(m, "seq")
			rec.EmitMap(ev, m)
			extra++
		}
		os.Remove(p)
	}
	// measured, never judged: the template cache after an update through the same service
	be := newBackend(file)
	be.put("c/PHYSICS/r/e", "old {{ v }}")
	svc := be.service()
	q := entryQuery("D1e")
	v := map[string]string{"v": "1"}
	first, _ := svc.GetAndProcessComponentConfiguration(q, v)
	_, _, ierr := svc.ImportComponentConfiguration(q, "new {{ v }}", false)
	stale, _ := svc.GetAndProcessComponentConfiguration(q, v)
	rawNow, _ := svc.GetComponentConfiguration(q)
	svc.InvalidateComponentTemplateCache()
	fresh, _ := svc.GetAndProcessComponentConfiguration(q, v)
	rec.Emit("Corner", "name", "processed-payload-after-import", "first", first, "importok", ierr == nil, "afterimport", stale,
		"raw", rawNow, "afterinvalidate", fresh)
	// measured, never judged: one unanswered existence check (HTTP 500) at the most specific, existing candidate
	cs := &consulStore{fakeconsul.New()}
	cs.put("c/PHYSICS/r/x", "exact")
	cs.put("c/ANY/any/x", "fallback")
	csvc := cs.service()
	kq := keyQuery["Pr"]
	cs.faultOn([]int{1})
	fr, ferr := csvc.ResolveComponentQuery(mkQuery(&kq))
	cs.faultOff()
	fraw := ""
	if ferr == nil && fr != nil {
		fraw = fr.Raw()
	}
	cs.close()
	rec.Emit("Corner", "name", "resolution-with-one-failed-existence-check", "query", "c/PHYSICS/r/x", "failed", ferr != nil, "resolved", fraw)
	lines := rec.Lines()
	if err := rec.Close(); err != nil {
		fatal("%v", err)
	}
	fmt.Printf("scenarios=%d slines=%d\n", n, lines)
	return n
}

// measured corner behaviour outside the property's quantifier; reported as observations, never judged
func doCorners(rec *vtrace.Recorder, file string) {
	be := newBackend(file)
	be.put("c/PHYSICS/r/sub/e", "nested")
	be.put("c/ANY/any/sub", "entry-named-sub")
	be.put("c/PHYSICS/r/e", "x={{ v }}")
	be.put("c/PHYSICS/r/u", "{{ strings }}")
	svc := be.service()
	one := func(name, qs string, vars map[string]string) {
		q, err := componentcfg.NewQuery(qs)
		if err != nil {
			rec.Emit("Corner", "name", name, "query", qs, "parsed", false)
			return
		}
		m := M{"name": name, "query": qs, "parsed": true, "resolved": "", "getok": false, "procok": false, "payload": ""}
		if r, err := svc.ResolveComponentQuery(q); err == nil {
			m["resolved"] = r.Raw()
			_, gerr := svc.GetComponentConfiguration(r)
			m["getok"] = gerr == nil
			if vars != nil {
				p, perr := svc.GetAndProcessComponentConfiguration(r, vars)
				m["procok"] = perr == nil
				if perr == nil {
					m["payload"] = p
				}
			}
		}
		rec.EmitMap("Corner", m)
	}
	one("folder-shadows-entry", "c/PHYSICS/r/sub", nil)
	one("trailing-slash", "c/PHYSICS/r/e/", nil)
	one("null-runtype", "c/NULL/r/e", nil)
	one("dot-in-entry", "c/PHYSICS/r/config.json", nil)
	one("non-identifier-variable-name", "c/PHYSICS/r/e", map[string]string{"v": "1", "a-b": "2"})
	one("variable-named-like-utility", "c/PHYSICS/r/u", map[string]string{"strings": "mine"})
	one("blank-padded-variable-name", "c/PHYSICS/r/e", map[string]string{" v ": "1"})
}

func main() {
	casesPath := flag.String("cases", "", "NDJSON cases (from TLC)")
	tracePath := flag.String("trace", "", "NDJSON trace to write")
	corners := flag.Bool("corners", true, "also record the corner-behaviour measurements")
	scnPath := flag.String("scenarios", "", "NDJSON request sequences (from TLC simulation of spec/ConfigQuerySvcGen.tla)")
	stracePath := flag.String("strace", "", "NDJSON trace of the request sequences to write")
	flag.Parse()
	logrus.SetOutput(io.Discard)
	logrus.SetLevel(logrus.PanicLevel)
	logrus.AddHook(jitter)

	in, err := os.Open(*casesPath)
	if err != nil {
		fatal("%v", err)
	}
	defer in.Close()
	rec, err := vtrace.New(*tracePath)
	if err != nil {
		fatal("%v", err)
	}
	emitTable(rec)
	tmp, err := os.MkdirTemp("", "c20be")
	if err != nil {
		fatal("%v", err)
	}
	defer os.RemoveAll(tmp)
	file := filepath.Join(tmp, "backend.yaml")
	if *scnPath != "" {
		runScenarios(*scnPath, *stracePath, filepath.Join(tmp, "svc.yaml"))
	}

	sc := bufio.NewScanner(in)
	sc.Buffer(make([]byte, 1<<20), 1<<24)
	n := 0
	counts := map[string]int{}
	var all []*tcase
	for sc.Scan() {
		line := bytes.TrimSpace(sc.Bytes())
		if len(line) == 0 {
			continue
		}
		n++
		c := &tcase{}
		if err := json.Unmarshal(line, c); err != nil {
			fatal("case %d: %v", n, err)
		}
		if c.S == nil {
			c.S = []string{}
		}
		counts[c.K]++
		all = append(all, c)
	}
	if err := sc.Err(); err != nil {
		fatal("%v", err)
	}
	// the cases are independent: several at a time, each worker with its own store file / fake Consul agent
	// (every line carries its case number; the order of the lines in the trace does not matter)
	var wg sync.WaitGroup
	for w := 0; w < nworkers; w++ {
		wg.Add(1)
		go func(w int) {
			defer wg.Done()
			wfile := fmt.Sprintf("%s.c%d.yaml", file, w)
			for i := w; i < len(all); i += nworkers {
				c, id := all[i], i+1
				switch c.K {
				case "str":
					doStr(rec, id, c)
				case "par":
					doPar(rec, id, c)
				case "res":
					doRes(rec, id, c, wfile)
				case "fld":
					doFld(rec, id, c, wfile)
				case "rnd":
					doRnd(rec, id, c, wfile)
				default:
					fatal("case %d: unknown kind %q", id, c.K)
				}
			}
		}(w)
	}
	wg.Wait()
	if *corners {
		doCorners(rec, file)
	}
	lines := rec.Lines()
	if err := rec.Close(); err != nil {
		fatal("%v", err)
	}
	fmt.Printf("cases=%d str=%d par=%d res=%d rnd=%d lines=%d\n", n, counts["str"], counts["par"], counts["res"], counts["rnd"], lines)
}
