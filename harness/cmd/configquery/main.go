package main

import (
	"fmt"
	"os"

	"github.com/AliceO2Group/Control/apricot/local"
	"github.com/AliceO2Group/Control/configuration/componentcfg"
)

func main() {
	yaml := `o2:
  components:
    c:
      PHYSICS:
        r:
          e: "lit {{ v }} end"
          q: "{{ v }}|{{ w }}|{% include \"e\" %}"
          m: "{% include \"missing\" %}"
          s: "{{ strings }}"
          sub:
            e: "nested {% include \"f\" %}"
            f: "F{{ v }}"
          "": "emptykey"
          n: 123
      ANY:
        any:
          e: "anyany"
`
	p := "/tmp/c20exp.yaml"
	os.WriteFile(p, []byte(yaml), 0644)
	svc, err := local.NewService("file://" + p)
	fmt.Println("svc", svc != nil, err)
	for _, s := range []string{"c/PHYSICS/r/e", "c/PHYSICS/r/sub", "c/PHYSICS/r/sub/e", "c/PHYSICS/r/e/", "c/PHYSICS/r//e", "c/PHYSICS/r//", "c/PHYSICS/r/", "c/PHYSICS/x/e", "c/PHYSICS/r/n", "c/PHYSICS/r/e/x", " c/PHYSICS/r/e\n", "c/NULL/r/e", "c/PHYSICS/r/e\nx"} {
		q, err := componentcfg.NewQuery(s)
		fmt.Printf("%q -> %+v err=%v\n", s, q, err)
		if err != nil {
			continue
		}
		fmt.Printf("   raw=%q path=%q abs=%q\n", q.Raw(), q.Path(), q.AbsoluteRaw())
		r, err := svc.ResolveComponentQuery(q)
		if err != nil {
			fmt.Println("   resolve err", err)
		} else {
			fmt.Printf("   resolved %q\n", r.Raw())
			pl, err := svc.GetComponentConfiguration(r)
			fmt.Printf("   get %q err=%v\n", pl, err)
		}
	}
	for _, t := range []struct {
		q    string
		vars map[string]string
	}{
		{"c/PHYSICS/r/e", map[string]string{"v": "V"}},
		{"c/PHYSICS/r/e", map[string]string{}},
		{"c/PHYSICS/r/e", nil},
		{"c/PHYSICS/r/e", map[string]string{"v": `["a","b"]<&'`}},
		{"c/PHYSICS/r/e", map[string]string{"v": "V", "a-b": "x"}},
		{"c/PHYSICS/r/e", map[string]string{" v ": "V"}},
		{"c/PHYSICS/r/e", map[string]string{"v": "{{ w }}", "w": "W"}},
		{"c/PHYSICS/r/q", map[string]string{"v": "V", "w": "W"}},
		{"c/PHYSICS/r/m", map[string]string{"v": "V"}},
		{"c/PHYSICS/r/s", map[string]string{"strings": "V"}},
		{"c/PHYSICS/r/sub/e", map[string]string{"v": "V"}},
		{"c/PHYSICS/r/zz", map[string]string{"v": "V"}},
	} {
		q, _ := componentcfg.NewQuery(t.q)
		pl, err := svc.GetAndProcessComponentConfiguration(q, t.vars)
		fmt.Printf("process %q %v -> %q err=%v\n", t.q, t.vars, pl, err)
	}
	for _, s := range []string{"a=b", "a=b&c=d", "a=b&a=c", "process=false&a=b", "process=x", "a=", "a-b=[\"x\",\"y\"]", " a=b ", "a=b&", "a==b", "a=b=c", "A=1"} {
		p, err := componentcfg.NewQueryParameters(s)
		fmt.Printf("params %q -> %+v err=%v\n", s, p, err)
	}
	for _, s := range []string{"c/PHYSICS/r", "c/PHYSICS/r/", "c/PHYSICS/r/e", " c/ANY/any "} {
		p, err := componentcfg.NewEntriesQuery(s)
		fmt.Printf("entries %q -> %+v err=%v\n", s, p, err)
	}
}
