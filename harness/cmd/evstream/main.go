// Command evstream replays call schedules generated from spec/EventStream.tla on the real
// core/environment event stream (SubscribeToStream / Send / Unsubscribe, an unbuffered channel and a
// reader goroutine like RpcServer.Subscribe): every call runs in its own goroutine; the driver records
// invocations, completions, what the reader received, and who is still blocked at the end.
package main

import (
	"bufio"
	"encoding/json"
	"flag"
	"fmt"
	"os"
	"strconv"
	"strings"
	"sync"
	"time"

	"github.com/AliceO2Group/Control/common/event"
	pb "github.com/AliceO2Group/Control/common/protos"
	"github.com/AliceO2Group/Control/core/environment"

	"verif/harness/vtrace"
)

type Step struct {
	T  string `json:"t,omitempty"`
	Op string `json:"op"` // send | unsub | leave
}

type Scenario struct {
	ID    int    `json:"id"`
	Steps []Step `json:"steps"`
}

type bufEv struct {
	ev string
	kv []interface{}
}

type buf struct {
	mu  sync.Mutex
	evs []bufEv
}

func (b *buf) Emit(ev string, kv ...interface{}) {
	b.mu.Lock()
	b.evs = append(b.evs, bufEv{ev, kv})
	b.mu.Unlock()
}

var par = flag.Int("par", 12, "scenarios run in parallel")
var grace = flag.Duration("grace", 150*time.Millisecond, "how long a call may take before it is called blocked")

func main() {
	in := flag.String("scenarios", "", "")
	out := flag.String("trace", "", "")
	flag.Parse()
	f, err := os.Open(*in)
	if err != nil {
		fmt.Fprintln(os.Stderr, err)
		os.Exit(2)
	}
	rec, err := vtrace.New(*out)
	if err != nil {
		fmt.Fprintln(os.Stderr, err)
		os.Exit(2)
	}
	sc := bufio.NewScanner(f)
	sc.Buffer(make([]byte, 1<<20), 1<<26)
	var scns []*Scenario
	for sc.Scan() {
		if len(strings.TrimSpace(sc.Text())) == 0 {
			continue
		}
		var s Scenario
		if err := json.Unmarshal(sc.Bytes(), &s); err != nil {
			fmt.Fprintln(os.Stderr, err)
			os.Exit(2)
		}
		scns = append(scns, &s)
	}
	bufs := make([]*buf, len(scns))
	sem := make(chan struct{}, *par)
	var wg sync.WaitGroup
	for i := range scns {
		i := i
		bufs[i] = &buf{}
		wg.Add(1)
		sem <- struct{}{}
		go func() {
			defer wg.Done()
			run(bufs[i], scns[i])
			<-sem
		}()
	}
	wg.Wait()
	for _, b := range bufs {
		for _, e := range b.evs {
			rec.Emit(e.ev, e.kv...)
		}
	}
	rec.Close()
	fmt.Printf("scenarios=%d lines=%d\n", len(scns), rec.Lines())
}

func run(rec *buf, s *Scenario) {
	rec.Emit("Reset", "scn", s.ID)
	ch := make(chan *pb.Event)
	sub := environment.SubscribeToStream(ch)
	// the reader, like RpcServer.Subscribe: receives until the channel is closed; it can be told to go away
	quit := make(chan struct{})
	gone := make(chan struct{})
	go func() {
		defer close(gone)
		for {
			select {
			case ev, ok := <-ch:
				if !ok {
					rec.Emit("Eof", "scn", s.ID)
					return
				}
				msg := ev.GetEnvironmentEvent().GetMessage() // "<sender>:<n>"
				i := strings.IndexByte(msg, ':')
				n, _ := strconv.Atoi(msg[i+1:])
				rec.Emit("Recv", "scn", s.ID, "s", msg[:i], "n", n)
			case <-quit:
				return
			}
		}
	}()
	done := map[string]chan string{}
	count := map[string]int{}
	busy := map[string]bool{}
	collect := func(t string, wait time.Duration) bool {
		select {
		case res := <-done[t]:
			rec.Emit("Done", "scn", s.ID, "t", t, "res", res)
			delete(busy, t)
			return true
		case <-time.After(wait):
			return false
		}
	}
	left := false
	for _, st := range s.Steps {
		st := st
		for t := range busy {
			collect(t, 0)
		}
		if st.Op == "leave" {
			if !left {
				close(quit)
				<-gone
				left = true
			}
			rec.Emit("Leave", "scn", s.ID)
			continue
		}
		if busy[st.T] && !collect(st.T, *grace) {
			rec.Emit("StillBlocked", "scn", s.ID, "t", st.T)
			continue
		}
		busy[st.T] = true
		c := make(chan string, 1)
		done[st.T] = c
		rec.Emit("Invoke", "scn", s.ID, "t", st.T, "op", st.Op)
		if st.Op == "send" {
			count[st.T]++
		}
		n := count[st.T]
		go func() {
			res := "ok"
			defer func() {
				if r := recover(); r != nil {
					res = "panic"
				}
				c <- res
			}()
			if st.Op == "send" {
				sub.Send(event.Event(&event.EnvironmentEvent{Message: fmt.Sprintf("%s:%d", st.T, n)}))
			} else {
				sub.Unsubscribe()
			}
		}()
		if !collect(st.T, 10*time.Millisecond) {
			continue
		}
		time.Sleep(200 * time.Microsecond)
	}
	for t := range busy {
		collect(t, *grace)
	}
	if !left {
		// let the reader log what it still has (an Eof after a close), then stop it
		select {
		case <-gone:
		case <-time.After(20 * time.Millisecond):
			close(quit)
			<-gone
		}
	}
	blocked := make([]string, 0)
	for t := range busy {
		blocked = append(blocked, t)
	}
	rec.Emit("End", "scn", s.ID, "blocked", blocked)
}
