// Command trgrun replays scenarios generated from spec/TrgRun.tla (X04) on the real TRG integration plugin
// (core/integration/trg). Per scenario it starts an in-process fake CTP gRPC server (fakectp.go), creates the real plugin
// (trg.NewPlugin + Init: the plugin dials the fake server and starts its polling goroutine) and executes the steps:
//
//	hook  - the plugin's CallStack function (PrepareForRun, RunLoad, RunStart, RunStop, RunUnload, Cleanup) is invoked with a real
//	        *callable.Call; the request it sends PARKS in the fake server, the driver applies it with the scripted fault
//	        (none | rc | err | lost) at that moment (= linearization point, one NDJSON line) and lets the reply go; a Cleanup
//	        that sends a second request leaves it parked for the next step of the scenario
//	ecs   - what the environment does on its own: NewRun / EndRun (current run number of the environment as seen by
//	        environment.ManagerInstance(), which reconcile() reads), GoError, Destroy (environment removed from the manager)
//	pollq - the poller's parked RunList request takes effect (snapshot of the run table); the reply stays in flight
//	pollr - the RunList reply is delivered: queryRunList stores cachedStatus, reconcile() reads the active run numbers and sends
//	        its first request, which parks
//	rec   - the poller's parked reconcile request (RunStop / RunUnload) is applied with the scripted fault and answered
//
// All synchronisation is blocking (a step waits until the goroutine it released has either returned or parked again in the
// server); the only timer is a watchdog that turns a wedged run into exit code 2 (inconclusive), never into a verdict.
// After each step the driver records the plugin's bookkeeping (pendingRunStops / pendingRunUnloads - unexported, read by
// reflection; no hook in /repo is needed), GetData (cachedStatus), GetEnvironmentsData, the server's run table and the request
// the poller is parked at.
package main

import (
	"bufio"
	"encoding/json"
	"flag"
	"fmt"
	"io"
	"os"
	"reflect"
	"sort"
	"strconv"
	"strings"
	"sync"
	"time"
	"unsafe"

	"github.com/AliceO2Group/Control/common/event"
	"github.com/AliceO2Group/Control/common/utils/uid"
	"github.com/AliceO2Group/Control/core/environment"
	"github.com/AliceO2Group/Control/core/integration/trg"
	"github.com/AliceO2Group/Control/core/task"
	"github.com/AliceO2Group/Control/core/workflow/callable"
	"github.com/sirupsen/logrus"
	"github.com/spf13/viper"

	"verif/harness/vtrace"
)

type Step struct {
	K  string `json:"k"`  // hook | ecs | pollq | pollr | rec
	E  string `json:"e"`  // environment alias
	Fn string `json:"fn"` // hook function / ecs action
	F  string `json:"f"`  // fault: none | rc | err | lost
	C  string `json:"c"`  // what the environment does when the hook failed: go | err (echoed, model-side only)
	R  int    `json:"r"`  // NewRun: the run number
}

type Scenario struct {
	ID     int             `json:"id"`
	Glob   map[string]bool `json:"glob"`   // environment alias -> global run (else standalone)
	Spaced bool            `json:"spaced"` // RunList separates detectors with ", " (the documented format) instead of ","
	Steps  []Step          `json:"steps"`
}

var watchdog = flag.Duration("watchdog", 120*time.Second, "how long a blocking wait may last before the run is declared wedged (exit 2)")

func die(format string, a ...interface{}) {
	fmt.Fprintf(os.Stderr, "trgrun: "+format+"\n", a...)
	os.Exit(2)
}

// ---------- the plugin's unexported bookkeeping, by reflection ----------

func pendingMap(p *trg.Plugin, name string) map[string]int64 {
	f := reflect.ValueOf(p).Elem().FieldByName(name)
	if !f.IsValid() || f.Type() != reflect.TypeOf(map[string]int64{}) {
		die("trg.Plugin has no field %s of type map[string]int64 (the plugin's bookkeeping changed shape: adapt the driver)", name)
	}
	return *(*map[string]int64)(unsafe.Pointer(f.UnsafeAddr()))
}

// envManager gives the driver the singleton reconcile() reads, with write access to its environment map.
type envManager struct {
	mgr *environment.Manager
	mu  *sync.RWMutex
	m   *map[uid.ID]*environment.Environment
}

func newEnvManager() *envManager {
	mgr := environment.NewEnvManager(nil, make(chan event.Event))
	if environment.ManagerInstance() != mgr {
		die("environment.ManagerInstance() is not the manager just created")
	}
	v := reflect.ValueOf(mgr).Elem()
	fm, fmu := v.FieldByName("m"), v.FieldByName("mu")
	if !fm.IsValid() || fm.Type() != reflect.TypeOf(map[uid.ID]*environment.Environment{}) || !fmu.IsValid() || fmu.Type() != reflect.TypeOf(sync.RWMutex{}) {
		die("environment.Manager has no fields m / mu of the expected types")
	}
	return &envManager{mgr: mgr, mu: (*sync.RWMutex)(unsafe.Pointer(fmu.UnsafeAddr())),
		m: (*map[uid.ID]*environment.Environment)(unsafe.Pointer(fm.UnsafeAddr()))}
}

func (em *envManager) clear() {
	em.mu.Lock()
	for k := range *em.m {
		delete(*em.m, k)
	}
	em.mu.Unlock()
}

func (em *envManager) add(id uid.ID) *environment.Environment {
	env := new(environment.Environment)
	em.mu.Lock()
	(*em.m)[id] = env
	em.mu.Unlock()
	return env
}

func (em *envManager) remove(id uid.ID) {
	em.mu.Lock()
	delete(*em.m, id)
	em.mu.Unlock()
}

func setRunNumber(env *environment.Environment, rn uint32) {
	f := reflect.ValueOf(env).Elem().FieldByName("currentRunNumber")
	if !f.IsValid() || f.Kind() != reflect.Uint32 {
		die("environment.Environment has no uint32 field currentRunNumber")
	}
	env.Mu.Lock()
	*(*uint32)(unsafe.Pointer(f.UnsafeAddr())) = rn
	env.Mu.Unlock()
	if env.GetCurrentRunNumber() != rn {
		die("GetCurrentRunNumber does not return the number just set")
	}
}

// ---------- a parent role for the calls ----------

type role struct {
	env uid.ID
	rn  func() uint32
}

func (r *role) GetPath() string { return "verif.trg" }
func (r *role) GetTaskTraits() task.Traits {
	return task.Traits{Trigger: "x", Timeout: "1h", Critical: true}
}
func (r *role) GetEnvironmentId() uid.ID                         { return r.env }
func (r *role) ConsolidatedVarStack() (map[string]string, error) { return map[string]string{}, nil }
func (r *role) SendEvent(event.Event)                            {}
func (r *role) SetRuntimeVar(string, string)                     {}
func (r *role) SetRuntimeVars(map[string]string)                 {}
func (r *role) DeleteRuntimeVar(string)                          {}
func (r *role) DeleteRuntimeVars([]string)                       {}
func (r *role) SetGlobalRuntimeVar(string, string)               {}
func (r *role) SetGlobalRuntimeVars(map[string]string)           {}
func (r *role) DeleteGlobalRuntimeVar(string)                    {}
func (r *role) DeleteGlobalRuntimeVars([]string)                 {}
func (r *role) GetCurrentRunNumber() uint32                      { return r.rn() }

// ---------- one scenario ----------

var dets = map[string][]string{"e1": {"TPC", "ITS"}, "e2": {"MFT", "MID"}, "e3": {"TOF", "TRD"}}

type envState struct {
	alias string
	id    uid.ID
	env   *environment.Environment
	live  bool
	rn    uint32
	glob  bool
	// hook invocation in progress (a Cleanup whose second request is parked)
	fn   string
	done chan struct{}
	call *callable.Call
	req  *request
}

type runner struct {
	rec  *vtrace.Recorder
	em   *envManager
	scn  *Scenario
	srv  *fakeCTP
	p    *trg.Plugin
	envs map[string]*envState
	ord  []string
	poll *request // the poller's parked request
	held bool     // its RunList has taken effect, the reply is in flight
}

func (r *runner) emit(ev string, kv ...interface{}) {
	r.rec.Emit(ev, append([]interface{}{"scn", r.scn.ID}, kv...)...)
}

func (r *runner) varStack(es *envState) map[string]string {
	d := dets[es.alias]
	if !es.glob {
		d = d[:1]
	}
	dj, _ := json.Marshal(d)
	vs := map[string]string{
		"environment_id":         string(es.id),
		"trg_enabled":            "true",
		"trg_detectors":          string(dj),
		"trg_global_run_enabled": strconv.FormatBool(es.glob),
		"run_type":               "PHYSICS",
		"__call_timeout":         "1h",
	}
	if es.rn != 0 {
		vs["run_number"] = strconv.FormatUint(uint64(es.rn), 10)
	}
	return vs
}

// waitHook blocks until the hook invocation of es has returned (true) or parked a request in the server (false).
func (r *runner) waitHook(es *envState) bool {
	q, done := r.srv.waitArrivalOr(es.done, *watchdog)
	if done {
		return true
	}
	if q == nil {
		r.emit("Stuck", "what", "hook "+es.fn+" of "+es.alias)
		r.rec.Close()
		die("scenario %d: hook %s neither returned nor sent a request within %s", r.scn.ID, es.fn, *watchdog)
	}
	es.req = q
	return false
}

// waitPoller blocks until the poller goroutine has parked its next request.
func (r *runner) waitPoller() {
	q, _ := r.srv.waitArrivalOr(nil, *watchdog)
	if q == nil {
		r.emit("Stuck", "what", "poller")
		r.rec.Close()
		die("scenario %d: the poller sent no request within %s", r.scn.ID, *watchdog)
	}
	r.poll = q
	r.held = false
}

func (r *runner) mismatch(i int, why string) {
	r.emit("Mismatch", "step", i, "why", why)
}

func (r *runner) hookReturn(es *envState) string {
	res := "ok"
	if es.call.VarStack["__call_error"] != "" {
		res = "fail"
	}
	es.fn, es.done, es.call, es.req = "", nil, nil, nil
	return res
}

func (r *runner) run() {
	s := r.scn
	r.em.clear()
	r.envs = map[string]*envState{}
	r.ord = r.ord[:0]
	for a := range s.Glob {
		r.ord = append(r.ord, a)
	}
	sort.Strings(r.ord)
	for _, a := range r.ord {
		id := uid.New()
		if _, err := uid.FromString(string(id)); err != nil {
			die("uid.New() gave an id uid.FromString rejects: %v", err)
		}
		r.envs[a] = &envState{alias: a, id: id, env: r.em.add(id), live: true, glob: s.Glob[a]}
	}
	srv, err := startFakeCTP(s.Spaced, func(line map[string]interface{}) {
		line["scn"] = s.ID
		r.rec.EmitMap("Req", line)
	})
	if err != nil {
		die("fake CTP: %v", err)
	}
	r.srv = srv
	viper.Set("trgServiceEndpoint", srv.addr)
	pl := trg.NewPlugin("//" + srv.addr)
	p, ok := pl.(*trg.Plugin)
	if !ok || p == nil {
		die("trg.NewPlugin did not return a *trg.Plugin")
	}
	r.p = p
	if err := p.Init("verif"); err != nil {
		die("plugin Init: %v", err)
	}
	pstop, punl := pendingMap(p, "pendingRunStops"), pendingMap(p, "pendingRunUnloads")
	r.emit("Reset", "glob", s.Glob, "spaced", s.Spaced)
	r.waitPoller() // the first RunList
	r.observe(pstop, punl, "none", "", "")

	aborted := false
	for i, st := range s.Steps {
		hret, he, hfn := "none", "", ""
		switch st.K {
		case "ecs":
			es := r.envs[st.E]
			switch st.Fn {
			case "NewRun":
				es.rn = uint32(st.R)
				setRunNumber(es.env, es.rn)
			case "EndRun":
				es.rn = 0
				setRunNumber(es.env, 0)
			case "GoError":
			case "Destroy":
				es.live = false
				es.rn = 0
				r.em.remove(es.id)
			default:
				die("scenario %d: unknown ecs action %q", s.ID, st.Fn)
			}
			r.emit("Ecs", "a", st.Fn, "e", st.E, "r", st.R)
		case "hook":
			es := r.envs[st.E]
			he, hfn = st.E, st.Fn
			if es.fn != "" && es.fn != st.Fn {
				r.mismatch(i, "hook "+es.fn+" of "+st.E+" is still in progress")
				aborted = true
				break
			}
			if es.fn == "" {
				es.fn = st.Fn
				es.call = callable.NewCall("trg."+st.Fn+"()", "", &role{env: es.id, rn: func() uint32 { return es.rn }})
				es.call.VarStack = r.varStack(es)
				stack := p.CallStack(es.call)
				f, ok := stack[st.Fn].(func() string)
				if !ok {
					die("scenario %d: the plugin's CallStack has no function %s", s.ID, st.Fn)
				}
				es.done = make(chan struct{})
				done := es.done
				go func() {
					defer close(done)
					f()
				}()
				if r.waitHook(es) {
					// returned without sending anything
					r.emit("Skip", "e", st.E, "fn", st.Fn, "c", st.C)
					hret = r.hookReturn(es)
					break
				}
			}
			q := es.req
			es.req = nil
			r.srv.apply(q, st.F, map[string]interface{}{"src": "hook", "e": st.E, "fn": st.Fn, "c": st.C})
			if r.waitHook(es) {
				hret = r.hookReturn(es)
			}
		case "pollq":
			if r.poll == nil || r.poll.m != "RunList" || r.held {
				r.mismatch(i, "poller is not parked at a fresh RunList")
				aborted = true
				break
			}
			r.srv.applyHold(r.poll, st.F, map[string]interface{}{"src": "poll", "e": "", "fn": "", "c": ""})
			r.held = true
		case "pollr":
			if r.poll == nil || !r.held {
				r.mismatch(i, "no RunList reply in flight")
				aborted = true
				break
			}
			r.srv.release(r.poll)
			r.emit("PollReply")
			r.waitPoller()
		case "rec":
			if r.poll == nil || (r.poll.m != "RunStop" && r.poll.m != "RunUnload") {
				r.mismatch(i, "poller is not parked at a reconciliation request")
				aborted = true
				break
			}
			r.srv.apply(r.poll, st.F, map[string]interface{}{"src": "poll", "e": "", "fn": "", "c": ""})
			r.waitPoller()
		default:
			die("scenario %d: unknown step kind %q", s.ID, st.K)
		}
		if aborted {
			break
		}
		r.observe(pstop, punl, hret, he, hfn)
	}
	r.emit("End")
	// shut down: every parked request fails, the poller and the hooks in progress return
	r.srv.shutdown()
	if r.poll != nil {
		if r.held {
			r.srv.release(r.poll)
		} else {
			r.srv.fail(r.poll)
		}
	}
	for _, es := range r.envs {
		if es.req != nil {
			r.srv.fail(es.req)
		}
	}
	_ = p.Destroy()
	for _, es := range r.envs {
		if es.done != nil {
			select {
			case <-es.done:
			case <-time.After(*watchdog):
				die("scenario %d: a hook did not return after shutdown", s.ID)
			}
		}
	}
	r.srv.stop()
}

// observe records what the specification predicts after every step.
func (r *runner) observe(pstop, punl map[string]int64, hret, he, hfn string) {
	ps, pu := map[string]int64{}, map[string]int64{}
	byID := map[string]string{}
	ids := make([]uid.ID, 0)
	for _, a := range r.ord {
		es := r.envs[a]
		ps[a], pu[a] = 0, 0
		byID[string(es.id)] = a
		ids = append(ids, es.id)
	}
	extra := 0
	for id, rn := range pstop {
		if a, ok := byID[id]; ok {
			ps[a] = rn
			if rn == 0 {
				ps[a] = -1 // an entry holding run number 0
			}
		} else {
			extra++
		}
	}
	for id, rn := range punl {
		if a, ok := byID[id]; ok {
			pu[a] = rn
			if rn == 0 {
				pu[a] = -1
			}
		} else {
			extra++
		}
	}
	pp := []interface{}{"none", 0}
	if r.poll != nil {
		if r.held {
			pp = []interface{}{"held", 0}
		} else {
			pp = []interface{}{r.poll.m, int(r.poll.r)}
		}
	}
	// cachedStatus as the plugin publishes it
	cache := make([][]interface{}, 0)
	emap := map[string]int{}
	for _, a := range r.ord {
		emap[a] = 0
	}
	if d := r.p.GetData(nil); d != "" {
		var st struct {
			Structured []struct {
				Cardinality int
				RunNumber   int
				State       int
			} `json:"structured"`
			EnvMap map[string]struct{ RunNumber int } `json:"envMap"`
		}
		if err := json.Unmarshal([]byte(d), &st); err != nil {
			die("GetData is not JSON: %v: %s", err, d)
		}
		for _, x := range st.Structured {
			card, state := "?", "?"
			switch trg.RunCardinality(x.Cardinality) {
			case trg.CTP_STANDALONE:
				card = "S"
			case trg.CTP_GLOBAL:
				card = "G"
			}
			switch trg.State(x.State) {
			case trg.CTP_LOADED:
				state = "L"
			case trg.CTP_RUNNING:
				state = "R"
			}
			cache = append(cache, []interface{}{x.RunNumber, card, state})
		}
		for id, x := range st.EnvMap {
			if a, ok := byID[id]; ok {
				emap[a] = x.RunNumber
			}
		}
	}
	edata := make([]string, 0)
	for id := range r.p.GetEnvironmentsData(ids) {
		edata = append(edata, byID[string(id)])
	}
	sort.Strings(edata)
	r.emit("Obs", "pstop", ps, "punl", pu, "stray", extra, "tbl", r.srv.table(), "pp", pp, "cache", cache, "emap", emap,
		"edata", edata, "hret", hret, "he", he, "hfn", hfn)
}

// stress runs complete run cycles of one environment against a service that answers at once, while the plugin's poller
// polls as fast as it can: nothing orders the hooks' writes to the pending maps and the poller's reads of them. Built with
// -race the race detector reports the unsynchronised accesses; without it the Go runtime may abort the process ("concurrent
// map iteration and map write"). Not part of the model (which lets one goroutine move at a time); reported as an observation.
func stress(n int) {
	viper.Set("trgPollingInterval", "10us")
	em := newEnvManager()
	srv, err := startFakeCTP(false, func(map[string]interface{}) {})
	if err != nil {
		die("fake CTP: %v", err)
	}
	srv.auto = true
	viper.Set("trgServiceEndpoint", srv.addr)
	p, ok := trg.NewPlugin("//" + srv.addr).(*trg.Plugin)
	if !ok || p == nil {
		die("trg.NewPlugin did not return a *trg.Plugin")
	}
	if err := p.Init("verif"); err != nil {
		die("plugin Init: %v", err)
	}
	es := &envState{alias: "e1", id: uid.New(), live: true, glob: true}
	es.env = em.add(es.id)
	r := &runner{em: em}
	failed := 0
	for i := 1; i <= n; i++ {
		es.rn = uint32(i)
		setRunNumber(es.env, es.rn)
		for _, fn := range []string{"RunLoad", "RunStart", "RunStop", "RunUnload"} {
			call := callable.NewCall("trg."+fn+"()", "", &role{env: es.id, rn: func() uint32 { return es.rn }})
			call.VarStack = r.varStack(es)
			p.CallStack(call)[fn].(func() string)()
			if call.VarStack["__call_error"] != "" {
				failed++
			}
		}
		es.rn = 0
		setRunNumber(es.env, 0)
	}
	srv.shutdown()
	_ = p.Destroy()
	srv.stop()
	fmt.Printf("stress cycles=%d failed_hooks=%d\n", n, failed)
}

func main() {
	in := flag.String("scenarios", "", "")
	out := flag.String("trace", "", "")
	nstress := flag.Int("stress", 0, "stress mode: number of run cycles (no scenarios)")
	flag.Parse()
	logrus.SetOutput(io.Discard)
	logrus.SetLevel(logrus.PanicLevel)
	viper.Set("trgPollingInterval", "1ms")
	viper.Set("trgPollingTimeout", "1h")
	viper.Set("trgReconciliationTimeout", "1h")
	viper.Set("enableKafka", false)
	if *nstress > 0 {
		stress(*nstress)
		return
	}
	f, err := os.Open(*in)
	if err != nil {
		die("%v", err)
	}
	rec, err := vtrace.New(*out)
	if err != nil {
		die("%v", err)
	}
	em := newEnvManager()
	sc := bufio.NewScanner(f)
	sc.Buffer(make([]byte, 1<<20), 1<<26)
	n := 0
	t0 := time.Now()
	for sc.Scan() {
		if len(strings.TrimSpace(sc.Text())) == 0 {
			continue
		}
		var s Scenario
		if err := json.Unmarshal(sc.Bytes(), &s); err != nil {
			die("%v", err)
		}
		r := &runner{rec: rec, em: em, scn: &s}
		r.run()
		n++
	}
	rec.Close()
	fmt.Printf("scenarios=%d lines=%d wall=%.1fs\n", n, rec.Lines(), time.Since(t0).Seconds())
}
