package main

import (
	"context"
	"fmt"
	"net"
	"sort"
	"strings"
	"sync"
	"time"

	trgpb "github.com/AliceO2Group/Control/core/integration/trg/protos"
	"google.golang.org/grpc"
	"google.golang.org/grpc/codes"
	"google.golang.org/grpc/keepalive"
	"google.golang.org/grpc/status"
)

// fakeCTP is an in-process CTP daemon: a run table (run number -> cardinality, state, detectors) behind the real
// ctpecs gRPC service. Every request PARKS on arrival; the driver decides when it takes effect and with which fault:
//
//	none - the table decides: a legal request is executed (rc 0), an illegal one is refused (rc 12, no effect)
//	rc   - refused with rc != 0 although legal (no effect)
//	err  - a gRPC error, no effect
//	lost - executed if legal, but the reply is a gRPC error (the caller cannot know)
//
// Legal: RunLoad of an unknown run (-> global, LOADED); RunStart with detector "" of a LOADED global run (-> RUNNING);
// RunStart naming a detector of an unknown run (-> standalone, RUNNING); RunStop of a RUNNING run (global -> LOADED,
// standalone -> gone); RunUnload of a LOADED global run (-> gone); PrepareForRun always; RunList always (rc = number of
// lines, as ctpd does). One NDJSON line per request at the moment it takes effect.
type fakeCTP struct {
	trgpb.UnimplementedCTPdServer
	addr   string
	gs     *grpc.Server
	spaced bool
	log    func(map[string]interface{})

	mu       sync.Mutex
	cond     *sync.Cond
	runs     map[uint32]*ctpRun
	arrivals []*request // parked, not yet handed to the driver
	closing  bool
	auto     bool // stress mode: every request takes effect at once, nothing parks
}

type ctpRun struct {
	card, state string // "G"/"S", "L"/"R"
	dets        []string
}

type reply struct {
	rep *trgpb.RunReply
	err error
}

type request struct {
	m     string
	r     uint32
	det   string   // RunStart/RunStop: the detector named ("" = global form)
	dets  []string // RunLoad: detectors
	ch    chan reply
	ready *reply // applied, reply held back (RunList in flight)
}

func startFakeCTP(spaced bool, log func(map[string]interface{})) (*fakeCTP, error) {
	lis, err := net.Listen("tcp", "127.0.0.1:0")
	if err != nil {
		return nil, err
	}
	s := &fakeCTP{addr: lis.Addr().String(), spaced: spaced, log: log, runs: map[uint32]*ctpRun{}}
	s.cond = sync.NewCond(&s.mu)
	s.gs = grpc.NewServer(grpc.KeepaliveEnforcementPolicy(keepalive.EnforcementPolicy{MinTime: time.Second, PermitWithoutStream: true}))
	trgpb.RegisterCTPdServer(s.gs, s)
	go func() { _ = s.gs.Serve(lis) }()
	return s, nil
}

func (s *fakeCTP) park(ctx context.Context, q *request) (*trgpb.RunReply, error) {
	q.ch = make(chan reply, 1)
	s.mu.Lock()
	if s.closing {
		s.mu.Unlock()
		return nil, status.Error(codes.Unavailable, "fake CTP shutting down")
	}
	if s.auto {
		rp, _ := s.effect(q, "none")
		s.mu.Unlock()
		return rp.rep, rp.err
	}
	s.arrivals = append(s.arrivals, q)
	s.cond.Broadcast()
	s.mu.Unlock()
	select {
	case rp := <-q.ch:
		return rp.rep, rp.err
	case <-ctx.Done():
		return nil, status.Error(codes.Canceled, "caller gone")
	}
}

func (s *fakeCTP) PrepareForRun(ctx context.Context, in *trgpb.RunPrepareRequest) (*trgpb.RunReply, error) {
	return s.park(ctx, &request{m: "PrepareForRun"})
}
func (s *fakeCTP) RunLoad(ctx context.Context, in *trgpb.RunLoadRequest) (*trgpb.RunReply, error) {
	return s.park(ctx, &request{m: "RunLoad", r: in.Runn, dets: strings.Fields(in.Detectors)})
}
func (s *fakeCTP) RunUnload(ctx context.Context, in *trgpb.RunStopRequest) (*trgpb.RunReply, error) {
	return s.park(ctx, &request{m: "RunUnload", r: in.Runn, det: in.Detector})
}
func (s *fakeCTP) RunStart(ctx context.Context, in *trgpb.RunStartRequest) (*trgpb.RunReply, error) {
	return s.park(ctx, &request{m: "RunStart", r: in.Runn, det: in.Detector})
}
func (s *fakeCTP) RunStop(ctx context.Context, in *trgpb.RunStopRequest) (*trgpb.RunReply, error) {
	return s.park(ctx, &request{m: "RunStop", r: in.Runn, det: in.Detector})
}
func (s *fakeCTP) RunList(ctx context.Context, in *trgpb.Empty) (*trgpb.RunReply, error) {
	return s.park(ctx, &request{m: "RunList"})
}

// waitArrivalOr blocks until a request has parked (returned), or done is closed (true), or the watchdog expires (nil, false).
func (s *fakeCTP) waitArrivalOr(done chan struct{}, watchdog time.Duration) (*request, bool) {
	stop := make(chan struct{})
	defer close(stop)
	expired := false
	isDone := false
	go func() {
		t := time.NewTimer(watchdog)
		defer t.Stop()
		select {
		case <-done: // nil channel: never
			s.mu.Lock()
			isDone = true
		case <-t.C:
			s.mu.Lock()
			expired = true
		case <-stop:
			return
		}
		s.cond.Broadcast()
		s.mu.Unlock()
	}()
	s.mu.Lock()
	defer s.mu.Unlock()
	for {
		// a hook that has returned cannot have a request under way: report the return only when nothing arrived
		if len(s.arrivals) > 0 {
			q := s.arrivals[0]
			s.arrivals = s.arrivals[1:]
			return q, false
		}
		if isDone {
			return nil, true
		}
		if expired {
			return nil, false
		}
		s.cond.Wait()
	}
}

// effect executes q on the table under the fault; returns the reply and the result class seen by the caller.
func (s *fakeCTP) effect(q *request, fault string) (reply, string) {
	legal := false
	run := s.runs[q.r]
	switch q.m {
	case "PrepareForRun", "RunList":
		legal = true
	case "RunLoad":
		legal = run == nil && q.r != 0
	case "RunStart":
		if q.det == "" {
			legal = run != nil && run.card == "G" && run.state == "L"
		} else {
			legal = run == nil && q.r != 0
		}
	case "RunStop":
		legal = run != nil && run.state == "R"
	case "RunUnload":
		legal = run != nil && run.card == "G" && run.state == "L"
	}
	doit := legal && (fault == "none" || fault == "lost")
	msg := ""
	rc := int32(0)
	if doit {
		switch q.m {
		case "RunLoad":
			s.runs[q.r] = &ctpRun{card: "G", state: "L", dets: q.dets}
		case "RunStart":
			if q.det == "" {
				run.state = "R"
			} else {
				s.runs[q.r] = &ctpRun{card: "S", state: "R", dets: []string{q.det}}
			}
		case "RunStop":
			if run.card == "G" {
				run.state = "L"
			} else {
				delete(s.runs, q.r)
			}
		case "RunUnload":
			delete(s.runs, q.r)
		case "RunList":
			keys := make([]int, 0)
			for k := range s.runs {
				keys = append(keys, int(k))
			}
			sort.Ints(keys)
			sep := ","
			if s.spaced {
				sep = ", "
			}
			for _, k := range keys {
				x := s.runs[uint32(k)]
				if x.card == "S" {
					msg += fmt.Sprintf("S %6d R     %s\n", k, strings.Join(x.dets, sep))
				} else {
					msg += fmt.Sprintf("G %6d %s     %s     run%d\n", k, x.state, strings.Join(x.dets, sep), k)
				}
			}
			rc = int32(len(keys))
		}
	}
	switch {
	case fault == "err" || fault == "lost":
		return reply{nil, status.Error(codes.Unavailable, "injected transport failure")}, "err"
	case fault == "rc":
		return reply{&trgpb.RunReply{Rc: 7, Msg: "injected refusal"}, nil}, "rc"
	case !legal:
		return reply{&trgpb.RunReply{Rc: 12, Msg: "request does not fit the run table"}, nil}, "rc"
	}
	return reply{&trgpb.RunReply{Rc: rc, Msg: msg}, nil}, "ok"
}

func (s *fakeCTP) record(q *request, fault, res string, extra map[string]interface{}) {
	line := map[string]interface{}{"m": q.m, "r": int(q.r), "glb": q.det == "", "f": fault, "res": res, "tbl": s.tableLocked()}
	for k, v := range extra {
		line[k] = v
	}
	s.log(line)
}

// apply: the request takes effect now and its reply is sent.
func (s *fakeCTP) apply(q *request, fault string, extra map[string]interface{}) {
	s.mu.Lock()
	rp, res := s.effect(q, fault)
	s.record(q, fault, res, extra)
	s.mu.Unlock()
	q.ch <- rp
}

// applyHold: the request takes effect now, the reply stays in flight until release.
func (s *fakeCTP) applyHold(q *request, fault string, extra map[string]interface{}) {
	s.mu.Lock()
	rp, res := s.effect(q, fault)
	s.record(q, fault, res, extra)
	q.ready = &rp
	s.mu.Unlock()
}

func (s *fakeCTP) release(q *request) {
	q.ch <- *q.ready
}

func (s *fakeCTP) tableLocked() [][]interface{} {
	keys := make([]int, 0)
	for k := range s.runs {
		keys = append(keys, int(k))
	}
	sort.Ints(keys)
	out := make([][]interface{}, 0)
	for _, k := range keys {
		x := s.runs[uint32(k)]
		out = append(out, []interface{}{k, x.card, x.state})
	}
	return out
}

func (s *fakeCTP) table() [][]interface{} {
	s.mu.Lock()
	defer s.mu.Unlock()
	return s.tableLocked()
}

// shutdown fails every parked request and every later one.
func (s *fakeCTP) shutdown() {
	s.mu.Lock()
	s.closing = true
	arr := s.arrivals
	s.arrivals = nil
	s.mu.Unlock()
	for _, q := range arr {
		q.ch <- reply{nil, status.Error(codes.Unavailable, "fake CTP shutting down")}
	}
}

func (s *fakeCTP) fail(q *request) {
	q.ch <- reply{nil, status.Error(codes.Unavailable, "fake CTP shutting down")}
}

func (s *fakeCTP) stop() { s.gs.Stop() }
