// Command transitioner replays the outcome vectors enumerated by TLC from spec/Transitioner.tla on
// the real executor code and records, for every device request, what the device saw and did and
// what DoTransition returned, and for every call of Commit the (finalState, err) it returned.
//
// Bindings (field "bind" of a scenario):
//
//	func : transitioner.NewFairMQTransitioner / NewDirectTransitioner (exported) with the scripted
//	       device as DoTransitionFunc (the reply acceptance rule is a stand-in in this file, checked
//	       against the model by the trace specification);
//	grpc : the REAL executorcmd.NewClient(port, controlMode, ProtobufTransport, log) talking gRPC to
//	       fakeocc.Server (service Occ of executor/protos): RpcClient.doTransition is the
//	       DoTransitionFunc; it is observed by wrapping the exported field DoTransition of the
//	       transitioner the client built.
//
// Field "via": "commit" calls Transitioner.Commit directly, "cmd" goes through
// executorcmd.ExecutorCommand_Transition.Commit + PrepareResponse (the response's state field and
// error string are recorded too).
package main

import (
	"bufio"
	"encoding/json"
	"errors"
	"flag"
	"fmt"
	"io"
	"os"
	"strings"

	"github.com/AliceO2Group/Control/common/controlmode"
	"github.com/AliceO2Group/Control/common/utils/uid"
	"github.com/AliceO2Group/Control/core/controlcommands"
	"github.com/AliceO2Group/Control/executor/executorcmd"
	"github.com/AliceO2Group/Control/executor/executorcmd/transitioner"
	"github.com/sirupsen/logrus"

	"verif/harness/fakeocc"
	"verif/harness/vtrace"
)

type Scenario struct {
	ID     int      `json:"id"`
	Bind   string   `json:"bind"`
	Via    string   `json:"via"`
	Kind   string   `json:"kind"`
	Evt    string   `json:"evt"`
	Src    string   `json:"src"`
	Dst    string   `json:"dst"`
	Dev0   string   `json:"dev0"`
	Strict bool     `json:"strict"`
	Outs   []string `json:"outs"`
}

type harness struct {
	rec *vtrace.Recorder
	cur *fakeocc.Device // device of the running scenario
	scn int

	srv     *fakeocc.Server
	port    uint64
	clients map[string]*executorcmd.RpcClient // kind -> real client (grpc binding)
	funcs   map[string]transitioner.Transitioner
	envId   uid.ID
}

func (h *harness) emitStep(ei transitioner.EventInfo, s fakeocc.Step, called bool, st string, err error) {
	out := s.Out
	if !called {
		out = "nocall" // DoTransition returned without the device having been asked
	}
	h.rec.Emit("Step", "scn", h.scn,
		"rev", ei.Evt, "rsrc", ei.Src, "rdst", ei.Dst,
		"gev", s.Ev, "gsrc", s.Src,
		"before", s.Before, "out", out, "after", s.After,
		"transport", s.Transport, "ok", s.Ok, "trig", s.Trig, "revent", s.REvent, "state", s.State,
		"rstate", st, "rerr", err != nil)
}

// stand-in for RpcClient.doTransition in the func binding (client.go: accepted only if ok,
// executor-triggered, same event, expected state)
func (h *harness) simDoTransition(ei transitioner.EventInfo) (string, error) {
	s := h.cur.Apply(ei.Evt, ei.Src)
	var st string
	var err error
	switch {
	case s.Transport:
		st, err = "", errors.New("occplugin returned "+s.Code)
	case s.Ok && s.Trig == "EXECUTOR" && s.REvent == ei.Evt && s.State == ei.Dst:
		st = s.State
	default:
		st, err = s.State, errors.New("transition unsuccessful")
	}
	h.emitStep(ei, s, true, st, err)
	return st, err
}

// observe wraps the real DoTransitionFunc (RpcClient.doTransition)
func (h *harness) observe(orig transitioner.DoTransitionFunc) transitioner.DoTransitionFunc {
	return func(ei transitioner.EventInfo) (string, error) {
		n := h.cur.NSteps()
		st, err := orig(ei)
		s, _ := h.cur.Last()
		h.emitStep(ei, s, h.cur.NSteps() == n+1, st, err)
		return st, err
	}
}

func (h *harness) transitionerFor(sc *Scenario) (transitioner.Transitioner, error) {
	if sc.Bind == "func" {
		if t, ok := h.funcs[sc.Kind]; ok {
			return t, nil
		}
		var t transitioner.Transitioner
		if sc.Kind == "fairmq" {
			t = transitioner.NewFairMQTransitioner(h.simDoTransition)
		} else {
			t = transitioner.NewDirectTransitioner(h.simDoTransition)
		}
		h.funcs[sc.Kind] = t
		return t, nil
	}
	if c, ok := h.clients[sc.Kind]; ok {
		return c.Transitioner, nil
	}
	if h.srv == nil {
		srv, port, err := fakeocc.Serve()
		if err != nil {
			return nil, err
		}
		h.srv = srv
		h.srv.SetDevice(h.cur)
		h.port = port
	}
	mode := controlmode.DIRECT
	if sc.Kind == "fairmq" {
		mode = controlmode.FAIRMQ
	}
	lg := logrus.New()
	lg.SetOutput(io.Discard)
	c := executorcmd.NewClient(h.port, mode, executorcmd.ProtobufTransport, logrus.NewEntry(lg).WithField("id", "verif-task"))
	if c == nil {
		return nil, errors.New("executorcmd.NewClient returned nil")
	}
	switch t := c.Transitioner.(type) {
	case *transitioner.FairMQ:
		t.DoTransition = h.observe(t.DoTransition)
	case *transitioner.Direct:
		t.DoTransition = h.observe(t.DoTransition)
	default:
		return nil, fmt.Errorf("unexpected transitioner %T", c.Transitioner)
	}
	h.clients[sc.Kind] = c
	return c.Transitioner, nil
}

func (h *harness) run(sc *Scenario) error {
	h.scn = sc.ID
	h.cur = fakeocc.NewDevice(sc.Kind, sc.Dev0, sc.Strict, sc.Outs)
	// every third scenario: the device's transport-level failures carry a status code and no text
	h.cur.BareErrors = sc.ID%3 == 0
	if h.srv != nil {
		h.srv.SetDevice(h.cur)
	}
	tr, err := h.transitionerFor(sc)
	if err != nil {
		return err
	}
	if h.srv != nil {
		h.srv.SetDevice(h.cur)
	}
	h.rec.Emit("Reset", "scn", sc.ID, "bind", sc.Bind, "via", sc.Via, "kind", sc.Kind,
		"evt", sc.Evt, "src", sc.Src, "dst", sc.Dst, "dev0", sc.Dev0, "strict", sc.Strict, "nouts", len(sc.Outs))

	var final, respState string
	var cerr error
	var respErr bool
	panicked := ""
	func() {
		defer func() {
			if r := recover(); r != nil {
				panicked = fmt.Sprint(r)
			}
		}()
		args := map[string]string{"verif.key": "v"}
		if sc.Via == "cmd" {
			cmd := executorcmd.NewLocalExecutorCommand_Transition(tr, h.envId,
				[]controlcommands.MesosCommandTarget{}, sc.Src, sc.Evt, sc.Dst, nil)
			cmd.Arguments = args
			final, cerr = cmd.Commit()
			resp := cmd.PrepareResponse(cerr, final, "verif-task")
			respState, respErr = resp.CurrentState, resp.ErrorString != ""
		} else {
			final, cerr = tr.Commit(sc.Evt, sc.Src, sc.Dst, args)
			respState, respErr = final, cerr != nil
		}
	}()
	if panicked != "" {
		final, respState = "PANIC", "PANIC"
	}
	h.rec.Emit("Return", "scn", sc.ID, "final", final, "err", cerr != nil, "dev", h.cur.State(),
		"nreq", h.cur.NSteps(), "resp_state", respState, "resp_err", respErr, "panic", panicked)
	return nil
}

func main() {
	in := flag.String("scenarios", "", "NDJSON scenarios")
	out := flag.String("trace", "", "NDJSON trace output")
	flag.Parse()
	logrus.SetOutput(io.Discard) // the transitioner package logs through the standard logger
	f, err := os.Open(*in)
	if err != nil {
		fmt.Fprintln(os.Stderr, err)
		os.Exit(2)
	}
	rec, err := vtrace.New(*out)
	if err != nil {
		fmt.Fprintln(os.Stderr, err)
		os.Exit(2)
	}
	h := &harness{rec: rec, clients: map[string]*executorcmd.RpcClient{}, funcs: map[string]transitioner.Transitioner{}, envId: uid.New()}
	sc := bufio.NewScanner(f)
	sc.Buffer(make([]byte, 1<<20), 1<<26)
	n := 0
	for sc.Scan() {
		if len(strings.TrimSpace(sc.Text())) == 0 {
			continue
		}
		var s Scenario
		if err := json.Unmarshal(sc.Bytes(), &s); err != nil {
			fmt.Fprintln(os.Stderr, "bad scenario:", err)
			os.Exit(2)
		}
		if s.Outs == nil {
			s.Outs = []string{}
		}
		if err := h.run(&s); err != nil {
			fmt.Fprintln(os.Stderr, "harness error:", err)
			os.Exit(2)
		}
		n++
	}
	for _, c := range h.clients {
		if c != nil {
			_ = c.Close()
		}
	}
	if h.srv != nil {
		h.srv.Stop()
	}
	if err := rec.Close(); err != nil {
		fmt.Fprintln(os.Stderr, err)
		os.Exit(2)
	}
	fmt.Printf("scenarios=%d lines=%d\n", n, rec.Lines())
}
