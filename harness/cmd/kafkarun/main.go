// Command kafkarun replays scenarios generated from spec/KafkaRun.tla (X09) on the real Kafka integration plugin
// (core/integration/kafka). The plugin writes through a raw *kafka.Writer (segmentio/kafka-go) it creates in Init; the driver builds the
// plugin with kafka.NewPlugin and puts, by reflection, a kafka.Writer with the same settings as Init's (CRC32 balancer, auto topic creation,
// RequireAll) into the unexported field kafkaWriter, whose Transport is a fake kafka.RoundTripper (no network): it answers the metadata
// request the writer sends before every WriteMessages (one broker, one partition; or, on a scripted failure, an error - the write then
// fails at once) and the produce request (the records are decoded - kafkapb.NewStateNotification / kafkapb.ActiveRunsList - and appended
// to the log of their topic). Init itself is not called (it would publish through a writer to the endpoint). Steps:
//
//	ecs  - what the environment does on its own: it reaches the transition point pt (before_START_ACTIVITY, leave_X, enter_X, ...) in
//	       state s with run number r (0 = none); enter_state_time_ms gets a fresh value as environment.go does at each point
//	hook - the plugin's CallStack function is invoked with a real *callable.Call whose VarStack has what the functions read
//	       (environment_id, __call_trigger, run_number, run_type, detectors, enter_state_time_ms; detectors absent if miss); f scripts which
//	       of its writes fail (ok | w1 | w2 | w12)
//
// After each step: the plugin's envsInRunning (unexported, by reflection), the length of the log of every topic.
package main

import (
	"bufio"
	"context"
	"encoding/json"
	"errors"
	"flag"
	"fmt"
	"io"
	"net"
	"os"
	"reflect"
	"sort"
	"strconv"
	"strings"
	"sync"
	"time"
	"unsafe"

	"github.com/AliceO2Group/Control/common/event"
	"github.com/AliceO2Group/Control/common/utils/uid"
	kplugin "github.com/AliceO2Group/Control/core/integration/kafka"
	kafkapb "github.com/AliceO2Group/Control/core/integration/kafka/protos"
	"github.com/AliceO2Group/Control/core/task"
	"github.com/AliceO2Group/Control/core/workflow/callable"
	"github.com/segmentio/kafka-go"
	"github.com/segmentio/kafka-go/protocol"
	"github.com/segmentio/kafka-go/protocol/metadata"
	"github.com/segmentio/kafka-go/protocol/produce"
	"github.com/sirupsen/logrus"
	"github.com/spf13/viper"
	"google.golang.org/protobuf/proto"

	"verif/harness/vtrace"
)

type Step struct {
	K    string `json:"k"`
	E    string `json:"e"`
	S    string `json:"s"`  // ecs: state
	R    int    `json:"r"`  // ecs: run number (0 = none)
	Pt   string `json:"pt"` // ecs: transition point
	T    string `json:"t"`  // ecs: the transition under way (start | stop | err | exit | none), echoed
	Fn   string `json:"fn"`
	Trig string `json:"trig"`
	F    string `json:"f"`
	Miss bool   `json:"miss"`
}

type Scenario struct {
	ID    int      `json:"id"`
	Envs  []string `json:"envs"`
	Steps []Step   `json:"steps"`
}

var watchdog = flag.Duration("watchdog", 60*time.Second, "how long a hook may run before the run is declared wedged (exit 2)")

func die(format string, a ...interface{}) {
	fmt.Fprintf(os.Stderr, "kafkarun: "+format+"\n", a...)
	os.Exit(2)
}

func field(v reflect.Value, name string, typ reflect.Type) unsafe.Pointer {
	f := v.FieldByName(name)
	if !f.IsValid() || (typ != nil && f.Type() != typ) {
		die("%s has no field %s of the expected type (the code changed shape: adapt the driver)", v.Type(), name)
	}
	return unsafe.Pointer(f.UnsafeAddr())
}

// ---------- the fake broker ----------

type attempt struct {
	topic  string
	failed bool
}

type broker struct {
	mu       sync.Mutex
	failNext []bool // per coming write: does it fail
	nwrite   int
	attempts []attempt
	pass     map[string]bool // topic -> the write in progress passed its metadata request
	log      map[string][][]byte
	order    []struct {
		topic string
		val   []byte
	}
}

func (b *broker) RoundTrip(_ context.Context, _ net.Addr, req kafka.Request) (kafka.Response, error) {
	b.mu.Lock()
	defer b.mu.Unlock()
	switch q := req.(type) {
	case *metadata.Request:
		if len(q.TopicNames) != 1 {
			return nil, fmt.Errorf("fake broker: metadata request for %d topics", len(q.TopicNames))
		}
		t := q.TopicNames[0]
		fail := b.nwrite < len(b.failNext) && b.failNext[b.nwrite]
		b.nwrite++
		b.attempts = append(b.attempts, attempt{t, fail})
		if fail {
			return nil, errors.New("fake broker: scripted failure")
		}
		return &metadata.Response{
			Brokers: []metadata.ResponseBroker{{NodeID: 1, Host: "fake", Port: 9092}},
			Topics: []metadata.ResponseTopic{{Name: t, Partitions: []metadata.ResponsePartition{{
				PartitionIndex: 0, LeaderID: 1, ReplicaNodes: []int32{1}, IsrNodes: []int32{1}}}}},
		}, nil
	case *produce.Request:
		res := &produce.Response{}
		for _, t := range q.Topics {
			rt := produce.ResponseTopic{Topic: t.Topic}
			for _, p := range t.Partitions {
				for {
					r, err := p.RecordSet.Records.ReadRecord()
					if err != nil {
						break
					}
					var val []byte
					if r.Value != nil {
						val, _ = protocol.ReadAll(r.Value)
					}
					b.log[t.Topic] = append(b.log[t.Topic], val)
					b.order = append(b.order, struct {
						topic string
						val   []byte
					}{t.Topic, val})
				}
				rt.Partitions = append(rt.Partitions, produce.ResponsePartition{Partition: p.Partition, BaseOffset: int64(len(b.log[t.Topic]))})
			}
			res.Topics = append(res.Topics, rt)
		}
		return res, nil
	}
	return nil, fmt.Errorf("fake broker: unexpected request %T", req)
}

// ---------- the caller's side ----------

type role struct{ env uid.ID }

func (r *role) GetPath() string { return "verif.kafka" }
func (r *role) GetTaskTraits() task.Traits {
	return task.Traits{Trigger: "x", Timeout: "10s", Critical: false}
}
func (r *role) GetEnvironmentId() uid.ID                         { return r.env }
func (r *role) ConsolidatedVarStack() (map[string]string, error) { return map[string]string{}, nil }
func (r *role) SendEvent(event.Event)                            {}
func (r *role) SetRuntimeVar(string, string)                     {}
func (r *role) SetRuntimeVars(map[string]string)                 {}
func (r *role) DeleteRuntimeVar(string)                          {}
func (r *role) DeleteRuntimeVars([]string)                       {}
func (r *role) SetGlobalRuntimeVar(string, string)               {}
func (r *role) SetGlobalRuntimeVars(map[string]string)           {}
func (r *role) DeleteGlobalRuntimeVar(string)                    {}
func (r *role) DeleteGlobalRuntimeVars([]string)                 {}
func (r *role) GetCurrentRunNumber() uint32                      { return 0 }

type envState struct {
	alias string
	id    uid.ID
	s     string
	rn    int
	pt    string
	est   int
	dets  []string
}

type runner struct {
	rec   *vtrace.Recorder
	scn   *Scenario
	p     *kplugin.Plugin
	b     *broker
	mem   *map[string]*kafkapb.EnvInfo
	envs  map[string]*envState
	alias map[string]string
	clock int
}

func (r *runner) emit(ev string, kv ...interface{}) {
	r.rec.Emit(ev, append([]interface{}{"scn", r.scn.ID}, kv...)...)
}

func (r *runner) al(id string) string {
	if a, ok := r.alias[id]; ok {
		return a
	}
	return "?" + id
}

func (r *runner) info(i *kafkapb.EnvInfo) map[string]interface{} {
	if i == nil {
		return map[string]interface{}{"e": "nil", "s": "", "rn": 0, "has": false, "rt": "", "det": "", "est": 0}
	}
	est := -2
	if i.EnterStateTimestamp < 1000000 {
		est = int(i.EnterStateTimestamp)
	}
	return map[string]interface{}{"e": r.al(i.EnvironmentId), "s": i.State, "rn": int(i.GetRunNumber()), "has": i.RunNumber != nil,
		"rt": i.GetRunType(), "det": strings.Join(i.Detectors, ","), "est": est}
}

func (r *runner) list(l []*kafkapb.EnvInfo) []interface{} {
	out := []map[string]interface{}{}
	for _, i := range l {
		out = append(out, r.info(i))
	}
	sort.Slice(out, func(a, b int) bool { return out[a]["e"].(string) < out[b]["e"].(string) })
	res := make([]interface{}, len(out))
	for k := range out {
		res[k] = out[k]
	}
	return res
}

func (r *runner) observe() {
	mem := []*kafkapb.EnvInfo{}
	// the hook has returned: nobody else touches the map
	for k, v := range *r.mem {
		if v == nil || v.EnvironmentId != k {
			mem = append(mem, &kafkapb.EnvInfo{EnvironmentId: k, State: "BADKEY"})
			continue
		}
		mem = append(mem, v)
	}
	r.b.mu.Lock()
	n := len(r.b.order)
	nl := len(r.b.log["aliecs.env_list.RUNNING"])
	r.b.mu.Unlock()
	r.emit("Obs", "mem", r.list(mem), "nlog", n, "nlist", nl)
}

func (r *runner) run() {
	s := r.scn
	p, ok := kplugin.NewPlugin("fake:9092").(*kplugin.Plugin)
	if !ok || p == nil {
		die("kafka.NewPlugin did not return a *kafka.Plugin")
	}
	r.p = p
	r.b = &broker{log: map[string][][]byte{}}
	pv := reflect.ValueOf(p).Elem()
	w := &kafka.Writer{
		Addr:                   kafka.TCP("fake:9092"),
		Balancer:               &kafka.CRC32Balancer{},
		AllowAutoTopicCreation: true,
		RequiredAcks:           kafka.RequireAll,
		BatchSize:              1,
		BatchTimeout:           time.Millisecond,
		MaxAttempts:            1,
		Transport:              r.b,
	}
	*(**kafka.Writer)(field(pv, "kafkaWriter", reflect.TypeOf(w))) = w
	r.mem = (*map[string]*kafkapb.EnvInfo)(field(pv, "envsInRunning", reflect.TypeOf(map[string]*kafkapb.EnvInfo{})))
	*r.mem = map[string]*kafkapb.EnvInfo{}
	defer w.Close()
	r.envs = map[string]*envState{}
	r.alias = map[string]string{}
	for k, a := range s.Envs {
		es := &envState{alias: a, id: uid.New(), s: "CONFIGURED", pt: "none", dets: []string{"TPC", "ITS"}}
		if k%2 == 1 {
			es.dets = []string{"MFT"}
		}
		r.envs[a] = es
		r.alias[es.id.String()] = a
	}
	r.emit("Reset", "envs", s.Envs)
	r.observe()
	for i, st := range s.Steps {
		es := r.envs[st.E]
		if es == nil {
			die("scenario %d step %d: unknown environment %q", s.ID, i, st.E)
		}
		switch st.K {
		case "ecs":
			es.s, es.rn, es.pt = st.S, st.R, st.Pt
			r.clock++
			es.est = 1000 + r.clock
			r.emit("Ecs", "e", st.E, "s", st.S, "r", st.R, "pt", st.Pt, "t", st.T, "est", es.est)
		case "hook":
			r.hook(es, st)
		default:
			die("scenario %d: unknown step kind %q", s.ID, st.K)
		}
		r.observe()
	}
}

func (r *runner) hook(es *envState, st Step) {
	call := callable.NewCall("kafka."+st.Fn+"()", "", &role{env: es.id})
	det, _ := json.Marshal(es.dets)
	vs := map[string]string{
		"environment_id":      es.id.String(),
		"__call_trigger":      st.Trig,
		"__call_func":         "kafka." + st.Fn + "()",
		"enter_state_time_ms": strconv.Itoa(es.est),
		"detectors":           string(det),
		"run_type":            "PHYSICS",
	}
	if es.rn > 0 {
		vs["run_number"] = strconv.Itoa(es.rn)
	}
	if st.Miss {
		delete(vs, "detectors")
	}
	call.VarStack = vs
	var f func() string
	if stack := r.p.CallStack(call); stack != nil {
		f, _ = stack[st.Fn].(func() string)
	}
	if f == nil {
		die("scenario %d: the plugin's CallStack has no function %s", r.scn.ID, st.Fn)
	}
	r.b.mu.Lock()
	switch st.F {
	case "ok", "":
		r.b.failNext = nil
	case "w1":
		r.b.failNext = []bool{true}
	case "w2":
		r.b.failNext = []bool{false, true}
	case "w12":
		r.b.failNext = []bool{true, true}
	default:
		die("unknown fault %q", st.F)
	}
	r.b.nwrite = 0
	r.b.attempts = nil
	n0 := len(r.b.order)
	r.b.mu.Unlock()
	done := make(chan struct{})
	pan := ""
	out := ""
	go func() {
		defer close(done)
		defer func() {
			if x := recover(); x != nil {
				pan = fmt.Sprintf("%v", x)
			}
		}()
		out = f()
	}()
	select {
	case <-done:
	case <-time.After(*watchdog):
		die("scenario %d: hook %s of %s does not return", r.scn.ID, st.Fn, st.E)
	}
	r.b.mu.Lock()
	r.b.failNext = nil
	fresh := append([]struct {
		topic string
		val   []byte
	}{}, r.b.order[n0:]...)
	atts := append([]attempt{}, r.b.attempts...)
	r.b.mu.Unlock()
	msgs := []interface{}{}
	for _, m := range fresh {
		line := map[string]interface{}{"t": m.topic, "kind": "?", "info": r.info(nil), "list": []interface{}{}, "tsok": false}
		now := uint64(time.Now().UnixMilli())
		if m.topic == "aliecs.env_list.RUNNING" {
			var l kafkapb.ActiveRunsList
			if err := proto.Unmarshal(m.val, &l); err == nil {
				line["kind"] = "list"
				line["list"] = r.list(l.ActiveRuns)
				line["tsok"] = l.Timestamp <= now && now-l.Timestamp < 600000
			}
		} else {
			var n kafkapb.NewStateNotification
			if err := proto.Unmarshal(m.val, &n); err == nil {
				line["kind"] = "state"
				line["info"] = r.info(n.EnvInfo)
				line["tsok"] = n.Timestamp <= now && now-n.Timestamp < 600000
			}
		}
		msgs = append(msgs, line)
	}
	tried := []interface{}{}
	for _, a := range atts {
		tried = append(tried, map[string]interface{}{"t": a.topic, "failed": a.failed})
	}
	res := "ok"
	cerr, has := call.VarStack["__call_error"]
	if pan != "" {
		res = "panic"
	} else if has && cerr != "" {
		res = "err"
	}
	r.emit("Hook", "e", st.E, "fn", st.Fn, "trig", st.Trig, "f", st.F, "miss", st.Miss, "res", res, "out", out, "detail", pan+cerr,
		"msgs", msgs, "tried", tried, "s", es.s, "r", es.rn, "pt", es.pt, "est", es.est, "det", strings.Join(es.dets, ","))
}

func main() {
	in := flag.String("scenarios", "", "")
	out := flag.String("trace", "", "")
	flag.Parse()
	logrus.SetOutput(io.Discard)
	logrus.SetLevel(logrus.PanicLevel)
	viper.Set("enableKafka", false)
	f, err := os.Open(*in)
	if err != nil {
		die("%v", err)
	}
	rec, err := vtrace.New(*out)
	if err != nil {
		die("%v", err)
	}
	sc := bufio.NewScanner(f)
	sc.Buffer(make([]byte, 1<<20), 1<<26)
	n := 0
	for sc.Scan() {
		if len(strings.TrimSpace(sc.Text())) == 0 {
			continue
		}
		var s Scenario
		if err := json.Unmarshal(sc.Bytes(), &s); err != nil {
			die("%v", err)
		}
		(&runner{rec: rec, scn: &s}).run()
		n++
	}
	rec.Emit("Fin", "scenarios", n)
	rec.Close()
}
