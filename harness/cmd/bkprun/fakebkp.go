package main

import (
	"context"
	"net"
	"sort"
	"sync"
	"time"

	bkpb "github.com/AliceO2Group/Control/core/integration/bookkeeping/protos"
	"google.golang.org/grpc"
	"google.golang.org/grpc/codes"
	"google.golang.org/grpc/keepalive"
	"google.golang.org/grpc/status"
)

// fakeBKP is an in-process Bookkeeping service behind the real Bookkeeping gRPC services (run, log, flp, environment). It keeps the
// tables the specification talks about: runs (created; which of the four timestamps are recorded, and how often), FLPs per run,
// environments (recorded statuses). Every request PARKS on arrival and takes effect when the driver says so, with the scripted fault:
// none (the tables decide: creating an existing run / updating an unknown run or environment is answered with a gRPC error) | err
// (gRPC error, no effect) | lost (executed, the reply is a gRPC error). One NDJSON line per request at the moment it takes effect.
type fakeBKP struct {
	addr string
	gs   *grpc.Server
	log  func(map[string]interface{})

	mu       sync.Mutex
	cond     *sync.Cond
	runs     map[int]*bkRun
	envs     map[string][]string // environment id -> statuses recorded
	arrivals []*request
}

type bkRun struct {
	times map[string]int // o2s, o2e, ts, te -> times recorded
	flps  []string
}

type request struct {
	m      string // Run.Create | Run.Update | Log.Create | Flp.CreateMany | Env.Create | Env.Update
	run    int
	envid  string
	times  map[string]int64 // Run.Update: the time fields that are set
	runs   []int            // Log.Create
	flps   []string         // Flp.CreateMany ("" = a nil element)
	fruns  []int            // ... their run numbers
	status string           // Env.*
	ch     chan error
	rep    interface{}
}

func startFakeBKP(log func(map[string]interface{})) (*fakeBKP, error) {
	lis, err := net.Listen("tcp", "127.0.0.1:0")
	if err != nil {
		return nil, err
	}
	s := &fakeBKP{addr: lis.Addr().String(), log: log, runs: map[int]*bkRun{}, envs: map[string][]string{}}
	s.cond = sync.NewCond(&s.mu)
	s.gs = grpc.NewServer(grpc.KeepaliveEnforcementPolicy(keepalive.EnforcementPolicy{MinTime: time.Second, PermitWithoutStream: true}))
	bkpb.RegisterRunServiceServer(s.gs, &runSvc{s: s})
	bkpb.RegisterLogServiceServer(s.gs, &logSvc{s: s})
	bkpb.RegisterFlpServiceServer(s.gs, &flpSvc{s: s})
	bkpb.RegisterEnvironmentServiceServer(s.gs, &envSvc{s: s})
	go func() { _ = s.gs.Serve(lis) }()
	return s, nil
}

func (s *fakeBKP) park(ctx context.Context, q *request) error {
	q.ch = make(chan error, 1)
	s.mu.Lock()
	s.arrivals = append(s.arrivals, q)
	s.cond.Broadcast()
	s.mu.Unlock()
	select {
	case err := <-q.ch:
		return err
	case <-ctx.Done():
		return status.Error(codes.Canceled, "caller gone")
	}
}

type runSvc struct {
	bkpb.UnimplementedRunServiceServer
	s *fakeBKP
}
type logSvc struct {
	bkpb.UnimplementedLogServiceServer
	s *fakeBKP
}
type flpSvc struct {
	bkpb.UnimplementedFlpServiceServer
	s *fakeBKP
}
type envSvc struct {
	bkpb.UnimplementedEnvironmentServiceServer
	s *fakeBKP
}

func (x *runSvc) Create(ctx context.Context, in *bkpb.RunCreationRequest) (*bkpb.Run, error) {
	if err := x.s.park(ctx, &request{m: "Run.Create", run: int(in.GetRunNumber()), envid: in.GetEnvironmentId()}); err != nil {
		return nil, err
	}
	return &bkpb.Run{RunNumber: in.GetRunNumber()}, nil
}
func (x *runSvc) Update(ctx context.Context, in *bkpb.RunUpdateRequest) (*bkpb.Run, error) {
	t := map[string]int64{}
	if in.TimeO2Start != nil {
		t["o2s"] = in.GetTimeO2Start()
	}
	if in.TimeO2End != nil {
		t["o2e"] = in.GetTimeO2End()
	}
	if in.TimeTrgStart != nil {
		t["ts"] = in.GetTimeTrgStart()
	}
	if in.TimeTrgEnd != nil {
		t["te"] = in.GetTimeTrgEnd()
	}
	if err := x.s.park(ctx, &request{m: "Run.Update", run: int(in.GetRunNumber()), times: t}); err != nil {
		return nil, err
	}
	return &bkpb.Run{RunNumber: in.GetRunNumber()}, nil
}
func (x *logSvc) Create(ctx context.Context, in *bkpb.LogCreationRequest) (*bkpb.Log, error) {
	rs := make([]int, 0)
	for _, r := range in.GetRunNumbers() {
		rs = append(rs, int(r))
	}
	if err := x.s.park(ctx, &request{m: "Log.Create", runs: rs}); err != nil {
		return nil, err
	}
	return &bkpb.Log{}, nil
}
func (x *flpSvc) CreateMany(ctx context.Context, in *bkpb.ManyFlpsCreationRequest) (*bkpb.FlpList, error) {
	names, rs := make([]string, 0), make([]int, 0)
	for _, f := range in.GetFlps() {
		names = append(names, f.GetName())
		rs = append(rs, int(f.GetRunNumber()))
	}
	run := 0
	for _, r := range rs {
		if r != 0 {
			run = r
		}
	}
	if err := x.s.park(ctx, &request{m: "Flp.CreateMany", run: run, flps: names, fruns: rs}); err != nil {
		return nil, err
	}
	return &bkpb.FlpList{}, nil
}
func (x *envSvc) Create(ctx context.Context, in *bkpb.EnvironmentCreationRequest) (*bkpb.Environment, error) {
	if err := x.s.park(ctx, &request{m: "Env.Create", envid: in.GetId(), status: in.GetStatus()}); err != nil {
		return nil, err
	}
	return &bkpb.Environment{Id: in.GetId()}, nil
}
func (x *envSvc) Update(ctx context.Context, in *bkpb.EnvironmentUpdateRequest) (*bkpb.Environment, error) {
	if err := x.s.park(ctx, &request{m: "Env.Update", envid: in.GetId(), status: in.GetStatus()}); err != nil {
		return nil, err
	}
	return &bkpb.Environment{Id: in.GetId()}, nil
}

// waitArrival blocks until a request has parked (returned), or done is closed (nil, true), or the watchdog expires (nil, false).
func (s *fakeBKP) waitArrival(done chan struct{}, watchdog time.Duration) (*request, bool) {
	stop := make(chan struct{})
	defer close(stop)
	expired, isDone := false, false
	go func() {
		t := time.NewTimer(watchdog)
		defer t.Stop()
		select {
		case <-done:
			s.mu.Lock()
			isDone = true
		case <-t.C:
			s.mu.Lock()
			expired = true
		case <-stop:
			return
		}
		s.cond.Broadcast()
		s.mu.Unlock()
	}()
	s.mu.Lock()
	defer s.mu.Unlock()
	for {
		if len(s.arrivals) > 0 {
			q := s.arrivals[0]
			s.arrivals = s.arrivals[1:]
			return q, false
		}
		if isDone {
			return nil, true
		}
		if expired {
			return nil, false
		}
		s.cond.Wait()
	}
}

// apply: the request takes effect now with the fault; the reply is sent. Returns what the caller sees (ok | err).
func (s *fakeBKP) apply(q *request, fault string, alias func(string) string, extra map[string]interface{}) string {
	s.mu.Lock()
	legal := true
	switch q.m {
	case "Run.Create":
		_, exists := s.runs[q.run]
		legal = !exists
	case "Run.Update":
		_, exists := s.runs[q.run]
		legal = exists
	case "Env.Create":
		_, exists := s.envs[q.envid]
		legal = !exists
	case "Env.Update":
		_, exists := s.envs[q.envid]
		legal = exists
	}
	if legal && fault != "err" {
		switch q.m {
		case "Run.Create":
			s.runs[q.run] = &bkRun{times: map[string]int{}}
		case "Run.Update":
			for k := range q.times {
				s.runs[q.run].times[k]++
			}
		case "Flp.CreateMany":
			if r, ok := s.runs[q.run]; ok {
				r.flps = append(r.flps, q.flps...)
			}
		case "Env.Create", "Env.Update":
			s.envs[q.envid] = append(s.envs[q.envid], q.status)
		}
	}
	res := "ok"
	var err error
	if fault != "none" || !legal {
		res = "err"
		err = status.Error(codes.Unavailable, "injected failure of Bookkeeping")
		if fault == "none" {
			err = status.Error(codes.NotFound, "Bookkeeping: request does not fit the tables")
		}
	}
	if extra != nil {
		tm := map[string]int64{"o2s": -1, "o2e": -1, "ts": -1, "te": -1}
		for k, v := range q.times {
			if v > 1<<40 { // a wall-clock time in ms (time.Now()): TLC has 32-bit integers, it is recorded as -2
				v = -2
			}
			tm[k] = v
		}
		line := map[string]interface{}{"m": q.m, "run": q.run, "envid": alias(q.envid), "times": tm, "runs": nz(q.runs), "flps": nzs(q.flps),
			"fruns": nz(q.fruns), "status": q.status, "f": fault, "res": res}
		for k, v := range extra {
			line[k] = v
		}
		s.log(line)
	}
	s.mu.Unlock()
	q.ch <- err
	return res
}

func nz(x []int) []int {
	if x == nil {
		return make([]int, 0)
	}
	return x
}
func nzs(x []string) []string {
	if x == nil {
		return make([]string, 0)
	}
	return x
}

// tables: what the specification predicts about the service.
func (s *fakeBKP) tables(alias func(string) string) (map[string]interface{}, map[string][]string) {
	s.mu.Lock()
	defer s.mu.Unlock()
	runs := map[string]interface{}{}
	keys := make([]int, 0)
	for k := range s.runs {
		keys = append(keys, k)
	}
	sort.Ints(keys)
	out := make([][]interface{}, 0)
	for _, k := range keys {
		r := s.runs[k]
		out = append(out, []interface{}{k, r.times["o2s"], r.times["o2e"], r.times["ts"], r.times["te"], len(r.flps)})
	}
	runs["list"] = out
	envs := map[string][]string{}
	for id, st := range s.envs {
		envs[alias(id)] = st
	}
	return runs, envs
}

func (s *fakeBKP) reset() {
	s.mu.Lock()
	s.runs, s.envs, s.arrivals = map[int]*bkRun{}, map[string][]string{}, nil
	s.mu.Unlock()
}

func (s *fakeBKP) stray() int {
	s.mu.Lock()
	defer s.mu.Unlock()
	return len(s.arrivals)
}
