// Command bkprun replays scenarios generated from spec/BkpRun.tla (X08) on the real Bookkeeping integration plugin
// (core/integration/bookkeeping). One fake Bookkeeping service (fakebkp.go, the real run / log / flp / environment gRPC services over
// a real connection) and one real plugin (bookkeeping.NewPlugin + Init) serve all scenarios of a process. The plugin looks its
// environment up in environment.ManagerInstance() and reads the state machine, the workflow variables (hosts, trg_enabled, ...) and
// the id from it: the driver puts REAL environments (environment.VerifVSNewEnvironment, tag verif) with a real role tree as workflow
// into the manager's map (unexported fields by reflection; no hook in /repo beyond what exists). Steps:
//
//	ecs  - what the environment does on its own: NewRun (run_number), SetTime (run_start_time_ms | trg_start_time_ms | run_end_time_ms |
//	       trg_end_time_ms appear in the variables, with values of this environment and run), EndRun (run_number -> last_run_number),
//	       State (the state machine's current state)
//	hook - the plugin's CallStack function (StartOfRun, UpdateRunStart, UpdateRunStop, CreateEnv, UpdateEnv) is invoked - if it is not
//	       in progress - with a real *callable.Call (__call_trigger, __call_func set as callable.Call does); the request it has sent
//	       PARKS in the fake service and takes effect now with the scripted fault (none | err | lost)
//
// Synchronisation is blocking: a step waits until the hook has returned or parked its next request. After each step: the plugin's six
// per-environment maps (unexported, by reflection), the service's tables, the request each hook in progress is parked at.
package main

import (
	"bufio"
	"encoding/json"
	"flag"
	"fmt"
	"io"
	"os"
	"reflect"
	"sort"
	"strconv"
	"strings"
	"sync"
	"time"
	"unsafe"

	"github.com/AliceO2Group/Control/common/event"
	"github.com/AliceO2Group/Control/common/utils/uid"
	"github.com/AliceO2Group/Control/core/environment"
	"github.com/AliceO2Group/Control/core/integration/bookkeeping"
	"github.com/AliceO2Group/Control/core/task"
	"github.com/AliceO2Group/Control/core/workflow"
	"github.com/AliceO2Group/Control/core/workflow/callable"
	"github.com/sirupsen/logrus"
	"github.com/spf13/viper"

	"verif/harness/vtrace"
)

type Step struct {
	K    string `json:"k"`
	E    string `json:"e"`
	A    string `json:"a"`    // ecs: NewRun | SetTime | EndRun | State
	R    int    `json:"r"`    // NewRun
	W    string `json:"w"`    // SetTime: o2s | ts | o2e | te
	S    string `json:"s"`    // State
	Fn   string `json:"fn"`   // hook
	Trig string `json:"trig"` // hook: __call_trigger
	F    string `json:"f"`
	New  bool   `json:"new"`
}

type Scenario struct {
	ID    int             `json:"id"`
	Envs  []string        `json:"envs"`
	Trg   map[string]bool `json:"trg"` // environment -> trg_enabled
	Steps []Step          `json:"steps"`
}

var watchdog = flag.Duration("watchdog", 120*time.Second, "how long a blocking wait may last before the run is declared wedged (exit 2)")

func die(format string, a ...interface{}) {
	fmt.Fprintf(os.Stderr, "bkprun: "+format+"\n", a...)
	os.Exit(2)
}

func field(v reflect.Value, name string, typ reflect.Type) unsafe.Pointer {
	f := v.FieldByName(name)
	if !f.IsValid() || (typ != nil && f.Type() != typ) {
		die("%s has no field %s of the expected type (the code changed shape: adapt the driver)", v.Type(), name)
	}
	return unsafe.Pointer(f.UnsafeAddr())
}

type envManager struct {
	mu *sync.RWMutex
	m  *map[uid.ID]*environment.Environment
}

func newEnvManager() *envManager {
	mgr := environment.NewEnvManager(nil, make(chan event.Event))
	v := reflect.ValueOf(mgr).Elem()
	return &envManager{mu: (*sync.RWMutex)(field(v, "mu", reflect.TypeOf(sync.RWMutex{}))),
		m: (*map[uid.ID]*environment.Environment)(field(v, "m", reflect.TypeOf(map[uid.ID]*environment.Environment{})))}
}

const wfYAML = `name: x08
roles:
  - name: t1
    task:
      load: cls
`

var hosts = []string{"flp001", "flp002"}

// newEnv builds a real environment with a real (tiny) workflow; its variables are user variables of the environment.
func newEnv(trgEnabled bool) *environment.Environment {
	hj, _ := json.Marshal(hosts)
	uv := map[string]string{"hosts": string(hj), "trg_enabled": strconv.FormatBool(trgEnabled), "trg_global_run_enabled": "false",
		"run_type": "PHYSICS", "detectors": "[\"TPC\"]", "dcs_enabled": "false", "dd_enabled": "true", "epn_enabled": "false", "odc_n_epns": "0",
		"ctp_readout_enabled": "false"}
	env, adapter, err := environment.VerifVSNewEnvironment(uv)
	if err != nil {
		die("environment: %v", err)
	}
	root, err := workflow.VerifUnmarshalRole([]byte(wfYAML), adapter)
	if err != nil {
		die("workflow: %v", err)
	}
	*(*workflow.Role)(field(reflect.ValueOf(env).Elem(), "workflow", nil)) = root
	return env
}

func setRunNumber(env *environment.Environment, rn uint32) {
	env.Mu.Lock()
	*(*uint32)(field(reflect.ValueOf(env).Elem(), "currentRunNumber", reflect.TypeOf(uint32(0)))) = rn
	env.Mu.Unlock()
}

type role struct{ env uid.ID }

func (r *role) GetPath() string { return "verif.bookkeeping" }
func (r *role) GetTaskTraits() task.Traits {
	return task.Traits{Trigger: "x", Timeout: "1h", Critical: true}
}
func (r *role) GetEnvironmentId() uid.ID                         { return r.env }
func (r *role) ConsolidatedVarStack() (map[string]string, error) { return map[string]string{}, nil }
func (r *role) SendEvent(event.Event)                            {}
func (r *role) SetRuntimeVar(string, string)                     {}
func (r *role) SetRuntimeVars(map[string]string)                 {}
func (r *role) DeleteRuntimeVar(string)                          {}
func (r *role) DeleteRuntimeVars([]string)                       {}
func (r *role) SetGlobalRuntimeVar(string, string)               {}
func (r *role) SetGlobalRuntimeVars(map[string]string)           {}
func (r *role) DeleteGlobalRuntimeVar(string)                    {}
func (r *role) DeleteGlobalRuntimeVars([]string)                 {}
func (r *role) GetCurrentRunNumber() uint32                      { return 0 }

type envState struct {
	alias string
	idx   int
	env   *environment.Environment
	rn    int
	last  int
	times map[string]bool
	fn    string
	done  chan struct{}
	call  *callable.Call
	req   *request
	panic string
}

type runner struct {
	rec   *vtrace.Recorder
	srv   *fakeBKP
	p     *bookkeeping.Plugin
	em    *envManager
	maps  map[string]unsafe.Pointer
	scn   *Scenario
	envs  map[string]*envState
	byID  map[string]string
	pmaps *reflect.Value
}

func (r *runner) emit(ev string, kv ...interface{}) {
	r.rec.Emit(ev, append([]interface{}{"scn", r.scn.ID}, kv...)...)
}
func (r *runner) alias(id string) string {
	if a, ok := r.byID[id]; ok {
		return a
	}
	return id
}
func (r *runner) stuck(what string) {
	r.emit("Stuck", "what", what)
	r.rec.Close()
	die("scenario %d: %s did not happen within %s", r.scn.ID, what, *watchdog)
}

// the value of a timestamp variable of environment idx in run rn (distinct per environment, run and kind)
var kinds = map[string]int{"o2s": 1, "ts": 2, "o2e": 3, "te": 4}
var varOf = map[string]string{"o2s": "run_start_time_ms", "ts": "trg_start_time_ms", "o2e": "run_end_time_ms", "te": "trg_end_time_ms"}

func tval(idx, rn int, w string) int { return 100000*idx + 1000*rn + kinds[w] }

func (r *runner) varStack(es *envState, fn, trig string) map[string]string {
	vs := map[string]string{"environment_id": string(es.env.Id()), "__call_timeout": "1h", "__call_trigger": trig, "__call_func": "bookkeeping." + fn + "()",
		"pdp_config_option": "Manual XML"}
	if es.rn != 0 {
		vs["run_number"] = strconv.Itoa(es.rn)
	}
	if es.last != 0 {
		vs["last_run_number"] = strconv.Itoa(es.last)
	}
	run := es.rn
	if run == 0 {
		run = es.last
	}
	for w, on := range es.times {
		if on {
			vs[varOf[w]] = strconv.Itoa(tval(es.idx, run, w))
		}
	}
	return vs
}

func (r *runner) waitHook(es *envState) bool {
	q, done := r.srv.waitArrival(es.done, *watchdog)
	if done {
		return true
	}
	if q == nil {
		r.stuck("hook " + es.fn + " of " + es.alias + " returning or sending its next request")
	}
	es.req = q
	return false
}

func (r *runner) finish(es *envState) {
	failed := es.call != nil && es.call.VarStack["__call_error"] != ""
	reason := ""
	if es.call != nil {
		reason = es.call.VarStack["__call_error_reason"]
	}
	r.emit("Ret", "e", es.alias, "fn", es.fn, "failed", failed, "panic", es.panic != "", "reason", reason+es.panic)
	es.fn, es.done, es.call, es.req, es.panic = "", nil, nil, nil, ""
}

func (r *runner) run() {
	s := r.scn
	r.srv.reset()
	for _, name := range []string{"missingUpdateRunStarts", "pendingO2Starts", "pendingO2Stops", "pendingTrgStarts", "pendingTrgStops"} {
		m := *(*map[string]bool)(r.maps[name])
		for k := range m {
			delete(m, k)
		}
	}
	ps := *(*map[string]int64)(r.maps["pendingRunStops"])
	for k := range ps {
		delete(ps, k)
	}
	r.envs, r.byID = map[string]*envState{}, map[string]string{}
	sort.Strings(s.Envs)
	r.em.mu.Lock()
	for k := range *r.em.m {
		delete(*r.em.m, k)
	}
	for i, a := range s.Envs {
		env := newEnv(s.Trg[a])
		(*r.em.m)[env.Id()] = env
		r.envs[a] = &envState{alias: a, idx: i + 1, env: env, times: map[string]bool{}}
		r.byID[string(env.Id())] = a
	}
	r.em.mu.Unlock()
	r.emit("Reset", "envs", s.Envs, "trg", s.Trg, "hosts", hosts)
	r.observe()
	aborted := false
	for i, st := range s.Steps {
		es := r.envs[st.E]
		switch st.K {
		case "ecs":
			switch st.A {
			case "NewRun":
				es.rn, es.times = st.R, map[string]bool{}
				setRunNumber(es.env, uint32(st.R))
			case "SetTime":
				es.times[st.W] = true
			case "EndRun":
				es.last, es.rn = es.rn, 0
				setRunNumber(es.env, 0)
			case "State":
				es.env.Sm.SetState(st.S)
			default:
				die("scenario %d: unknown ecs action %q", s.ID, st.A)
			}
			r.emit("Ecs", "a", st.A, "e", st.E, "r", st.R, "w", st.W, "s", st.S)
		case "hook":
			if (es.fn == "") != st.New {
				r.emit("Mismatch", "step", i, "why", fmt.Sprintf("hook %s of %s: in progress %v, the scenario starts one %v", st.Fn, st.E, es.fn != "", st.New))
				aborted = true
				break
			}
			first := es.fn == ""
			if first {
				es.fn = st.Fn
				es.call = callable.NewCall("bookkeeping."+st.Fn+"()", "", &role{env: es.env.Id()})
				es.call.VarStack = r.varStack(es, st.Fn, st.Trig)
				var f func() string
				if stack := r.p.CallStack(es.call); stack != nil {
					f, _ = stack[st.Fn].(func() string)
				}
				if f == nil {
					die("scenario %d: the plugin's CallStack has no function %s", s.ID, st.Fn)
				}
				es.done = make(chan struct{})
				done := es.done
				go func() {
					defer close(done)
					defer func() {
						if x := recover(); x != nil {
							es.panic = fmt.Sprintf("panic: %v", x)
						}
					}()
					f()
				}()
				if r.waitHook(es) {
					r.emit("Skip", "e", st.E, "fn", st.Fn, "trig", st.Trig)
					r.finish(es)
					break
				}
			}
			q := es.req
			es.req = nil
			if q == nil {
				r.emit("Mismatch", "step", i, "why", "the hook of "+st.E+" has no request parked")
				aborted = true
				break
			}
			r.srv.apply(q, st.F, r.alias, map[string]interface{}{"e": st.E, "fn": es.fn, "trig": st.Trig, "first": first, "scn": s.ID})
			if r.waitHook(es) {
				r.finish(es)
			}
		default:
			die("scenario %d: unknown step kind %q", s.ID, st.K)
		}
		if aborted {
			break
		}
		r.observe()
	}
	// hooks still in progress: every request fails until they have returned
	for _, a := range s.Envs {
		es := r.envs[a]
		for n := 0; es.fn != ""; n++ {
			if n > 50 {
				r.stuck("hook " + es.fn + " coming to an end")
			}
			if es.req != nil {
				q := es.req
				es.req = nil
				r.srv.apply(q, "err", r.alias, nil)
			}
			if r.waitHook(es) {
				es.fn = ""
			}
		}
	}
	r.emit("Fin")
}

func (r *runner) observe() {
	flag3 := func(name string, id string) string { // absent | true | false
		m := *(*map[string]bool)(r.maps[name])
		v, ok := m[id]
		if !ok {
			return "-"
		}
		return strconv.FormatBool(v)
	}
	pl := map[string]map[string]interface{}{}
	hp := map[string]string{}
	for a, es := range r.envs {
		id := string(es.env.Id())
		ps := *(*map[string]int64)(r.maps["pendingRunStops"])
		stop := 0
		if v, ok := ps[id]; ok {
			stop = int(v)
			if stop == 0 {
				stop = -1
			}
		}
		pl[a] = map[string]interface{}{"miss": flag3("missingUpdateRunStarts", id), "stop": stop, "o2s": flag3("pendingO2Starts", id),
			"o2e": flag3("pendingO2Stops", id), "ts": flag3("pendingTrgStarts", id), "te": flag3("pendingTrgStops", id)}
		hp[a] = "none"
		if es.fn != "" && es.req != nil {
			hp[a] = es.req.m
		}
	}
	runs, envs := r.srv.tables(r.alias)
	for _, a := range r.scn.Envs {
		if _, ok := envs[a]; !ok {
			envs[a] = make([]string, 0)
		}
	}
	r.emit("Obs", "pl", pl, "hp", hp, "runs", runs["list"], "bkenv", envs, "stray", r.srv.stray())
}

func main() {
	in := flag.String("scenarios", "", "")
	out := flag.String("trace", "", "")
	flag.Parse()
	logrus.SetOutput(io.Discard)
	logrus.SetLevel(logrus.PanicLevel)
	storeDir, err := os.MkdirTemp("", "bkprun")
	if err != nil {
		die("%v", err)
	}
	defer os.RemoveAll(storeDir)
	storePath := storeDir + "/store.yaml"
	if err = os.WriteFile(storePath, []byte("o2:\n  runtime:\n    aliecs:\n      defaults: {}\n      vars: {}\n"), 0644); err != nil {
		die("%v", err)
	}
	viper.Set("config_endpoint", "file://"+storePath)
	viper.Set("enableKafka", false)
	f, err := os.Open(*in)
	if err != nil {
		die("%v", err)
	}
	rec, err := vtrace.New(*out)
	if err != nil {
		die("%v", err)
	}
	srv, err := startFakeBKP(func(line map[string]interface{}) { rec.EmitMap("Req", line) })
	if err != nil {
		die("fake Bookkeeping: %v", err)
	}
	viper.Set("bookkeepingBaseUri", srv.addr)
	p, ok := bookkeeping.NewPlugin("//" + srv.addr).(*bookkeeping.Plugin)
	if !ok || p == nil {
		die("bookkeeping.NewPlugin did not return a *bookkeeping.Plugin")
	}
	if err := p.Init("verif"); err != nil {
		die("plugin Init: %v", err)
	}
	pv := reflect.ValueOf(p).Elem()
	maps := map[string]unsafe.Pointer{}
	for _, name := range []string{"missingUpdateRunStarts", "pendingO2Starts", "pendingO2Stops", "pendingTrgStarts", "pendingTrgStops"} {
		maps[name] = field(pv, name, reflect.TypeOf(map[string]bool{}))
	}
	maps["pendingRunStops"] = field(pv, "pendingRunStops", reflect.TypeOf(map[string]int64{}))
	em := newEnvManager()
	sc := bufio.NewScanner(f)
	sc.Buffer(make([]byte, 1<<20), 1<<26)
	n := 0
	t0 := time.Now()
	for sc.Scan() {
		if len(strings.TrimSpace(sc.Text())) == 0 {
			continue
		}
		var s Scenario
		if err := json.Unmarshal(sc.Bytes(), &s); err != nil {
			die("%v", err)
		}
		(&runner{rec: rec, srv: srv, p: p, em: em, maps: maps, scn: &s}).run()
		n++
	}
	rec.Close()
	os.RemoveAll(storeDir)
	fmt.Printf("scenarios=%d lines=%d wall=%.1fs\n", n, rec.Lines(), time.Since(t0).Seconds())
}
