// Command runcounter replays schedules generated from spec/RunCounter.tla on the real
// run-number code of AliECS (configuration/cfgbackend.ConsulSource.GetNextUInt32 and
// apricot/local.Service.NewRunNumber, built from the repository, unmodified) against
// harness/fakeconsul.
//
// There is no hook in the code under test: the fake Consul parks every KV request when
// it arrives; the driver (one goroutine, one step at a time) decides when a request is
// served, answered, failed, or never answered.  Because only one thing moves at a time,
// "the request that shows up after I let call c proceed" is c's next request.
//
// One NDJSON line is recorded per step, with the request the step acted on and its
// server-side effect, the next request of the call (if any), what the call returned (if it
// returned during the step) and the state of the key afterwards.
//
// Numbers: TLC integers are 32-bit signed, the counter is a uint32.  Values are recorded
// through the order- and successor-preserving map enc: v < 10^9 is recorded as v,
// v >= 2^32-10^9 as v-(2^32-2*10^9) (so 2^32-1 is 1999999999); the band in between never
// occurs (the driver refuses it).  "raw" fields carry the real decimal value.
package main

import (
	"bufio"
	"encoding/json"
	"flag"
	"fmt"
	"io"
	"math/rand"
	"net"
	"os"
	"strconv"
	"sync"
	"time"

	"github.com/sirupsen/logrus"

	"github.com/AliceO2Group/Control/apricot/local"
	"github.com/AliceO2Group/Control/apricot/remote"
	"github.com/AliceO2Group/Control/configuration"
	"github.com/AliceO2Group/Control/configuration/cfgbackend"

	"verif/harness/fakeconsul"
	"verif/harness/vtrace"
)

const (
	band      = 1000000000
	shift     = (1 << 32) - 2*band
	svcKey    = "o2/runtime/run_number"        // apricot/local: getConsulRuntimePrefix()/run_number
	srcKey    = "o2/runtime/aliecs/run_number" // key used when driving the source directly
	stepLimit = 10 * time.Second               // bounds "nothing more will happen", never orders events
)

func enc(v uint64) (int64, bool) {
	switch {
	case v < band:
		return int64(v), true
	case v >= (1<<32)-band && v < 1<<32:
		return int64(v - shift), true
	}
	return -1, false
}

func dec(e int64) uint64 {
	if e < band {
		return uint64(e)
	}
	return uint64(e) + shift
}

type Step struct {
	A   string `json:"a"`
	C   string `json:"c,omitempty"`
	V   int64  `json:"v,omitempty"`
	How string `json:"how,omitempty"`
}

type Scenario struct {
	ID     int    `json:"id"`
	Origin string `json:"origin"`
	// "svc": local.Service.NewRunNumber, "src": ConsulSource.GetNextUInt32, "rpc": the way a core with an apricot:// URI
	// gets its numbers - remote.RemoteService -> gRPC -> remote.RpcServer (the apricot daemon) -> local.Service -> Consul
	Mode string `json:"mode"`
	Init struct {
		Present bool   `json:"present"`
		Val     int64  `json:"val"`
		Idx     uint64 `json:"idx"`
		Gidx    uint64 `json:"gidx"`
	} `json:"init"`
	Steps []Step `json:"steps"`
	// Stress: no schedule is imposed - Callers goroutines share ONE service object (one core) and call Calls times each as
	// fast as they can against a Consul that answers at once; every log call of the code under test is a scheduling point
	// (a logrus hook yields for a random few hundred microseconds).  Judged on the returned numbers.
	Stress *struct {
		Callers int   `json:"callers"`
		Calls   int   `json:"calls"`
		Seed    int64 `json:"seed"`
	} `json:"stress,omitempty"`
}

// jitterHook makes every log entry of the code under test a point where the goroutine may lose the processor.
type jitterHook struct {
	mu  sync.Mutex
	rng *rand.Rand
	on  bool
}

func (h *jitterHook) Levels() []logrus.Level { return logrus.AllLevels }
func (h *jitterHook) Fire(*logrus.Entry) error {
	h.mu.Lock()
	on, d := h.on, time.Duration(0)
	if on {
		d = time.Duration(h.rng.Intn(300)) * time.Microsecond
	}
	h.mu.Unlock()
	if on {
		time.Sleep(d)
	}
	return nil
}

var jitter = &jitterHook{rng: rand.New(rand.NewSource(1))}

func runStress(rec *vtrace.Recorder, sc *Scenario) bool {
	r := &run{rec: rec, sc: sc, srv: fakeconsul.New(), parkCh: make(chan *fakeconsul.Request, 64),
		clients: map[string]*client{}, gens: map[int]caller{}}
	defer func() {
		for _, f := range r.closers {
			f()
		}
		r.srv.Close()
	}()
	r.key = svcKey
	if sc.Mode == "src" {
		r.key = srcKey
	}
	if sc.Init.Present {
		r.srv.Put(r.key, []byte(strconv.FormatUint(dec(sc.Init.Val), 10)))
	}
	before := r.kvState()
	rec.Emit("Reset", "scn", sc.ID, "mode", sc.Mode, "key", r.key, "kv", before, "gidx", r.srv.Index(), "origin", sc.Origin)
	c := r.caller()
	if r.failed {
		return false
	}
	jitter.mu.Lock()
	jitter.rng = rand.New(rand.NewSource(sc.Stress.Seed))
	jitter.on = true
	jitter.mu.Unlock()
	nums := make([][]int64, sc.Stress.Callers)
	nerr := make([]int, sc.Stress.Callers)
	var wg sync.WaitGroup
	for i := 0; i < sc.Stress.Callers; i++ {
		wg.Add(1)
		go func(i int) {
			defer wg.Done()
			for k := 0; k < sc.Stress.Calls; k++ {
				n, err := c.next()
				if err != nil {
					nerr[i]++
				} else {
					nums[i] = append(nums[i], int64(n))
				}
			}
		}(i)
	}
	done := make(chan struct{})
	go func() { wg.Wait(); close(done) }()
	select {
	case <-done:
	case <-time.After(120 * time.Second):
		r.harnessError("stress run does not end")
		return false
	}
	jitter.mu.Lock()
	jitter.on = false
	jitter.mu.Unlock()
	errs := 0
	for _, e := range nerr {
		errs += e
	}
	rec.Emit("Stress", "scn", sc.ID, "nums", nums, "errors", errs, "before", before, "after", r.kvState())
	rec.Emit("End", "scn", sc.ID, "deadnumbers", 0)
	return true
}

type result struct {
	n   uint32
	err error
}

type client struct {
	name     string
	gen      int
	resCh    chan result
	started  bool
	returned bool
	dead     bool
	req      *fakeconsul.Request // pending request of the call
}

type caller interface{ next() (uint32, error) }

type svcCaller struct{ s *local.Service }

func (c svcCaller) next() (uint32, error) { return c.s.NewRunNumber() }

type rpcCaller struct{ s configuration.Service }

func (c rpcCaller) next() (uint32, error) { return c.s.NewRunNumber() }

type srcCaller struct{ s *cfgbackend.ConsulSource }

func (c srcCaller) next() (uint32, error) { return c.s.GetNextUInt32(srcKey) }

type run struct {
	rec     *vtrace.Recorder
	sc      *Scenario
	srv     *fakeconsul.Server
	key     string
	parkCh  chan *fakeconsul.Request
	clients map[string]*client
	order   []*client
	gens    map[int]caller
	closers []func() // what an "rpc" caller started (gRPC server, listener): stopped at the end of the scenario
	gen     int
	failed  bool // harness-internal trouble
}

type M = map[string]interface{}

func (r *run) kvState() M {
	e, ok := r.srv.Get(r.key)
	v := int64(0)
	if ok {
		v = r.parse(e.Value)
	}
	return M{"present": ok, "val": v, "idx": e.ModifyIndex}
}

// parse returns the encoded number in b, -1 if it is not a number, and flags the forbidden band.
func (r *run) parse(b []byte) int64 {
	u, err := strconv.ParseUint(string(b), 10, 64)
	if err != nil {
		return -1
	}
	e, ok := enc(u)
	if !ok {
		r.harnessError("value outside the recordable bands: " + string(b))
		return -1
	}
	return e
}

func (r *run) harnessError(what string) {
	r.failed = true
	r.rec.Emit("HarnessError", "scn", r.sc.ID, "what", what)
}

func noReq() M {
	return M{"m": "none", "cons": false, "cas": -1, "val": -1, "ok": false, "found": false, "rv": -1, "ri": 0, "keyok": true}
}

// reqDesc describes a request and (once applied) its effect.
func (r *run) reqDesc(q *fakeconsul.Request) M {
	if q == nil {
		return noReq()
	}
	d := noReq()
	d["m"] = q.Method
	d["cons"] = q.Consistent
	d["keyok"] = q.Key == r.key
	if q.HasCAS {
		d["cas"] = q.CAS
	}
	if q.Op.IsWrite() {
		d["val"] = r.parse(q.Body)
		d["rawval"] = string(q.Body)
	}
	res := q.Result()
	if res.Applied {
		d["ok"] = res.OK
		if q.Op == fakeconsul.OpGet && res.OK {
			d["found"] = true
			d["rv"] = r.parse(res.Entries[0].Value)
			d["ri"] = res.Entries[0].ModifyIndex
		}
	}
	return d
}

func (r *run) emit(ev string, c *client, acted M, extra ...interface{}) {
	m := M{"scn": r.sc.ID, "kv": r.kvState(), "gidx": r.srv.Index(), "gen": r.gen}
	if acted == nil {
		acted = noReq()
	}
	m["req"] = acted
	m["c"] = ""
	m["ret"], m["rok"], m["n"] = false, false, -1
	m["nxt"] = noReq()
	if c != nil {
		m["c"] = c.name
		m["nxt"] = r.reqDesc(c.req)
	}
	for i := 0; i+1 < len(extra); i += 2 {
		m[extra[i].(string)] = extra[i+1]
	}
	r.rec.EmitMap(ev, m)
}

// settle waits until call c has either sent its next request (now parked) or returned.
// It returns the fields describing a return ("ret", ...).
func (r *run) settle(c *client) []interface{} {
	c.req = nil
	select {
	case q := <-r.parkCh:
		c.req = q
		return nil
	case res := <-c.resCh:
		c.returned = true
		out := []interface{}{"ret", true, "rok", res.err == nil, "n", int64(-1), "err", ""}
		if res.err != nil {
			out[7] = res.err.Error()
		} else {
			e, ok := enc(uint64(res.n))
			if !ok {
				r.harnessError(fmt.Sprintf("returned number %d outside the recordable bands", res.n))
			}
			out[5] = e
			out = append(out, "raw", strconv.FormatUint(uint64(res.n), 10))
		}
		return out
	case <-time.After(stepLimit):
		r.harnessError("call " + c.name + " neither sent a request nor returned")
		return nil
	}
}

func (r *run) caller() caller {
	if c, ok := r.gens[r.gen]; ok {
		return c
	}
	var c caller
	if r.sc.Mode == "src" {
		s, err := cfgbackend.NewConsulSource(r.srv.Addr())
		if err != nil {
			r.harnessError("NewConsulSource: " + err.Error())
		}
		c = srcCaller{s}
	} else if r.sc.Mode == "rpc" {
		s, err := local.NewService(r.srv.URI())
		if err != nil {
			r.harnessError("NewService: " + err.Error())
		}
		lis, err := net.Listen("tcp", "127.0.0.1:0")
		if err != nil {
			r.harnessError("listen: " + err.Error())
		}
		gs := remote.NewServer(s)
		go func() { _ = gs.Serve(lis) }()
		r.closers = append(r.closers, gs.Stop)
		rs, err := remote.NewService("apricot://" + lis.Addr().String())
		if err != nil {
			r.harnessError("remote.NewService: " + err.Error())
		}
		c = rpcCaller{rs}
	} else {
		s, err := local.NewService(r.srv.URI())
		if err != nil {
			r.harnessError("NewService: " + err.Error())
		}
		c = svcCaller{s}
	}
	r.gens[r.gen] = c
	return c
}

func (r *run) inFlight(c *client) bool { return c.started && !c.returned && !c.dead }

// drain lets everything still in flight run to completion (requests served in arrival order),
// recording each request as an "Extra" line: used when the code does something the scenario
// does not foresee, and at the end of a scenario.
func (r *run) drain() {
	for i := 0; i < 40; i++ {
		var c *client
		for _, x := range r.order {
			if r.inFlight(x) && x.req != nil && (c == nil || x.req.ID < c.req.ID) {
				c = x
			}
		}
		if c == nil {
			return
		}
		q := c.req
		if _, err := q.Reply(); err != nil {
			r.harnessError("drain: " + err.Error())
			return
		}
		acted := r.reqDesc(q)
		ret := r.settle(c)
		r.emit("Extra", c, acted, ret...)
		if r.failed {
			return
		}
	}
	r.harnessError("drain does not terminate")
}

func (r *run) step(st Step) bool {
	var c *client
	if st.C != "" {
		c = r.clients[st.C]
		if c == nil {
			c = &client{name: st.C, resCh: make(chan result, 1)}
			r.clients[st.C] = c
			r.order = append(r.order, c)
		}
	}
	mismatch := func() bool {
		r.emit("Mismatch", c, nil, "want", st.A)
		return false
	}
	switch st.A {
	case "Start":
		if c.started {
			return mismatch()
		}
		c.started, c.gen = true, r.gen
		call := r.caller()
		if r.failed {
			return false
		}
		go func() {
			n, err := call.next()
			c.resCh <- result{n, err}
		}()
		ret := r.settle(c)
		r.emit("Start", c, nil, ret...)
	case "Read":
		if !r.inFlight(c) || c.req == nil || c.req.Op != fakeconsul.OpGet || c.req.Phase() != fakeconsul.Arrived {
			return mismatch()
		}
		q := c.req
		if _, err := q.Reply(); err != nil {
			r.harnessError("Read: " + err.Error())
			return false
		}
		acted := r.reqDesc(q)
		ret := r.settle(c)
		r.emit("Read", c, acted, ret...)
	case "Cas":
		if !r.inFlight(c) || c.req == nil || !c.req.Op.IsWrite() || c.req.Phase() != fakeconsul.Arrived {
			return mismatch()
		}
		if _, err := c.req.Apply(); err != nil {
			r.harnessError("Cas: " + err.Error())
			return false
		}
		r.emit("Cas", c, r.reqDesc(c.req))
	case "Return":
		if !r.inFlight(c) || c.req == nil || c.req.Phase() != fakeconsul.Applied {
			return mismatch()
		}
		q := c.req
		if _, err := q.Reply(); err != nil {
			r.harnessError("Return: " + err.Error())
			return false
		}
		acted := r.reqDesc(q)
		ret := r.settle(c)
		if c.req != nil { // the call goes on instead of returning: not foreseen by the scenario
			r.emit("Return", c, acted, ret...)
			return false
		}
		r.emit("Return", c, acted, ret...)
	case "Crash":
		if !r.inFlight(c) || c.req == nil {
			return mismatch()
		}
		// the caller is dead: its request is never answered (its connection is closed at teardown)
		c.dead = true
		r.emit("Crash", c, r.reqDesc(c.req), "at", c.req.Phase().String())
	case "NetFail":
		if !r.inFlight(c) || c.req == nil {
			return mismatch()
		}
		q := c.req
		at := q.Phase().String()
		var err error
		if st.How == "reset" {
			err = q.Drop()
		} else {
			err = q.Fail(500, "rpc error: No cluster leader")
		}
		if err != nil {
			r.harnessError("NetFail: " + err.Error())
			return false
		}
		acted := r.reqDesc(q)
		ret := r.settle(c)
		r.emit("NetFail", c, acted, append(ret, "at", at, "how", st.How)...)
		if c.req != nil {
			return false
		}
	case "Go":
		// free schedule: serve whatever request the call has pending (nothing if it has none): a read as the model's
		// Read, a write as Cas + Return, so that the unchanged code produces a conforming trace under any schedule and
		// any other request pattern is still explored under the same interleavings (and judged by the monitor)
		if !r.inFlight(c) || c.req == nil {
			return !r.failed
		}
		switch {
		case c.req.Op == fakeconsul.OpGet && c.req.Phase() == fakeconsul.Arrived:
			r.step(Step{A: "Read", C: st.C})
		case c.req.Op.IsWrite() && c.req.Phase() == fakeconsul.Arrived:
			if r.step(Step{A: "Cas", C: st.C}) {
				r.step(Step{A: "Return", C: st.C})
			}
		default:
			q := c.req
			if _, err := q.Reply(); err != nil {
				r.harnessError("Go: " + err.Error())
				return false
			}
			acted := r.reqDesc(q)
			ret := r.settle(c)
			r.emit("Extra", c, acted, ret...)
		}
		return !r.failed
	case "ForeignWrite":
		r.srv.Put(r.key, []byte(strconv.FormatUint(dec(st.V), 10)))
		r.emit("ForeignWrite", nil, nil, "v", st.V)
	case "Restart":
		dead := make([]string, 0)
		for _, x := range r.order {
			if r.inFlight(x) {
				x.dead = true
				dead = append(dead, x.name)
			}
		}
		r.gen++
		r.emit("Restart", nil, nil, "dead", dead)
	default:
		r.harnessError("unknown step " + st.A)
		return false
	}
	return !r.failed
}

func runScenario(rec *vtrace.Recorder, sc *Scenario) bool {
	if sc.Stress != nil {
		return runStress(rec, sc)
	}
	r := &run{rec: rec, sc: sc, srv: fakeconsul.New(), parkCh: make(chan *fakeconsul.Request, 64),
		clients: map[string]*client{}, gens: map[int]caller{}}
	defer func() {
		for _, f := range r.closers {
			f()
		}
		r.srv.Close()
	}()
	r.key = svcKey
	if sc.Mode == "src" {
		r.key = srcKey
	}
	if sc.Init.Present {
		r.srv.SetIndex(sc.Init.Idx - 1)
		r.srv.Put(r.key, []byte(strconv.FormatUint(dec(sc.Init.Val), 10)))
	}
	r.srv.SetIndex(sc.Init.Gidx)
	r.srv.OnEvent(func(ev fakeconsul.Event) {
		if ev.Kind == "parked" && ev.Req.Phase() == fakeconsul.Arrived {
			r.parkCh <- ev.Req
		}
	})
	r.srv.SetGate(func(q *fakeconsul.Request) bool { return true })
	rec.Emit("Reset", "scn", sc.ID, "mode", sc.Mode, "key", r.key, "kv", r.kvState(), "gidx", r.srv.Index(), "origin", sc.Origin)
	for _, st := range sc.Steps {
		if !r.step(st) {
			break
		}
	}
	if !r.failed {
		r.drain()
	}
	// teardown: the requests of dead callers are dropped; their goroutines end with an error
	deadNumbers := 0
	for _, c := range r.order {
		if c.started && !c.returned && c.req != nil {
			c.req.Drop()
		}
	}
	r.srv.Close()
	for _, c := range r.order {
		if c.started && !c.returned {
			select {
			case res := <-c.resCh:
				if res.err == nil {
					deadNumbers++
				}
			case <-time.After(stepLimit):
				r.harnessError("call " + c.name + " does not end at teardown")
			}
		}
	}
	rec.Emit("End", "scn", sc.ID, "deadnumbers", deadNumbers)
	return !r.failed
}

func main() {
	scnFile := flag.String("scenarios", "", "NDJSON scenarios")
	traceFile := flag.String("trace", "", "NDJSON trace to write")
	flag.Parse()
	// the code under test logs through logrus: nothing is printed, every level reaches the (normally idle) jitter hook
	logrus.SetOutput(io.Discard)
	logrus.SetLevel(logrus.TraceLevel)
	logrus.AddHook(jitter)
	f, err := os.Open(*scnFile)
	if err != nil {
		fmt.Fprintln(os.Stderr, err)
		os.Exit(2)
	}
	defer f.Close()
	rec, err := vtrace.New(*traceFile)
	if err != nil {
		fmt.Fprintln(os.Stderr, err)
		os.Exit(2)
	}
	sc := bufio.NewScanner(f)
	sc.Buffer(make([]byte, 1<<20), 1<<26)
	n, bad := 0, 0
	for sc.Scan() {
		if len(sc.Bytes()) == 0 {
			continue
		}
		var s Scenario
		if err := json.Unmarshal(sc.Bytes(), &s); err != nil {
			fmt.Fprintln(os.Stderr, "bad scenario:", err)
			os.Exit(2)
		}
		n++
		if !runScenario(rec, &s) {
			bad++
		}
	}
	if err := rec.Close(); err != nil {
		fmt.Fprintln(os.Stderr, err)
		os.Exit(2)
	}
	fmt.Printf("scenarios=%d harness_errors=%d lines=%d\n", n, bad, rec.Lines())
}
