// Command evregistry exercises the real writer registry of the core (core/the/eventwriter.go) for C19:
// rounds of concurrent first use of fresh topics by several producers, then ClearEventWriters. The writers
// handed out are recording stand-ins created through the.VerifSetWriterFactory; the trace says which writer
// each producer was given, which writers were created and which ones the shutdown closed.
package main

import (
	"flag"
	"fmt"
	"os"
	"sync"
	"sync/atomic"
	"time"

	"github.com/AliceO2Group/Control/common/event"
	"github.com/AliceO2Group/Control/common/event/topic"
	"github.com/AliceO2Group/Control/core/the"

	"verif/harness/vtrace"
)

type recWriter struct {
	id     int64
	closed int32
	onClose func(id int64)
}

func (w *recWriter) WriteEvent(interface{})                             {}
func (w *recWriter) WriteEventWithTimestamp(interface{}, time.Time)      {}
func (w *recWriter) Close() {
	if atomic.CompareAndSwapInt32(&w.closed, 0, 1) {
		w.onClose(w.id)
	}
}

var _ event.Writer = (*recWriter)(nil)

func main() {
	out := flag.String("trace", "", "")
	rounds := flag.Int("rounds", 20, "registry generations (each ended by ClearEventWriters)")
	topics := flag.Int("topics", 60, "fresh topics per round")
	prods := flag.Int("producers", 8, "producers released together on each topic")
	flag.Parse()
	rec, err := vtrace.New(*out)
	if err != nil {
		fmt.Fprintln(os.Stderr, err)
		os.Exit(2)
	}
	var next int64
	var mu sync.Mutex
	var created [][2]interface{}
	var closed []int64
	the.VerifSetWriterFactory(func(t topic.Topic) event.Writer {
		id := atomic.AddInt64(&next, 1)
		mu.Lock()
		created = append(created, [2]interface{}{string(t), id})
		mu.Unlock()
		return &recWriter{id: id, onClose: func(id int64) { mu.Lock(); closed = append(closed, id); mu.Unlock() }}
	})
	for r := 1; r <= *rounds; r++ {
		rec.Emit("Reset", "scn", r)
		type got struct {
			p     int
			topic string
			w     int64
		}
		var gots []got
		var gm sync.Mutex
		for k := 0; k < *topics; k++ {
			tp := topic.Topic(fmt.Sprintf("verif.r%d.t%d", r, k))
			var wg sync.WaitGroup
			var ready int32
			for p := 1; p <= *prods; p++ {
				p := p
				wg.Add(1)
				go func() {
					defer wg.Done()
					atomic.AddInt32(&ready, 1)
					for atomic.LoadInt32(&ready) < int32(*prods) { // spin barrier: first use of the topic at the same instant
					}
					w := the.EventWriterWithTopic(tp)
					id := int64(-1)
					if rw, ok := w.(*recWriter); ok {
						id = rw.id
					}
					gm.Lock()
					gots = append(gots, got{p, string(tp), id})
					gm.Unlock()
				}()
			}
			wg.Wait()
		}
		mu.Lock()
		for _, c := range created {
			rec.Emit("Created", "scn", r, "topic", c[0], "w", c[1])
		}
		created = created[:0]
		mu.Unlock()
		for _, g := range gots {
			rec.Emit("Got", "scn", r, "p", g.p, "topic", g.topic, "w", g.w)
		}
		the.ClearEventWriters()
		mu.Lock()
		for _, id := range closed {
			rec.Emit("Closed", "scn", r, "w", id)
		}
		closed = closed[:0]
		mu.Unlock()
		rec.Emit("Cleared", "scn", r)
	}
	rec.Emit("End", "scn", *rounds)
	rec.Close()
	fmt.Printf("rounds=%d lines=%d\n", *rounds, rec.Lines())
}
