// Command evregistry exercises the real writer registry of the core (core/the/eventwriter.go) for C19:
// rounds of concurrent first use of fresh topics by several producers, then ClearEventWriters. The writers
// handed out are recording stand-ins created through the.VerifSetWriterFactory; the trace says which writer
// each producer was given, which writers were created and which ones the shutdown closed.
package main

import (
	"flag"
	"fmt"
	"net"
	"os"
	"sync"
	"sync/atomic"
	"time"

	"github.com/AliceO2Group/Control/common/event"
	"github.com/AliceO2Group/Control/common/event/topic"
	pb "github.com/AliceO2Group/Control/common/protos"
	"github.com/AliceO2Group/Control/core/the"
	"github.com/spf13/viper"

	"verif/harness/vtrace"
)

type recWriter struct {
	id      int64
	closed  int32
	onClose func(id int64)
}

func (w *recWriter) WriteEvent(interface{})                         {}
func (w *recWriter) WriteEventWithTimestamp(interface{}, time.Time) {}
func (w *recWriter) Close() {
	if atomic.CompareAndSwapInt32(&w.closed, 0, 1) {
		w.onClose(w.id)
	}
}

var _ event.Writer = (*recWriter)(nil)

func main() {
	out := flag.String("trace", "", "")
	rounds := flag.Int("rounds", 20, "registry generations (each ended by ClearEventWriters)")
	topics := flag.Int("topics", 60, "fresh topics per round")
	prods := flag.Int("producers", 8, "producers released together on each topic")
	flag.Parse()
	rec, err := vtrace.New(*out)
	if err != nil {
		fmt.Fprintln(os.Stderr, err)
		os.Exit(2)
	}
	var next int64
	var mu sync.Mutex
	var created [][2]interface{}
	var closed []int64
	the.VerifSetWriterFactory(func(t topic.Topic) event.Writer {
		id := atomic.AddInt64(&next, 1)
		mu.Lock()
		created = append(created, [2]interface{}{string(t), id})
		mu.Unlock()
		return &recWriter{id: id, onClose: func(id int64) { mu.Lock(); closed = append(closed, id); mu.Unlock() }}
	})
	for r := 1; r <= *rounds; r++ {
		rec.Emit("Reset", "scn", r)
		type got struct {
			p     int
			topic string
			w     int64
		}
		var gots []got
		var gm sync.Mutex
		for k := 0; k < *topics; k++ {
			tp := topic.Topic(fmt.Sprintf("verif.r%d.t%d", r, k))
			var wg sync.WaitGroup
			var ready int32
			for p := 1; p <= *prods; p++ {
				p := p
				wg.Add(1)
				go func() {
					defer wg.Done()
					atomic.AddInt32(&ready, 1)
					for atomic.LoadInt32(&ready) < int32(*prods) { // spin barrier: first use of the topic at the same instant
					}
					w := the.EventWriterWithTopic(tp)
					id := int64(-1)
					if rw, ok := w.(*recWriter); ok {
						id = rw.id
					}
					gm.Lock()
					gots = append(gots, got{p, string(tp), id})
					gm.Unlock()
				}()
			}
			wg.Wait()
		}
		mu.Lock()
		for _, c := range created {
			rec.Emit("Created", "scn", r, "topic", c[0], "w", c[1])
		}
		created = created[:0]
		mu.Unlock()
		for _, g := range gots {
			rec.Emit("Got", "scn", r, "p", g.p, "topic", g.topic, "w", g.w)
		}
		the.ClearEventWriters()
		mu.Lock()
		for _, id := range closed {
			rec.Emit("Closed", "scn", r, "w", id)
		}
		closed = closed[:0]
		mu.Unlock()
		rec.Emit("Cleared", "scn", r)
	}
	blackHole(rec, *rounds+1)
	rec.Emit("End", "scn", *rounds)
	rec.Close()
	fmt.Printf("rounds=%d lines=%d\n", *rounds, rec.Lines())
}

// blackHole: the registry hands out REAL writers (no injected stand-ins, enableKafka) for a broker that accepts TCP connections
// and never answers. Producers publish on new topics and on topics that already have a writer; a publication must return at
// once whatever the broker does. The writers are left behind (closing them would wait for the broker's time-outs).
func blackHole(rec *vtrace.Recorder, scn int) {
	lis, err := net.Listen("tcp", "127.0.0.1:0")
	if err != nil {
		fmt.Fprintln(os.Stderr, err)
		os.Exit(2)
	}
	go func() {
		var held []net.Conn
		for {
			c, err := lis.Accept()
			if err != nil {
				return
			}
			held = append(held, c) // accepted, never read, never answered
		}
	}()
	the.VerifSetWriterFactory(nil)
	viper.Set("enableKafka", true)
	viper.Set("kafkaEndpoints", []string{lis.Addr().String()})
	rec.Emit("Reset", "scn", scn)
	const bound = 4 * time.Second
	total := 0
	done := make(chan time.Duration, 256)
	publish := func(tp string, n int) {
		total++
		go func() {
			t0 := time.Now()
			the.EventWriterWithTopic(topic.Topic(tp)).WriteEvent(&pb.Ev_EnvironmentEvent{EnvironmentId: "e", Message: fmt.Sprintf("%s:%d", tp, n)})
			done <- time.Since(t0)
		}()
	}
	for k := 0; k < 4; k++ { // first events on four new topics, released together ...
		publish(fmt.Sprintf("verif.bh.t%d", k), 1)
	}
	time.Sleep(50 * time.Millisecond)
	for k := 0; k < 4; k++ { // ... then more on the same topics and on a fifth
		publish(fmt.Sprintf("verif.bh.t%d", k), 2)
	}
	publish("verif.bh.t4", 1)
	returned, max := 0, time.Duration(0)
	deadline := time.After(bound)
collect:
	for returned < total {
		select {
		case d := <-done:
			returned++
			if d > max {
				max = d
			}
		case <-deadline:
			break collect
		}
	}
	rec.Emit("BlackHole", "scn", scn, "total", total, "returned", returned, "bound_ms", int(bound/time.Millisecond), "max_ms", int(max/time.Millisecond))
}
