package main

import (
	"context"
	"net"
	"sort"
	"sync"
	"time"

	ddpb "github.com/AliceO2Group/Control/core/integration/ddsched/protos"
	"google.golang.org/grpc"
	"google.golang.org/grpc/codes"
	"google.golang.org/grpc/keepalive"
	"google.golang.org/grpc/status"
)

// fakeDD is an in-process DD scheduler (TfScheduler control interface) behind the real ddsched.proto service. It keeps the
// partition table; every request PARKS on arrival and takes effect when the driver says so, with the scripted fault:
//
//	none - the table decides the reply
//	err  - a gRPC error, no effect
//	lost - executed, but the reply is a gRPC error (lost, or too late for the caller)
//
// PartitionInitialize of an UNKNOWN / TERMINATED partition -> CONFIGURING (else REQUEST_INVALID, unchanged); PartitionTerminate
// of a CONFIGURING / CONFIGURED / ERROR partition -> TERMINATING (else its state, unchanged); PartitionStatus -> its state.
// The scheduler's own progress (CONFIGURING -> CONFIGURED, TERMINATING -> TERMINATED, -> ERROR) happens when the scenario says so.
// One NDJSON line per request at the moment it takes effect.
type fakeDD struct {
	ddpb.UnimplementedDataDistributionControlServer
	addr string
	gs   *grpc.Server
	log  func(map[string]interface{})

	mu       sync.Mutex
	cond     *sync.Cond
	part     map[string]string // partition id -> state (absent = UNKNOWN)
	arrivals []*request
}

type reply struct {
	rep *ddpb.PartitionResponse
	err error
}

type request struct {
	m      string // Initialize | Terminate | Status
	pid    string
	envid  string
	stfb   map[string]string
	stfs   map[string]string
	params map[string]string
	ch     chan reply
}

func startFakeDD(log func(map[string]interface{})) (*fakeDD, error) {
	lis, err := net.Listen("tcp", "127.0.0.1:0")
	if err != nil {
		return nil, err
	}
	s := &fakeDD{addr: lis.Addr().String(), log: log, part: map[string]string{}}
	s.cond = sync.NewCond(&s.mu)
	s.gs = grpc.NewServer(grpc.KeepaliveEnforcementPolicy(keepalive.EnforcementPolicy{MinTime: time.Second, PermitWithoutStream: true}))
	ddpb.RegisterDataDistributionControlServer(s.gs, s)
	go func() { _ = s.gs.Serve(lis) }()
	return s, nil
}

func (s *fakeDD) park(ctx context.Context, q *request) (*ddpb.PartitionResponse, error) {
	q.ch = make(chan reply, 1)
	s.mu.Lock()
	s.arrivals = append(s.arrivals, q)
	s.cond.Broadcast()
	s.mu.Unlock()
	select {
	case rp := <-q.ch:
		return rp.rep, rp.err
	case <-ctx.Done(): // the caller gave up (its deadline): the request never takes effect
		s.mu.Lock()
		for i, x := range s.arrivals {
			if x == q {
				s.arrivals = append(s.arrivals[:i], s.arrivals[i+1:]...)
				break
			}
		}
		s.cond.Broadcast()
		s.mu.Unlock()
		return nil, status.Error(codes.Canceled, "caller gone")
	}
}

func (s *fakeDD) PartitionInitialize(ctx context.Context, in *ddpb.PartitionInitRequest) (*ddpb.PartitionResponse, error) {
	return s.park(ctx, &request{m: "Initialize", pid: in.GetPartitionInfo().GetPartitionId(), envid: in.GetPartitionInfo().GetEnvironmentId(),
		stfb: in.GetStfbHostIdMap(), stfs: in.GetStfsHostIdMap(), params: in.GetPartitionParams()})
}
func (s *fakeDD) PartitionTerminate(ctx context.Context, in *ddpb.PartitionTermRequest) (*ddpb.PartitionResponse, error) {
	return s.park(ctx, &request{m: "Terminate", pid: in.GetPartitionInfo().GetPartitionId(), envid: in.GetPartitionInfo().GetEnvironmentId()})
}
func (s *fakeDD) PartitionStatus(ctx context.Context, in *ddpb.PartitionInfo) (*ddpb.PartitionResponse, error) {
	return s.park(ctx, &request{m: "Status", pid: in.GetPartitionId(), envid: in.GetEnvironmentId()})
}

// waitArrivalOr blocks until a request has parked (returned), or done is closed (true), or the watchdog expires (nil, false).
func (s *fakeDD) waitArrivalOr(done chan struct{}, watchdog time.Duration) (*request, bool) {
	stop := make(chan struct{})
	defer close(stop)
	expired, isDone := false, false
	go func() {
		t := time.NewTimer(watchdog)
		defer t.Stop()
		select {
		case <-done: // nil channel: never
			s.mu.Lock()
			isDone = true
		case <-t.C:
			s.mu.Lock()
			expired = true
		case <-stop:
			return
		}
		s.cond.Broadcast()
		s.mu.Unlock()
	}()
	s.mu.Lock()
	defer s.mu.Unlock()
	for {
		if len(s.arrivals) > 0 {
			q := s.arrivals[0]
			s.arrivals = s.arrivals[1:]
			return q, false
		}
		if isDone {
			return nil, true
		}
		if expired {
			return nil, false
		}
		s.cond.Wait()
	}
}

func (s *fakeDD) state(pid string) string {
	if st, ok := s.part[pid]; ok {
		return st
	}
	return "UNKNOWN"
}

func pairs(m map[string]string) [][]string {
	out := make([][]string, 0, len(m))
	for k, v := range m {
		out = append(out, []string{k, v})
	}
	sort.Slice(out, func(i, j int) bool { return out[i][0] < out[j][0] })
	return out
}

// apply: the request takes effect now with the fault; the reply is sent. alias maps partition ids to environment aliases.
func (s *fakeDD) apply(q *request, fault string, alias func(string) string, extra map[string]interface{}) string {
	s.mu.Lock()
	before := s.state(q.pid)
	rep := before
	if fault != "err" {
		switch q.m {
		case "Initialize":
			if before == "UNKNOWN" || before == "TERMINATED" {
				s.part[q.pid] = "CONFIGURING"
				rep = "CONFIGURING"
			} else {
				rep = "REQUEST_INVALID"
			}
		case "Terminate":
			if before == "CONFIGURING" || before == "CONFIGURED" || before == "ERROR" {
				s.part[q.pid] = "TERMINATING"
				rep = "TERMINATING"
			}
		}
	}
	seen := rep
	var rp reply
	if fault == "none" {
		rp = reply{&ddpb.PartitionResponse{PartitionState: ddpb.PartitionState(ddpb.PartitionState_value["PARTITION_"+rep]), InfoMessage: "fake"}, nil}
	} else {
		seen = "err"
		rp = reply{nil, status.Error(codes.Unavailable, "injected failure of the DD scheduler")}
	}
	line := map[string]interface{}{"m": q.m, "p": alias(q.pid), "envid": alias(q.envid), "f": fault, "reply": seen, "before": before,
		"after": s.state(q.pid)}
	if q.m == "Initialize" {
		line["stfb"], line["stfs"], line["params"] = pairs(q.stfb), pairs(q.stfs), pairs(q.params)
	}
	for k, v := range extra {
		line[k] = v
	}
	s.log(line)
	s.mu.Unlock()
	q.ch <- rp
	return seen
}

// own: the scheduler moves a partition on its own.
func (s *fakeDD) own(pid, what string) {
	s.mu.Lock()
	defer s.mu.Unlock()
	st := s.state(pid)
	switch what {
	case "Progress":
		if st == "CONFIGURING" {
			s.part[pid] = "CONFIGURED"
		} else if st == "TERMINATING" {
			s.part[pid] = "TERMINATED"
		}
	case "Fail":
		if st == "CONFIGURING" || st == "CONFIGURED" {
			s.part[pid] = "ERROR"
		}
	}
}

func (s *fakeDD) table(pids map[string]string) map[string]string {
	s.mu.Lock()
	defer s.mu.Unlock()
	out := map[string]string{}
	for pid, alias := range pids {
		out[alias] = s.state(pid)
	}
	return out
}

func (s *fakeDD) reset() {
	s.mu.Lock()
	s.part = map[string]string{}
	s.arrivals = nil
	s.mu.Unlock()
}

func (s *fakeDD) fail(q *request) {
	q.ch <- reply{nil, status.Error(codes.Unavailable, "end of scenario")}
}
