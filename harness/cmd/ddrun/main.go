// Command ddrun replays scenarios generated from spec/DdRun.tla (X06) on the real DD scheduler integration plugin
// (core/integration/ddsched). One fake DD scheduler (fakedd.go, the real ddsched.proto service over a real gRPC connection)
// and one real plugin (ddsched.NewPlugin + Init) serve all scenarios of a process. Steps:
//
//	hook - the plugin's CallStack function (PartitionInitialize, PartitionTerminate, EnsureTermination) is invoked - if it is not
//	       in progress yet - with a real *callable.Call whose parent role is a real call role of a real role tree (the hook walks
//	       the tree's leaves for the STF builder / sender ids); the request it has sent PARKS in the fake scheduler and the driver
//	       lets it take effect with the scripted fault (none | err | lost); t = "sleep": the reply is handed to the hook only once
//	       its deadline has passed (the deadline falls into the 100 ms sleep that follows an "in progress" answer)
//	tmo  - the hook's deadline expires while its PartitionStatus request is parked (never answered)
//	own  - the scheduler moves a partition on its own: Progress | Fail
//	ecs  - GoError | Destroy (the environment leaves the manager's map)
//	gd   - GetData: one PartitionStatus per living environment, each answered as scripted
//
// Synchronisation is blocking: after letting a request go the driver waits until the hook has returned or parked its next request
// (the plugin sleeps 100 ms between polls on its own). Deadlines are real (__call_timeout = 2.5 s for invocations that are scripted
// to run into it, 1 h otherwise); the reply held "until the deadline has passed" is held in the wrapped gRPC client stub
// (RpcClient.DataDistributionControlClient is an exported embedded interface), which makes that case independent of timing.
package main

import (
	"bufio"
	"context"
	"encoding/json"
	"flag"
	"fmt"
	"io"
	"os"
	"reflect"
	"sort"
	"strings"
	"sync"
	"time"
	"unsafe"

	"github.com/AliceO2Group/Control/common/event"
	"github.com/AliceO2Group/Control/common/utils/uid"
	"github.com/AliceO2Group/Control/core/environment"
	"github.com/AliceO2Group/Control/core/integration/ddsched"
	ddpb "github.com/AliceO2Group/Control/core/integration/ddsched/protos"
	"github.com/AliceO2Group/Control/core/workflow"
	"github.com/AliceO2Group/Control/core/workflow/callable"
	"github.com/sirupsen/logrus"
	"github.com/spf13/viper"
	"google.golang.org/grpc"

	"verif/harness/vtrace"
)

type Step struct {
	K  string            `json:"k"`
	E  string            `json:"e"`
	Fn string            `json:"fn"`
	F  string            `json:"f"`
	C  string            `json:"c"`
	T  string            `json:"t"`   // hook: "sleep" = hold the reply until the hook's deadline has passed
	To string            `json:"to"`  // hook (first step of an invocation): __call_timeout
	N  bool              `json:"new"` // hook: this step starts an invocation
	A  string            `json:"a"`   // own: Progress | Fail
	Fs map[string]string `json:"fs"`  // gd: outcome per environment
}

type Scenario struct {
	ID    int      `json:"id"`
	Envs  []string `json:"envs"`
	Steps []Step   `json:"steps"`
}

var watchdog = flag.Duration("watchdog", 120*time.Second, "how long a blocking wait may last before the run is declared wedged (exit 2)")

func die(format string, a ...interface{}) {
	fmt.Fprintf(os.Stderr, "ddrun: "+format+"\n", a...)
	os.Exit(2)
}

// ---------- wrapped client stub: can hold a status reply until the caller's deadline has passed ----------

type stubWrap struct {
	ddpb.DataDistributionControlClient
	mu   sync.Mutex
	hold map[string]bool // partition id -> hold the next PartitionStatus reply until the deadline
}

func (c *stubWrap) PartitionStatus(ctx context.Context, in *ddpb.PartitionInfo, opts ...grpc.CallOption) (*ddpb.PartitionResponse, error) {
	rep, err := c.DataDistributionControlClient.PartitionStatus(ctx, in, opts...)
	// the driver raises the flag before it lets the scheduler answer: the reply has arrived in time, it is handed to the caller once
	// the caller's deadline has passed
	c.mu.Lock()
	hold := c.hold[in.GetPartitionId()]
	delete(c.hold, in.GetPartitionId())
	c.mu.Unlock()
	if hold && err == nil {
		<-ctx.Done()
	}
	return rep, err
}

// ---------- environment manager (GetData asks it for the environment ids) ----------

type envManager struct {
	mu *sync.RWMutex
	m  *map[uid.ID]*environment.Environment
}

func field(v reflect.Value, name string, typ reflect.Type) unsafe.Pointer {
	f := v.FieldByName(name)
	if !f.IsValid() || (typ != nil && f.Type() != typ) {
		die("%s has no field %s of the expected type (the code changed shape: adapt the driver)", v.Type(), name)
	}
	return unsafe.Pointer(f.UnsafeAddr())
}

func newEnvManager() *envManager {
	mgr := environment.NewEnvManager(nil, make(chan event.Event))
	v := reflect.ValueOf(mgr).Elem()
	return &envManager{mu: (*sync.RWMutex)(field(v, "mu", reflect.TypeOf(sync.RWMutex{}))),
		m: (*map[uid.ID]*environment.Environment)(field(v, "m", reflect.TypeOf(map[uid.ID]*environment.Environment{})))}
}

func (em *envManager) set(ids []uid.ID) {
	em.mu.Lock()
	for k := range *em.m {
		delete(*em.m, k)
	}
	for _, id := range ids {
		(*em.m)[id] = new(environment.Environment)
	}
	em.mu.Unlock()
}

func (em *envManager) remove(id uid.ID) {
	em.mu.Lock()
	delete(*em.m, id)
	em.mu.Unlock()
}

// ---------- the role tree of an environment: a call role (parent of the hook calls) and four leaves ----------

// leaves: name -> vars; what the hook must make of them: stfb {stfb-1: ib1}, stfs {stfs-1: ib2}; the third leaf has both ids (the
// sender id wins), the fourth has no hostname (ignored)
const treeYAML = `name: x06
vars:
  site: verif
roles:
  - name: dd
    call:
      func: "ddsched.PartitionInitialize()"
      trigger: before_CONFIGURE
      timeout: 1h
  - name: b1
    vars:
      dd_discovery_ib_hostname: ib1
      dd_discovery_stfb_id: stfb-1
    task:
      load: cls
  - name: s1
    vars:
      dd_discovery_ib_hostname: ib2
      dd_discovery_stfs_id: stfs-1
    task:
      load: cls
  - name: both
    vars:
      dd_discovery_ib_hostname: ib3
      dd_discovery_stfb_id: stfb-3
      dd_discovery_stfs_id: stfs-3
    task:
      load: cls
  - name: nohost
    vars:
      dd_discovery_stfb_id: stfb-4
    task:
      load: cls
`

var leaves = [][]string{{"ib1", "stfb-1", ""}, {"ib2", "", "stfs-1"}, {"ib3", "stfb-3", "stfs-3"}, {"", "stfb-4", ""}} // hostname, stfb id, stfs id
var ddvars = [][]string{{"enabled", "true"}, {"discovery_net_if", "ib0"}, {"n_retries", "3"}}                          // ddsched_<name> = value

func parentRole() callable.ParentRole {
	root, err := workflow.VerifUnmarshalRole([]byte(treeYAML), nil)
	if err != nil {
		die("role tree: %v", err)
	}
	for _, r := range root.GetRoles() {
		if r.GetName() == "dd" {
			pr, ok := r.(callable.ParentRole)
			if !ok {
				die("the call role is no callable.ParentRole")
			}
			return pr
		}
	}
	die("role tree without the call role")
	return nil
}

// ---------- one scenario ----------

type envState struct {
	alias string
	id    uid.ID
	live  bool
	fn    string
	done  chan struct{}
	call  *callable.Call
	req   *request
}

type runner struct {
	rec  *vtrace.Recorder
	srv  *fakeDD
	p    *ddsched.Plugin
	stub *stubWrap
	em   *envManager
	scn  *Scenario
	envs map[string]*envState
	byID map[string]string
}

func (r *runner) emit(ev string, kv ...interface{}) {
	r.rec.Emit(ev, append([]interface{}{"scn", r.scn.ID}, kv...)...)
}

func (r *runner) alias(id string) string {
	if a, ok := r.byID[id]; ok {
		return a
	}
	return id // "" stays ""
}

func (r *runner) stuck(what string) {
	r.emit("Stuck", "what", what)
	r.rec.Close()
	die("scenario %d: %s did not happen within %s", r.scn.ID, what, *watchdog)
}

// waitHook blocks until the hook invocation of es has returned (true) or parked a request (false).
func (r *runner) waitHook(es *envState) bool {
	q, done := r.srv.waitArrivalOr(es.done, *watchdog)
	if done {
		return true
	}
	if q == nil {
		r.stuck("hook " + es.fn + " of " + es.alias + " returning or sending its next request")
	}
	es.req = q
	return false
}

var stateNames = []string{"REQUEST_INVALID", "CONFIGURING", "CONFIGURED", "TERMINATING", "TERMINATED", "UNKNOWN", "ERROR"}

func (r *runner) finish(es *envState, c string) {
	failed := es.call.VarStack["__call_error"] != ""
	reason := es.call.VarStack["__call_error_reason"]
	named := "none"
	switch {
	case strings.Contains(reason, "timeout exceeded"):
		named = "timeout"
	case strings.Contains(reason, "rpc error"):
		named = "err"
	default:
		for _, s := range stateNames {
			if strings.Contains(reason, "state PARTITION_"+s+" ") {
				named = s
				break
			}
		}
	}
	r.emit("Ret", "e", es.alias, "fn", es.fn, "failed", failed, "named", named, "reason", reason, "c", c)
	es.fn, es.done, es.call, es.req = "", nil, nil, nil
}

func (r *runner) run() {
	s := r.scn
	r.srv.reset()
	r.envs, r.byID = map[string]*envState{}, map[string]string{}
	ids := make([]uid.ID, 0)
	sort.Strings(s.Envs)
	for _, a := range s.Envs {
		id := uid.New()
		r.envs[a] = &envState{alias: a, id: id, live: true}
		r.byID[string(id)] = a
		ids = append(ids, id)
	}
	r.em.set(ids)
	r.emit("Reset", "envs", s.Envs, "leaves", leaves, "ddvars", ddvars)
	r.observe()
	aborted := false
	for i, st := range s.Steps {
		switch st.K {
		case "own":
			r.srv.own(string(r.envs[st.E].id), st.A)
			r.emit("Own", "e", st.E, "a", st.A)
		case "ecs":
			es := r.envs[st.E]
			if st.Fn == "Destroy" {
				es.live = false
				r.em.remove(es.id)
			}
			r.emit("Ecs", "a", st.Fn, "e", st.E)
		case "hook":
			es := r.envs[st.E]
			if es.fn != "" && es.fn != st.Fn {
				r.emit("Mismatch", "step", i, "why", "hook "+es.fn+" of "+st.E+" is still in progress")
				aborted = true
				break
			}
			if (es.fn == "") != st.N {
				// the scenario goes on with an invocation that has already returned (or starts one while another is in progress)
				r.emit("Mismatch", "step", i, "why", "hook "+st.Fn+" of "+st.E+": in progress "+fmt.Sprint(es.fn != "")+", scenario starts one "+fmt.Sprint(st.N))
				aborted = true
				break
			}
			if es.fn == "" {
				to := st.To
				if to == "" {
					to = "1h"
				}
				es.fn = st.Fn
				es.call = callable.NewCall("ddsched."+st.Fn+"()", "", parentRole())
				vs := map[string]string{"environment_id": string(es.id), "__call_timeout": to}
				for _, kv := range ddvars {
					vs["ddsched_"+kv[0]] = kv[1]
				}
				es.call.VarStack = vs
				f, ok := r.p.CallStack(es.call)[st.Fn].(func() string)
				if !ok {
					die("scenario %d: the plugin's CallStack has no function %s", s.ID, st.Fn)
				}
				es.done = make(chan struct{})
				done := es.done
				go func() {
					defer close(done)
					f()
				}()
				if r.waitHook(es) {
					r.emit("Skip", "e", st.E, "fn", st.Fn)
					r.finish(es, st.C)
					break
				}
			}
			q := es.req
			es.req = nil
			if q == nil {
				r.emit("Mismatch", "step", i, "why", "hook "+es.fn+" of "+st.E+" has no request parked")
				aborted = true
				break
			}
			if st.T == "sleep" {
				r.stub.mu.Lock()
				r.stub.hold[string(es.id)] = true
				r.stub.mu.Unlock()
			}
			if q.pid != string(es.id) {
				// a request for somebody else's partition: recorded as it is, the trace specification judges it
				r.emit("Foreign", "e", st.E, "p", r.alias(q.pid))
			}
			r.srv.apply(q, st.F, r.alias, map[string]interface{}{"src": "hook", "e": st.E, "fn": st.Fn, "t": st.T, "scn": s.ID})
			if r.waitHook(es) {
				r.finish(es, st.C)
			}
		case "tmo":
			es := r.envs[st.E]
			if es.fn == "" || es.req == nil || es.req.m != "Status" {
				r.emit("Mismatch", "step", i, "why", "no status poll of "+st.E+" is parked")
				aborted = true
				break
			}
			es.req = nil // never answered
			select {
			case <-es.done:
			case <-time.After(*watchdog):
				r.stuck("hook " + es.fn + " of " + st.E + " running into its deadline")
			}
			r.emit("Tmo", "e", st.E, "fn", es.fn)
			r.finish(es, st.C)
		case "gd":
			out := make(chan string, 1)
			done := make(chan struct{})
			go func() {
				out <- r.p.GetData(nil)
				close(done)
			}()
			for {
				q, fin := r.srv.waitArrivalOr(done, *watchdog)
				if fin {
					break
				}
				if q == nil {
					r.stuck("GetData finishing")
				}
				a := r.alias(q.pid)
				f := st.Fs[a]
				if f == "" {
					f = "none"
				}
				r.srv.apply(q, f, r.alias, map[string]interface{}{"src": "gd", "e": a, "fn": "GetData", "t": "", "scn": s.ID})
			}
			res := map[string]string{}
			for _, a := range s.Envs {
				res[a] = "-"
			}
			var m map[string]string
			if txt := <-out; txt != "" {
				if err := json.Unmarshal([]byte(txt), &m); err != nil {
					die("GetData is not JSON: %v", err)
				}
			}
			for id, stt := range m {
				res[r.alias(id)] = strings.TrimPrefix(stt, "PARTITION_")
			}
			r.emit("Gd", "fs", st.Fs, "out", res)
		default:
			die("scenario %d: unknown step kind %q", s.ID, st.K)
		}
		if aborted {
			break
		}
		r.observe()
	}
	// hooks still in progress: fail their parked requests, they give up at once or at their next attempt
	for _, a := range s.Envs {
		es := r.envs[a]
		for es.fn != "" {
			if es.req != nil {
				q := es.req
				es.req = nil
				// an answer that ends every loop: the polling hooks stop on an unexpected state
				q.ch <- reply{&ddpb.PartitionResponse{PartitionState: ddpb.PartitionState_PARTITION_REQUEST_INVALID}, nil}
			}
			if r.waitHook(es) {
				es.fn = ""
			}
		}
	}
	r.emit("Fin")
}

func (r *runner) observe() {
	pids := map[string]string{}
	hp := map[string]string{}
	for a, es := range r.envs {
		pids[string(es.id)] = a
		hp[a] = "none"
		if es.fn != "" && es.req != nil {
			hp[a] = es.req.m
		}
	}
	r.srv.mu.Lock()
	stray := len(r.srv.arrivals) // requests that belong to nobody (every goroutine in motion has come to rest)
	r.srv.mu.Unlock()
	r.emit("Obs", "part", r.srv.table(pids), "hp", hp, "stray", stray)
}

func main() {
	in := flag.String("scenarios", "", "")
	out := flag.String("trace", "", "")
	flag.Parse()
	logrus.SetOutput(io.Discard)
	logrus.SetLevel(logrus.PanicLevel)
	viper.Set("enableKafka", false)
	viper.Set("ddschedStatusTimeout", "1h")
	f, err := os.Open(*in)
	if err != nil {
		die("%v", err)
	}
	rec, err := vtrace.New(*out)
	if err != nil {
		die("%v", err)
	}
	srv, err := startFakeDD(func(line map[string]interface{}) { rec.EmitMap("Req", line) })
	if err != nil {
		die("fake DD scheduler: %v", err)
	}
	viper.Set("ddSchedulerEndpoint", srv.addr)
	p, ok := ddsched.NewPlugin("//" + srv.addr).(*ddsched.Plugin)
	if !ok || p == nil {
		die("ddsched.NewPlugin did not return a *ddsched.Plugin")
	}
	if err := p.Init("verif"); err != nil {
		die("plugin Init: %v", err)
	}
	rc := *(**ddsched.RpcClient)(field(reflect.ValueOf(p).Elem(), "ddSchedClient", reflect.TypeOf(&ddsched.RpcClient{})))
	if rc == nil || rc.DataDistributionControlClient == nil {
		die("the plugin has no client after Init")
	}
	stub := &stubWrap{DataDistributionControlClient: rc.DataDistributionControlClient, hold: map[string]bool{}}
	rc.DataDistributionControlClient = stub
	em := newEnvManager()
	sc := bufio.NewScanner(f)
	sc.Buffer(make([]byte, 1<<20), 1<<26)
	n := 0
	t0 := time.Now()
	for sc.Scan() {
		if len(strings.TrimSpace(sc.Text())) == 0 {
			continue
		}
		var s Scenario
		if err := json.Unmarshal(sc.Bytes(), &s); err != nil {
			die("%v", err)
		}
		(&runner{rec: rec, srv: srv, p: p, stub: stub, em: em, scn: &s}).run()
		n++
	}
	rec.Close()
	fmt.Printf("scenarios=%d lines=%d wall=%.1fs\n", n, rec.Lines(), time.Since(t0).Seconds())
}
