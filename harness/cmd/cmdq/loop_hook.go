//go:build verif && c12loop

package main

import "github.com/AliceO2Group/Control/core/task"

// core/task.VerifCommandLoop is the add-only verification export of /verif/work/patches/C12n-hooks.diff
func init() { loopWire = task.VerifCommandLoop }
