// Command cmdq replays scenarios generated from spec/CmdServent.tla on the real
// core/controlcommands (NewServent, NewCommandQueue, MesosCommand_Transition, ProcessResponse;
// exported API only, no hooks) and records what can be observed from outside:
//
//	Enqueue   - CommandQueue.Enqueue is about to be called (a refusal is a harness failure)
//	SendBegin - the injected SendFunc was entered for (command, target)
//	SendEnd   - SendFunc is about to return (nil or the scripted error)
//	PRCall    - Servent.ProcessResponse is about to be called with a reply (id, sender, token)
//	PRRet     - that call returned
//	Callback  - a value arrived on the callback channel given to Enqueue (per-target content, and
//	            the consumers' view of it: Errors() by target, targets named by Err())
//	End       - facts about the whole run after the grace period
//
// Every line carries t = milliseconds of the process' monotonic clock since the run started,
// read under the run's recorder mutex (so line order = clock order).
//
// Modes: "sched" - the driver imposes the order of sends returning and replies arriving that the
// model behaviour prescribes (SendFunc is ours: it parks until released; replies are injected from
// separate goroutines; "late" = after the callback value was received);
// "loop" - as "sched" (Enqueue / Deliver steps only), but the servent is reached through the
// scheduler's own send function and MESSAGE event handler (see wireLoop);
// "free" - nothing is ordered: SendFunc returns at once and every reply is injected from its own
// goroutine after its scripted delay (races included); only the monitor judges these runs.
package main

import (
	"bufio"
	"context"
	"encoding/json"
	"errors"
	"flag"
	"fmt"
	"io"
	"os"
	"sort"
	"strconv"
	"strings"
	"sync"
	"time"

	"github.com/AliceO2Group/Control/common/utils/uid"
	"github.com/AliceO2Group/Control/core/controlcommands"
	mesos "github.com/mesos/mesos-go/api/v1/lib"
	"github.com/mesos/mesos-go/api/v1/lib/scheduler"
	"github.com/mesos/mesos-go/api/v1/lib/scheduler/calls"
	"github.com/mesos/mesos-go/api/v1/lib/scheduler/events"
	"github.com/rs/xid"
	"github.com/sirupsen/logrus"

	"verif/harness/vtrace"
)

type Msg struct {
	ID  string        `json:"id"`
	Snd string        `json:"snd"`
	Tok []interface{} `json:"tok"` // [c, t, k]
	Err bool          `json:"err"`
}

func (m Msg) tokStr() string {
	parts := make([]string, 0, 3)
	for _, x := range m.Tok {
		switch v := x.(type) {
		case string:
			parts = append(parts, v)
		case float64:
			parts = append(parts, strconv.Itoa(int(v)))
		default:
			parts = append(parts, fmt.Sprint(v))
		}
	}
	return strings.Join(parts, ".")
}

var noMsg = map[string]interface{}{"id": "-", "snd": "-", "tok": []interface{}{}, "err": false}

type Step struct {
	A   string        `json:"a"`
	C   string        `json:"c,omitempty"`
	T   string        `json:"t,omitempty"`
	Tok []interface{} `json:"tok,omitempty"`
	Ret bool          `json:"ret,omitempty"`
	// AtMs: do this step no earlier than AtMs ms after the run started (staggered-deadline family:
	// a held SendFunc released late, a reply placed between two targets' deadlines). Only the
	// imposed schedule depends on it; verdicts come from the recorded clock readings.
	AtMs int `json:"at_ms,omitempty"`
}

type Scenario struct {
	ID    int                 `json:"id"`
	Mode  string              `json:"mode"`
	ToMs  int                 `json:"to_ms"`
	Tg    map[string][]string `json:"tg"`
	Qof   map[string]string   `json:"qof"`
	Beh   map[string]string   `json:"beh"`   // "c/t" -> behaviour
	Msgs  map[string][]Msg    `json:"msgs"`  // "c/t" -> replies this call causes
	Gated []string            `json:"gated"` // "c/t" whose SendFunc parks until a SendEnd step
	Steps []Step              `json:"steps"`
	// free mode
	Order   []string       `json:"order"`    // commands in Enqueue order
	EnqUs   map[string]int `json:"enq_us"`   // delay before Enqueue
	DelayUs map[string]int `json:"delay_us"` // token -> delay after SendBegin
	HoldUs  map[string]int `json:"hold_us"`  // "c/t" -> time SendFunc takes to return (slow send)
	// loop mode
	Kind map[string]string `json:"kind"` // command -> "hook" (MesosCommand_TriggerHook) | "trans"
}

const stepWait = 3 * time.Second

type run struct {
	sc      *Scenario
	start   time.Time
	mu      sync.Mutex
	events  []map[string]interface{}
	servent *controlcommands.Servent
	queues  map[string]*controlcommands.CommandQueue
	cmds    map[string]controlcommands.MesosCommand
	evCh    chan *scheduler.Event // loop mode: the Mesos event stream (one consumer, as the controller loop)
	idName  map[xid.ID]string
	ids     map[string]xid.ID
	targets map[string]controlcommands.MesosCommandTarget
	tname   map[controlcommands.MesosCommandTarget]string
	taskT   map[string]string // task id value -> target name
	msgs    map[string]Msg    // token string -> message
	timeout time.Duration

	seen    map[string]chan struct{} // "c/t": SendBegin recorded
	gate    map[string]chan struct{} // "c/t": release of a parked SendFunc
	done    map[string]chan struct{} // "c/t": SendEnd recorded
	once    map[string]*sync.Once
	gated   map[string]bool
	cbCh    map[string]chan controlcommands.MesosCommandResponse
	cbGot   map[string]chan struct{} // first callback value received
	cbN     map[string]int
	first   map[string]map[string]interface{} // first callback value as recorded
	enq     []string
	prMu    sync.Mutex
	prOpen  map[string]bool // token -> ProcessResponse called and not returned
	prWG    map[string]chan struct{}
	mustRet map[string]bool // token -> the reply cannot find a pending call (must be dropped and return)
	noWait  map[string]bool // token -> predicted (by the model) to block in ProcessResponse for ever
	lastOk  time.Time       // latest SendEnd with ok (a timer may still be running until lastOk+timeout)
	wg      sync.WaitGroup
	failed  string
}

func (r *run) emit(ev string, kv ...interface{}) {
	m := make(map[string]interface{}, len(kv)/2+3)
	for i := 0; i+1 < len(kv); i += 2 {
		m[kv[i].(string)] = kv[i+1]
	}
	m["ev"] = ev
	m["scn"] = r.sc.ID
	r.mu.Lock()
	m["t"] = int(time.Since(r.start) / time.Millisecond)
	r.events = append(r.events, m)
	r.mu.Unlock()
}

func key(c, t string) string { return c + "/" + t }

func mkTarget(name string) controlcommands.MesosCommandTarget {
	return controlcommands.MesosCommandTarget{
		AgentId:    mesos.AgentID{Value: "agent-" + name},
		ExecutorId: mesos.ExecutorID{Value: "exec-" + name},
		TaskId:     mesos.TaskID{Value: "task-" + name},
	}
}

func newRun(sc *Scenario) *run {
	r := &run{sc: sc, queues: map[string]*controlcommands.CommandQueue{}, cmds: map[string]controlcommands.MesosCommand{},
		idName: map[xid.ID]string{}, ids: map[string]xid.ID{}, targets: map[string]controlcommands.MesosCommandTarget{},
		tname: map[controlcommands.MesosCommandTarget]string{}, taskT: map[string]string{}, msgs: map[string]Msg{},
		seen: map[string]chan struct{}{}, gate: map[string]chan struct{}{}, done: map[string]chan struct{}{}, once: map[string]*sync.Once{},
		gated: map[string]bool{}, cbCh: map[string]chan controlcommands.MesosCommandResponse{}, cbGot: map[string]chan struct{}{},
		cbN: map[string]int{}, first: map[string]map[string]interface{}{}, prOpen: map[string]bool{}, prWG: map[string]chan struct{}{}, noWait: map[string]bool{}, mustRet: map[string]bool{},
		timeout: time.Duration(sc.ToMs) * time.Millisecond}
	names := []string{"t1", "t2", "t3", "t4", "tx"}
	have := map[string]bool{}
	for _, t := range names {
		have[t] = true
	}
	for _, ts := range sc.Tg { // any number of targets: ids are data
		for _, t := range ts {
			if !have[t] {
				have[t] = true
				names = append(names, t)
			}
		}
	}
	for _, t := range names {
		tg := mkTarget(t)
		r.targets[t] = tg
		r.tname[tg] = t
		r.taskT[tg.TaskId.Value] = t
	}
	env := uid.New()
	for c, ts := range sc.Tg {
		recv := make([]controlcommands.MesosCommandTarget, 0, len(ts))
		for _, t := range ts {
			recv = append(recv, r.targets[t])
			k := key(c, t)
			r.seen[k] = make(chan struct{})
			r.gate[k] = make(chan struct{})
			r.done[k] = make(chan struct{})
			r.once[k+"s"] = &sync.Once{}
			r.once[k+"d"] = &sync.Once{}
			r.once[k+"g"] = &sync.Once{}
		}
		var id xid.ID
		if sc.Kind[c] == "hook" {
			cmd := controlcommands.NewMesosCommand_TriggerHook(env, recv)
			cmd.ResponseTimeout = r.timeout
			r.cmds[c] = cmd
			id = cmd.Id
		} else {
			cmd := controlcommands.NewMesosCommand_Transition(env, recv, "STANDBY", "CONFIGURE", "CONFIGURED", nil)
			cmd.ResponseTimeout = r.timeout
			r.cmds[c] = cmd
			id = cmd.Id
		}
		r.idName[id] = c
		r.ids[c] = id
		r.cbCh[c] = make(chan controlcommands.MesosCommandResponse, 64)
		r.cbGot[c] = make(chan struct{})
	}
	r.ids["cx"] = xid.New() // the id nobody issued
	r.idName[r.ids["cx"]] = "cx"
	for _, k := range sc.Gated {
		r.gated[k] = true
	}
	for _, ms := range sc.Msgs {
		for _, m := range ms {
			r.msgs[m.tokStr()] = m
		}
	}
	if sc.Mode == "loop" {
		r.wireLoop()
		return r
	}
	r.servent = controlcommands.NewServent(r.sendFunc)
	for _, q := range sc.Qof {
		if _, ok := r.queues[q]; !ok {
			cq := controlcommands.NewCommandQueue(r.servent)
			cq.Start()
			r.queues[q] = cq
		}
	}
	return r
}

// sendFunc is the transport given to the real Servent.
func (r *run) sendFunc(cmd controlcommands.MesosCommand, receiver controlcommands.MesosCommandTarget) error {
	c, okc := r.idName[cmd.GetId()]
	t, okt := r.tname[receiver]
	if !okc {
		c = "?"
	}
	if !okt {
		t = "?"
	}
	k := key(c, t)
	b := r.sc.Beh[k]
	single := false
	if tr, ok := cmd.(*controlcommands.MesosCommand_Transition); ok {
		single = len(tr.TargetList) == 1 && tr.TargetList[0] == receiver && tr.Event == "CONFIGURE"
	}
	r.emit("SendBegin", "c", c, "tgt", t, "b", b, "single", single)
	if o := r.once[k+"s"]; o != nil {
		o.Do(func() { close(r.seen[k]) })
	}
	if r.sc.Mode == "free" {
		for _, m := range r.sc.Msgs[k] {
			r.inject(m, time.Duration(r.sc.DelayUs[m.tokStr()])*time.Microsecond)
		}
		if h := r.sc.HoldUs[k]; h > 0 {
			time.Sleep(time.Duration(h) * time.Microsecond)
		}
	} else if r.gated[k] {
		select {
		case <-r.gate[k]:
		case <-time.After(2 * stepWait):
		}
	}
	fails := b == "sendfail" || b == "failreply"
	r.emit("SendEnd", "c", c, "tgt", t, "b", b, "ok", !fails)
	r.mu.Lock()
	if !fails {
		r.lastOk = time.Now()
	}
	r.mu.Unlock()
	if o := r.once[k+"d"]; o != nil {
		o.Do(func() { close(r.done[k]) })
	}
	if fails {
		return errors.New("verif-sendfail " + k)
	}
	return nil
}

// ---- loop mode: the scheduler's own path around the servent -------------------------------------
//
// The command queue, the servent, its SendFunc (schedulerState.sendCommand) and the handler of
// incoming MESSAGE events (schedulerState.incomingMessageHandler, which feeds ProcessResponse) are
// the real ones, wired by core/task.VerifCommandLoop around OUR Mesos caller. The caller is the
// master + agent + executor: it answers a MESSAGE call as scripted and puts the executor's reply on
// the event stream; ONE goroutine hands the events of the stream to the handler, one after the
// other, as the mesos-go controller loop does.

// loopWire is set (build tag c12loop) to core/task.VerifCommandLoop.
var loopWire func(cli calls.Caller) (*controlcommands.CommandQueue, events.HandlerFunc)

func (r *run) wireLoop() {
	if loopWire == nil {
		r.failed = "loop mode needs the build tag c12loop (core/task.VerifCommandLoop)"
		return
	}
	r.evCh = make(chan *scheduler.Event, 4096)
	q, handler := loopWire(calls.CallerFunc(r.masterCall))
	for _, name := range r.sc.Qof {
		r.queues[name] = q
	}
	go func() {
		for e := range r.evCh {
			_ = handler(context.Background(), e)
		}
	}()
}

// masterCall is the Mesos master as seen by the scheduler's caller.
func (r *run) masterCall(ctx context.Context, call *scheduler.Call) (mesos.Response, error) {
	msg := call.GetMessage()
	if msg == nil {
		return nil, nil
	}
	var head struct {
		Name       string                               `json:"name"`
		Id         xid.ID                               `json:"id"`
		TargetList []controlcommands.MesosCommandTarget `json:"targetList"`
	}
	c, t := "?", "?"
	if err := json.Unmarshal(msg.GetData(), &head); err == nil {
		if n, ok := r.idName[head.Id]; ok {
			c = n
		}
		if len(head.TargetList) == 1 {
			if n, ok := r.tname[head.TargetList[0]]; ok {
				t = n
			}
		}
	}
	k := key(c, t)
	b := r.sc.Beh[k]
	single := len(head.TargetList) == 1 && msg.GetAgentID().Value == "agent-"+t && msg.GetExecutorID().Value == "exec-"+t
	r.emit("SendBegin", "c", c, "tgt", t, "b", b, "single", single)
	fails := b == "sendfail" || b == "failreply"
	for _, m := range r.sc.Msgs[k] { // the executor got the command and answers
		r.emitEvent(head.Name, m)
	}
	if h := r.sc.HoldUs[k]; h > 0 { // the HTTP response of the call takes its time (and may be lost)
		time.Sleep(time.Duration(h) * time.Microsecond)
	}
	r.emit("SendEnd", "c", c, "tgt", t, "b", b, "ok", !fails)
	r.mu.Lock()
	if !fails {
		r.lastOk = time.Now()
	}
	r.mu.Unlock()
	if fails {
		return nil, errors.New("verif-sendfail " + k)
	}
	return nil, nil
}

// emitEvent puts the executor's reply on the event stream.
func (r *run) emitEvent(cmdName string, m Msg) {
	res, sender := r.reply(m)
	var data []byte
	if cmdName == "MesosCommand_TriggerHook" {
		hr := &controlcommands.MesosCommandResponse_TriggerHook{MesosCommandResponseBase: res.MesosCommandResponseBase, TaskId: res.TaskId}
		hr.CommandName = cmdName
		data, _ = json.Marshal(hr)
	} else {
		data, _ = json.Marshal(res)
	}
	r.emit("EvEmit", "m", r.msgJSON(m))
	r.evCh <- &scheduler.Event{Type: scheduler.Event_MESSAGE, Message: &scheduler.Event_Message{
		AgentID: sender.AgentId, ExecutorID: sender.ExecutorId, Data: data}}
}

// reply builds the response a target would send.
func (r *run) reply(m Msg) (*controlcommands.MesosCommandResponse_Transition, controlcommands.MesosCommandTarget) {
	sender := r.targets[m.Snd]
	id, ok := r.ids[m.ID]
	if !ok {
		id = r.ids["cx"]
	}
	errStr := ""
	if m.Err {
		errStr = "verif-reply-error " + m.tokStr()
	}
	res := &controlcommands.MesosCommandResponse_Transition{
		MesosCommandResponseBase: controlcommands.MesosCommandResponseBase{
			CommandName: "MesosCommand_Transition", CommandId: id, ErrorString: errStr, MessageType: "MesosCommandResponse",
		},
		CurrentState: m.tokStr(),
		TaskId:       sender.TaskId.Value,
	}
	return res, sender
}

func (r *run) msgJSON(m Msg) map[string]interface{} {
	return map[string]interface{}{"id": m.ID, "snd": m.Snd, "tok": m.Tok, "err": m.Err}
}

// inject calls the real ProcessResponse on its own goroutine (as the scheduler does).
func (r *run) inject(m Msg, delay time.Duration) chan struct{} {
	ret := make(chan struct{})
	tok := m.tokStr()
	r.prMu.Lock()
	r.prWG[tok] = ret
	r.prMu.Unlock()
	r.wg.Add(1)
	called := make(chan struct{})
	go func() {
		defer r.wg.Done()
		if delay > 0 {
			time.Sleep(delay)
		}
		res, sender := r.reply(m)
		// a reply whose call cannot be pending (no such call, or its command's callback value was
		// already received) must be dropped: its ProcessResponse gets a longer deadline at the end
		isCall := false
		for _, t := range r.sc.Tg[m.ID] {
			if t == m.Snd {
				isCall = true
			}
		}
		r.mu.Lock()
		must := !isCall || r.cbN[m.ID] >= 1
		r.mu.Unlock()
		r.prMu.Lock()
		r.prOpen[tok] = true
		if must {
			r.mustRet[tok] = true
		}
		r.prMu.Unlock()
		r.emit("PRCall", "m", r.msgJSON(m))
		close(called)
		go func() {
			r.servent.ProcessResponse(res, sender)
			r.prMu.Lock()
			delete(r.prOpen, tok)
			r.prMu.Unlock()
			r.emit("PRRet", "m", r.msgJSON(m))
			close(ret)
		}()
	}()
	if delay == 0 {
		<-called
	}
	return ret
}

// describe turns one per-target response into recorded facts.
func (r *run) describe(c string, t string, resp controlcommands.MesosCommandResponse) (map[string]interface{}, bool) {
	e := map[string]interface{}{"t": t, "k": "other", "m": noMsg, "who": []interface{}{}}
	if resp == nil {
		e["k"] = "nilentry"
		return e, false
	}
	idok := resp.GetCommandId() == r.ids[c]
	switch v := resp.(type) {
	case *controlcommands.MesosCommandResponse_Transition:
		if v == nil {
			e["k"] = "nilentry"
			return e, false
		}
		m, ok := r.msgs[v.CurrentState]
		idn, okid := r.idName[v.CommandId]
		if !okid {
			idn = "?"
		}
		if ok {
			snd := r.taskT[v.TaskId]
			if snd == "" {
				snd = "?"
			}
			e["k"] = "reply"
			e["m"] = map[string]interface{}{"id": idn, "snd": snd, "tok": m.Tok, "err": v.Err() != nil}
		}
		// a reply's id is whatever the reply carries: judged by the monitor (e.m.id = c)
		idok = true
	case *controlcommands.MesosCommandResponse_TriggerHook:
		if v == nil {
			e["k"] = "nilentry"
			return e, false
		}
		// a hook reply carries no payload but (command id, task id): its token is (command, task, 1)
		idn, okid := r.idName[v.CommandId]
		snd := r.taskT[v.TaskId]
		if m, ok := r.msgs[idn+"."+snd+".1"]; ok && okid {
			e["k"] = "reply"
			e["m"] = map[string]interface{}{"id": idn, "snd": snd, "tok": m.Tok, "err": v.Err() != nil}
		}
		idok = true
	case *controlcommands.MesosCommandResponseBase:
		if v == nil {
			e["k"] = "nilentry"
			return e, false
		}
		s := v.ErrorString
		switch {
		case strings.HasPrefix(s, "verif-sendfail "):
			e["k"] = "senderr"
			parts := strings.SplitN(strings.TrimPrefix(s, "verif-sendfail "), "/", 2)
			if len(parts) == 2 {
				e["who"] = []interface{}{parts[0], parts[1]}
			}
		case strings.Contains(s, " timed out for task "):
			e["k"] = "timeout"
			task := s[strings.Index(s, " timed out for task ")+len(" timed out for task "):]
			who := r.taskT[task]
			if who == "" {
				who = "?"
			}
			e["who"] = []interface{}{c, who}
			if !strings.HasPrefix(s, "MesosCommand_Transition ") && !strings.HasPrefix(s, "MesosCommand_TriggerHook ") {
				e["k"] = "other"
			}
		default:
			e["s"] = s
		}
	default:
		e["s"] = fmt.Sprintf("%T", resp)
	}
	return e, idok
}

// errEntry turns one error of the consumer's view (Errors() / Err()) into recorded facts.
func (r *run) errEntry(c string, keyName string, text string) map[string]interface{} {
	e := map[string]interface{}{"t": keyName, "k": "other", "tok": []interface{}{}, "who": []interface{}{}}
	switch {
	case strings.HasPrefix(text, "verif-sendfail "):
		e["k"] = "senderr"
		parts := strings.SplitN(strings.TrimPrefix(text, "verif-sendfail "), "/", 2)
		if len(parts) == 2 {
			e["who"] = []interface{}{parts[0], parts[1]}
		}
	case strings.HasPrefix(text, "MesosCommand_Transition timed out for task "), strings.HasPrefix(text, "MesosCommand_TriggerHook timed out for task "):
		e["k"] = "timeout"
		who := r.taskT[text[strings.Index(text, " timed out for task ")+len(" timed out for task "):]]
		if who == "" {
			who = "?"
		}
		e["who"] = []interface{}{c, who}
	case strings.HasPrefix(text, "verif-reply-error "):
		if m, ok := r.msgs[strings.TrimPrefix(text, "verif-reply-error ")]; ok {
			e["k"] = "replyerr"
			e["tok"] = m.Tok
		}
	default:
		e["s"] = text
	}
	return e
}

// consumerView records the result the way its consumers (core/task Manager.transitionTasks /
// configureTasks) read it: for a multi-response the per-target error map Errors() and the targets
// named by Err(); for a single response Err().
func (r *run) consumerView(c string, kind string, resp controlcommands.MesosCommandResponse) ([]interface{}, []string) {
	errs := make([]interface{}, 0)
	tasks := make([]string, 0)
	if resp == nil {
		return errs, tasks
	}
	if kind == "multi" {
		m := resp.Errors()
		type kv struct {
			n string
			e map[string]interface{}
		}
		l := make([]kv, 0, len(m))
		for tg, err := range m {
			n, ok := r.tname[tg]
			if !ok {
				n = "?"
				if tg == (controlcommands.MesosCommandTarget{}) {
					n = "-"
				}
			}
			txt := ""
			if err != nil {
				txt = err.Error()
			}
			l = append(l, kv{n, r.errEntry(c, n, txt)})
		}
		sort.Slice(l, func(i, j int) bool { return l[i].n < l[j].n })
		for _, x := range l {
			errs = append(errs, x.e)
		}
		if err := resp.Err(); err != nil {
			for _, line := range strings.Split(err.Error(), "\n") {
				if strings.HasPrefix(line, "[task ") && strings.Contains(line, "] ") {
					task := line[len("[task "):strings.Index(line, "] ")]
					n := r.taskT[task]
					if n == "" {
						n = "?"
					}
					tasks = append(tasks, n)
				}
			}
			sort.Strings(tasks)
		}
		return errs, tasks
	}
	if err := resp.Err(); err != nil {
		t := "?"
		if ts := r.sc.Tg[c]; len(ts) == 1 {
			t = ts[0]
		}
		errs = append(errs, r.errEntry(c, t, err.Error()))
	}
	return errs, tasks
}

// collector records every value that arrives on c's callback channel.
func (r *run) collector(c string) {
	for resp := range r.cbCh[c] {
		res := make([]interface{}, 0, 3)
		kind := "nil"
		idok := true
		if resp != nil {
			if mr, ok := resp.(*controlcommands.MesosCommandMultiResponse); ok && resp.IsMultiResponse() {
				kind = "multi"
				idok = resp.GetCommandId() == r.ids[c]
				m := mr.GetResponses()
				names := make([]string, 0, len(m))
				byName := map[string]controlcommands.MesosCommandResponse{}
				for tg, v := range m {
					n, ok := r.tname[tg]
					if !ok {
						n = "?"
					}
					names = append(names, n)
					byName[n] = v
				}
				sort.Strings(names)
				for _, n := range names {
					e, ok := r.describe(c, n, byName[n])
					idok = idok && ok
					res = append(res, e)
				}
			} else {
				kind = "single"
				t := "?"
				if ts := r.sc.Tg[c]; len(ts) == 1 {
					t = ts[0]
				} else if tr, ok := resp.(*controlcommands.MesosCommandResponse_Transition); ok && tr != nil {
					if n := r.taskT[tr.TaskId]; n != "" {
						t = n
					}
				}
				e, ok := r.describe(c, t, resp)
				idok = ok
				res = append(res, e)
			}
		}
		r.mu.Lock()
		r.cbN[c]++
		n := r.cbN[c]
		r.mu.Unlock()
		errs, errtasks := r.consumerView(c, kind, resp)
		rec := map[string]interface{}{"c": c, "kind": kind, "res": res, "errs": errs}
		r.emit("Callback", "c", c, "n", n, "kind", kind, "res", res, "idok", idok, "errs", errs, "errtasks", errtasks)
		if n == 1 {
			r.mu.Lock()
			r.first[c] = rec
			r.mu.Unlock()
			close(r.cbGot[c])
		}
	}
}

func (r *run) enqueue(c string) {
	cmd, ok := r.cmds[c]
	if !ok {
		r.failed = "unknown command " + c
		return
	}
	go r.collector(c)
	// recorded before the call: the queue goroutine may run the command before Enqueue returns
	r.emit("Enqueue", "c", c, "ok", true)
	r.enq = append(r.enq, c)
	if err := r.queues[r.sc.Qof[c]].Enqueue(cmd, r.cbCh[c]); err != nil {
		r.failed = "Enqueue refused: " + err.Error()
	}
}

func wait(ch chan struct{}, d time.Duration) bool {
	select {
	case <-ch:
		return true
	case <-time.After(d):
		return false
	}
}

func (r *run) sched() {
	for _, st := range r.sc.Steps {
		k := key(st.C, st.T)
		if st.AtMs > 0 {
			if d := time.Until(r.start.Add(time.Duration(st.AtMs) * time.Millisecond)); d > 0 {
				time.Sleep(d)
			}
		}
		switch st.A {
		case "Enqueue":
			r.enqueue(st.C)
		case "SendBegin":
			if ch, ok := r.seen[k]; !ok || !wait(ch, stepWait) {
				return // the implementation did not get there: the rest cannot be imposed
			}
			if !r.gated[k] && !wait(r.done[k], stepWait) {
				return
			}
		case "SendEnd":
			r.once[k+"g"].Do(func() { close(r.gate[k]) })
			if !wait(r.done[k], stepWait) {
				return
			}
			if len(st.Tok) > 0 {
				// the reply that arrived while SendFunc was held is handed over now: let its
				// ProcessResponse return before the next reply is injected
				r.prMu.Lock()
				ch := r.prWG[Msg{Tok: st.Tok}.tokStr()]
				r.prMu.Unlock()
				if ch != nil && !wait(ch, stepWait) {
					return
				}
			}
		case "PRecv":
			m, ok := r.msgs[Msg{Tok: st.Tok}.tokStr()]
			if !ok {
				r.failed = "unknown message"
				return
			}
			ret := r.inject(m, 0)
			if st.Ret {
				if !wait(ret, stepWait) {
					return
				}
			} else {
				r.noWait[m.tokStr()] = true
				// predicted to block in ProcessResponse (the call is inside SendFunc): give the lookup
				// time to happen; only conformance (never a verdict) depends on this
				time.Sleep(10 * time.Millisecond)
			}
		case "Deliver":
			if ch, ok := r.cbGot[st.C]; !ok || !wait(ch, r.timeout+stepWait) {
				return
			}
		}
	}
}

func (r *run) free() {
	for _, c := range r.sc.Order {
		d := time.Duration(r.sc.EnqUs[c]) * time.Microsecond
		if d > 0 {
			time.Sleep(d)
		}
		r.enqueue(c)
	}
}

// finish: release everything, wait until nothing more can happen, record the end facts.
func (r *run) finish() {
	for k, g := range r.gate {
		g := g
		r.once[k+"g"].Do(func() { close(g) })
	}
	// every enqueued command must complete: wait for the first callback value of each
	for _, c := range r.enq {
		wait(r.cbGot[c], r.timeout+4*time.Second)
	}
	// grace: no response timer can still be running, scripted replies have all been injected
	r.mu.Lock()
	until := r.lastOk.Add(r.timeout + 60*time.Millisecond)
	r.mu.Unlock()
	if d := time.Until(until); d > 0 {
		time.Sleep(d)
	}
	r.wg.Wait()
	time.Sleep(40 * time.Millisecond)
	// ProcessResponse calls that are expected to return get a generous deadline
	r.prMu.Lock()
	open := make([]chan struct{}, 0)
	for tok := range r.prOpen {
		if !r.noWait[tok] {
			open = append(open, r.prWG[tok])
		}
	}
	r.prMu.Unlock()
	if len(open) > 0 {
		deadline := time.After(1500 * time.Millisecond)
	loop:
		for _, ch := range open {
			select {
			case <-ch:
			case <-deadline:
				break loop
			}
		}
	}
	// second chance (never needed on a correct tree): replies that must be dropped
	r.prMu.Lock()
	must := make([]chan struct{}, 0)
	for tok := range r.prOpen {
		if r.mustRet[tok] {
			must = append(must, r.prWG[tok])
		}
	}
	r.prMu.Unlock()
	if len(must) > 0 {
		deadline := time.After(4 * time.Second)
	loop2:
		for _, ch := range must {
			select {
			case <-ch:
			case <-deadline:
				break loop2
			}
		}
	}
	r.prMu.Lock()
	stuck := make([]interface{}, 0)
	toks := make([]string, 0)
	for tok := range r.prOpen {
		toks = append(toks, tok)
	}
	r.prMu.Unlock()
	sort.Strings(toks)
	for _, tok := range toks {
		stuck = append(stuck, r.msgs[tok].Tok)
	}
	r.mu.Lock()
	ncb := map[string]int{}
	for _, c := range r.enq {
		ncb[c] = r.cbN[c]
	}
	r.mu.Unlock()
	enq := make([]string, 0)
	enq = append(enq, r.enq...)
	r.emit("End", "ncb", ncb, "enq", enq, "stuck", stuck, "failed", r.failed)
	for _, q := range r.queues {
		go q.Stop() // (Stop waits for a commit in progress: never wait for it here)
	}
}

// lines returns the run's trace: a Reset line (carrying, besides the shape, the recorded first
// callback values and the never-returned ProcessResponse calls - facts the trace specification
// uses to resolve the reply/timer race) followed by the recorded lines.
func (r *run) lines() []map[string]interface{} {
	r.mu.Lock()
	defer r.mu.Unlock()
	proph := make([]interface{}, 0)
	cs := make([]string, 0)
	for c := range r.first {
		cs = append(cs, c)
	}
	sort.Strings(cs)
	for _, c := range cs {
		proph = append(proph, r.first[c])
	}
	var stuck interface{} = []interface{}{}
	for _, e := range r.events {
		if e["ev"] == "End" {
			stuck = e["stuck"]
		}
	}
	tg := map[string]interface{}{}
	for c, ts := range r.sc.Tg {
		l := make([]string, 0)
		l = append(l, ts...)
		tg[c] = l
	}
	reset := map[string]interface{}{"ev": "Reset", "scn": r.sc.ID, "mode": r.sc.Mode, "tg": tg, "qof": r.sc.Qof,
		"to": r.sc.ToMs, "proph": proph, "stuck": stuck}
	out := make([]map[string]interface{}, 0, len(r.events)+1)
	out = append(out, reset)
	for _, e := range r.events {
		out = append(out, e)
		if e["ev"] == "End" {
			break // (a ProcessResponse returning later than the end facts is not part of the run)
		}
	}
	return out
}

func runScenario(sc *Scenario) []map[string]interface{} {
	r := newRun(sc)
	r.start = time.Now()
	r.lastOk = r.start
	if sc.Mode == "free" {
		r.free()
	} else {
		r.sched()
	}
	r.finish()
	return r.lines()
}

func main() {
	in := flag.String("scenarios", "", "NDJSON scenarios")
	out := flag.String("trace", "", "NDJSON trace output")
	par := flag.Int("par", 24, "scenarios run concurrently (each on its own Servent and queues)")
	flag.Parse()
	logrus.SetOutput(io.Discard)
	logrus.SetLevel(logrus.PanicLevel)
	f, err := os.Open(*in)
	if err != nil {
		fmt.Fprintln(os.Stderr, err)
		os.Exit(2)
	}
	rec, err := vtrace.New(*out)
	if err != nil {
		fmt.Fprintln(os.Stderr, err)
		os.Exit(2)
	}
	scs := make([]*Scenario, 0)
	sc := bufio.NewScanner(f)
	sc.Buffer(make([]byte, 1<<20), 1<<26)
	for sc.Scan() {
		if len(strings.TrimSpace(sc.Text())) == 0 {
			continue
		}
		s := &Scenario{}
		if err := json.Unmarshal(sc.Bytes(), s); err != nil {
			fmt.Fprintln(os.Stderr, "bad scenario:", err)
			os.Exit(2)
		}
		scs = append(scs, s)
	}
	results := make([][]map[string]interface{}, len(scs))
	sem := make(chan struct{}, *par)
	var wg sync.WaitGroup
	for i := range scs {
		wg.Add(1)
		sem <- struct{}{}
		go func(i int) {
			defer wg.Done()
			defer func() { <-sem }()
			results[i] = runScenario(scs[i])
		}(i)
	}
	wg.Wait()
	for _, ls := range results {
		for _, m := range ls {
			ev := m["ev"].(string)
			rec.EmitMap(ev, m)
		}
	}
	if err := rec.Close(); err != nil {
		fmt.Fprintln(os.Stderr, err)
		os.Exit(2)
	}
	fmt.Printf("scenarios=%d lines=%d\n", len(scs), rec.Lines())
}
