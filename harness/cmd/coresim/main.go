// Command coresim runs the real AliECS core against the simulated Mesos master / executors /
// Consul of package coresim and drives it through its real gRPC API.
package main

import (
	"bufio"
	"context"
	"encoding/json"
	"flag"
	"fmt"
	"os"
	"strings"
	"time"

	pb "github.com/AliceO2Group/Control/core/protos"

	"verif/harness/coresim"
	"verif/harness/vtrace"
)

func main() {
	mode := flag.String("mode", "smoke", "smoke | core | <family>")
	work := flag.String("work", "", "work directory")
	verbose := flag.Bool("v", false, "core logs on stderr")
	scenarios := flag.String("scenarios", "", "NDJSON scenarios (one batch sharing a core configuration)")
	trace := flag.String("trace", "", "NDJSON trace output")
	flag.Parse()
	if *mode == "core" {
		coresim.CoreMain(flag.Args())
		return
	}
	if *work == "" {
		fmt.Fprintln(os.Stderr, "need -work")
		os.Exit(2)
	}
	switch *mode {
	case "run":
		run(*work, *scenarios, *trace, !*verbose)
	case "smoke":
		smoke(*work, !*verbose)
	default:
		fmt.Fprintln(os.Stderr, "unknown mode")
		os.Exit(2)
	}
}

func smoke(work string, quiet bool) {
	os.MkdirAll(work+"/wd/repos", 0o755)
	repo, err := coresim.WriteRepo(work, map[string]string{
		"tasks/sleeper.yaml": "name: sleeper\ncontrol:\n  mode: basic\nwants:\n  cpu: 0.1\n  memory: 64\ncommand:\n  shell: true\n  value: \"sleep 1000\"\n",
		"workflows/wf.yaml":  "name: wf\nroles:\n  - name: \"t1\"\n    task:\n      load: sleeper\n  - name: \"t2\"\n    task:\n      load: sleeper\n",
	})
	must(err)
	consul, err := coresim.NewConsul()
	must(err)
	consul.Put("o2/components/aliecs/ANY/any/settings", "defaultRepo: "+repo+"\nenableKafka: false\n")
	master, err := coresim.NewMaster([]*coresim.Agent{{ID: "agent-1", Host: "host1", Attrs: map[string]string{"machine_id": "host1"}, CPUs: 8, Mem: 8192, Ports: [][2]uint64{{9000, 9100}, {30000, 30100}}}})
	must(err)
	master.Rec = func(ev string, kv ...interface{}) { fmt.Println("REC", ev, kv) }
	opts := &coresim.CoreOpts{WorkDir: work + "/wd", ConsulAddr: consul.Addr(), MesosURL: master.URL(), ControlPort: coresim.FreePort(), MetricsPort: coresim.FreePort()}
	t0 := time.Now()
	must(coresim.RunCoreInProcess(opts, quiet))
	fmt.Println("core up in", time.Since(t0))
	cl, conn, err := coresim.Dial(opts.ControlPort)
	must(err)
	defer conn.Close()
	ctx := context.Background()
	t0 = time.Now()
	rep, err := cl.NewEnvironment(ctx, &pb.NewEnvironmentRequest{WorkflowTemplate: "wf", Vars: map[string]string{}})
	fmt.Println("NewEnvironment:", time.Since(t0), rep, err)
	if err != nil {
		os.Exit(1)
	}
	id := rep.Environment.Id
	for _, op := range []pb.ControlEnvironmentRequest_Optype{pb.ControlEnvironmentRequest_START_ACTIVITY, pb.ControlEnvironmentRequest_STOP_ACTIVITY} {
		t0 = time.Now()
		r, err := cl.ControlEnvironment(ctx, &pb.ControlEnvironmentRequest{Id: id, Type: op})
		fmt.Println(op, time.Since(t0), r, err)
	}
	t0 = time.Now()
	d, err := cl.DestroyEnvironment(ctx, &pb.DestroyEnvironmentRequest{Id: id})
	fmt.Println("Destroy", time.Since(t0), d, err)
}

func run(work, scnFile, traceFile string, quiet bool) {
	f, err := os.Open(scnFile)
	must(err)
	sc := bufio.NewScanner(f)
	sc.Buffer(make([]byte, 1<<20), 1<<27)
	batch := []*coresim.Scenario{}
	for sc.Scan() {
		if len(strings.TrimSpace(sc.Text())) == 0 {
			continue
		}
		s := &coresim.Scenario{}
		must(json.Unmarshal(sc.Bytes(), s))
		batch = append(batch, s)
	}
	if len(batch) == 0 {
		fmt.Println("scenarios=0")
		return
	}
	rec, err := vtrace.New(traceFile)
	must(err)
	self, _ := os.Executable()
	r, err := coresim.NewRunner(work, rec, batch, self, quiet)
	must(err)
	done, skipped, taintedBy := 0, []int{}, -1
	for _, s := range batch {
		if r.Tainted() {
			skipped = append(skipped, s.ID)
			continue
		}
		r.Run(s)
		done++
		if r.Tainted() {
			taintedBy = s.ID
		}
	}
	must(rec.Close())
	r.Close()
	sk, _ := json.Marshal(skipped)
	fmt.Printf("scenarios=%d lines=%d tainted=%v taintedby=%d skipped=%s\n", done, rec.Lines(), r.Tainted(), taintedBy, sk)
	os.Exit(0)
}

func must(err error) {
	if err != nil {
		fmt.Fprintln(os.Stderr, "FATAL:", err)
		os.Exit(2)
	}
}
