module verif/harness

go 1.22

toolchain go1.22.2

require (
	github.com/AliceO2Group/Control v0.0.0
	github.com/mesos/mesos-go v0.0.11
	github.com/rs/xid v1.5.0
	github.com/segmentio/kafka-go v0.4.47
	github.com/sirupsen/logrus v1.9.3
	github.com/spf13/viper v1.18.2
	google.golang.org/grpc v1.62.1
	google.golang.org/protobuf v1.34.1
	gopkg.in/yaml.v3 v3.0.1
)

require (
	dario.cat/mergo v1.0.1 // indirect
	github.com/KyleBanks/depth v1.2.1 // indirect
	github.com/ProtonMail/go-crypto v1.1.3 // indirect
	github.com/armon/go-metrics v0.5.3 // indirect
	github.com/beorn7/perks v1.0.1 // indirect
	github.com/cespare/xxhash/v2 v2.2.0 // indirect
	github.com/cloudflare/circl v1.3.7 // indirect
	github.com/cyphar/filepath-securejoin v0.2.5 // indirect
	github.com/denisbrodbeck/machineid v1.0.1 // indirect
	github.com/emirpasic/gods v1.18.1 // indirect
	github.com/expr-lang/expr v1.17.0 // indirect
	github.com/fatih/color v1.16.0 // indirect
	github.com/flosch/pongo2/v6 v6.0.0 // indirect
	github.com/fsnotify/fsnotify v1.7.0 // indirect
	github.com/go-git/gcfg v1.5.1-0.20230307220236-3a3c6141e376 // indirect
	github.com/go-git/go-billy/v5 v5.6.0 // indirect
	github.com/go-git/go-git/v5 v5.13.0 // indirect
	github.com/go-openapi/jsonpointer v0.21.0 // indirect
	github.com/go-openapi/jsonreference v0.21.0 // indirect
	github.com/go-openapi/spec v0.21.0 // indirect
	github.com/go-openapi/swag v0.23.0 // indirect
	github.com/gobwas/glob v0.2.3 // indirect
	github.com/gogo/protobuf v1.3.2 // indirect
	github.com/golang/groupcache v0.0.0-20210331224755-41bb18bfe9da // indirect
	github.com/golang/protobuf v1.5.4 // indirect
	github.com/google/uuid v1.6.0 // indirect
	github.com/gorilla/mux v1.8.1 // indirect
	github.com/hashicorp/consul/api v1.28.2 // indirect
	github.com/hashicorp/errwrap v1.1.0 // indirect
	github.com/hashicorp/go-cleanhttp v0.5.2 // indirect
	github.com/hashicorp/go-hclog v1.6.2 // indirect
	github.com/hashicorp/go-immutable-radix v1.3.1 // indirect
	github.com/hashicorp/go-multierror v1.1.1 // indirect
	github.com/hashicorp/go-rootcerts v1.0.2 // indirect
	github.com/hashicorp/golang-lru v1.0.2 // indirect
	github.com/hashicorp/hcl v1.0.0 // indirect
	github.com/hashicorp/serf v0.10.1 // indirect
	github.com/iancoleman/strcase v0.3.0 // indirect
	github.com/jbenet/go-context v0.0.0-20150711004518-d14ea06fba99 // indirect
	github.com/jinzhu/copier v0.4.0 // indirect
	github.com/josharian/intern v1.0.0 // indirect
	github.com/k0kubun/pp v3.0.1+incompatible // indirect
	github.com/kevinburke/ssh_config v1.2.0 // indirect
	github.com/klauspost/compress v1.17.7 // indirect
	github.com/looplab/fsm v1.0.1 // indirect
	github.com/magiconair/properties v1.8.7 // indirect
	github.com/mailru/easyjson v0.7.7 // indirect
	github.com/mattn/go-colorable v0.1.13 // indirect
	github.com/mattn/go-isatty v0.0.20 // indirect
	github.com/mitchellh/mapstructure v1.5.0 // indirect
	github.com/osamingo/base58 v1.0.0 // indirect
	github.com/osamingo/indigo v1.1.1 // indirect
	github.com/pborman/uuid v1.2.1 // indirect
	github.com/pelletier/go-toml/v2 v2.1.1 // indirect
	github.com/pierrec/lz4/v4 v4.1.21 // indirect
	github.com/pjbgf/sha1cd v0.3.0 // indirect
	github.com/pquerna/ffjson v0.0.0-20190930134022-aa0246cd15f7 // indirect
	github.com/prometheus/client_golang v1.19.0 // indirect
	github.com/prometheus/client_model v0.6.0 // indirect
	github.com/prometheus/common v0.50.0 // indirect
	github.com/prometheus/procfs v0.13.0 // indirect
	github.com/sagikazarmark/slog-shim v0.1.0 // indirect
	github.com/sergi/go-diff v1.3.2-0.20230802210424-5b0b94c5c0d3 // indirect
	github.com/skeema/knownhosts v1.3.0 // indirect
	github.com/sony/sonyflake v1.2.0 // indirect
	github.com/spf13/afero v1.11.0 // indirect
	github.com/spf13/cast v1.6.0 // indirect
	github.com/spf13/pflag v1.0.5 // indirect
	github.com/subosito/gotenv v1.6.0 // indirect
	github.com/swaggo/files/v2 v2.0.0 // indirect
	github.com/swaggo/http-swagger/v2 v2.0.2 // indirect
	github.com/swaggo/swag v1.16.3 // indirect
	github.com/valyala/bytebufferpool v1.0.0 // indirect
	github.com/valyala/fasttemplate v1.2.2 // indirect
	github.com/xanzy/ssh-agent v0.3.3 // indirect
	golang.org/x/crypto v0.31.0 // indirect
	golang.org/x/exp v0.0.0-20240719175910-8a7402abbf56 // indirect
	golang.org/x/net v0.33.0 // indirect
	golang.org/x/sys v0.28.0 // indirect
	golang.org/x/text v0.21.0 // indirect
	golang.org/x/tools v0.23.0 // indirect
	google.golang.org/genproto/googleapis/rpc v0.0.0-20240318140521-94a12d6c2237 // indirect
	gopkg.in/ini.v1 v1.67.0 // indirect
	gopkg.in/warnings.v0 v0.1.2 // indirect
)

replace github.com/AliceO2Group/Control => /repo

replace github.com/coreos/bbolt => go.etcd.io/bbolt v1.3.6

replace github.com/imdario/mergo => github.com/imdario/mergo v0.3.16

replace github.com/armon/go-metrics => github.com/hashicorp/go-metrics v0.5.3

replace github.com/codahale/hdrhistogram => github.com/HdrHistogram/hdrhistogram-go v1.0.1

replace github.com/pressly/chi => github.com/go-chi/chi v1.5.2
