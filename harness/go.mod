module verif/harness

go 1.22

toolchain go1.22.2

require (
	github.com/AliceO2Group/Control v0.0.0
	github.com/segmentio/kafka-go v0.4.47
	google.golang.org/protobuf v1.34.1
)

require (
	github.com/denisbrodbeck/machineid v1.0.1 // indirect
	github.com/fsnotify/fsnotify v1.7.0 // indirect
	github.com/gogo/protobuf v1.3.2 // indirect
	github.com/golang/protobuf v1.5.4 // indirect
	github.com/google/uuid v1.6.0 // indirect
	github.com/hashicorp/hcl v1.0.0 // indirect
	github.com/klauspost/compress v1.17.7 // indirect
	github.com/magiconair/properties v1.8.7 // indirect
	github.com/mesos/mesos-go v0.0.11 // indirect
	github.com/mitchellh/mapstructure v1.5.0 // indirect
	github.com/osamingo/base58 v1.0.0 // indirect
	github.com/osamingo/indigo v1.1.1 // indirect
	github.com/pborman/uuid v1.2.1 // indirect
	github.com/pelletier/go-toml/v2 v2.1.1 // indirect
	github.com/pierrec/lz4/v4 v4.1.21 // indirect
	github.com/pquerna/ffjson v0.0.0-20190930134022-aa0246cd15f7 // indirect
	github.com/rs/xid v1.5.0 // indirect
	github.com/sagikazarmark/slog-shim v0.1.0 // indirect
	github.com/sirupsen/logrus v1.9.3 // indirect
	github.com/sony/sonyflake v1.2.0 // indirect
	github.com/spf13/afero v1.11.0 // indirect
	github.com/spf13/cast v1.6.0 // indirect
	github.com/spf13/pflag v1.0.5 // indirect
	github.com/spf13/viper v1.18.2 // indirect
	github.com/subosito/gotenv v1.6.0 // indirect
	golang.org/x/net v0.33.0 // indirect
	golang.org/x/sys v0.28.0 // indirect
	golang.org/x/text v0.21.0 // indirect
	google.golang.org/genproto/googleapis/rpc v0.0.0-20240318140521-94a12d6c2237 // indirect
	google.golang.org/grpc v1.62.1 // indirect
	gopkg.in/ini.v1 v1.67.0 // indirect
	gopkg.in/yaml.v3 v3.0.1 // indirect
)

replace github.com/AliceO2Group/Control => /repo

replace github.com/coreos/bbolt => go.etcd.io/bbolt v1.3.6

replace github.com/imdario/mergo => github.com/imdario/mergo v0.3.16

replace github.com/armon/go-metrics => github.com/hashicorp/go-metrics v0.5.3

replace github.com/codahale/hdrhistogram => github.com/HdrHistogram/hdrhistogram-go v1.0.1

replace github.com/pressly/chi => github.com/go-chi/chi v1.5.2
