package coresim

import (
	"context"
	"encoding/json"
	"fmt"
	"os"
	"sort"
	"strings"
	"sync"
	"time"

	"github.com/AliceO2Group/Control/common/event"
	"github.com/AliceO2Group/Control/common/event/topic"
	evpb "github.com/AliceO2Group/Control/common/protos"
	"github.com/AliceO2Group/Control/common/verifhook"
	pb "github.com/AliceO2Group/Control/core/protos"
	"github.com/AliceO2Group/Control/core/the"
	"github.com/AliceO2Group/Control/core/workflow/callable"
	mesos "github.com/mesos/mesos-go/api/v1/lib"
	"google.golang.org/grpc/status"

	"verif/harness/vgate"
	"verif/harness/vtrace"
)

// ---- scenario schema (one JSON object per line) ---------------------------------------------

type Scenario struct {
	ID      int                      `json:"id"`
	Family  string                   `json:"family"`
	Agents  []*Agent                 `json:"agents"`
	Files   map[string]string        `json:"files"` // workflow repo files (relative path -> content)
	Core    CoreCfg                  `json:"core"`
	Scripts []ScriptRule             `json:"scripts"`
	Hooks   map[string]HookBehaviour `json:"hooks"` // behaviour of verif.Probe('<id>')
	Steps   []Step                   `json:"steps"`
	Model   json.RawMessage          `json:"model,omitempty"` // abstract description, echoed on the Reset line
}

type CoreCfg struct {
	Flags     []string `json:"flags,omitempty"`
	LatencyMs int      `json:"latency_ms,omitempty"`
	Child     bool     `json:"child,omitempty"`
}

// ScriptRule: behaviour of simulated tasks whose class name contains Class.
type ScriptRule struct {
	Class         string  `json:"class"`
	Event         string  `json:"event,omitempty"`   // transition event (CONFIGURE, START, STOP, RESET, EXIT) or "" = any
	Outcome       Outcome `json:"outcome,omitempty"` // answer to that transition
	Launch        string  `json:"launch,omitempty"`  // running | failed | silent
	Kill          string  `json:"kill,omitempty"`    // ack | silent
	HookExit      *int    `json:"hook_exit,omitempty"`
	HookVoluntary *bool   `json:"hook_voluntary,omitempty"`
	HookSilent    bool    `json:"hook_silent,omitempty"`
	// HookLateMs (with hook_silent): the hook process does end - that long after the trigger, i.e. after the core's hook
	// timeout - and the executor reports it (device event only, as the real executor does when a process exits)
	HookLateMs int `json:"hook_late_ms,omitempty"`
	// HookEarly: the hook process is so short-lived that its termination is reported BEFORE the trigger command is answered
	HookEarly bool `json:"hook_early,omitempty"`
	Times     int  `json:"times,omitempty"` // apply only the first N matches (0 = always)
	used      int
}

type HookBehaviour struct {
	Outcome string `json:"outcome"`        // ok | fail
	Gate    string `json:"gate,omitempty"` // park at gate "probe:<gate>" until released
	SleepMs int    `json:"sleep_ms,omitempty"`
	Text    string `json:"text,omitempty"` // the error text of a failing hook (default: names the hook)
	// FailTimes > 0: only the first FailTimes invocations of the hook in the scenario fail
	FailTimes int `json:"fail_times,omitempty"`
}

type Step struct {
	Do             string            `json:"do"`
	Caller         string            `json:"caller,omitempty"` // asynchronous call under this name; join with do=await
	ExpectTimeout  bool              `json:"expect_timeout,omitempty"`
	Env            string            `json:"env,omitempty"` // environment alias
	Wf             string            `json:"wf,omitempty"`
	Vars           map[string]string `json:"vars,omitempty"`
	Op             string            `json:"op,omitempty"`
	Force          bool              `json:"force,omitempty"`
	AllowInRunning bool              `json:"allow_in_running,omitempty"`
	KeepTasks      bool              `json:"keep_tasks,omitempty"`
	Kind           string            `json:"kind,omitempty"`  // fault kind
	Class          string            `json:"class,omitempty"` // victim task class (substring)
	Point          string            `json:"point,omitempty"` // gate point
	Match          map[string]string `json:"match,omitempty"` // gate only hook arrivals whose kv contain these values
	Until          []string          `json:"until,omitempty"` // poll: env states to wait for
	TimeoutMs      int               `json:"timeout_ms,omitempty"`
	Ms             int               `json:"ms,omitempty"`
	Rule           *ScriptRule       `json:"rule,omitempty"`
	Hook           string            `json:"hook,omitempty"`
	Behaviour      *HookBehaviour    `json:"behaviour,omitempty"`
	N              int               `json:"n,omitempty"`
}

// ---- runner ----------------------------------------------------------------------------------

type Runner struct {
	Work   string
	Rec    *vtrace.Recorder
	Consul *Consul
	Master *Master
	Sched  *vgate.Sched
	Opts   *CoreOpts
	Client pb.ControlClient
	Self   string
	child  *ChildCore

	mu          sync.Mutex
	ungated     map[string]bool // gates removed by the scenario: late arrivals pass
	hookN       map[string]int  // invocations of each probe hook in the current scenario
	hookStarted map[string]int  // probe hooks whose function has begun to execute in the current scenario (step waithook)
	scn         *Scenario
	envAlias    map[string]string // real env id -> alias
	aliasEnv    map[string]string // alias -> real id
	taskAlias   map[string]string
	taskN       int
	calls       map[string]chan struct{}
	matchers    map[string]map[string]string
	tainted     bool
	buf         []map[string]interface{}
	quietUntil  time.Time
	roster      map[string]chan struct{}
}

// rosterSeen / waitRoster: the simulated agent reports TASK_RUNNING only once the core has written
// the task to its roster (in a real cluster starting an executor takes far longer than that).
func (r *Runner) rosterSeen(id string) {
	r.mu.Lock()
	if r.roster == nil {
		r.roster = map[string]chan struct{}{}
	}
	ch, ok := r.roster[id]
	if !ok {
		ch = make(chan struct{})
		r.roster[id] = ch
	}
	select {
	case <-ch:
	default:
		close(ch)
	}
	r.mu.Unlock()
}

func (r *Runner) waitRoster(id string) {
	r.mu.Lock()
	if r.roster == nil {
		r.roster = map[string]chan struct{}{}
	}
	ch, ok := r.roster[id]
	if !ok {
		ch = make(chan struct{})
		r.roster[id] = ch
	}
	r.mu.Unlock()
	select {
	case <-ch:
	case <-time.After(3 * time.Second):
	}
}

// emit records an event of the current scenario, mapping real ids to aliases.
func (r *Runner) emit(ev string, kv ...interface{}) {
	m := make(map[string]interface{}, len(kv)/2+3)
	for i := 0; i+1 < len(kv); i += 2 {
		m[fmt.Sprint(kv[i])] = kv[i+1]
	}
	r.mu.Lock()
	scn := -1
	if r.scn != nil {
		scn = r.scn.ID
	}
	for _, k := range []string{"env"} {
		if v, ok := m[k].(string); ok && v != "" {
			if a, ok := r.envAlias[v]; ok {
				m[k] = a
			}
		}
	}
	if v, ok := m["task"].(string); ok && v != "" {
		m["task"] = r.taskAliasLocked(v)
	}
	if ev == "MAccept" {
		if l, ok := m["tasks"].([]map[string]interface{}); ok {
			for _, x := range l {
				if v, ok := x["task"].(string); ok {
					x["task"] = r.taskAliasLocked(v)
				}
				if v, ok := x["env"].(string); ok {
					if a, ok := r.envAlias[v]; ok {
						x["env"] = a
					}
				}
			}
		}
	}
	r.mu.Unlock()
	m["scn"] = scn
	r.Rec.EmitMap(ev, m)
}

func (r *Runner) taskAliasLocked(id string) string {
	if a, ok := r.taskAlias[id]; ok {
		return a
	}
	r.taskN++
	a := fmt.Sprintf("k%d", r.taskN)
	r.taskAlias[id] = a
	return a
}

func (r *Runner) TaskAlias(id string) string {
	r.mu.Lock()
	defer r.mu.Unlock()
	return r.taskAliasLocked(id)
}

func (r *Runner) learnEnv(id, alias string) {
	if id == "" || alias == "" {
		return
	}
	r.mu.Lock()
	r.envAlias[id] = alias
	r.aliasEnv[alias] = id
	r.mu.Unlock()
}

func (r *Runner) envID(alias string) string {
	r.mu.Lock()
	defer r.mu.Unlock()
	if id, ok := r.aliasEnv[alias]; ok {
		return id
	}
	return alias
}

// captureWriter records the events the core publishes (Kafka boundary).
type captureWriter struct {
	r *Runner
	t topic.Topic
}

func (w *captureWriter) WriteEvent(e interface{}) { w.WriteEventWithTimestamp(e, time.Now()) }
func (w *captureWriter) Close()                   {}
func (w *captureWriter) WriteEventWithTimestamp(e interface{}, ts time.Time) {
	switch x := e.(type) {
	case *evpb.Ev_EnvironmentEvent:
		w.r.emit("EnvEv", "env", x.EnvironmentId, "st", x.State, "tx", x.Transition, "step", x.TransitionStep, "msg", x.Message,
			"err", x.Error != "", "errtext", trunc(x.Error, 200), "rn", x.RunNumber)
	case *evpb.Ev_RunEvent:
		w.r.emit("RunEv", "env", x.EnvironmentId, "rn", x.RunNumber, "st", x.State, "tx", x.Transition, "status", x.TransitionStatus.String(),
			"ts", ts.UnixMilli())
	case *evpb.Ev_CallEvent:
		w.r.emit("CallEv", "env", x.EnvironmentId, "func", x.Func, "status", x.CallStatus.String(), "path", x.Path, "err", x.Error != "")
	}
}

func trunc(s string, n int) string {
	if len(s) > n {
		return s[:n]
	}
	return s
}

var _ event.Writer = (*captureWriter)(nil)

// NewRunner boots the fakes and the core (in-process unless child) for a batch of scenarios that
// share the same core configuration. All workflow files of the batch are written up front.
func NewRunner(work string, rec *vtrace.Recorder, batch []*Scenario, self string, quiet bool) (*Runner, error) {
	r := &Runner{Work: work, Rec: rec, Self: self, envAlias: map[string]string{}, aliasEnv: map[string]string{}, taskAlias: map[string]string{},
		calls: map[string]chan struct{}{}, matchers: map[string]map[string]string{}}
	if err := os.MkdirAll(work+"/wd/repos", 0o755); err != nil {
		return nil, err
	}
	files := map[string]string{}
	for _, s := range batch {
		for k, v := range s.Files {
			files[k] = v
		}
	}
	repo, err := WriteRepo(work, files)
	if err != nil {
		return nil, err
	}
	if r.Consul, err = NewConsul(); err != nil {
		return nil, err
	}
	r.Consul.Put("o2/components/aliecs/ANY/any/settings", "defaultRepo: "+repo+"\nenableKafka: false\n")
	if r.Master, err = NewMaster(nil); err != nil {
		return nil, err
	}
	r.Master.Rec = func(ev string, kv ...interface{}) { r.emit(ev, kv...) }
	r.installScripts()
	cfg := batch[0].Core
	if cfg.LatencyMs > 0 {
		r.Master.Latency = time.Duration(cfg.LatencyMs) * time.Millisecond
	}
	r.Opts = &CoreOpts{WorkDir: work + "/wd", ConsulAddr: r.Consul.Addr(), MesosURL: r.Master.URL(), ControlPort: FreePort(),
		MetricsPort: FreePort(), Extra: cfg.Flags}
	r.Sched = vgate.New()
	r.Sched.OnPoint = func(point string, kv []interface{}) {
		if point == "task.roster.appended" {
			for i := 0; i+1 < len(kv); i += 2 {
				if fmt.Sprint(kv[i]) == "task" {
					r.rosterSeen(fmt.Sprint(kv[i+1]))
				}
			}
		}
		if point == "envman.create.snapshot" {
			// learn the alias of an environment being created from the user variable the driver passed
			id, alias := "", ""
			for i := 0; i+1 < len(kv); i += 2 {
				switch fmt.Sprint(kv[i]) {
				case "env":
					id = fmt.Sprint(kv[i+1])
				case "vars":
					if m, ok := kv[i+1].(map[string]string); ok {
						alias = m["verif_alias"]
					}
				}
			}
			r.learnEnv(id, alias)
		}
		args := []interface{}{"point", point}
		for i := 0; i+1 < len(kv); i += 2 {
			if fmt.Sprint(kv[i]) == "vars" {
				continue
			}
			args = append(args, kv[i], kv[i+1])
		}
		r.emit("Hook", args...)
	}
	if cfg.Child {
		if err := r.StartChild(); err != nil {
			return nil, err
		}
	} else {
		verifhook.SetHandler(r.hookHandler)
		r.Master.LaunchGate = r.waitRoster
		the.VerifSetWriterFactory(func(t topic.Topic) event.Writer { return &captureWriter{r: r, t: t} })
		SetPluginHandler(r.pluginHandler)
		if err := RunCoreInProcess(r.Opts, quiet); err != nil {
			return nil, err
		}
	}
	cl, _, err := Dial(r.Opts.ControlPort)
	if err != nil {
		return nil, err
	}
	r.Client = cl
	// the control port may answer before the scheduler has subscribed to the master
	deadline := time.Now().Add(15 * time.Second)
	for r.Master.SubscribeCount() < 1 && time.Now().Before(deadline) {
		time.Sleep(5 * time.Millisecond)
	}
	if r.Master.SubscribeCount() < 1 {
		return nil, fmt.Errorf("core did not subscribe to the simulated master")
	}
	r.settle(30 * time.Millisecond)
	return r, nil
}

func (r *Runner) StartChild() error {
	c, err := StartChildCore(r.Self, r.Opts, fmt.Sprintf("%s/core-%d.log", r.Work, time.Now().UnixNano()))
	if err != nil {
		return err
	}
	r.child = c
	cl, _, err := Dial(r.Opts.ControlPort)
	if err != nil {
		return err
	}
	r.Client = cl
	n0 := r.Master.SubscribeCount()
	_ = n0
	return nil
}

// hookHandler: verifhook points reach the gate scheduler; a point is gated only when a matcher
// armed for it agrees with the arrival's key/values.
func (r *Runner) hookHandler(point string, kv ...interface{}) {
	r.mu.Lock()
	m, armed := r.matchers[point]
	r.mu.Unlock()
	if armed && !kvMatch(r, m, kv) {
		// record only
		if r.Sched.OnPoint != nil {
			r.Sched.OnPoint(point, kv)
		}
		return
	}
	r.Sched.Handler(point, kv...)
}

func kvMatch(r *Runner, m map[string]string, kv []interface{}) bool {
	for k, want := range m {
		ok := false
		for i := 0; i+1 < len(kv); i += 2 {
			if fmt.Sprint(kv[i]) == k {
				got := fmt.Sprint(kv[i+1])
				if k == "env" {
					r.mu.Lock()
					if a, has := r.envAlias[got]; has {
						got = a
					}
					r.mu.Unlock()
				}
				ok = got == want
			}
		}
		if !ok {
			return false
		}
	}
	return true
}

func (r *Runner) pluginHandler(call *callable.Call, fn string, arg string) string {
	vs := call.VarStack
	r.emit("HookStart", "hook", arg, "env", vs["environment_id"], "trig", vs["__call_trigger"], "await", vs["__call_await"],
		"crit", vs["__call_critical"], "rn", vs["run_number"], "sosor", vs["run_start_time_ms"], "eosor", vs["run_start_completion_time_ms"],
		"soeor", vs["run_end_time_ms"], "eoeor", vs["run_end_completion_time_ms"], "path", vs["__call_rolepath"])
	r.mu.Lock()
	var b HookBehaviour
	if r.scn != nil {
		b = r.scn.Hooks[arg]
	}
	if r.hookStarted == nil {
		r.hookStarted = map[string]int{}
	}
	r.hookStarted[arg]++
	r.mu.Unlock()
	if b.SleepMs > 0 {
		time.Sleep(time.Duration(b.SleepMs) * time.Millisecond)
	}
	if b.Gate != "" {
		// (a probe that arrives after the scenario has given up waiting for it and removed the gate passes through)
		r.mu.Lock()
		gone := r.ungated["probe:"+b.Gate]
		r.mu.Unlock()
		if !gone {
			r.Sched.Gate("probe:" + b.Gate)
			r.Sched.Handler("probe:" + b.Gate)
		}
	}
	res := ""
	failNow := b.Outcome == "fail"
	if failNow && b.FailTimes > 0 {
		r.mu.Lock()
		if r.hookN == nil {
			r.hookN = map[string]int{}
		}
		r.hookN[arg]++
		failNow = r.hookN[arg] <= b.FailTimes
		r.mu.Unlock()
	}
	if failNow {
		res = "scripted failure of hook " + arg
		if b.Text != "" {
			res = b.Text
		}
	}
	r.emit("HookEnd", "hook", arg, "env", vs["environment_id"], "ok", res == "")
	return res
}

func (r *Runner) installScripts() {
	find := func(t *SimTask, pred func(*ScriptRule) bool) *ScriptRule {
		r.mu.Lock()
		defer r.mu.Unlock()
		if r.scn == nil {
			return nil
		}
		for i := range r.scn.Scripts {
			ru := &r.scn.Scripts[i]
			if !strings.Contains(t.Name, ru.Class) || !pred(ru) {
				continue
			}
			if ru.Times > 0 && ru.used >= ru.Times {
				continue
			}
			ru.used++
			return ru
		}
		return nil
	}
	r.Master.LaunchScript = func(t *SimTask) string {
		if ru := find(t, func(x *ScriptRule) bool { return x.Launch != "" }); ru != nil {
			return ru.Launch
		}
		return ""
	}
	r.Master.CmdScript = func(t *SimTask, ev string, _ string) Outcome {
		if ru := find(t, func(x *ScriptRule) bool { return x.Outcome != "" && (x.Event == "" || x.Event == ev) }); ru != nil {
			return ru.Outcome
		}
		return OK
	}
	r.Master.KillScript = func(t *SimTask) string {
		if ru := find(t, func(x *ScriptRule) bool { return x.Kill != "" }); ru != nil {
			return ru.Kill
		}
		return ""
	}
	r.Master.HookScript = func(t *SimTask) HookPlan {
		if ru := find(t, func(x *ScriptRule) bool {
			return x.HookExit != nil || x.HookVoluntary != nil || x.HookSilent || x.HookEarly
		}); ru != nil {
			p := HookPlan{Exit: 0, Voluntary: true, Respond: !ru.HookSilent, LateMs: ru.HookLateMs, Early: ru.HookEarly}
			if ru.HookExit != nil {
				p.Exit = *ru.HookExit
			}
			if ru.HookVoluntary != nil {
				p.Voluntary = *ru.HookVoluntary
			}
			return p
		}
		return HookPlan{Voluntary: true, Respond: true}
	}
}

func code(err error) string {
	if err == nil {
		return "OK"
	}
	if s, ok := status.FromError(err); ok {
		return s.Code().String()
	}
	return "ERR"
}

func (r *Runner) apiTimeout(st *Step) time.Duration {
	if st.TimeoutMs > 0 {
		return time.Duration(st.TimeoutMs) * time.Millisecond
	}
	return 40 * time.Second
}

// doCall runs f synchronously or, when st.Caller is set, in a goroutine joined by do=await.
func (r *Runner) doCall(st *Step, f func()) {
	if st.Caller == "" {
		f()
		return
	}
	done := make(chan struct{})
	r.mu.Lock()
	r.calls[st.Caller] = done
	r.mu.Unlock()
	go func() { defer close(done); f() }()
}

func taskInfos(r *Runner, ts []*pb.ShortTaskInfo) []map[string]interface{} {
	out := make([]map[string]interface{}, 0, len(ts))
	for _, t := range ts {
		cn := t.ClassName
		if i := strings.LastIndex(cn, "/"); i >= 0 {
			cn = cn[i+1:]
		}
		cn = strings.TrimSuffix(cn, "@")
		out = append(out, map[string]interface{}{"task": r.TaskAlias(t.TaskId), "class": cn, "locked": t.Locked, "status": t.Status,
			"state": t.State, "crit": t.Critical, "host": t.GetDeploymentInfo().GetHostname()})
	}
	sort.Slice(out, func(i, j int) bool { return out[i]["task"].(string) < out[j]["task"].(string) })
	return out
}

func (r *Runner) step(st *Step) {
	ctx, cancel := context.WithTimeout(context.Background(), r.apiTimeout(st))
	switch st.Do {
	case "create":
		vars := map[string]string{}
		for k, v := range st.Vars {
			vars[k] = v
		}
		vars["verif_alias"] = st.Env
		r.emit("Api", "call", "create", "env", st.Env, "wf", st.Wf, "caller", st.Caller)
		r.doCall(st, func() {
			defer cancel()
			rep, err := r.Client.NewEnvironment(ctx, &pb.NewEnvironmentRequest{WorkflowTemplate: st.Wf, Vars: vars})
			stt, rn := "", uint32(0)
			var tasks []map[string]interface{}
			if rep != nil && rep.Environment != nil {
				r.learnEnv(rep.Environment.Id, st.Env)
				stt, rn = rep.Environment.State, rep.Environment.CurrentRunNumber
				tasks = taskInfos(r, rep.Environment.Tasks)
			}
			if tasks == nil {
				tasks = []map[string]interface{}{}
			}
			r.emit("ApiReply", "call", "create", "env", st.Env, "code", code(err), "st", stt, "rn", rn, "tasks", tasks,
				"errtext", errText(err), "caller", st.Caller, "timeout", ctx.Err() != nil)
			r.taint(ctx)
		})
	case "control":
		op := pb.ControlEnvironmentRequest_Optype(pb.ControlEnvironmentRequest_Optype_value[st.Op])
		r.emit("Api", "call", "control", "env", st.Env, "op", st.Op, "caller", st.Caller)
		r.doCall(st, func() {
			defer cancel()
			rep, err := r.Client.ControlEnvironment(ctx, &pb.ControlEnvironmentRequest{Id: r.envID(st.Env), Type: op})
			stt, rn := "", uint32(0)
			if rep != nil {
				stt, rn = rep.State, rep.CurrentRunNumber
			}
			r.emit("ApiReply", "call", "control", "env", st.Env, "op", st.Op, "code", code(err), "st", stt, "rn", rn,
				"errtext", errText(err), "caller", st.Caller, "timeout", ctx.Err() != nil)
			if !st.ExpectTimeout { // (a client deadline the scenario sets on purpose does not spoil the run)
				r.taint(ctx)
			}
		})
	case "destroy":
		r.emit("Api", "call", "destroy", "env", st.Env, "force", st.Force, "allow_in_running", st.AllowInRunning, "keep_tasks", st.KeepTasks, "caller", st.Caller)
		r.doCall(st, func() {
			defer cancel()
			rep, err := r.Client.DestroyEnvironment(ctx, &pb.DestroyEnvironmentRequest{Id: r.envID(st.Env), Force: st.Force,
				AllowInRunningState: st.AllowInRunning, KeepTasks: st.KeepTasks})
			killed, running := []map[string]interface{}{}, []map[string]interface{}{}
			if rep != nil && rep.CleanupTasksReply != nil {
				killed, running = taskInfos(r, rep.CleanupTasksReply.KilledTasks), taskInfos(r, rep.CleanupTasksReply.RunningTasks)
			}
			r.emit("ApiReply", "call", "destroy", "env", st.Env, "code", code(err), "killed", killed, "running", running,
				"errtext", errText(err), "caller", st.Caller, "timeout", ctx.Err() != nil)
			r.taint(ctx)
		})
	case "cleanup":
		r.emit("Api", "call", "cleanup", "caller", st.Caller)
		r.doCall(st, func() {
			defer cancel()
			rep, err := r.Client.CleanupTasks(ctx, &pb.CleanupTasksRequest{})
			killed, running := []map[string]interface{}{}, []map[string]interface{}{}
			if rep != nil {
				killed, running = taskInfos(r, rep.KilledTasks), taskInfos(r, rep.RunningTasks)
			}
			r.emit("ApiReply", "call", "cleanup", "code", code(err), "killed", killed, "running", running, "caller", st.Caller,
				"timeout", ctx.Err() != nil)
			r.taint(ctx)
		})
	case "await":
		defer cancel()
		r.mu.Lock()
		ch := r.calls[st.Caller]
		r.mu.Unlock()
		ok := true
		if ch != nil {
			select {
			case <-ch:
			case <-ctx.Done():
				ok = false
				r.setTainted()
			}
		}
		r.emit("Awaited", "caller", st.Caller, "returned", ok)
	case "snapshot":
		defer cancel()
		r.snapshot(ctx)
	case "poll":
		defer cancel()
		r.poll(ctx, st)
	case "fault":
		defer cancel()
		r.fault(st)
	case "gate":
		defer cancel()
		r.mu.Lock()
		if st.Match != nil {
			r.matchers[st.Point] = st.Match
		} else {
			delete(r.matchers, st.Point)
		}
		r.mu.Unlock()
		r.Sched.Gate(st.Point)
		r.emit("GateArmed", "point", st.Point)
	case "waitgate":
		defer cancel()
		n := st.N
		if n == 0 {
			n = 1
		}
		ok := r.Sched.WaitParkedN(st.Point, n, r.apiTimeout(st))
		r.emit("GateReached", "point", st.Point, "ok", ok)
	case "release":
		defer cancel()
		err := r.Sched.Release(st.Point)
		r.emit("GateReleased", "point", st.Point, "ok", err == nil)
	case "ungate":
		defer cancel()
		r.mu.Lock()
		r.ungated[st.Point] = true
		delete(r.matchers, st.Point)
		r.mu.Unlock()
		r.Sched.Ungate(st.Point)
		for r.Sched.Release(st.Point) == nil {
		}
		r.emit("GateRemoved", "point", st.Point)
	case "script":
		defer cancel()
		r.mu.Lock()
		r.scn.Scripts = append([]ScriptRule{*st.Rule}, r.scn.Scripts...)
		r.mu.Unlock()
	case "hookscript":
		defer cancel()
		r.mu.Lock()
		r.scn.Hooks[st.Hook] = *st.Behaviour
		r.mu.Unlock()
	case "sleep":
		defer cancel()
		time.Sleep(time.Duration(st.Ms) * time.Millisecond)
	case "dropstream":
		defer cancel()
		for _, fw := range r.Master.Frameworks() {
			r.Master.DropStream(fw)
		}
	case "waitsubscribe":
		defer cancel()
		want := st.N
		deadline := time.Now().Add(r.apiTimeout(st))
		for r.Master.SubscribeCount() < want && time.Now().Before(deadline) {
			time.Sleep(5 * time.Millisecond)
		}
		r.emit("Subscribed", "count", r.Master.SubscribeCount(), "ok", r.Master.SubscribeCount() >= want)
	case "killcore":
		defer cancel()
		if r.child != nil {
			r.child.Kill()
			r.child = nil
			r.emit("CoreKilled")
		}
	case "startcore":
		defer cancel()
		err := r.StartChild()
		r.emit("CoreStarted", "ok", err == nil)
		if err != nil {
			r.setTainted()
		}
	case "settle":
		defer cancel()
		r.settle(time.Duration(st.Ms) * time.Millisecond)
	default:
		if f, ok := ExtraSteps[st.Do]; ok {
			defer cancel()
			f(r, st, ctx)
			return
		}
		cancel()
		panic("unknown step " + st.Do)
	}
}

// ExtraSteps lets property-specific files (harness/coresim/ext_*.go) add step kinds without
// touching this file: ExtraSteps["name"] = func(r, st, ctx). Step.Args carries free-form arguments.
var ExtraSteps = map[string]func(r *Runner, st *Step, ctx context.Context){}

// Emit is the exported recorder entry for extensions.
func (r *Runner) Emit(ev string, kv ...interface{}) { r.emit(ev, kv...) }

// EnvID resolves an environment alias to the real id.
func (r *Runner) EnvID(alias string) string { return r.envID(alias) }

func errText(err error) string {
	if err == nil {
		return ""
	}
	return trunc(err.Error(), 300)
}

func (r *Runner) taint(ctx context.Context) {
	if ctx.Err() != nil {
		r.setTainted()
	}
}
func (r *Runner) setTainted()   { r.mu.Lock(); r.tainted = true; r.mu.Unlock() }
func (r *Runner) Tainted() bool { r.mu.Lock(); defer r.mu.Unlock(); return r.tainted }

// settle waits until the recorder has been silent for d (bounded).
func (r *Runner) settle(d time.Duration) {
	if d <= 0 {
		d = 60 * time.Millisecond
	}
	deadline := time.Now().Add(5 * time.Second)
	last := r.Rec.Lines()
	quietSince := time.Now()
	for time.Now().Before(deadline) {
		time.Sleep(10 * time.Millisecond)
		n := r.Rec.Lines()
		if n != last {
			last, quietSince = n, time.Now()
		} else if time.Since(quietSince) >= d {
			return
		}
	}
}

func (r *Runner) snapshot(ctx context.Context) {
	envs, err := r.Client.GetEnvironments(ctx, &pb.GetEnvironmentsRequest{ShowAll: true, ShowTaskInfos: true})
	el := []map[string]interface{}{}
	if err == nil {
		for _, e := range envs.Environments {
			r.mu.Lock()
			alias, ok := r.envAlias[e.Id]
			r.mu.Unlock()
			if !ok {
				alias = e.Id
			}
			dets := append([]string{}, e.IncludedDetectors...)
			sort.Strings(dets)
			el = append(el, map[string]interface{}{"env": alias, "st": e.State, "rn": e.CurrentRunNumber, "dets": dets, "tx": e.CurrentTransition,
				"tasks": taskInfos(r, e.Tasks)})
		}
		sort.Slice(el, func(i, j int) bool { return el[i]["env"].(string) < el[j]["env"].(string) })
	}
	tl := []map[string]interface{}{}
	tasks, err2 := r.Client.GetTasks(ctx, &pb.GetTasksRequest{})
	if err2 == nil {
		for _, t := range tasks.Tasks {
			owner := ""
			if ti, e := r.Client.GetTask(ctx, &pb.GetTaskRequest{TaskId: t.TaskId}); e == nil && ti.Task != nil {
				owner = ti.Task.EnvId
				r.mu.Lock()
				if a, ok := r.envAlias[owner]; ok {
					owner = a
				}
				r.mu.Unlock()
			}
			m := taskInfos(r, []*pb.ShortTaskInfo{t})[0]
			m["owner"] = owner
			tl = append(tl, m)
		}
		sort.Slice(tl, func(i, j int) bool { return tl[i]["task"].(string) < tl[j]["task"].(string) })
	}
	ad := []string{}
	if a, e := r.Client.GetActiveDetectors(ctx, &pb.Empty{}); e == nil {
		ad = append(ad, a.Detectors...)
		sort.Strings(ad)
	}
	// master-side view of the tasks
	ml := []map[string]interface{}{}
	for _, t := range r.Master.Tasks() {
		ml = append(ml, map[string]interface{}{"task": r.TaskAlias(t.ID), "mesos": t.Mesos.String(), "terminal": t.Terminal, "o2": t.State,
			"kills": t.KillSeen})
	}
	r.emit("Snapshot", "envs", el, "tasks", tl, "active_dets", ad, "master", ml, "ok", err == nil && err2 == nil)
}

func (r *Runner) poll(ctx context.Context, st *Step) {
	want := map[string]bool{}
	for _, s := range st.Until {
		want[s] = true
	}
	last := ""
	t0 := time.Now()
	for {
		cur := "GONE"
		rep, err := r.Client.GetEnvironment(ctx, &pb.GetEnvironmentRequest{Id: r.envID(st.Env)})
		if err == nil && rep.Environment != nil {
			cur = rep.Environment.State
		} else if ctx.Err() != nil {
			r.emit("Poll", "env", st.Env, "st", last, "reached", false, "ms", time.Since(t0).Milliseconds())
			return
		}
		if cur != last {
			r.emit("Observe", "env", st.Env, "st", cur, "ms", time.Since(t0).Milliseconds())
			last = cur
		}
		if want[cur] {
			r.emit("Poll", "env", st.Env, "st", cur, "reached", true, "ms", time.Since(t0).Milliseconds())
			return
		}
		select {
		case <-ctx.Done():
			r.emit("Poll", "env", st.Env, "st", cur, "reached", false, "ms", time.Since(t0).Milliseconds())
			return
		case <-time.After(10 * time.Millisecond):
		}
	}
}

func (r *Runner) victims(class string) []*SimTask {
	out := []*SimTask{}
	for _, t := range r.Master.Tasks() {
		if !t.Terminal && strings.Contains(t.Name, class) {
			out = append(out, t)
		}
	}
	return out
}

func (r *Runner) fault(st *Step) {
	vs := r.victims(st.Class)
	if len(vs) == 0 {
		r.emit("Fault", "kind", st.Kind, "class", st.Class, "ok", false)
		return
	}
	v := vs[len(vs)-1]
	r.emit("Fault", "kind", st.Kind, "class", st.Class, "task", v.ID, "env", v.EnvID, "ok", true)
	switch st.Kind {
	case "TASK_FAILED":
		r.Master.TaskStatus(v.ID, mesos.TASK_FAILED, nil)
	case "TASK_LOST":
		r.Master.TaskStatus(v.ID, mesos.TASK_LOST, nil)
	case "TASK_KILLED":
		r.Master.TaskStatus(v.ID, mesos.TASK_KILLED, nil)
	case "TASK_FINISHED":
		r.Master.TaskStatus(v.ID, mesos.TASK_FINISHED, nil)
	case "EXECUTOR_LOST":
		r.Master.ExecutorFailure(v.Framework, v.AgentID, v.ExecutorID)
	case "AGENT_LOST":
		r.Master.AgentFailure(v.Framework, v.AgentID)
	case "INTERNAL_ERROR":
		r.Master.DeviceEvent(v.ID, "TASK_INTERNAL_ERROR", 0, false, mesos.TASK_RUNNING)
	case "END_OF_STREAM":
		r.Master.DeviceEvent(v.ID, "END_OF_STREAM", 0, false, mesos.TASK_RUNNING)
	default:
		panic("unknown fault " + st.Kind)
	}
}

// Run executes one scenario.
func (r *Runner) Run(s *Scenario) {
	r.mu.Lock()
	r.scn = s
	if s.Hooks == nil {
		s.Hooks = map[string]HookBehaviour{}
	}
	r.envAlias, r.aliasEnv = map[string]string{}, map[string]string{}
	r.taskAlias, r.taskN = map[string]string{}, 0
	r.calls = map[string]chan struct{}{}
	r.matchers = map[string]map[string]string{}
	r.ungated = map[string]bool{}
	r.hookN = map[string]int{}
	r.hookStarted = map[string]int{}
	r.mu.Unlock()
	r.Master.SetAgents(s.Agents)
	var model interface{}
	if len(s.Model) > 0 {
		_ = json.Unmarshal(s.Model, &model)
	}
	if model == nil {
		model = map[string]interface{}{}
	}
	r.emit("Reset", "family", s.Family, "model", model)
	for i := range s.Steps {
		r.step(&s.Steps[i])
		if r.Tainted() {
			break
		}
	}
	// end of scenario: open every gate, join callers, destroy what is left
	r.Sched.ReleaseAll()
	r.mu.Lock()
	calls := r.calls
	r.mu.Unlock()
	for _, ch := range calls {
		select {
		case <-ch:
		case <-time.After(45 * time.Second):
			r.setTainted()
		}
	}
	r.emit("End", "tainted", r.Tainted())
	if !r.Tainted() && r.Client != nil && (r.child != nil || !s.Core.Child) {
		r.cleanupAfter()
	}
	r.mu.Lock()
	r.scn = nil
	r.mu.Unlock()
}

// cleanupAfter removes whatever the scenario left behind so that the next one starts clean
// (events recorded here carry scn = the finished scenario but come after its End line).
func (r *Runner) cleanupAfter() {
	ctx, cancel := context.WithTimeout(context.Background(), 30*time.Second)
	defer cancel()
	envs, err := r.Client.GetEnvironments(ctx, &pb.GetEnvironmentsRequest{ShowAll: true})
	if err == nil {
		for _, e := range envs.Environments {
			r.Client.DestroyEnvironment(ctx, &pb.DestroyEnvironmentRequest{Id: e.Id, Force: true})
		}
	}
	r.Client.CleanupTasks(ctx, &pb.CleanupTasksRequest{})
	if ctx.Err() != nil {
		r.setTainted()
	}
	r.settle(30 * time.Millisecond)
}

func (r *Runner) Close() {
	if r.child != nil {
		r.child.Kill()
	}
	r.Master.Close()
	r.Consul.Close()
}
