package coresim

// Extension of the scenario runner for C01: requests that reach the environment from inside the core.
//
//   {"do":"odcerror","env":E}   the ODC integration reports the partition of environment E in ERROR: what the ODC plugin does
//                               (environment.Manager.NotifyIntegratedServiceEvent with an OdcPartitionStateChangeEvent); the
//                               manager's event loop then tries STOP_ACTIVITY, GO_ERROR and a forced ERROR from a goroutine of
//                               its own (in-process cores only)

import (
	"context"

	cevent "github.com/AliceO2Group/Control/common/event"
	"github.com/AliceO2Group/Control/common/utils/uid"
	"github.com/AliceO2Group/Control/core/environment"
	odcevent "github.com/AliceO2Group/Control/core/integration/odc/event"
)

func init() {
	ExtraSteps["odcerror"] = func(r *Runner, st *Step, ctx context.Context) {
		man := environment.ManagerInstance()
		if man == nil {
			r.Emit("OdcError", "env", st.Env, "ok", false)
			return
		}
		r.Emit("OdcError", "env", st.Env, "ok", true)
		man.NotifyIntegratedServiceEvent(&odcevent.OdcPartitionStateChangeEvent{
			IntegratedServiceEventBase: cevent.IntegratedServiceEventBase{ServiceName: "ODC"},
			EnvironmentId:              uid.ID(r.envID(st.Env)),
			State:                      "ERROR",
			EcsState:                   "RUNNING",
		})
	}
}
