package coresim

// Extension of the scenario runner for C07, environment level (spec/RunStart*.tla): the shared run
// counter as the core sees it through the simulated Consul.
//
//   {"do":"kvwatch"}                      record every write of the counter key (KvPut{val, cas, ok},
//                                         emitted under the KV store's lock = at the linearization point)
//   {"do":"kvfault","kind":K}             K = off | get500 | put500 | casfail
//                                         get500 / put500: the GET / the PUT of the counter key answers HTTP 500
//                                         (before it takes effect); casfail: a foreign writer bumps the key
//                                         between the core's read and its CAS (recorded as KvForeign), so that
//                                         the CAS answers false
//   {"do":"kvput","n":N}                  a foreign (monotone) writer adds N to the counter (KvForeign{val})

import (
	"context"
	"strconv"
	"strings"
)

const runNumberKey = "o2/runtime/run_number"

func init() {
	ExtraSteps["kvwatch"] = func(r *Runner, st *Step, ctx context.Context) {
		r.Consul.Rec = func(ev string, kv ...interface{}) {
			if len(kv) >= 2 && kv[1] == runNumberKey {
				r.Emit(ev, kv...)
			}
		}
		v, _ := r.Consul.Get(runNumberKey)
		r.Emit("KvState", "val", v)
	}
	ExtraSteps["kvput"] = func(r *Runner, st *Step, ctx context.Context) {
		c07Bump(r, st.N)
	}
	ExtraSteps["kvfault"] = func(r *Runner, st *Step, ctx context.Context) {
		kind := st.Kind
		r.Emit("KvFault", "kind", kind)
		if kind == "off" || kind == "" {
			r.Consul.Hook = nil
			return
		}
		r.Consul.Hook = func(method, key string, q map[string]string) int {
			if key != runNumberKey {
				return 0
			}
			_, isCas := q["cas"]
			switch {
			case kind == "get500" && method == "GET":
				r.Emit("KvFailed", "m", "GET")
				return 500
			case kind == "put500" && method == "PUT":
				r.Emit("KvFailed", "m", "PUT")
				return 500
			case kind == "casfail" && method == "PUT" && isCas:
				c07Bump(r, 1)
			}
			return 0
		}
	}
}

func c07Bump(r *Runner, by int) {
	if by <= 0 {
		by = 1
	}
	cur, _ := r.Consul.Get(runNumberKey)
	n, _ := strconv.ParseUint(strings.TrimSpace(cur), 10, 32)
	n += uint64(by)
	r.Consul.Put(runNumberKey, strconv.FormatUint(n, 10))
	r.Emit("KvForeign", "val", strconv.FormatUint(n, 10))
}
