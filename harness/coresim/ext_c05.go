package coresim

// Extension of the scenario runner for C05 (spec/Placement*.tla): OFFERS rounds of a fresh core.
//
//   {"do":"c05_round","env":"e1","wf":"<workflow>","timeout_ms":8000,"n":1}
//
// Needs a child core (scenario "core": {"child": true}). The step makes sure a fresh core process is
// running, asks it to create an environment from <workflow> (which sends the deployment request and
// REVIVEs the offers), and waits until the simulated master has the core's answer to every offer of
// the next OFFERS event (a DECLINE, or an ACCEPT that launches something; an offer answered by an
// ACCEPT without operations only is given 250 ms for its DECLINE - such an offer counts as declined for
// the property either way, the wait only matters for conformance), or until the core REVIVEs the offers
// again (the retry of an incomplete deployment follows the handler's return: whatever offer is unanswered
// then stays unanswered) - or until the core process is gone.
// It records
//     C05Round{k, complete, alive, panic}
// (panic = the Go panic message found in the core's log with the first frame inside core/task).
// With n > 1 it then asks the SAME core for another environment from the same workflow (k = 2..n) and
// treats its OFFERS round likewise: the task manager's class registry, and whatever a deployment left
// in it, is what the next deployment works with. This presumes that every round places everything it
// is asked for (the task manager is free again at once); the step stops at the first round that is not
// answered. Finally the core is killed: the retries of a failed deployment (manager.go acquireTasks)
// are of no interest here, and the next scenario starts from a clean core.

import (
	"bufio"
	"context"
	"fmt"
	"os"
	"os/exec"
	"path/filepath"
	"sort"
	"strings"
	"sync"
	"time"

	pb "github.com/AliceO2Group/Control/core/protos"
)

func init() {
	ExtraSteps["c05_round"] = c05Round
}

func c05ChildAlive(r *Runner) bool {
	if r.child == nil {
		return false
	}
	select {
	case <-r.child.done:
		return false
	default:
		return true
	}
}

func c05Round(r *Runner, st *Step, ctx context.Context) {
	if !c05ChildAlive(r) {
		if r.child != nil {
			r.child.Kill()
			r.child = nil
		}
		before := r.Master.SubscribeCount()
		if err := r.StartChild(); err != nil {
			r.Emit("C05Round", "k", 1, "complete", false, "alive", false, "panic", "", "error", "cannot start core: "+err.Error())
			r.setTainted()
			return
		}
		deadline := time.Now().Add(15 * time.Second)
		for r.Master.SubscribeCount() <= before && time.Now().Before(deadline) {
			time.Sleep(5 * time.Millisecond)
		}
	}
	cl, conn, err := Dial(r.Opts.ControlPort)
	if err != nil {
		r.Emit("C05Round", "k", 1, "complete", false, "alive", c05ChildAlive(r), "panic", "", "error", "dial: "+err.Error())
		r.setTainted()
		return
	}
	cctx, ccancel := context.WithCancel(context.Background())
	timeout := time.Duration(st.TimeoutMs) * time.Millisecond
	if timeout == 0 {
		timeout = 8 * time.Second
	}
	n := st.N
	if n < 1 {
		n = 1
	}
	// n deployments of the same workflow in the same core, one after the other: the task manager's class
	// registry (and whatever a deployment left in it) is what the next deployment works with
	for k := 1; k <= n; k++ {
		// the repository changes between two deployments: Vars["<k>|<path>"] = new content of <path> (committed)
		// before deployment k
		if err := c05RewriteRepo(r, st, k); err != nil {
			r.Emit("C05Round", "k", k, "complete", false, "alive", c05ChildAlive(r), "panic", "", "error", "repo: "+err.Error())
			r.setTainted()
			break
		}
		complete, alive, what := c05OneDeployment(r, cl, cctx, st, k, timeout)
		r.Emit("C05Round", "k", k, "complete", complete, "alive", alive, "panic", what, "error", "")
		if !complete || !alive {
			break
		}
	}
	// the core goes first: a cancelled request would make it tear the environment down and revive the offers
	if r.child != nil {
		r.child.Kill()
		r.child = nil
	}
	ccancel()
	conn.Close()
}

// c05RewriteRepo rewrites and commits the workflow repository files scheduled for deployment k.
func c05RewriteRepo(r *Runner, st *Step, k int) error {
	prefix := fmt.Sprintf("%d|", k)
	dir := filepath.Join(r.Work, "wfrepo", "ControlWorkflows")
	changed := []string{}
	for key, content := range st.Vars {
		if !strings.HasPrefix(key, prefix) {
			continue
		}
		rel := strings.TrimPrefix(key, prefix)
		if err := os.WriteFile(filepath.Join(dir, rel), []byte(content), 0o644); err != nil {
			return err
		}
		changed = append(changed, rel)
	}
	if len(changed) == 0 {
		return nil
	}
	sort.Strings(changed)
	for _, a := range [][]string{{"add", "-A"}, {"-c", "user.email=v@v", "-c", "user.name=v", "commit", "-q", "-m", "template edited"}} {
		c := exec.Command("git", a...)
		c.Dir = dir
		if out, err := c.CombinedOutput(); err != nil {
			return fmt.Errorf("git %v: %v: %s", a, err, out)
		}
	}
	r.Emit("C05Repo", "k", k, "files", changed)
	return nil
}

// c05OneDeployment asks for one more environment and waits for the answers to the next OFFERS event.
func c05OneDeployment(r *Runner, cl pb.ControlClient, cctx context.Context, st *Step, k int, timeout time.Duration) (complete, alive bool, what string) {
	// watch the master's record for the answers to the next OFFERS event
	var mu sync.Mutex
	pending := map[string]bool{}    // offers without a DECLINE or a launching ACCEPT
	unanswered := map[string]bool{} // offers without any call at all
	seenOffers, closed, closedA, closedR := false, false, false, false
	done := make(chan struct{})
	answered := make(chan struct{})
	retried := make(chan struct{}) // the core asks for offers again: the handler of the first round has returned
	saved := r.Master.Rec
	r.Master.Rec = func(ev string, kv ...interface{}) {
		get := func(key string) interface{} {
			for i := 0; i+1 < len(kv); i += 2 {
				if kv[i] == key {
					return kv[i+1]
				}
			}
			return nil
		}
		if ev == "MAccept" {
			// which task role a launched task belongs to: the scenario's templates export it as C05_ROLE
			// (several roles may load the same task class); added to the master's record as "tag", next to
			// "control": the control port the launch data hands to the task
			if tasks, ok := get("tasks").([]map[string]interface{}); ok {
				for _, x := range tasks {
					if t := r.Master.Task(fmt.Sprint(x["task"])); t != nil {
						for _, e := range t.Cmd.Env {
							if strings.HasPrefix(e, "C05_ROLE=") {
								x["tag"] = strings.TrimPrefix(e, "C05_ROLE=")
							}
						}
						// the control port handed to a controllable task (TaskInfo.Data), 0 = none
						if t.Cmd.ControlPort != 0 {
							x["control"] = t.Cmd.ControlPort
						}
					}
				}
			}
		}
		saved(ev, kv...)
		mu.Lock()
		defer mu.Unlock()
		switch ev {
		case "MRevive":
			// a REVIVE after the round's offers is the retry of a deployment that did not place everything: it follows
			// the handler's return (acquireTasks waits for the round's outcome), so nothing more will come for this round
			if seenOffers && !closedR {
				closedR = true
				close(retried)
			}
		case "MOffers":
			if !seenOffers {
				seenOffers = true
				if l, ok := get("offers").([]map[string]interface{}); ok {
					for _, o := range l {
						pending[fmt.Sprint(o["id"])] = true
						unanswered[fmt.Sprint(o["id"])] = true
					}
				}
			}
		case "MAccept":
			tasks, _ := get("tasks").([]map[string]interface{})
			if ids, ok := get("offers").([]string); ok {
				for _, id := range ids {
					delete(unanswered, id)
					if len(tasks) > 0 { // an ACCEPT without operations is normally followed by a DECLINE
						delete(pending, id)
					}
				}
			}
		case "MDecline":
			if ids, ok := get("offers").([]string); ok {
				for _, id := range ids {
					delete(pending, id)
					delete(unanswered, id)
				}
			}
		}
		if seenOffers && len(unanswered) == 0 && !closedA {
			closedA = true
			close(answered)
		}
		if seenOffers && len(pending) == 0 && !closed {
			closed = true
			close(done)
		}
	}
	go func() {
		cl.NewEnvironment(cctx, &pb.NewEnvironmentRequest{WorkflowTemplate: st.Wf,
			Vars: map[string]string{"verif_alias": fmt.Sprintf("%s_%d", st.Env, k)}})
	}()
	select {
	case <-done:
		complete = true
	case <-answered:
		// every offer has its ACCEPT; the DECLINE of the unused ones is the handler's next call. An offer may
		// also stay without one (taken off the decline list by a task that was then not built): wait a little
		select {
		case <-done:
		case <-r.child.done:
		case <-time.After(250 * time.Millisecond):
		}
		complete = true
	case <-retried:
		// the handler has returned with some offer neither declined nor accepted: the round is over as it stands
		complete = true
	case <-r.child.done:
	case <-time.After(timeout):
	}
	// the ACCEPT calls of the other offers are sent concurrently with the DECLINE: let them land
	time.Sleep(30 * time.Millisecond)
	r.Master.Rec = saved
	alive = c05ChildAlive(r)
	if !alive {
		time.Sleep(50 * time.Millisecond)
	}
	logs, _ := filepath.Glob(filepath.Join(r.Work, "core-*.log"))
	sort.Strings(logs)
	if len(logs) > 0 {
		what = panicInLog(logs[len(logs)-1])
	}
	return
}

func panicInLog(path string) string {
	f, err := os.Open(path)
	if err != nil {
		return ""
	}
	defer f.Close()
	sc := bufio.NewScanner(f)
	sc.Buffer(make([]byte, 1<<20), 1<<24)
	msg, frame, prev := "", "", ""
	for sc.Scan() {
		ln := sc.Text()
		if msg == "" {
			if strings.HasPrefix(ln, "panic:") || strings.HasPrefix(ln, "fatal error:") {
				msg = ln
			}
			continue
		}
		if strings.Contains(ln, "/core/task/") && strings.HasPrefix(ln, "\t") {
			// the function is on the line before "\t<file>:<line>"
			frame = prev
			if i := strings.LastIndex(frame, "/"); i >= 0 {
				frame = frame[i+1:]
			}
			if i := strings.Index(frame, "("); i > 0 {
				frame = frame[:i]
			}
			break
		}
		prev = ln
	}
	if msg == "" {
		return ""
	}
	return msg + " @ " + frame
}
