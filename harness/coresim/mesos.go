// Package coresim simulates the environment of an AliECS core: a Mesos master with agents and
// O² executors speaking the v1 scheduler HTTP API (protobuf + RecordIO), and a Consul KV store.
// The real core (built from /repo with -tags verif) runs against it, in-process or as a child.
package coresim

import (
	"encoding/json"
	"fmt"
	"io"
	"net"
	"net/http"
	"sort"
	"strconv"
	"strings"
	"sync"
	"time"

	"github.com/AliceO2Group/Control/common"
	"github.com/AliceO2Group/Control/common/event"
	"github.com/AliceO2Group/Control/core/controlcommands"
	execpb "github.com/AliceO2Group/Control/executor/protos"
	mesos "github.com/mesos/mesos-go/api/v1/lib"
	"github.com/mesos/mesos-go/api/v1/lib/scheduler"
)

// Outcome of a simulated executor's answer to a transition command for one task.
type Outcome string

const (
	OK         Outcome = "ok"         // reply: no error, state = destination
	ErrSrc     Outcome = "err_src"    // reply: error, task stays in source state
	ErrError   Outcome = "err_error"  // reply: error, task goes to ERROR
	Unsendable Outcome = "unsendable" // the MESSAGE call is refused by the master (HTTP error)
	Silent     Outcome = "silent"     // no reply at all
	Dup        Outcome = "dup"        // reply sent twice
	Foreign    Outcome = "foreign"    // an extra reply under a foreign command id before the real one
	Dies       Outcome = "dies"       // the task terminates (TASK_FAILED) instead of answering
	OKEarly    Outcome = "ok_early"   // like ok, but the reply is on its way to the core before the MESSAGE call returns
)

type Agent struct {
	ID       string
	Host     string
	Attrs    map[string]string
	CPUs     float64
	Mem      float64
	Ports    [][2]uint64
	Disabled bool
}

type SimTask struct {
	ID         string
	Name       string
	AgentID    string
	ExecutorID string
	EnvID      string
	Cmd        common.TaskCommandInfo // as sent in TaskInfo.Data
	ClassName  string
	Mode       string            // basic | direct | fairmq | hook
	State      string            // O² state as the simulated executor sees it
	Props      map[string]string // properties pushed with the transition commands so far (what the task holds)
	Mesos      mesos.TaskState
	Terminal   bool
	Info       *mesos.TaskInfo
	Framework  string
	KillSeen   int
}

type Master struct {
	mu       sync.Mutex
	ln       net.Listener
	srv      *http.Server
	Rec      func(ev string, kv ...interface{}) // recorder (may be nil)
	agents   []*Agent
	fwSeq    int
	streams  map[string]*stream // framework id -> live stream
	streamSq int
	tasks    map[string]*SimTask
	taskSeq  []string
	offerSq  int
	offers   map[string]*offerRec // outstanding offers
	// scripting
	Latency      time.Duration                                        // agent latency before TASK_RUNNING / replies
	LaunchScript func(t *SimTask) string                              // "running" | "failed" | "silent" | "" (= running)
	CmdScript    func(t *SimTask, event string, cmdID string) Outcome // per target and transition event
	HookScript   func(t *SimTask) HookPlan                            // how the hook task triggered now behaves
	KillScript   func(t *SimTask) string                              // "ack" | "silent" | "" (= ack)
	OnCall       func(call *scheduler.Call) (status int)              // gate/fail individual calls; 0 = default
	Reconcile    bool                                                 // answer RECONCILE (default true)
	LaunchGate   func(taskID string)                                  // if set: called before TASK_RUNNING is reported (waits until the core knows the task)
	subscribeN   int
	closed       bool
}

type offerRec struct {
	ID    string
	Agent *Agent
	Fw    string
}

type stream struct {
	id   string
	fw   string
	ch   chan *scheduler.Event
	done chan struct{}
	once sync.Once
}

func (s *stream) close() { s.once.Do(func() { close(s.done) }) }

func NewMaster(agents []*Agent) (*Master, error) {
	ln, err := net.Listen("tcp", "127.0.0.1:0")
	if err != nil {
		return nil, err
	}
	m := &Master{ln: ln, agents: agents, streams: map[string]*stream{}, tasks: map[string]*SimTask{},
		offers: map[string]*offerRec{}, Latency: 25 * time.Millisecond, Reconcile: true}
	mux := http.NewServeMux()
	mux.HandleFunc("/api/v1/scheduler", m.handle)
	m.srv = &http.Server{Handler: mux}
	go m.srv.Serve(ln)
	return m, nil
}

func (m *Master) URL() string { return "http://" + m.ln.Addr().String() + "/api/v1/scheduler" }

func (m *Master) Close() {
	m.mu.Lock()
	m.closed = true
	for _, s := range m.streams {
		s.close()
	}
	m.mu.Unlock()
	m.srv.Close()
}

func (m *Master) rec(ev string, kv ...interface{}) {
	if m.Rec != nil {
		m.Rec(ev, kv...)
	}
}

func (m *Master) SetAgents(a []*Agent) { m.mu.Lock(); m.agents = a; m.mu.Unlock() }

// Tasks returns a snapshot of all simulated tasks in launch order.
func (m *Master) Tasks() []*SimTask {
	m.mu.Lock()
	defer m.mu.Unlock()
	out := make([]*SimTask, 0, len(m.taskSeq))
	for _, id := range m.taskSeq {
		c := *m.tasks[id]
		out = append(out, &c)
	}
	return out
}

func (m *Master) Task(id string) *SimTask {
	m.mu.Lock()
	defer m.mu.Unlock()
	if t, ok := m.tasks[id]; ok {
		c := *t
		return &c
	}
	return nil
}

func (m *Master) SubscribeCount() int { m.mu.Lock(); defer m.mu.Unlock(); return m.subscribeN }

func (m *Master) handle(w http.ResponseWriter, r *http.Request) {
	body, err := io.ReadAll(r.Body)
	if err != nil {
		http.Error(w, err.Error(), 400)
		return
	}
	var call scheduler.Call
	if err := call.Unmarshal(body); err != nil {
		http.Error(w, "bad protobuf: "+err.Error(), 400)
		return
	}
	if call.Type == scheduler.Call_SUBSCRIBE {
		m.subscribe(w, r, &call)
		return
	}
	if m.OnCall != nil {
		if st := m.OnCall(&call); st != 0 {
			http.Error(w, "scripted failure", st)
			return
		}
	}
	fw := ""
	if call.FrameworkID != nil {
		fw = call.FrameworkID.Value
	}
	switch call.Type {
	case scheduler.Call_REVIVE:
		m.rec("MRevive", "fw", fw)
		go m.SendOffers(fw)
	case scheduler.Call_SUPPRESS:
		m.rec("MSuppress", "fw", fw)
	case scheduler.Call_DECLINE:
		ids := []string{}
		m.mu.Lock()
		for _, o := range call.Decline.OfferIDs {
			ids = append(ids, o.Value)
			delete(m.offers, o.Value)
		}
		m.mu.Unlock()
		sort.Strings(ids)
		m.rec("MDecline", "fw", fw, "offers", ids)
	case scheduler.Call_ACCEPT:
		if !m.accept(fw, call.Accept) {
			http.Error(w, "unsendable", 400)
			return
		}
	case scheduler.Call_ACKNOWLEDGE:
		// nothing: updates are not retried by this master
	case scheduler.Call_RECONCILE:
		m.rec("MReconcile", "fw", fw, "explicit", len(call.Reconcile.Tasks))
		if m.Reconcile {
			go m.reconcile(fw)
		}
	case scheduler.Call_KILL:
		m.kill(fw, call.Kill.TaskID.Value)
	case scheduler.Call_MESSAGE:
		if !m.message(fw, call.Message) {
			http.Error(w, "unsendable", 400)
			return
		}
	case scheduler.Call_TEARDOWN:
		m.rec("MTeardown", "fw", fw)
	default:
		m.rec("MCall", "fw", fw, "type", call.Type.String())
	}
	w.WriteHeader(http.StatusAccepted)
}

func (m *Master) subscribe(w http.ResponseWriter, r *http.Request, call *scheduler.Call) {
	fi := call.Subscribe.FrameworkInfo
	m.mu.Lock()
	if m.closed {
		m.mu.Unlock()
		http.Error(w, "closed", 503)
		return
	}
	fid := ""
	if fi != nil && fi.ID != nil {
		fid = fi.ID.Value
	}
	reqFid := fid
	if fid == "" {
		m.fwSeq++
		fid = fmt.Sprintf("fw-%04d", m.fwSeq)
	}
	if old, ok := m.streams[fid]; ok {
		old.close()
	}
	m.streamSq++
	m.subscribeN++
	st := &stream{id: fmt.Sprintf("stream-%d", m.streamSq), fw: fid, ch: make(chan *scheduler.Event, 1024), done: make(chan struct{})}
	m.streams[fid] = st
	m.mu.Unlock()
	m.rec("MSubscribe", "fid", reqFid, "assigned", fid)

	w.Header().Set("Content-Type", "application/x-protobuf")
	w.Header().Set("Mesos-Stream-Id", st.id)
	w.WriteHeader(200)
	fl, _ := w.(http.Flusher)
	write := func(e *scheduler.Event) bool {
		b, err := e.Marshal()
		if err != nil {
			return false
		}
		if _, err := io.WriteString(w, strconv.Itoa(len(b))+"\n"); err != nil {
			return false
		}
		if _, err := w.Write(b); err != nil {
			return false
		}
		if fl != nil {
			fl.Flush()
		}
		return true
	}
	hb := 15.0
	write(&scheduler.Event{Type: scheduler.Event_SUBSCRIBED, Subscribed: &scheduler.Event_Subscribed{
		FrameworkID: &mesos.FrameworkID{Value: fid}, HeartbeatIntervalSeconds: &hb}})
	for {
		select {
		case e := <-st.ch:
			if !write(e) {
				return
			}
		case <-st.done:
			return
		case <-r.Context().Done():
			return
		}
	}
}

// DropStream closes the event stream of a framework (the scheduler will re-subscribe).
func (m *Master) DropStream(fw string) {
	m.mu.Lock()
	st := m.streams[fw]
	delete(m.streams, fw)
	m.mu.Unlock()
	if st != nil {
		m.rec("MStreamDropped", "fw", fw)
		st.close()
	}
}

// Frameworks with a live stream.
func (m *Master) Frameworks() []string {
	m.mu.Lock()
	defer m.mu.Unlock()
	out := []string{}
	for k := range m.streams {
		out = append(out, k)
	}
	sort.Strings(out)
	return out
}

func (m *Master) send(fw string, e *scheduler.Event) bool {
	m.mu.Lock()
	st := m.streams[fw]
	m.mu.Unlock()
	if st == nil {
		return false
	}
	select {
	case st.ch <- e:
		return true
	case <-st.done:
		return false
	}
}

func scalar(name string, v float64) mesos.Resource {
	return mesos.Resource{Name: name, Type: mesos.SCALAR.Enum(), Scalar: &mesos.Value_Scalar{Value: v}}
}

// SendOffers offers every enabled agent's full resources to the framework.
func (m *Master) SendOffers(fw string) {
	m.mu.Lock()
	offers := []mesos.Offer{}
	logged := []map[string]interface{}{}
	for _, a := range m.agents {
		if a.Disabled {
			continue
		}
		m.offerSq++
		oid := fmt.Sprintf("offer-%d", m.offerSq)
		m.offers[oid] = &offerRec{ID: oid, Agent: a, Fw: fw}
		rng := []mesos.Value_Range{}
		pr := [][]uint64{}
		for _, p := range a.Ports {
			rng = append(rng, mesos.Value_Range{Begin: p[0], End: p[1]})
			pr = append(pr, []uint64{p[0], p[1]})
		}
		attrs := []mesos.Attribute{}
		keys := []string{}
		for k := range a.Attrs {
			keys = append(keys, k)
		}
		sort.Strings(keys)
		for _, k := range keys {
			v := a.Attrs[k]
			attrs = append(attrs, mesos.Attribute{Name: k, Type: mesos.TEXT, Text: &mesos.Value_Text{Value: v}})
		}
		offers = append(offers, mesos.Offer{
			ID: mesos.OfferID{Value: oid}, FrameworkID: mesos.FrameworkID{Value: fw},
			AgentID: mesos.AgentID{Value: a.ID}, Hostname: a.Host,
			Resources: []mesos.Resource{scalar("cpus", a.CPUs), scalar("mem", a.Mem),
				{Name: "ports", Type: mesos.RANGES.Enum(), Ranges: &mesos.Value_Ranges{Range: rng}}},
			Attributes: attrs,
		})
		logged = append(logged, map[string]interface{}{"id": oid, "host": a.Host, "attrs": a.Attrs, "cpus": a.CPUs, "mem": a.Mem, "ports": pr})
	}
	m.mu.Unlock()
	if len(offers) == 0 {
		return
	}
	m.rec("MOffers", "fw", fw, "offers", logged)
	m.send(fw, &scheduler.Event{Type: scheduler.Event_OFFERS, Offers: &scheduler.Event_Offers{Offers: offers}})
}

func (m *Master) update(fw string, t *SimTask, st mesos.TaskState, reason *mesos.TaskStatus_Reason, msg string) {
	ts := mesos.TaskStatus{TaskID: mesos.TaskID{Value: t.ID}, State: &st, AgentID: &mesos.AgentID{Value: t.AgentID},
		ExecutorID: &mesos.ExecutorID{Value: t.ExecutorID}, Reason: reason,
		UUID: []byte(fmt.Sprintf("%s-%d", t.ID, time.Now().UnixNano()))}
	if msg != "" {
		ts.Message = &msg
	}
	src := mesos.SOURCE_EXECUTOR
	ts.Source = &src
	r := ""
	if reason != nil {
		r = reason.String()
	}
	m.rec("MUpdate", "task", t.ID, "class", ShortClass(t.Name), "state", st.String(), "reason", r)
	m.send(fw, &scheduler.Event{Type: scheduler.Event_UPDATE, Update: &scheduler.Event_Update{Status: ts}})
}

// ShortClass extracts the task class name from a Mesos task name ("<repo>/tasks/<class>@<rev>#<id>").
func ShortClass(name string) string {
	if i := strings.Index(name, "@"); i >= 0 {
		name = name[:i]
	}
	if i := strings.LastIndex(name, "/"); i >= 0 {
		name = name[i+1:]
	}
	return name
}

func isTerminal(s mesos.TaskState) bool {
	switch s {
	case mesos.TASK_FINISHED, mesos.TASK_FAILED, mesos.TASK_KILLED, mesos.TASK_LOST, mesos.TASK_ERROR, mesos.TASK_DROPPED, mesos.TASK_GONE:
		return true
	}
	return false
}

func (m *Master) accept(fw string, acc *scheduler.Call_Accept) bool {
	oids := []string{}
	for _, o := range acc.OfferIDs {
		oids = append(oids, o.Value)
	}
	launched := []*SimTask{}
	logged := []map[string]interface{}{}
	m.mu.Lock()
	for _, o := range oids {
		delete(m.offers, o)
	}
	for _, op := range acc.Operations {
		if op.Type != mesos.Offer_Operation_LAUNCH || op.Launch == nil {
			continue
		}
		for i := range op.Launch.TaskInfos {
			ti := op.Launch.TaskInfos[i]
			t := &SimTask{ID: ti.TaskID.Value, Name: ti.Name, AgentID: ti.AgentID.Value, Info: &ti, Framework: fw,
				State: "STANDBY", Mesos: mesos.TASK_STAGING}
			if ti.Executor != nil {
				t.ExecutorID = ti.Executor.ExecutorID.Value
			}
			if ti.Labels != nil {
				for _, l := range ti.Labels.Labels {
					if l.Key == "environmentId" && l.Value != nil {
						t.EnvID = *l.Value
					}
				}
			}
			_ = json.Unmarshal(ti.Data, &t.Cmd)
			t.Mode = t.Cmd.ControlMode.String()
			m.tasks[t.ID] = t
			m.taskSeq = append(m.taskSeq, t.ID)
			launched = append(launched, t)
			cpu, mem := 0.0, 0.0
			ports := []uint64{}
			for _, r := range ti.Resources {
				switch r.Name {
				case "cpus":
					cpu += r.Scalar.Value
				case "mem":
					mem += r.Scalar.Value
				case "ports":
					for _, rg := range r.Ranges.Range {
						for p := rg.Begin; p <= rg.End; p++ {
							ports = append(ports, p)
						}
					}
				}
			}
			logged = append(logged, map[string]interface{}{"task": t.ID, "class": ShortClass(t.Name), "agent": t.AgentID, "executor": t.ExecutorID,
				"env": t.EnvID, "cpu": cpu, "mem": mem, "ports": ports, "mode": t.Mode})
		}
	}
	m.mu.Unlock()
	sort.Strings(oids)
	m.rec("MAccept", "fw", fw, "offers", oids, "tasks", logged)
	for _, t := range launched {
		t := t
		go func() {
			how := ""
			if m.LaunchScript != nil {
				how = m.LaunchScript(t)
			}
			time.Sleep(m.Latency)
			if m.LaunchGate != nil {
				m.LaunchGate(t.ID)
			}
			switch how {
			case "silent":
			case "failed":
				m.setMesos(t.ID, mesos.TASK_FAILED)
				m.update(fw, t, mesos.TASK_FAILED, nil, "scripted launch failure")
			default:
				m.setMesos(t.ID, mesos.TASK_RUNNING)
				m.update(fw, t, mesos.TASK_RUNNING, nil, "")
			}
		}()
	}
	return true
}

func (m *Master) setMesos(id string, st mesos.TaskState) {
	m.mu.Lock()
	if t, ok := m.tasks[id]; ok {
		t.Mesos = st
		t.Terminal = isTerminal(st)
	}
	m.mu.Unlock()
}

func (m *Master) setO2(id string, st string) {
	m.mu.Lock()
	if t, ok := m.tasks[id]; ok {
		t.State = st
	}
	m.mu.Unlock()
}

func (m *Master) reconcile(fw string) {
	m.mu.Lock()
	ts := []*SimTask{}
	for _, id := range m.taskSeq {
		t := m.tasks[id]
		if t.Framework == fw && !t.Terminal {
			c := *t
			ts = append(ts, &c)
		}
	}
	m.mu.Unlock()
	r := mesos.REASON_RECONCILIATION
	for _, t := range ts {
		m.update(fw, t, t.Mesos, &r, "Reconciliation: Latest task state")
	}
}

func (m *Master) kill(fw, id string) {
	m.mu.Lock()
	t := m.tasks[id]
	var c SimTask
	if t != nil {
		t.KillSeen++
		c = *t
	}
	m.mu.Unlock()
	m.rec("MKill", "fw", fw, "task", id, "class", ShortClass(c.Name), "known", t != nil, "terminal", t != nil && c.Terminal)
	if t == nil {
		return
	}
	how := ""
	if m.KillScript != nil {
		how = m.KillScript(&c)
	}
	if how == "silent" {
		return
	}
	go func() {
		time.Sleep(m.Latency / 5)
		if !c.Terminal {
			m.setMesos(id, mesos.TASK_KILLED)
			m.update(c.Framework, &c, mesos.TASK_KILLED, nil, "")
		} else {
			m.update(c.Framework, &c, c.Mesos, nil, "")
		}
	}()
}

// Fault injection ------------------------------------------------------------------------------

// TaskStatus sends a terminal (or any) status for a task on its own.
func (m *Master) TaskStatus(id string, st mesos.TaskState, reason *mesos.TaskStatus_Reason) {
	t := m.Task(id)
	if t == nil {
		return
	}
	m.setMesos(id, st)
	m.update(t.Framework, t, st, reason, "injected")
}

// ExecutorFailure reports the loss of an executor (and marks its tasks terminal at the master).
func (m *Master) ExecutorFailure(fw, agentID, executorID string) {
	m.mu.Lock()
	for _, t := range m.tasks {
		if t.AgentID == agentID && t.ExecutorID == executorID && !t.Terminal {
			t.Mesos, t.Terminal = mesos.TASK_LOST, true
		}
	}
	m.mu.Unlock()
	m.rec("MFailure", "agent", agentID, "executor", executorID)
	st := int32(1)
	m.send(fw, &scheduler.Event{Type: scheduler.Event_FAILURE, Failure: &scheduler.Event_Failure{
		AgentID: &mesos.AgentID{Value: agentID}, ExecutorID: &mesos.ExecutorID{Value: executorID}, Status: &st}})
}

// AgentFailure reports the loss of an agent.
func (m *Master) AgentFailure(fw, agentID string) {
	m.mu.Lock()
	for _, t := range m.tasks {
		if t.AgentID == agentID && !t.Terminal {
			t.Mesos, t.Terminal = mesos.TASK_LOST, true
		}
	}
	m.mu.Unlock()
	m.rec("MFailure", "agent", agentID, "executor", "")
	m.send(fw, &scheduler.Event{Type: scheduler.Event_FAILURE, Failure: &scheduler.Event_Failure{AgentID: &mesos.AgentID{Value: agentID}}})
}

// DeviceEvent sends a device event (BASIC_TASK_TERMINATED, END_OF_STREAM, TASK_INTERNAL_ERROR) from a
// task's executor, built and serialised with the real event types, as the executor does.
func (m *Master) DeviceEvent(id string, typ string, exit int, voluntary bool, final mesos.TaskState) {
	t := m.Task(id)
	if t == nil {
		return
	}
	origin := event.DeviceEventOrigin{AgentId: mesos.AgentID{Value: t.AgentID}, ExecutorId: mesos.ExecutorID{Value: t.ExecutorID},
		TaskId: mesos.TaskID{Value: t.ID}}
	var de event.DeviceEvent
	switch typ {
	case "BASIC_TASK_TERMINATED":
		de = event.NewDeviceEvent(origin, execpb.DeviceEventType_BASIC_TASK_TERMINATED)
		btt := de.(*event.BasicTaskTerminated)
		btt.ExitCode, btt.VoluntaryTermination, btt.FinalMesosState = exit, voluntary, final
	case "END_OF_STREAM":
		de = event.NewDeviceEvent(origin, execpb.DeviceEventType_END_OF_STREAM)
	case "TASK_INTERNAL_ERROR":
		de = event.NewDeviceEvent(origin, execpb.DeviceEventType_TASK_INTERNAL_ERROR)
	default:
		return
	}
	de.SetLabels(map[string]string{"environmentId": t.EnvID})
	b, err := json.Marshal(de)
	if err != nil {
		m.rec("MMessageBad", "err", err.Error())
		return
	}
	m.rec("MDeviceEvent", "task", id, "type", typ, "exit", exit, "voluntary", voluntary)
	m.send(t.Framework, &scheduler.Event{Type: scheduler.Event_MESSAGE, Message: &scheduler.Event_Message{
		AgentID: mesos.AgentID{Value: t.AgentID}, ExecutorID: mesos.ExecutorID{Value: t.ExecutorID}, Data: b}})
}

// Executor simulation --------------------------------------------------------------------------

func (m *Master) reply(t *SimTask, v interface{}) {
	b, _ := json.Marshal(v)
	m.send(t.Framework, &scheduler.Event{Type: scheduler.Event_MESSAGE, Message: &scheduler.Event_Message{
		AgentID: mesos.AgentID{Value: t.AgentID}, ExecutorID: mesos.ExecutorID{Value: t.ExecutorID}, Data: b}})
}

func (m *Master) message(fw string, msg *scheduler.Call_Message) bool {
	// a MESSAGE call must name the agent and the executor it is for (the master validates the call)
	if msg.AgentID.Value == "" || msg.ExecutorID.Value == "" {
		m.rec("MMessageRefused", "agent", msg.AgentID.Value, "executor", msg.ExecutorID.Value)
		return false
	}
	var head struct {
		Name       string                               `json:"name"`
		TargetList []controlcommands.MesosCommandTarget `json:"targetList"`
	}
	if err := json.Unmarshal(msg.Data, &head); err != nil {
		m.rec("MMessageBad", "err", err.Error())
		return true
	}
	switch head.Name {
	case "MesosCommand_Transition":
		var cmd controlcommands.MesosCommand_Transition
		if err := json.Unmarshal(msg.Data, &cmd); err != nil {
			m.rec("MMessageBad", "err", err.Error())
			return true
		}
		ok := true
		for _, tg := range cmd.TargetList {
			if !m.transition(fw, &cmd, tg) {
				ok = false
			}
		}
		return ok
	case "MesosCommand_TriggerHook":
		var cmd controlcommands.MesosCommand_TriggerHook
		if err := json.Unmarshal(msg.Data, &cmd); err != nil {
			m.rec("MMessageBad", "err", err.Error())
			return true
		}
		for _, tg := range cmd.TargetList {
			m.triggerHook(fw, &cmd, tg)
		}
	default:
		m.rec("MMessageOther", "name", head.Name)
	}
	return true
}

func argKeys(a controlcommands.PropertyMap) []string {
	ks := make([]string, 0, len(a))
	for k := range a {
		ks = append(ks, k)
	}
	sort.Strings(ks)
	return ks
}

func (m *Master) transition(fw string, cmd *controlcommands.MesosCommand_Transition, tg controlcommands.MesosCommandTarget) bool {
	t := m.Task(tg.TaskId.Value)
	out := OK
	if t != nil && m.CmdScript != nil {
		out = m.CmdScript(t, cmd.Event, cmd.Id.String())
	}
	chans := map[string]string{}
	for k, v := range cmd.Arguments {
		if strings.HasPrefix(k, "chans.") {
			chans[k] = v
		}
	}
	cls := ""
	heldSoeor := ""
	if t != nil {
		cls = ShortClass(t.Name)
		// a task keeps the properties it was given until a later command overwrites them
		m.mu.Lock()
		if real, ok := m.tasks[t.ID]; ok { // (t is a copy)
			if real.Props == nil {
				real.Props = map[string]string{}
			}
			for k, v := range cmd.Arguments {
				real.Props[k] = v
			}
			heldSoeor = real.Props["run_end_time_ms"]
		}
		m.mu.Unlock()
	}
	m.rec("MMessage", "held_soeor", heldSoeor, "cmd", cmd.Id.String(), "event", cmd.Event, "src", cmd.Source, "dst", cmd.Destination, "task", tg.TaskId.Value,
		"class", cls, "env", cmd.EnvironmentId.String(), "argkeys", argKeys(cmd.Arguments), "chans", chans, "rn", cmd.Arguments["runNumber"],
		"outcome", string(out), "known", t != nil)
	if t == nil {
		return true
	}
	if out == Unsendable {
		return false
	}
	if out == OKEarly {
		// a very fast executor (or a slow answer of the master to the MESSAGE call): the core processes the reply while its
		// send call has not returned yet
		m.setO2(t.ID, cmd.Destination)
		m.rec("MReply", "cmd", cmd.Id.String(), "task", t.ID, "class", cls, "ok", true, "state", cmd.Destination, "early", true)
		m.reply(t, controlcommands.NewMesosCommandResponse_Transition(cmd, nil, cmd.Destination, t.ID))
		time.Sleep(40 * time.Millisecond)
		return true
	}
	go func() {
		time.Sleep(m.Latency / 5)
		mk := func(err error, state string) *controlcommands.MesosCommandResponse_Transition {
			return controlcommands.NewMesosCommandResponse_Transition(cmd, err, state, t.ID)
		}
		switch out {
		case Silent:
			return
		case Dies:
			m.setMesos(t.ID, mesos.TASK_FAILED)
			m.update(fw, t, mesos.TASK_FAILED, nil, "task died during transition")
			return
		case ErrSrc:
			m.rec("MReply", "cmd", cmd.Id.String(), "task", t.ID, "class", cls, "ok", false, "state", cmd.Source)
			m.reply(t, mk(fmt.Errorf("scripted transition failure of %s", t.ID), cmd.Source))
		case ErrError:
			m.setO2(t.ID, "ERROR")
			m.rec("MReply", "cmd", cmd.Id.String(), "task", t.ID, "class", cls, "ok", false, "state", "ERROR")
			m.reply(t, mk(fmt.Errorf("scripted transition failure of %s", t.ID), "ERROR"))
		default:
			if out == Foreign {
				r := mk(nil, cmd.Destination)
				r.CommandId = controlcommands.NewMesosCommand("x", cmd.EnvironmentId, nil, nil).Id
				m.reply(t, r)
			}
			m.setO2(t.ID, cmd.Destination)
			m.rec("MReply", "cmd", cmd.Id.String(), "task", t.ID, "class", cls, "ok", true, "state", cmd.Destination)
			m.reply(t, mk(nil, cmd.Destination))
			if out == Dup {
				m.reply(t, mk(nil, cmd.Destination))
			}
		}
	}()
	return true
}

// HookPlan: what a triggered hook task does.
type HookPlan struct {
	Exit      int
	Voluntary bool
	Respond   bool // false: acknowledged, never (or late) terminating
	LateMs    int
	Early     bool
}

func (m *Master) triggerHook(fw string, cmd *controlcommands.MesosCommand_TriggerHook, tg controlcommands.MesosCommandTarget) {
	t := m.Task(tg.TaskId.Value)
	m.rec("MTriggerHook", "cmd", cmd.Id.String(), "task", tg.TaskId.Value, "env", cmd.EnvironmentId.String(), "known", t != nil)
	if t == nil {
		return
	}
	plan := HookPlan{Voluntary: true, Respond: true}
	if m.HookScript != nil {
		plan = m.HookScript(t)
	}
	exit, voluntary := plan.Exit, plan.Voluntary
	done := func(final bool) {
		m.rec("MHookDone", "task", t.ID, "class", ShortClass(t.Name), "env", cmd.EnvironmentId.String(), "exit", exit, "voluntary", voluntary)
		st := mesos.TASK_FINISHED
		if exit != 0 {
			st = mesos.TASK_FAILED
		}
		m.DeviceEvent(t.ID, "BASIC_TASK_TERMINATED", exit, voluntary, st)
		if final {
			m.setMesos(t.ID, st)
			m.update(fw, t, st, nil, "")
		}
	}
	go func() {
		time.Sleep(m.Latency / 5)
		if plan.Early && plan.Respond {
			// a very short-lived hook: the process is gone before the executor has answered the trigger command
			done(true)
			time.Sleep(m.Latency / 5)
			m.reply(t, controlcommands.NewMesosCommandResponse_TriggerHook(cmd, nil, t.ID))
			return
		}
		m.reply(t, controlcommands.NewMesosCommandResponse_TriggerHook(cmd, nil, t.ID))
		if !plan.Respond {
			// the trigger is acknowledged but the hook process does not end in time: the core's hook timeout decides
			if plan.LateMs > 0 {
				time.Sleep(time.Duration(plan.LateMs) * time.Millisecond)
				done(false) // it ends later: the executor reports the exit of the process, the task can be triggered again
			}
			return
		}
		time.Sleep(m.Latency / 5)
		done(true)
	}()
}
