package coresim

// Extensions of the scenario runner for C04/C06 (spec/Lifecycle*.tla).
//
//   {"do":"disarm","point":P}  stops gating P (later arrivals pass) but keeps the goroutines already parked
//                              there parked until a "release" step.
//   {"do":"mutepoint","point":P}  hook point P is not recorded any more (it can still be gated): keeps the cost of a
//                              point that sits in a timing-sensitive place of the core next to nothing.
//   {"do":"pendingcalls"}  records Pending{n, started}: the number of goroutines of the in-process
//                          core that sit in callable.(*Call).Start's goroutine (a started hook call
//                          whose result has not been collected yet and which has not been cancelled)
//                          — the observable side of Environment.callsPendingAwait.

import (
	"context"
	"runtime"
	"strings"
	"sync"
	"time"
)

var (
	mutedMu sync.Mutex
	muted   = map[*Runner]map[string]bool{}
)

func init() {
	ExtraSteps["mutepoint"] = func(r *Runner, st *Step, ctx context.Context) {
		mutedMu.Lock()
		defer mutedMu.Unlock()
		m, ok := muted[r]
		if !ok {
			m = map[string]bool{}
			muted[r] = m
			inner := r.Sched.OnPoint
			r.Sched.OnPoint = func(point string, kv []interface{}) {
				mutedMu.Lock()
				skip := m[point]
				mutedMu.Unlock()
				if !skip && inner != nil {
					inner(point, kv)
				}
			}
		}
		m[st.Point] = true
	}
	ExtraSteps["disarm"] = func(r *Runner, st *Step, ctx context.Context) {
		r.Sched.Ungate(st.Point)
		r.mu.Lock()
		delete(r.matchers, st.Point)
		r.mu.Unlock()
		r.Emit("GateDisarmed", "point", st.Point, "parked", r.Sched.NParked(st.Point))
	}
	ExtraSteps["pendingcalls"] = func(r *Runner, st *Step, ctx context.Context) {
		// a cancelled call goroutine needs a moment to leave its select
		n := -1
		for i := 0; i < 20; i++ {
			n = countGoroutines("callable.(*Call).Start.func1")
			if n == 0 {
				break
			}
			time.Sleep(5 * time.Millisecond)
		}
		r.Emit("Pending", "n", n)
	}
}

func countGoroutines(pattern string) int {
	buf := make([]byte, 1<<20)
	for {
		n := runtime.Stack(buf, true)
		if n < len(buf) {
			buf = buf[:n]
			break
		}
		buf = make([]byte, 2*len(buf))
	}
	c := 0
	for _, g := range strings.Split(string(buf), "\n\n") {
		if strings.Contains(g, pattern) {
			c++
		}
	}
	return c
}
