package coresim

// Extensions of the scenario runner for C04/C06 (spec/Lifecycle*.tla).
//
//   {"do":"disarm","point":P}  stops gating P (later arrivals pass) but keeps the goroutines already parked
//                              there parked until a "release" step.
//   {"do":"mutepoint","point":P}  hook point P is not recorded any more (it can still be gated): keeps the cost of a
//                              point that sits in a timing-sensitive place of the core next to nothing.
//   {"do":"refusekills","n":N}  the simulated master rejects (HTTP 400, or the status given as "ms") the next N KILL calls of the
//                              framework; each refusal is recorded as MKillRefused{task}.  n = 0 disarms.
//   {"do":"pendingcalls"}  records Pending{n, started}: the number of goroutines of the in-process
//                          core that sit in callable.(*Call).Start's goroutine (a started hook call
//                          whose result has not been collected yet and which has not been cancelled)
//                          — the observable side of Environment.callsPendingAwait.

import (
	"context"
	"runtime"
	"strings"
	"sync"
	"time"

	"github.com/mesos/mesos-go/api/v1/lib/scheduler"
)

type killRefuser struct {
	mu     sync.Mutex
	left   int
	status int
}

var (
	refusersMu sync.Mutex
	refusers   = map[*Runner]*killRefuser{}
)

// refuserOf wraps Master.OnCall once per runner (other extensions may have wrapped it before: they stay in the chain).
func refuserOf(r *Runner) *killRefuser {
	refusersMu.Lock()
	defer refusersMu.Unlock()
	if k, ok := refusers[r]; ok {
		return k
	}
	k := &killRefuser{}
	refusers[r] = k
	inner := r.Master.OnCall
	r.Master.OnCall = func(call *scheduler.Call) int {
		if call.Type == scheduler.Call_KILL && call.Kill != nil {
			k.mu.Lock()
			refuse := k.left > 0
			if refuse {
				k.left--
			}
			k.mu.Unlock()
			if refuse {
				r.Emit("MKillRefused", "task", call.Kill.TaskID.Value)
				return k.status
			}
		}
		if inner != nil {
			return inner(call)
		}
		return 0
	}
	return k
}

var (
	mutedMu sync.Mutex
	muted   = map[*Runner]map[string]bool{}
)

func init() {
	ExtraSteps["refusekills"] = func(r *Runner, st *Step, ctx context.Context) {
		k := refuserOf(r)
		k.mu.Lock()
		k.left = st.N
		k.status = 400 // Bad Request: the call is rejected, the connection of the scheduler stays usable
		if st.Ms > 0 {
			k.status = st.Ms
		}
		k.mu.Unlock()
	}
	ExtraSteps["mutepoint"] = func(r *Runner, st *Step, ctx context.Context) {
		mutedMu.Lock()
		defer mutedMu.Unlock()
		m, ok := muted[r]
		if !ok {
			m = map[string]bool{}
			muted[r] = m
			inner := r.Sched.OnPoint
			r.Sched.OnPoint = func(point string, kv []interface{}) {
				mutedMu.Lock()
				skip := m[point]
				mutedMu.Unlock()
				if !skip && inner != nil {
					inner(point, kv)
				}
			}
		}
		m[st.Point] = true
	}
	ExtraSteps["disarm"] = func(r *Runner, st *Step, ctx context.Context) {
		r.Sched.Ungate(st.Point)
		r.mu.Lock()
		delete(r.matchers, st.Point)
		r.mu.Unlock()
		r.Emit("GateDisarmed", "point", st.Point, "parked", r.Sched.NParked(st.Point))
	}
	ExtraSteps["pendingcalls"] = func(r *Runner, st *Step, ctx context.Context) {
		// a cancelled call goroutine needs a moment to leave its select
		n := -1
		for i := 0; i < 20; i++ {
			n = countGoroutines("callable.(*Call).Start.func1")
			if n == 0 {
				break
			}
			time.Sleep(5 * time.Millisecond)
		}
		r.Emit("Pending", "n", n)
	}
}

func countGoroutines(pattern string) int {
	buf := make([]byte, 1<<20)
	for {
		n := runtime.Stack(buf, true)
		if n < len(buf) {
			buf = buf[:n]
			break
		}
		buf = make([]byte, 2*len(buf))
	}
	c := 0
	for _, g := range strings.Split(string(buf), "\n\n") {
		if strings.Contains(g, pattern) {
			c++
		}
	}
	return c
}
