package coresim

import (
	"context"
	"fmt"
	"net"
	"os"
	"os/exec"
	"path/filepath"
	"strconv"
	"strings"
	"sync"
	"time"

	"github.com/AliceO2Group/Control/common/utils/uid"
	"github.com/AliceO2Group/Control/core"
	"github.com/AliceO2Group/Control/core/integration"
	"github.com/AliceO2Group/Control/core/protos"
	"github.com/AliceO2Group/Control/core/workflow/callable"
	"github.com/sirupsen/logrus"
	"github.com/spf13/viper"
	"google.golang.org/grpc"
	"google.golang.org/grpc/credentials/insecure"
)

// CoreOpts describes one core instance.
type CoreOpts struct {
	WorkDir     string // coreWorkingDir (must exist; contains repos/)
	ConsulAddr  string
	MesosURL    string
	ControlPort int
	MetricsPort int
	Extra       []string // extra --flag=value
}

// FreePort picks a TCP port for a core instance. Several coresim processes run side by side and the core
// only binds its ports some time after they were chosen, so a port is reserved among them with an exclusive
// lock file before it is returned (stale reservations are dropped after ten minutes).
func FreePort() int {
	dir := filepath.Join(os.TempDir(), "verif-coresim-ports")
	_ = os.MkdirAll(dir, 0o777)
	start := 20000 + (os.Getpid()*7919+int(time.Now().UnixNano()%9973))%20000
	for i := 0; i < 4000; i++ {
		port := 20000 + (start-20000+i*17)%20000
		lock := filepath.Join(dir, strconv.Itoa(port))
		if fi, err := os.Stat(lock); err == nil && time.Since(fi.ModTime()) > 10*time.Minute {
			_ = os.Remove(lock)
		}
		f, err := os.OpenFile(lock, os.O_CREATE|os.O_EXCL|os.O_WRONLY, 0o666)
		if err != nil {
			continue
		}
		f.Close()
		ln, err := net.Listen("tcp", ":"+strconv.Itoa(port))
		if err != nil {
			continue
		}
		ln.Close()
		return port
	}
	panic("no free port")
}

func (o *CoreOpts) Args() []string {
	a := []string{
		"--coreWorkingDir=" + o.WorkDir,
		"--configServiceUri=consul://" + o.ConsulAddr,
		"--mesosUrl=" + o.MesosURL,
		"--controlPort=" + strconv.Itoa(o.ControlPort),
		"--metricsEndpoint=" + strconv.Itoa(o.MetricsPort) + "/ecsmetrics",
		"--enableKafka=false",
		"--integrationPlugins=verif",
		"--mesosReviveWait=50ms",
	}
	return append(a, o.Extra...)
}

// ---------------------------------------------------------------------------------------------
// verification plugin: functions callable from workflow hooks as verif.Probe('id') etc.

// PluginHandler is installed by the driver; it is called from the hook's goroutine with the call
// (VarStack carries __call_trigger, run_number, ...) and returns an error string ("" = success).
var PluginHandler func(call *callable.Call, fn string, arg string) string
var pluginMu sync.RWMutex

func SetPluginHandler(h func(call *callable.Call, fn string, arg string) string) {
	pluginMu.Lock()
	PluginHandler = h
	pluginMu.Unlock()
}

type verifPlugin struct{}

func (p *verifPlugin) GetName() string            { return "verif" }
func (p *verifPlugin) GetPrettyName() string      { return "verification plugin" }
func (p *verifPlugin) GetEndpoint() string        { return "inproc" }
func (p *verifPlugin) GetConnectionState() string { return "READY" }
func (p *verifPlugin) GetData(_ []any) string     { return "" }
func (p *verifPlugin) Init(_ string) error        { return nil }
func (p *verifPlugin) Destroy() error             { return nil }
func (p *verifPlugin) GetEnvironmentsData(ids []uid.ID) map[uid.ID]string {
	return map[uid.ID]string{}
}
func (p *verifPlugin) GetEnvironmentsShortData(ids []uid.ID) map[uid.ID]string {
	return map[uid.ID]string{}
}
func (p *verifPlugin) ObjectStack(_ map[string]string, _ map[string]string) map[string]interface{} {
	return map[string]interface{}{}
}
func (p *verifPlugin) CallStack(data interface{}) map[string]interface{} {
	call, ok := data.(*callable.Call)
	if !ok {
		return nil
	}
	mk := func(fn string) func(arg string) string {
		return func(arg string) string {
			pluginMu.RLock()
			h := PluginHandler
			pluginMu.RUnlock()
			if h == nil {
				return ""
			}
			if e := h(call, fn, arg); e != "" {
				call.VarStack["__call_error"] = e
			}
			return ""
		}
	}
	return map[string]interface{}{"Probe": mk("Probe")}
}

func RegisterPlugin() {
	integration.RegisterPlugin("verif", "verifPluginEndpoint", func(string) integration.Plugin { return &verifPlugin{} })
}

// ---------------------------------------------------------------------------------------------

// RunCoreInProcess starts the real core in this process (once per process). It returns when the
// gRPC control port answers.
func RunCoreInProcess(o *CoreOpts, quiet bool) error {
	RegisterPlugin()
	os.Args = append([]string{"o2-aliecs-core"}, o.Args()...)
	if quiet {
		logrus.SetOutput(os.Stderr)
		logrus.SetLevel(logrus.FatalLevel)
	}
	if err := core.NewConfig(); err != nil {
		return fmt.Errorf("core.NewConfig: %w", err)
	}
	viper.Set("verifPluginEndpoint", "inproc")
	if quiet {
		logrus.SetLevel(logrus.FatalLevel)
	}
	errCh := make(chan error, 1)
	go func() { errCh <- core.Run() }()
	deadline := time.Now().Add(20 * time.Second)
	for time.Now().Before(deadline) {
		select {
		case err := <-errCh:
			return fmt.Errorf("core.Run returned: %v", err)
		default:
		}
		c, err := net.DialTimeout("tcp", fmt.Sprintf("127.0.0.1:%d", o.ControlPort), 200*time.Millisecond)
		if err == nil {
			c.Close()
			return nil
		}
		time.Sleep(20 * time.Millisecond)
	}
	return fmt.Errorf("core did not open its control port")
}

// CoreMain is the entry point of a child-process core (`coresim -mode core -- <core flags>`).
func CoreMain(args []string) {
	RegisterPlugin()
	os.Args = append([]string{"o2-aliecs-core"}, args...)
	if err := core.NewConfig(); err != nil {
		fmt.Fprintln(os.Stderr, "core.NewConfig:", err)
		os.Exit(3)
	}
	viper.Set("verifPluginEndpoint", "inproc")
	if err := core.Run(); err != nil {
		fmt.Fprintln(os.Stderr, "core.Run:", err)
		os.Exit(4)
	}
}

// ChildCore is a core running as a child process of the harness (for crash/restart scenarios).
type ChildCore struct {
	Cmd  *exec.Cmd
	Opts *CoreOpts
	done chan struct{}
}

func StartChildCore(self string, o *CoreOpts, logPath string) (*ChildCore, error) {
	cmd := exec.Command(self, append([]string{"-mode", "core", "--"}, o.Args()...)...)
	lf, err := os.Create(logPath)
	if err != nil {
		return nil, err
	}
	cmd.Stdout, cmd.Stderr = lf, lf
	if err := cmd.Start(); err != nil {
		return nil, err
	}
	cc := &ChildCore{Cmd: cmd, Opts: o, done: make(chan struct{})}
	go func() { cmd.Wait(); lf.Close(); close(cc.done) }()
	deadline := time.Now().Add(20 * time.Second)
	for time.Now().Before(deadline) {
		select {
		case <-cc.done:
			return nil, fmt.Errorf("child core exited early (see %s)", logPath)
		default:
		}
		c, err := net.DialTimeout("tcp", fmt.Sprintf("127.0.0.1:%d", o.ControlPort), 200*time.Millisecond)
		if err == nil {
			c.Close()
			return cc, nil
		}
		time.Sleep(20 * time.Millisecond)
	}
	cc.Kill()
	return nil, fmt.Errorf("child core did not open its control port (see %s)", logPath)
}

func (c *ChildCore) Kill() {
	if c.Cmd.Process != nil {
		c.Cmd.Process.Kill()
	}
	<-c.done
}

// ---------------------------------------------------------------------------------------------

// Dial opens a gRPC client to a core's control port.
func Dial(port int) (pb.ControlClient, *grpc.ClientConn, error) {
	ctx, cancel := context.WithTimeout(context.Background(), 5*time.Second)
	defer cancel()
	conn, err := grpc.DialContext(ctx, fmt.Sprintf("127.0.0.1:%d", port), grpc.WithTransportCredentials(insecure.NewCredentials()), grpc.WithBlock())
	if err != nil {
		return nil, nil, err
	}
	return pb.NewControlClient(conn), conn, nil
}

// WriteRepo creates a local git workflow repository with the given files (relative path -> content)
// and returns its path. The path must not contain '.' or ':' (URL heuristics of the repo manager).
func WriteRepo(base string, files map[string]string) (string, error) {
	dir := filepath.Join(base, "wfrepo", "ControlWorkflows")
	if strings.ContainsAny(dir, ".:") {
		return "", fmt.Errorf("repo path %q contains '.' or ':'", dir)
	}
	for _, sub := range []string{"workflows", "tasks"} {
		if err := os.MkdirAll(filepath.Join(dir, sub), 0o755); err != nil {
			return "", err
		}
	}
	for name, content := range files {
		p := filepath.Join(dir, name)
		if err := os.MkdirAll(filepath.Dir(p), 0o755); err != nil {
			return "", err
		}
		if err := os.WriteFile(p, []byte(content), 0o644); err != nil {
			return "", err
		}
	}
	if _, err := os.Stat(filepath.Join(dir, ".git")); err != nil {
		for _, a := range [][]string{{"init", "-q"}, {"add", "-A"}, {"-c", "user.email=v@v", "-c", "user.name=v", "commit", "-q", "-m", "init"}} {
			c := exec.Command("git", a...)
			c.Dir = dir
			if out, err := c.CombinedOutput(); err != nil {
				return "", fmt.Errorf("git %v: %v: %s", a, err, out)
			}
		}
	} else {
		for _, a := range [][]string{{"add", "-A"}, {"-c", "user.email=v@v", "-c", "user.name=v", "commit", "-q", "--allow-empty", "-m", "update"}} {
			c := exec.Command("git", a...)
			c.Dir = dir
			if out, err := c.CombinedOutput(); err != nil {
				return "", fmt.Errorf("git %v: %v: %s", a, err, out)
			}
		}
	}
	return dir, nil
}
