package coresim

import (
	"encoding/base64"
	"encoding/json"
	"io"
	"net"
	"net/http"
	"sort"
	"strconv"
	"strings"
	"sync"
)

// Consul is a minimal Consul KV store (the subset used by github.com/hashicorp/consul/api as the
// core uses it): GET key[?keys|recurse|consistent], PUT key[?cas=n], DELETE key[?recurse].
// CAS as documented by Consul: cas=0 => only if absent; otherwise only if ModifyIndex matches.
type Consul struct {
	mu   sync.Mutex
	ln   net.Listener
	srv  *http.Server
	kv   map[string]*kvEntry
	idx  uint64
	Rec  func(ev string, kv ...interface{})
	Hook func(method, key string, q map[string]string) (status int) // scripted failures; 0 = default
}

type kvEntry struct {
	Val            []byte
	Create, Modify uint64
}

func NewConsul() (*Consul, error) {
	ln, err := net.Listen("tcp", "127.0.0.1:0")
	if err != nil {
		return nil, err
	}
	c := &Consul{ln: ln, kv: map[string]*kvEntry{}, idx: 10}
	mux := http.NewServeMux()
	mux.HandleFunc("/v1/kv/", c.handle)
	mux.HandleFunc("/", func(w http.ResponseWriter, r *http.Request) { http.Error(w, "not found", 404) })
	c.srv = &http.Server{Handler: mux}
	go c.srv.Serve(ln)
	return c, nil
}

func (c *Consul) Addr() string { return c.ln.Addr().String() }
func (c *Consul) Close()       { c.srv.Close() }

func (c *Consul) Put(key, val string) {
	c.mu.Lock()
	c.idx++
	if e, ok := c.kv[key]; ok {
		e.Val, e.Modify = []byte(val), c.idx
	} else {
		c.kv[key] = &kvEntry{Val: []byte(val), Create: c.idx, Modify: c.idx}
	}
	c.mu.Unlock()
}

func (c *Consul) Get(key string) (string, bool) {
	c.mu.Lock()
	defer c.mu.Unlock()
	e, ok := c.kv[key]
	if !ok {
		return "", false
	}
	return string(e.Val), true
}

func (c *Consul) hdr(w http.ResponseWriter) {
	w.Header().Set("X-Consul-Index", strconv.FormatUint(c.idx, 10))
	w.Header().Set("X-Consul-LastContact", "0")
	w.Header().Set("X-Consul-KnownLeader", "true")
	w.Header().Set("Content-Type", "application/json")
}

func (c *Consul) handle(w http.ResponseWriter, r *http.Request) {
	key := strings.TrimPrefix(r.URL.Path, "/v1/kv/")
	q := map[string]string{}
	for k, v := range r.URL.Query() {
		q[k] = strings.Join(v, ",")
	}
	if c.Hook != nil {
		if st := c.Hook(r.Method, key, q); st != 0 {
			http.Error(w, "scripted failure", st)
			return
		}
	}
	c.mu.Lock()
	defer c.mu.Unlock()
	switch r.Method {
	case "GET":
		_, keysOnly := q["keys"]
		_, recurse := q["recurse"]
		if keysOnly || recurse {
			ks := []string{}
			for k := range c.kv {
				if strings.HasPrefix(k, key) {
					ks = append(ks, k)
				}
			}
			sort.Strings(ks)
			c.hdr(w)
			if len(ks) == 0 {
				w.WriteHeader(404)
				return
			}
			if keysOnly {
				sep := q["separator"]
				if sep != "" {
					seen := map[string]bool{}
					out := []string{}
					for _, k := range ks {
						rest := k[len(key):]
						if i := strings.Index(rest, sep); i >= 0 {
							k = key + rest[:i+len(sep)]
						}
						if !seen[k] {
							seen[k] = true
							out = append(out, k)
						}
					}
					ks = out
				}
				json.NewEncoder(w).Encode(ks)
				return
			}
			out := []map[string]interface{}{}
			for _, k := range ks {
				out = append(out, c.pair(k))
			}
			json.NewEncoder(w).Encode(out)
			return
		}
		c.hdr(w)
		if _, ok := c.kv[key]; !ok {
			w.WriteHeader(404)
			return
		}
		json.NewEncoder(w).Encode([]map[string]interface{}{c.pair(key)})
	case "PUT":
		body, _ := io.ReadAll(r.Body)
		ok := true
		if cas, has := q["cas"]; has {
			n, _ := strconv.ParseUint(cas, 10, 64)
			e, exists := c.kv[key]
			if n == 0 {
				ok = !exists
			} else {
				ok = exists && e.Modify == n
			}
		}
		if ok {
			c.idx++
			if e, exists := c.kv[key]; exists {
				e.Val, e.Modify = body, c.idx
			} else {
				c.kv[key] = &kvEntry{Val: body, Create: c.idx, Modify: c.idx}
			}
		}
		if c.Rec != nil {
			c.Rec("KvPut", "key", key, "val", string(body), "cas", q["cas"], "ok", ok)
		}
		c.hdr(w)
		if ok {
			io.WriteString(w, "true")
		} else {
			io.WriteString(w, "false")
		}
	case "DELETE":
		_, recurse := q["recurse"]
		for k := range c.kv {
			if k == key || (recurse && strings.HasPrefix(k, key)) {
				delete(c.kv, k)
			}
		}
		c.idx++
		c.hdr(w)
		io.WriteString(w, "true")
	default:
		http.Error(w, "method", 405)
	}
}

func (c *Consul) pair(k string) map[string]interface{} {
	e := c.kv[k]
	return map[string]interface{}{"Key": k, "Value": base64.StdEncoding.EncodeToString(e.Val), "CreateIndex": e.Create,
		"ModifyIndex": e.Modify, "LockIndex": 0, "Flags": 0}
}
