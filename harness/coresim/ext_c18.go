package coresim

// C18 extension of the scenario runner: master-side gates on individual scheduler calls (ACCEPT,
// MESSAGE:<event>, KILL) and on the report of TASK_RUNNING (LAUNCH), so that the core can be
// killed / the event stream dropped at a chosen point of an environment's life, plus waits that
// bound "nothing more will happen" after a restart or a reconnection.
//
// Steps (they use the generic Step fields only):
//   c18_init                                   install the call observer, forget gates, emit Fid
//   c18_fid                                    emit Fid{stored, present, frameworks}: runtime KV o2/runtime/aliecs/mesos_fid
//                                              and the framework ids with an open event stream at the master
//   c18_arm      {point, n, kind: ""|chain}    hold the n-th (default 1st) arrival at point; chain: a release with
//                                              op "more" lets that one go and holds the next arrival as well
//   c18_waitgate {point, n, timeout_ms, op}    wait until n (default 1) arrivals are held at point (op "seen": until
//                                              the n-th arrival since the arming is the one held)
//   c18_release  {point, kind: pass|drop|swallow}  let the held call through / refuse it (HTTP 503) / answer 202 and
//                                              forget it (accepted and lost)
//   c18_mark                                   remember how many RECONCILE and ACKNOWLEDGE calls the master has seen
//   c18_waitacks {n, timeout_ms}               wait for n ACKNOWLEDGE calls after the last mark
//   c18_waitkills {n, timeout_ms}              wait for n KILL calls after the last mark
//   c18_waitarrived {point, n, timeout_ms}     wait until a hook point has been reached n times (in-process core)
//   c18_poke                                   the master repeats the latest status of the task whose KILL is held
//   c18_waitreconcile {timeout_ms}             wait for a RECONCILE call after the last mark / wait
//   c18_waitdead {timeout_ms}                  wait until the master has no non-terminal task
//   c18_waitorphans {timeout_ms}               wait until the master has no non-terminal task outside the core's roster
//   c18_ungate_keep {point}                    a gated hook point lets later arrivals pass, who is parked there stays
//   c18_errorevent                             the master sends an ERROR event on the scheduler stream(s)
//   c18_cleanupids {env}                       gRPC CleanupTasks naming the tasks of that environment
//   c18_delfid                                 delete the stored framework id (fresh installation)
//
// Points: "RECONCILE", "REVIVE", "ACCEPT" (an ACCEPT call launching at least one task), "MESSAGE:CONFIGURE",
// "MESSAGE:START", ..., "KILL", "LAUNCH" (per task, before TASK_RUNNING is reported; a task that was
// killed while held is never reported running).

import (
	"context"
	"encoding/json"
	"net/http"
	"sort"
	"strings"
	"sync"
	"time"

	"github.com/AliceO2Group/Control/core/controlcommands"
	pb "github.com/AliceO2Group/Control/core/protos"
	mesos "github.com/mesos/mesos-go/api/v1/lib"
	"github.com/mesos/mesos-go/api/v1/lib/scheduler"
)

const c18FidKey = "o2/runtime/aliecs/mesos_fid"

type c18Hold struct {
	release chan struct{} // closed on release
	verdict string        // pass | drop | swallow
}

type c18Gate struct {
	nth      int  // hold the nth arrival (calls) / every arrival (LAUNCH, MESSAGE)
	chain    bool // after a release that asks for more, the next arrival is held as well
	seen     int  // arrivals so far
	held     int  // arrivals currently held
	cur      *c18Hold
	released bool
}

type c18State struct {
	mu         sync.Mutex
	gates      map[string]*c18Gate
	reconciles int
	mark       int
	acks       int
	ackMark    int
	kills      int // KILL calls that have arrived (held or not)
	killMark   int
	heldKill   string // task of the KILL call held last
	installed  *Master
}

var c18 = &c18State{gates: map[string]*c18Gate{}}

func c18Point(call *scheduler.Call) string {
	switch call.Type {
	case scheduler.Call_ACCEPT:
		if call.Accept != nil {
			for _, op := range call.Accept.Operations {
				if op.Launch != nil && len(op.Launch.TaskInfos) > 0 {
					return "ACCEPT"
				}
			}
		}
	case scheduler.Call_REVIVE:
		return "REVIVE" // held: no offers, a deployment waits for them inside acquireTasks (deployMu taken)
	case scheduler.Call_KILL:
		return "KILL"
	case scheduler.Call_MESSAGE:
		var head struct {
			Name  string `json:"name"`
			Event string `json:"event"`
		}
		if call.Message != nil && json.Unmarshal(call.Message.Data, &head) == nil && head.Name == "MesosCommand_Transition" {
			return "MESSAGE:" + head.Event
		}
	}
	return ""
}

// c18TargetsDead: the command has targets and all of them are terminal at the master.
func c18TargetsDead(m *Master, call *scheduler.Call) bool {
	var head struct {
		TargetList []controlcommands.MesosCommandTarget `json:"targetList"`
	}
	if call.Message == nil || json.Unmarshal(call.Message.Data, &head) != nil || len(head.TargetList) == 0 {
		return false
	}
	for _, tg := range head.TargetList {
		if t := m.Task(tg.TaskId.Value); t == nil || !t.Terminal {
			return false
		}
	}
	return true
}

// c18ExplicitReconcile: the latest state of the listed non-terminal tasks of the framework.
func c18ExplicitReconcile(m *Master, fw string, ids map[string]bool) {
	m.mu.Lock()
	ts := []*SimTask{}
	for _, id := range m.taskSeq {
		if t := m.tasks[id]; ids[id] && t.Framework == fw && !t.Terminal {
			c := *t
			ts = append(ts, &c)
		}
	}
	m.mu.Unlock()
	reason := mesos.REASON_RECONCILIATION
	for _, t := range ts {
		m.update(fw, t, t.Mesos, &reason, "Reconciliation: Latest task state")
	}
}

// arrive parks the caller when the point is gated; returns the verdict ("pass" when not gated).
func (s *c18State) arrive(r *Runner, point string, every bool, kv ...interface{}) string {
	s.mu.Lock()
	g := s.gates[point]
	if g == nil || g.released {
		s.mu.Unlock()
		return "pass"
	}
	g.seen++
	if !every && g.seen != g.nth && !(g.chain && g.seen > g.nth) {
		s.mu.Unlock()
		return "pass"
	}
	g.held++
	h := g.cur
	s.mu.Unlock()
	r.Emit("MGateReached", append([]interface{}{"point", point}, kv...)...)
	select {
	case <-h.release:
	case <-time.After(25 * time.Second): // safety net: a forgotten gate must not wedge the batch
	}
	s.mu.Lock()
	g.held--
	v := h.verdict
	s.mu.Unlock()
	if v == "" {
		v = "pass"
	}
	return v
}

func (s *c18State) install(r *Runner) {
	s.mu.Lock()
	s.gates = map[string]*c18Gate{}
	s.mark = s.reconciles
	already := s.installed == r.Master
	s.installed = r.Master
	s.mu.Unlock()
	if already {
		return
	}
	r.Master.OnCall = func(call *scheduler.Call) int {
		if call.Type == scheduler.Call_RECONCILE {
			s.mu.Lock()
			s.reconciles++
			s.mu.Unlock()
			// held here, the master has not answered yet: a stream dropped now loses the whole answer
			if s.arrive(r, "RECONCILE", false) == "drop" {
				return http.StatusServiceUnavailable
			}
			if call.Reconcile != nil && len(call.Reconcile.Tasks) > 0 {
				// explicit reconciliation: Mesos answers for the listed tasks only (the shared master code answers every
				// RECONCILE as an implicit one); the call is answered here: 202 as for any accepted call
				ids := map[string]bool{}
				for _, t := range call.Reconcile.Tasks {
					ids[t.TaskID.Value] = true
				}
				fw := ""
				if call.FrameworkID != nil {
					fw = call.FrameworkID.Value
				}
				r.Emit("MReconcile", "fw", fw, "explicit", len(ids))
				go c18ExplicitReconcile(r.Master, fw, ids)
				return http.StatusAccepted
			}
			return 0
		}
		if call.Type == scheduler.Call_ACKNOWLEDGE {
			s.mu.Lock()
			s.acks++
			s.mu.Unlock()
			return 0
		}
		p := c18Point(call)
		if p == "" {
			return 0
		}
		kv := []interface{}{}
		if p == "KILL" && call.Kill != nil {
			kv = append(kv, "task", call.Kill.TaskID.Value)
			s.mu.Lock()
			s.heldKill = call.Kill.TaskID.Value
			s.kills++
			s.mu.Unlock()
		}
		// commands are sent with one MESSAGE call per target task: hold them all.
		// "drop": the master refuses the call (HTTP 503) without looking at it - for the core the call is lost
		// "swallow": the master answers 202 and forgets the call - nobody notices
		switch s.arrive(r, p, strings.HasPrefix(p, "MESSAGE:"), kv...) {
		case "drop":
			return http.StatusServiceUnavailable
		case "swallow":
			return http.StatusAccepted
		}
		if strings.HasPrefix(p, "MESSAGE:") && c18TargetsDead(r.Master, call) {
			// the simulated executors answer for any task the master has ever known: a command for tasks
			// that were killed in the meantime cannot be delivered
			r.Emit("MUndeliverable", "point", p)
			return http.StatusServiceUnavailable
		}
		return 0
	}
	old := r.Master.LaunchGate
	r.Master.LaunchGate = func(id string) {
		s.arrive(r, "LAUNCH", true, "task", id)
		if t := r.Master.Task(id); t != nil && (t.Terminal || t.KillSeen > 0) {
			// killed while still staging: a dead task never reports TASK_RUNNING
			select {}
		}
		if old != nil {
			old(id)
		}
	}
}

func c18Timeout(st *Step, def time.Duration) time.Duration {
	if st.TimeoutMs > 0 {
		return time.Duration(st.TimeoutMs) * time.Millisecond
	}
	return def
}

func c18EmitFid(r *Runner) {
	v, ok := r.Consul.Get(c18FidKey)
	r.Emit("Fid", "stored", v, "present", ok, "frameworks", append([]string{}, r.Master.Frameworks()...))
}

func init() {
	ExtraSteps["c18_init"] = func(r *Runner, st *Step, ctx context.Context) {
		c18.install(r)
		// the runner only waits for the SUBSCRIBE call: give the core the time to handle SUBSCRIBED (store the
		// framework id, then reconcile) before the scenario starts
		deadline := time.Now().Add(5 * time.Second)
		for time.Now().Before(deadline) {
			if _, ok := r.Consul.Get(c18FidKey); ok {
				break
			}
			time.Sleep(2 * time.Millisecond)
		}
		// ... and to send the RECONCILE call that follows the store (it has usually been sent long ago)
		late := time.Now().Add(300 * time.Millisecond)
		for time.Now().Before(late) {
			c18.mu.Lock()
			n := c18.reconciles
			c18.mu.Unlock()
			if n > 0 {
				break
			}
			time.Sleep(5 * time.Millisecond)
		}
		time.Sleep(20 * time.Millisecond)
		c18.mu.Lock()
		c18.mark = c18.reconciles
		c18.mu.Unlock()
		c18EmitFid(r)
	}
	ExtraSteps["c18_fid"] = func(r *Runner, st *Step, ctx context.Context) { c18EmitFid(r) }
	ExtraSteps["c18_arm"] = func(r *Runner, st *Step, ctx context.Context) {
		n := st.N
		if n <= 0 {
			n = 1
		}
		c18.mu.Lock()
		c18.gates[st.Point] = &c18Gate{nth: n, chain: st.Kind == "chain", cur: &c18Hold{release: make(chan struct{})}}
		c18.mu.Unlock()
		r.Emit("MGateArmed", "point", st.Point, "n", n, "chain", st.Kind == "chain")
	}
	ExtraSteps["c18_waitgate"] = func(r *Runner, st *Step, ctx context.Context) {
		n := st.N
		if n <= 0 {
			n = 1
		}
		deadline := time.Now().Add(c18Timeout(st, 10*time.Second))
		ok := false
		for {
			c18.mu.Lock()
			g := c18.gates[st.Point]
			if st.Op == "seen" { // the n-th arrival (counted from the arming) is the one held now
				ok = g != nil && g.seen >= n && g.held >= 1
			} else {
				ok = g != nil && g.held >= n
			}
			c18.mu.Unlock()
			if ok || time.Now().After(deadline) {
				break
			}
			time.Sleep(2 * time.Millisecond)
		}
		r.Emit("MGateWait", "point", st.Point, "ok", ok)
	}
	ExtraSteps["c18_release"] = func(r *Runner, st *Step, ctx context.Context) {
		v := st.Kind
		if v == "" {
			v = "pass"
		}
		c18.mu.Lock()
		g := c18.gates[st.Point]
		ok := g != nil && !g.released
		if ok {
			g.cur.verdict = v
			close(g.cur.release)
			if g.chain && st.Op == "more" {
				g.cur = &c18Hold{release: make(chan struct{})} // the next arrival is held too
			} else {
				g.released = true
			}
		}
		c18.mu.Unlock()
		r.Emit("MGateReleased", "point", st.Point, "kind", v, "ok", ok)
	}
	ExtraSteps["c18_mark"] = func(r *Runner, st *Step, ctx context.Context) {
		c18.mu.Lock()
		c18.mark, c18.ackMark, c18.killMark = c18.reconciles, c18.acks, c18.kills
		c18.mu.Unlock()
	}
	// c18_waitkills: wait for n KILL calls after the last mark (how long the core takes to act on a reconciliation answer
	// depends on the machine; the driver goes on when it has acted, not after a pause)
	ExtraSteps["c18_waitkills"] = func(r *Runner, st *Step, ctx context.Context) {
		deadline := time.Now().Add(c18Timeout(st, 10*time.Second))
		n := 0
		for {
			c18.mu.Lock()
			n = c18.kills - c18.killMark
			c18.mu.Unlock()
			if n >= st.N || time.Now().After(deadline) {
				break
			}
			time.Sleep(2 * time.Millisecond)
		}
		r.Emit("Killed", "count", n, "ok", n >= st.N)
	}
	// c18_waitarrived: wait until a hook point has been reached n times since the process started (in-process core)
	ExtraSteps["c18_waitarrived"] = func(r *Runner, st *Step, ctx context.Context) {
		ok := r.Sched.WaitArrived(st.Point, st.N, c18Timeout(st, 5*time.Second))
		r.Emit("Arrived", "point", st.Point, "n", st.N, "ok", ok)
	}
	// c18_poke: the master repeats the latest status of the task whose KILL call is held (Mesos re-sends unacknowledged
	// updates): the core answers with an ACKNOWLEDGE call, issued after the held call
	ExtraSteps["c18_poke"] = func(r *Runner, st *Step, ctx context.Context) {
		c18.mu.Lock()
		id := c18.heldKill
		c18.mu.Unlock()
		t := r.Master.Task(id)
		r.Emit("Poke", "task", id, "ok", t != nil)
		if t != nil {
			r.Master.TaskStatus(id, t.Mesos, nil)
		}
	}
	ExtraSteps["c18_waitacks"] = func(r *Runner, st *Step, ctx context.Context) {
		deadline := time.Now().Add(c18Timeout(st, 10*time.Second))
		n := 0
		for {
			c18.mu.Lock()
			n = c18.acks - c18.ackMark
			c18.mu.Unlock()
			if n >= st.N || time.Now().After(deadline) {
				break
			}
			time.Sleep(2 * time.Millisecond)
		}
		r.Emit("Acked", "count", n, "ok", n >= st.N)
	}
	ExtraSteps["c18_waitreconcile"] = func(r *Runner, st *Step, ctx context.Context) {
		deadline := time.Now().Add(c18Timeout(st, 15*time.Second))
		n, mark := 0, 0
		for {
			c18.mu.Lock()
			n, mark = c18.reconciles, c18.mark
			c18.mu.Unlock()
			if n > mark || time.Now().After(deadline) {
				break
			}
			time.Sleep(2 * time.Millisecond)
		}
		c18.mu.Lock()
		c18.mark = n
		c18.mu.Unlock()
		r.Emit("Reconciled", "count", n, "ok", n > mark)
	}
	ExtraSteps["c18_waitdead"] = func(r *Runner, st *Step, ctx context.Context) {
		deadline := time.Now().Add(c18Timeout(st, 3*time.Second))
		alive := []string{}
		for {
			alive = alive[:0]
			for _, t := range r.Master.Tasks() {
				if !t.Terminal {
					alive = append(alive, r.TaskAlias(t.ID))
				}
			}
			if len(alive) == 0 || time.Now().After(deadline) {
				break
			}
			time.Sleep(5 * time.Millisecond)
		}
		sort.Strings(alive)
		r.Emit("Quiesced", "alive", append([]string{}, alive...))
	}
	// c18_ungate_keep: later arrivals at a hook point pass, the goroutines parked there stay (the generic "release" lets
	// the oldest go)
	ExtraSteps["c18_ungate_keep"] = func(r *Runner, st *Step, ctx context.Context) {
		r.Sched.Ungate(st.Point)
		r.Emit("GateKept", "point", st.Point, "parked", r.Sched.NParked(st.Point))
	}
	// c18_waitorphans: wait until every task the master has alive is in the core's roster (GetTasks), or the deadline:
	// what is left is alive and unknown to the core
	ExtraSteps["c18_waitorphans"] = func(r *Runner, st *Step, _ context.Context) {
		deadline := time.Now().Add(c18Timeout(st, 3*time.Second))
		orphans := []string{}
		ok := false
		for {
			cctx, cancel := context.WithTimeout(context.Background(), 5*time.Second) // (not the step's: it ends at the deadline)
			rep, err := r.Client.GetTasks(cctx, &pb.GetTasksRequest{})
			cancel()
			if err == nil {
				ok = true
				known := map[string]bool{}
				for _, t := range rep.Tasks {
					known[t.TaskId] = true
				}
				orphans = orphans[:0]
				for _, t := range r.Master.Tasks() {
					if !t.Terminal && !known[t.ID] {
						orphans = append(orphans, r.TaskAlias(t.ID))
					}
				}
			}
			if (ok && len(orphans) == 0) || time.Now().After(deadline) {
				break
			}
			time.Sleep(10 * time.Millisecond)
		}
		sort.Strings(orphans)
		r.Emit("Orphans", "alive", append([]string{}, orphans...), "ok", ok)
	}
	// c18_errorevent: the master sends an ERROR event on the event stream of every subscribed framework (the stream itself
	// stays: the scheduler library gives the subscription up on its own and subscribes again)
	ExtraSteps["c18_errorevent"] = func(r *Runner, st *Step, ctx context.Context) {
		for _, fw := range r.Master.Frameworks() {
			r.Emit("MErrorEvent", "fw", fw)
			r.Master.send(fw, &scheduler.Event{Type: scheduler.Event_ERROR, Error: &scheduler.Event_Error{Message: "injected: framework error"}})
		}
	}
	// c18_cleanupids {env}: gRPC CleanupTasks with the explicit list of the tasks of that environment
	ExtraSteps["c18_cleanupids"] = func(r *Runner, st *Step, ctx context.Context) {
		ids := []string{}
		if rep, err := r.Client.GetEnvironment(ctx, &pb.GetEnvironmentRequest{Id: r.EnvID(st.Env)}); err == nil && rep.Environment != nil {
			for _, t := range rep.Environment.Tasks {
				ids = append(ids, t.TaskId)
			}
		}
		r.Emit("Api", "call", "cleanupids", "env", st.Env, "n", len(ids))
		rep, err := r.Client.CleanupTasks(ctx, &pb.CleanupTasksRequest{TaskIds: ids})
		killed := []string{}
		if rep != nil {
			for _, t := range rep.KilledTasks {
				killed = append(killed, r.TaskAlias(t.TaskId))
			}
		}
		code := "OK"
		if err != nil {
			code = "ERR"
		}
		r.Emit("ApiReply", "call", "cleanupids", "env", st.Env, "code", code, "killed", killed, "n", len(ids))
	}
	ExtraSteps["c18_delfid"] = func(r *Runner, st *Step, ctx context.Context) {
		req, _ := http.NewRequestWithContext(ctx, http.MethodDelete, "http://"+r.Consul.Addr()+"/v1/kv/"+c18FidKey, nil)
		ok := false
		if resp, err := http.DefaultClient.Do(req); err == nil {
			resp.Body.Close()
			ok = resp.StatusCode == 200
		}
		r.Emit("FidDeleted", "ok", ok)
	}
}
