package coresim

// Extension of the scenario runner for C08.
//
//   {"do":"waithook","hook":H,"timeout_ms":T}   wait until the function of probe hook H has begun to execute (at least once in
//                                               this scenario); emits HookSeen{hook, ok}.  Used while ANOTHER call is held at
//                                               its gate: hooks started together do not wait for each other.

import (
	"context"
	"time"
)

func init() {
	ExtraSteps["waithook"] = func(r *Runner, st *Step, ctx context.Context) {
		ok := false
		for !ok && ctx.Err() == nil {
			r.mu.Lock()
			ok = r.hookStarted[st.Hook] > 0
			r.mu.Unlock()
			if !ok {
				time.Sleep(2 * time.Millisecond)
			}
		}
		r.Emit("HookSeen", "hook", st.Hook, "ok", ok)
	}
}
