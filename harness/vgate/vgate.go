// Package vgate is the handler installed into common/verifhook: it turns hook
// points into scheduler gates. A point is either "gated" (the calling goroutine
// parks until the driver releases it) or "pass-through" (arrival is counted).
package vgate

import (
	"fmt"
	"sync"
	"time"
)

type parked struct {
	ch chan struct{}
	kv []interface{}
}

type Sched struct {
	mu      sync.Mutex
	cond    *sync.Cond
	gated   map[string]bool
	parked  map[string][]*parked // FIFO per point
	arrived map[string]int
	OnPoint func(point string, kv []interface{}) // optional recorder, called before parking
	gateAll bool
	prefix  string
}

func New() *Sched {
	s := &Sched{gated: map[string]bool{}, parked: map[string][]*parked{}, arrived: map[string]int{}}
	s.cond = sync.NewCond(&s.mu)
	return s
}

// Gate marks points as gated.
func (s *Sched) Gate(points ...string) {
	s.mu.Lock()
	for _, p := range points {
		s.gated[p] = true
	}
	s.mu.Unlock()
}

func (s *Sched) Ungate(points ...string) {
	s.mu.Lock()
	for _, p := range points {
		delete(s.gated, p)
	}
	s.mu.Unlock()
}

// Handler is the verifhook handler.
func (s *Sched) Handler(point string, kv ...interface{}) {
	if s.OnPoint != nil {
		s.OnPoint(point, kv)
	}
	s.mu.Lock()
	s.arrived[point]++
	if !s.gated[point] {
		s.cond.Broadcast()
		s.mu.Unlock()
		return
	}
	p := &parked{ch: make(chan struct{}), kv: kv}
	s.parked[point] = append(s.parked[point], p)
	s.cond.Broadcast()
	s.mu.Unlock()
	<-p.ch
}

// Arrived returns how many times the point has been reached.
func (s *Sched) Arrived(point string) int {
	s.mu.Lock()
	defer s.mu.Unlock()
	return s.arrived[point]
}

// NParked returns the number of goroutines parked at point.
func (s *Sched) NParked(point string) int {
	s.mu.Lock()
	defer s.mu.Unlock()
	return len(s.parked[point])
}

// ParkedAmong returns the first of the given points at which a goroutine is parked, or "".
func (s *Sched) ParkedAmong(points ...string) string {
	s.mu.Lock()
	defer s.mu.Unlock()
	for _, p := range points {
		if len(s.parked[p]) > 0 {
			return p
		}
	}
	return ""
}

func (s *Sched) waitCond(d time.Duration, f func() bool) bool {
	deadline := time.Now().Add(d)
	done := make(chan struct{})
	defer close(done)
	go func() {
		// wake the waiter periodically so that the deadline is observed
		t := time.NewTicker(5 * time.Millisecond)
		defer t.Stop()
		for {
			select {
			case <-done:
				return
			case <-t.C:
				s.mu.Lock()
				s.cond.Broadcast()
				s.mu.Unlock()
			}
		}
	}()
	s.mu.Lock()
	defer s.mu.Unlock()
	for !f() {
		if time.Now().After(deadline) {
			return false
		}
		s.cond.Wait()
	}
	return true
}

// WaitParked waits until a goroutine is parked at point.
func (s *Sched) WaitParked(point string, d time.Duration) bool {
	return s.waitCond(d, func() bool { return len(s.parked[point]) > 0 })
}

// WaitParkedN waits until at least n goroutines are parked at point.
func (s *Sched) WaitParkedN(point string, n int, d time.Duration) bool {
	return s.waitCond(d, func() bool { return len(s.parked[point]) >= n })
}

// WaitParkedAny waits until a goroutine is parked at one of the points and returns it.
func (s *Sched) WaitParkedAny(d time.Duration, points ...string) string {
	var got string
	s.waitCond(d, func() bool {
		for _, p := range points {
			if len(s.parked[p]) > 0 {
				got = p
				return true
			}
		}
		return false
	})
	return got
}

// WaitArrived waits until point has been reached at least n times.
func (s *Sched) WaitArrived(point string, n int, d time.Duration) bool {
	return s.waitCond(d, func() bool { return s.arrived[point] >= n })
}

// Release lets the oldest goroutine parked at point continue.
func (s *Sched) Release(point string) error {
	s.mu.Lock()
	q := s.parked[point]
	if len(q) == 0 {
		s.mu.Unlock()
		return fmt.Errorf("nobody parked at %s", point)
	}
	p := q[0]
	s.parked[point] = q[1:]
	s.mu.Unlock()
	close(p.ch)
	return nil
}

// ReleaseAll ungates everything and frees every parked goroutine (end of scenario).
func (s *Sched) ReleaseAll() {
	s.mu.Lock()
	s.gated = map[string]bool{}
	for k, q := range s.parked {
		for _, p := range q {
			close(p.ch)
		}
		delete(s.parked, k)
	}
	s.mu.Unlock()
}
