// Package vtrace is the single recorder of a harness run: NDJSON events with a
// sequence number assigned under one mutex at the moment the event is received.
package vtrace

import (
	"bufio"
	"encoding/json"
	"os"
	"sync"
)

type Recorder struct {
	mu  sync.Mutex
	seq int
	w   *bufio.Writer
	f   *os.File
	n   int
}

func New(path string) (*Recorder, error) {
	f, err := os.Create(path)
	if err != nil {
		return nil, err
	}
	return &Recorder{f: f, w: bufio.NewWriterSize(f, 1<<20)}, nil
}

// Emit records one event. Field "ev" is the event name; kv are alternating key, value.
func (r *Recorder) Emit(ev string, kv ...interface{}) {
	m := make(map[string]interface{}, len(kv)/2+2)
	for i := 0; i+1 < len(kv); i += 2 {
		m[kv[i].(string)] = kv[i+1]
	}
	r.EmitMap(ev, m)
}

func (r *Recorder) EmitMap(ev string, m map[string]interface{}) {
	r.mu.Lock()
	defer r.mu.Unlock()
	r.seq++
	if m == nil {
		m = map[string]interface{}{}
	}
	m["ev"] = ev
	m["seq"] = r.seq
	b, err := json.Marshal(m)
	if err != nil {
		panic(err)
	}
	r.w.Write(b)
	r.w.WriteByte('\n')
	r.n++
}

func (r *Recorder) Lines() int { r.mu.Lock(); defer r.mu.Unlock(); return r.n }

func (r *Recorder) Close() error {
	r.mu.Lock()
	defer r.mu.Unlock()
	if err := r.w.Flush(); err != nil {
		return err
	}
	return r.f.Close()
}
