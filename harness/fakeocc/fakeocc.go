// Package fakeocc is a scripted simulated controlled device: the FairMQ device state machine
// (as occ/plugin/OccFMQCommon.cxx drives it) or the O2 state machine of occ/occlib/OccServer.cxx,
// whose reaction to each transition request is dictated by an outcome script, and a real gRPC
// `Occ` server (package executor/protos) in front of it.
//
// This is the *environment* of spec/Transitioner.tla (operators Outs/After/Reply): every reaction
// is recorded and checked against the model by the trace specification (a mistake here shows up
// as model drift).
package fakeocc

import (
	"context"
	"fmt"
	"net"
	"sync"

	pb "github.com/AliceO2Group/Control/executor/protos"
	"google.golang.org/grpc"
	"google.golang.org/grpc/codes"
	"google.golang.org/grpc/status"
)

// Step is one request as the device saw it, what it did and what it answered.
type Step struct {
	Ev        string // requested event
	Src       string // SrcState field of the request
	Before    string // device state when the request arrived
	Out       string // outcome applied
	After     string // device state afterwards
	Transport bool   // the call failed (no reply)
	Code      string // gRPC code name when Transport
	Ok        bool
	Trig      string
	REvent    string
	State     string
}

type edge struct{ from, ev string }

var fmqTable = map[edge]string{
	{"IDLE", "INIT DEVICE"}:                  "INITIALIZING DEVICE",
	{"IDLE", "END"}:                          "EXITING",
	{"INITIALIZING DEVICE", "COMPLETE INIT"}: "INITIALIZED",
	{"INITIALIZED", "BIND"}:                  "BOUND",
	{"INITIALIZED", "RESET DEVICE"}:          "IDLE",
	{"BOUND", "CONNECT"}:                     "DEVICE READY",
	{"BOUND", "RESET DEVICE"}:                "IDLE",
	{"DEVICE READY", "INIT TASK"}:            "READY",
	{"DEVICE READY", "RESET DEVICE"}:         "IDLE",
	{"READY", "RUN"}:                         "RUNNING",
	{"READY", "RESET TASK"}:                  "DEVICE READY",
	{"RUNNING", "STOP"}:                      "READY",
	{"ERROR", "END"}:                         "EXITING",
}

var dirTable = map[edge]string{
	{"STANDBY", "CONFIGURE"}: "CONFIGURED",
	{"STANDBY", "EXIT"}:      "DONE",
	{"CONFIGURED", "START"}:  "RUNNING",
	{"CONFIGURED", "RESET"}:  "STANDBY",
	{"CONFIGURED", "EXIT"}:   "DONE",
	{"RUNNING", "STOP"}:      "CONFIGURED",
	{"ERROR", "RECOVER"}:     "STANDBY",
	{"ERROR", "EXIT"}:        "DONE",
}

// Device is the scripted device. Not safe for concurrent transitions (the executor issues
// them one at a time); the mutex only protects against the gRPC server's goroutines.
type Device struct {
	mu     sync.Mutex
	kind   string
	state  string
	strict bool
	script []string
	pos    int
	steps  []Step
	// BareErrors: transport-level failures are gRPC statuses with a code and NO message (what a device library answers with a
	// bare grpc::Status(CANCELLED)), instead of statuses carrying a text
	BareErrors bool
}

func NewDevice(kind, state string, strict bool, script []string) *Device {
	return &Device{kind: kind, state: state, strict: strict, script: script, steps: make([]Step, 0, 8)}
}

func (d *Device) State() string { d.mu.Lock(); defer d.mu.Unlock(); return d.state }
func (d *Device) Steps() []Step {
	d.mu.Lock()
	defer d.mu.Unlock()
	return append([]Step(nil), d.steps...)
}
func (d *Device) Last() (Step, bool) {
	d.mu.Lock()
	defer d.mu.Unlock()
	if len(d.steps) == 0 {
		return Step{}, false
	}
	return d.steps[len(d.steps)-1], true
}
func (d *Device) NSteps() int { d.mu.Lock(); defer d.mu.Unlock(); return len(d.steps) }

// Apply makes the device react to one transition request with the next outcome of the script.
// When the script is exhausted the outcome is "extra" (answered like a refusal in place).
func (d *Device) Apply(ev, src string) Step {
	d.mu.Lock()
	defer d.mu.Unlock()
	out := "extra"
	if d.pos < len(d.script) {
		out = d.script[d.pos]
	}
	d.pos++
	tbl := fmqTable
	if d.kind != "fairmq" {
		tbl = dirTable
	}
	target, valid := tbl[edge{d.state, ev}]
	s := Step{Ev: ev, Src: src, Before: d.state, Out: out, After: d.state}
	moved := func() string {
		if valid {
			return target
		}
		return d.state
	}
	switch out {
	case "done":
		s.After = moved()
		s.Ok, s.Trig, s.REvent, s.State = true, "EXECUTOR", ev, s.After
	case "errstate":
		s.After = "ERROR"
		s.Ok, s.Trig, s.REvent, s.State = false, "DEVICE_ERROR", ev, "ERROR"
	case "tnx":
		s.Transport, s.Code = true, "Unavailable"
	case "tx":
		s.After = moved()
		s.Transport, s.Code = true, "Unavailable"
	case "srcmism":
		s.Transport, s.Code = true, "InvalidArgument"
	case "bogus_trigger":
		s.After = moved()
		s.Ok, s.Trig, s.REvent, s.State = true, "DEVICE_INTENTIONAL", ev, s.After
	case "bogus_event":
		s.After = moved()
		s.Ok, s.Trig, s.REvent, s.State = true, "EXECUTOR", "Auto", s.After
	case "bogus_state":
		s.Ok, s.Trig, s.REvent, s.State = true, "EXECUTOR", ev, d.state
	default: // "refused", "extra"
		s.Ok, s.Trig, s.REvent, s.State = false, "DEVICE_INTENTIONAL", ev, d.state
	}
	d.state = s.After
	d.steps = append(d.steps, s)
	return s
}

// Server is a gRPC Occ service in front of the current Device.
type Server struct {
	pb.UnimplementedOccServer
	mu  sync.Mutex
	dev *Device
	gs  *grpc.Server
}

func (s *Server) SetDevice(d *Device) { s.mu.Lock(); s.dev = d; s.mu.Unlock() }
func (s *Server) device() *Device     { s.mu.Lock(); defer s.mu.Unlock(); return s.dev }

func (s *Server) Transition(_ context.Context, req *pb.TransitionRequest) (*pb.TransitionReply, error) {
	d := s.device()
	if d == nil {
		return nil, status.Error(codes.FailedPrecondition, "no device")
	}
	st := d.Apply(req.GetTransitionEvent(), req.GetSrcState())
	if st.Transport {
		c := codes.Unavailable
		if st.Code == "InvalidArgument" {
			c = codes.InvalidArgument
		}
		if d.BareErrors {
			return nil, status.Error(codes.Canceled, "")
		}
		return nil, status.Error(c, "scripted failure: "+st.Out)
	}
	return &pb.TransitionReply{
		Trigger:         pb.StateChangeTrigger(pb.StateChangeTrigger_value[st.Trig]),
		State:           st.State,
		TransitionEvent: st.REvent,
		Ok:              st.Ok,
	}, nil
}

func (s *Server) GetState(_ context.Context, _ *pb.GetStateRequest) (*pb.GetStateReply, error) {
	d := s.device()
	if d == nil {
		return nil, status.Error(codes.FailedPrecondition, "no device")
	}
	return &pb.GetStateReply{State: d.State()}, nil
}

// Serve starts the service on a free localhost port.
func Serve() (*Server, uint64, error) {
	lis, err := net.Listen("tcp", "127.0.0.1:0")
	if err != nil {
		return nil, 0, err
	}
	s := &Server{gs: grpc.NewServer()}
	pb.RegisterOccServer(s.gs, s)
	go func() { _ = s.gs.Serve(lis) }()
	port := uint64(lis.Addr().(*net.TCPAddr).Port)
	if port == 0 {
		return nil, 0, fmt.Errorf("no port")
	}
	return s, port, nil
}

func (s *Server) Stop() { s.gs.Stop() }
