// Package fakeconsul is an in-process simulation of the part of Consul's HTTP API that
// AliECS uses: the KV store (/v1/kv/...).  It speaks enough of the protocol for the
// unmodified github.com/hashicorp/consul/api client (KV().Get/List/Keys/Put/CAS/Delete...),
// and adds what a verification harness needs and a real agent cannot give:
//
//   - gating: a predicate selects requests that PARK inside the server when they arrive;
//     the driver then decides, per request, when it is applied to the store and when (or
//     whether) it is answered: Apply / Reply / Fail / Drop.  No hook is needed in the
//     code under test: its goroutine simply waits for the HTTP response;
//   - scripted failures: a function may turn any request into an HTTP error, a closed
//     connection (before or after the request took effect) or a delayed answer;
//   - direct access to the store (Put/CAS/Get/Delete/List/Index...), with the same index
//     rules as requests;
//   - a log callback with every request and its server-side effect.
//
// Semantics implemented (as documented by Consul):
//   - one global, strictly increasing index; every successful write sets the entry's
//     ModifyIndex (and CreateIndex on creation) to the new global index;
//   - GET /v1/kv/<key>           200 + JSON array of one entry, 404 when absent
//     GET ...?recurse            entries with the prefix (404 when none)
//     GET ...?keys[&separator=s] key names with the prefix (404 when none)
//     GET ...?raw                raw value
//     GET ...?index=N[&wait=d]   blocking query: answers when the store index exceeds N
//     PUT /v1/kv/<key>           body = value; answers true
//     PUT ...?cas=N              N=0: only if the key does not exist; otherwise only if
//     ModifyIndex = N; answers true/false
//     PUT ...?flags=F            sets Flags
//     DELETE /v1/kv/<key>[?recurse][?cas=N]
//   - response headers X-Consul-Index, X-Consul-LastContact: 0, X-Consul-KnownLeader: true;
//   - ?consistent / ?stale are recorded (Request.Consistent/Stale); the simulation has one
//     copy of the data, so every read is consistent.
//
// Not implemented: sessions/locks (acquire, release), transactions, ACLs, datacenters.
package fakeconsul

import (
	"encoding/json"
	"errors"
	"fmt"
	"io"
	"net"
	"net/http"
	"net/url"
	"sort"
	"strconv"
	"strings"
	"sync"
	"time"
)

// Entry is one KV pair as Consul reports it.
type Entry struct {
	Key         string
	Value       []byte
	Flags       uint64
	CreateIndex uint64
	ModifyIndex uint64
	LockIndex   uint64
}

func (e *Entry) clone() *Entry {
	if e == nil {
		return nil
	}
	c := *e
	c.Value = append([]byte(nil), e.Value...)
	return &c
}

// Op classifies a request.
type Op string

const (
	OpGet        Op = "get"
	OpList       Op = "list"
	OpKeys       Op = "keys"
	OpPut        Op = "put"
	OpCAS        Op = "cas"
	OpDelete     Op = "delete"
	OpDeleteCAS  Op = "delete-cas"
	OpDeleteTree Op = "delete-tree"
	OpOther      Op = "other" // not a KV request
)

// IsWrite tells whether the operation can change the store.
func (o Op) IsWrite() bool {
	switch o {
	case OpPut, OpCAS, OpDelete, OpDeleteCAS, OpDeleteTree:
		return true
	}
	return false
}

// Phase of a request inside the server.
type Phase int

const (
	Arrived  Phase = iota // received, not yet applied to the store
	Applied               // applied to the store, not yet answered
	Finished              // answered, failed or dropped
)

func (p Phase) String() string { return [...]string{"arrived", "applied", "finished"}[p] }

// Result is the server-side effect of a request.
type Result struct {
	Applied bool    // the store has been read / written on behalf of the request
	Status  int     // HTTP status of the normal answer (200, 404)
	OK      bool    // writes: the answer is "true"; reads: something was found
	Entries []Entry // reads: what is returned (copies)
	Keys    []string
	Before  *Entry // single-key writes: the entry before (nil = absent)
	After   *Entry // single-key writes: the entry after (nil = absent)
	Index   uint64 // store index after the operation (sent as X-Consul-Index)
}

// Request is one HTTP request seen by the server.
type Request struct {
	ID         int // arrival order, from 1
	Method     string
	Path       string
	Key        string // KV key ("" for non-KV requests)
	Op         Op
	Query      url.Values
	Body       []byte
	Consistent bool // ?consistent
	Stale      bool // ?stale
	HasCAS     bool
	CAS        uint64
	Remote     string // client address: one per TCP connection

	srv    *Server
	mu     sync.Mutex
	phase  Phase
	parked bool
	res    Result
	how    string // outcome once finished: "replied" | "failed" | "dropped"
	ctl    chan ctlMsg
	done   chan struct{}
}

// Event is what the log callback receives.
type Event struct {
	Kind   string // "arrived" | "parked" | "applied" | "replied" | "failed" | "dropped"
	Req    *Request
	Res    Result // valid from "applied" on
	Status int    // HTTP status sent ("replied", "failed")
}

// Fault is a scripted deviation from the normal handling of a request.
type Fault struct {
	Status     int           // != 0: answer with this HTTP status and Body instead of the normal answer
	Body       string        //
	Drop       bool          // close the connection without an answer
	AfterApply bool          // the request takes effect first (lost reply); else it has no effect
	Delay      time.Duration // wait before proceeding (combined with the above, or alone = slow answer)
}

type ctlKind int

const (
	ctlApply ctlKind = iota
	ctlReply
	ctlFail
	ctlDrop
)

type ctlMsg struct {
	kind   ctlKind
	status int
	body   string
	ack    chan struct{}
}

// ErrNotParked is returned by the per-request controls when the request is not waiting for the driver.
var ErrNotParked = errors.New("fakeconsul: request is not parked")

// Server is a fake Consul agent.
type Server struct {
	ln   net.Listener
	http *http.Server

	mu     sync.Mutex
	cond   *sync.Cond // signalled on every change of the store and of the parked set
	kv     map[string]*Entry
	index  uint64
	nreq   int
	parked []*Request
	gate   func(*Request) bool
	script func(*Request) *Fault
	onEv   func(Event)
	extra  map[string]http.Handler
	closed chan struct{}
	once   sync.Once
}

// New starts a server on a free port of 127.0.0.1. The store is empty, the index is 1.
func New() *Server {
	ln, err := net.Listen("tcp", "127.0.0.1:0")
	if err != nil {
		panic(err)
	}
	s := &Server{ln: ln, kv: map[string]*Entry{}, index: 1, closed: make(chan struct{}), extra: map[string]http.Handler{}}
	s.cond = sync.NewCond(&s.mu)
	s.http = &http.Server{Handler: http.HandlerFunc(s.serve)}
	go s.http.Serve(ln)
	return s
}

// Addr is "127.0.0.1:port" (what cfgbackend.NewConsulSource and api.Config.Address take).
func (s *Server) Addr() string { return s.ln.Addr().String() }

// URI is "consul://127.0.0.1:port" (what AliECS takes as configuration URI).
func (s *Server) URI() string { return "consul://" + s.Addr() }

// Close stops the server: parked requests are dropped, connections closed.
func (s *Server) Close() {
	s.once.Do(func() {
		close(s.closed)
		s.mu.Lock()
		s.cond.Broadcast()
		s.mu.Unlock()
		s.http.Close()
	})
}

// OnEvent installs the log callback. It is called synchronously from the goroutine serving
// the request (events of one request are ordered; "applied" is emitted under the store lock,
// so "applied" events are totally ordered like the effects). It must not call the server.
func (s *Server) OnEvent(f func(Event)) { s.mu.Lock(); s.onEv = f; s.mu.Unlock() }

// SetGate installs the predicate selecting the requests that park on arrival (nil: none).
func (s *Server) SetGate(f func(*Request) bool) { s.mu.Lock(); s.gate = f; s.mu.Unlock() }

// SetScript installs the scripted-failure function, consulted for every arriving request
// before the gate (nil result: normal handling).
func (s *Server) SetScript(f func(*Request) *Fault) { s.mu.Lock(); s.script = f; s.mu.Unlock() }

// Handle serves a non-KV path prefix (e.g. "/v1/agent/") with h.
func (s *Server) Handle(prefix string, h http.Handler) { s.mu.Lock(); s.extra[prefix] = h; s.mu.Unlock() }

// ---------------------------------------------------------------- direct KV access

// Index returns the store index.
func (s *Server) Index() uint64 { s.mu.Lock(); defer s.mu.Unlock(); return s.index }

// SetIndex moves the store index forward (ignored if not larger).
func (s *Server) SetIndex(i uint64) {
	s.mu.Lock()
	if i > s.index {
		s.index = i
		s.cond.Broadcast()
	}
	s.mu.Unlock()
}

// Get returns a copy of the entry.
func (s *Server) Get(key string) (Entry, bool) {
	s.mu.Lock()
	defer s.mu.Unlock()
	if e, ok := s.kv[key]; ok {
		return *e.clone(), true
	}
	return Entry{}, false
}

// List returns copies of the entries with the prefix, sorted by key.
func (s *Server) List(prefix string) []Entry {
	s.mu.Lock()
	defer s.mu.Unlock()
	return s.listLocked(prefix)
}

// Put writes unconditionally, like an external writer would.
func (s *Server) Put(key string, value []byte) Entry {
	s.mu.Lock()
	defer s.mu.Unlock()
	return *s.putLocked(key, value, nil).clone()
}

// PutString is Put for text values.
func (s *Server) PutString(key, value string) Entry { return s.Put(key, []byte(value)) }

// Load writes several text values.
func (s *Server) Load(m map[string]string) {
	keys := make([]string, 0, len(m))
	for k := range m {
		keys = append(keys, k)
	}
	sort.Strings(keys)
	for _, k := range keys {
		s.Put(k, []byte(m[k]))
	}
}

// CAS writes if the rule for index holds (0: key absent; else ModifyIndex = index).
func (s *Server) CAS(key string, value []byte, index uint64) (Entry, bool) {
	s.mu.Lock()
	defer s.mu.Unlock()
	if !s.casHolds(key, index) {
		return Entry{}, false
	}
	return *s.putLocked(key, value, nil).clone(), true
}

// Delete removes a key; tells whether it existed.
func (s *Server) Delete(key string) bool {
	s.mu.Lock()
	defer s.mu.Unlock()
	return s.deleteLocked(key)
}

// DeleteTree removes every key with the prefix and returns how many there were.
func (s *Server) DeleteTree(prefix string) int {
	s.mu.Lock()
	defer s.mu.Unlock()
	return s.deleteTreeLocked(prefix)
}

func (s *Server) casHolds(key string, index uint64) bool {
	e, ok := s.kv[key]
	if index == 0 {
		return !ok
	}
	return ok && e.ModifyIndex == index
}

func (s *Server) putLocked(key string, value []byte, flags *uint64) *Entry {
	s.index++
	e, ok := s.kv[key]
	if !ok {
		e = &Entry{Key: key, CreateIndex: s.index}
		s.kv[key] = e
	}
	e.Value = append([]byte(nil), value...)
	e.ModifyIndex = s.index
	if flags != nil {
		e.Flags = *flags
	}
	s.cond.Broadcast()
	return e
}

func (s *Server) deleteLocked(key string) bool {
	if _, ok := s.kv[key]; !ok {
		return false
	}
	delete(s.kv, key)
	s.index++
	s.cond.Broadcast()
	return true
}

func (s *Server) deleteTreeLocked(prefix string) int {
	n := 0
	for k := range s.kv {
		if strings.HasPrefix(k, prefix) {
			delete(s.kv, k)
			n++
		}
	}
	if n > 0 {
		s.index++
		s.cond.Broadcast()
	}
	return n
}

func (s *Server) listLocked(prefix string) []Entry {
	out := make([]Entry, 0)
	for k, e := range s.kv {
		if strings.HasPrefix(k, prefix) {
			out = append(out, *e.clone())
		}
	}
	sort.Slice(out, func(i, j int) bool { return out[i].Key < out[j].Key })
	return out
}

// ---------------------------------------------------------------- gating

// Parked returns the requests currently waiting for the driver, in arrival order.
func (s *Server) Parked() []*Request {
	s.mu.Lock()
	defer s.mu.Unlock()
	return append([]*Request(nil), s.parked...)
}

// WaitParked waits until a parked request satisfies match (nil: any) and returns the oldest
// such request, or nil after d.
func (s *Server) WaitParked(match func(*Request) bool, d time.Duration) *Request {
	deadline := time.Now().Add(d)
	stop := make(chan struct{})
	defer close(stop)
	go func() { // wake the waiter so that the deadline is observed
		t := time.NewTicker(5 * time.Millisecond)
		defer t.Stop()
		for {
			select {
			case <-stop:
				return
			case <-t.C:
				s.mu.Lock()
				s.cond.Broadcast()
				s.mu.Unlock()
			}
		}
	}()
	s.mu.Lock()
	defer s.mu.Unlock()
	for {
		for _, r := range s.parked {
			if match == nil || match(r) {
				return r
			}
		}
		if time.Now().After(deadline) {
			return nil
		}
		select {
		case <-s.closed:
			return nil
		default:
		}
		s.cond.Wait()
	}
}

// ReleaseAll removes the gate and lets every parked request complete normally.
func (s *Server) ReleaseAll() {
	s.SetGate(nil)
	for _, r := range s.Parked() {
		r.Reply()
	}
}

// Phase tells where the request is.
func (r *Request) Phase() Phase { r.mu.Lock(); defer r.mu.Unlock(); return r.phase }

// IsParked tells whether the request waits for the driver.
func (r *Request) IsParked() bool { r.mu.Lock(); defer r.mu.Unlock(); return r.parked }

// Result returns the effect (Applied=false before the request was applied).
func (r *Request) Result() Result { r.mu.Lock(); defer r.mu.Unlock(); return r.res }

// Outcome is "" while pending, then "replied" | "failed" | "dropped".
func (r *Request) Outcome() string { r.mu.Lock(); defer r.mu.Unlock(); return r.how }

// Done is closed when the server has finished with the request.
func (r *Request) Done() <-chan struct{} { return r.done }

func (r *Request) command(m ctlMsg) error {
	r.mu.Lock()
	if !r.parked {
		r.mu.Unlock()
		return ErrNotParked
	}
	r.parked = false
	r.mu.Unlock()
	m.ack = make(chan struct{})
	select {
	case r.ctl <- m:
	case <-r.srv.closed:
		return ErrNotParked
	}
	select {
	case <-m.ack:
	case <-r.srv.closed:
	}
	return nil
}

// Apply applies a request parked on arrival to the store now and keeps the answer parked.
// It returns when the effect has taken place.
func (r *Request) Apply() (Result, error) {
	if r.Phase() != Arrived {
		return r.Result(), ErrNotParked
	}
	err := r.command(ctlMsg{kind: ctlApply})
	return r.Result(), err
}

// Reply lets the request complete normally (applying it first if that has not happened).
// It returns when the response has been written.
func (r *Request) Reply() (Result, error) {
	err := r.command(ctlMsg{kind: ctlReply})
	return r.Result(), err
}

// Fail answers with an HTTP error instead of the normal answer. A request that was not yet
// applied has no effect; one that was applied keeps its effect (the caller cannot know).
func (r *Request) Fail(status int, body string) error {
	return r.command(ctlMsg{kind: ctlFail, status: status, body: body})
}

// Drop closes the connection without an answer (same remark on the effect as Fail).
func (r *Request) Drop() error { return r.command(ctlMsg{kind: ctlDrop}) }

// ---------------------------------------------------------------- HTTP

func (s *Server) emit(kind string, r *Request, status int) {
	s.mu.Lock()
	f := s.onEv
	s.mu.Unlock()
	if f != nil {
		f(Event{Kind: kind, Req: r, Res: r.Result(), Status: status})
	}
}

func (s *Server) admit(hr *http.Request) *Request {
	body, _ := io.ReadAll(hr.Body)
	q := hr.URL.Query()
	r := &Request{Method: hr.Method, Path: hr.URL.Path, Query: q, Body: body, Remote: hr.RemoteAddr, srv: s,
		ctl: make(chan ctlMsg), done: make(chan struct{}), Op: OpOther}
	_, r.Consistent = q["consistent"]
	_, r.Stale = q["stale"]
	if strings.HasPrefix(hr.URL.Path, "/v1/kv/") || hr.URL.Path == "/v1/kv" {
		r.Key = strings.TrimPrefix(strings.TrimPrefix(hr.URL.Path, "/v1/kv"), "/")
		_, recurse := q["recurse"]
		_, keys := q["keys"]
		if c, ok := q["cas"]; ok {
			r.HasCAS = true
			r.CAS, _ = strconv.ParseUint(c[0], 10, 64)
		}
		switch hr.Method {
		case "GET":
			r.Op = OpGet
			if keys {
				r.Op = OpKeys
			} else if recurse {
				r.Op = OpList
			}
		case "PUT":
			r.Op = OpPut
			if r.HasCAS {
				r.Op = OpCAS
			}
		case "DELETE":
			r.Op = OpDelete
			if recurse {
				r.Op = OpDeleteTree
			} else if r.HasCAS {
				r.Op = OpDeleteCAS
			}
		}
	}
	s.mu.Lock()
	s.nreq++
	r.ID = s.nreq
	s.mu.Unlock()
	return r
}

// park makes the request wait for a command of the driver. prev is the command that brought
// the request here (Apply): it is acknowledged once the request can take the next command.
func (s *Server) park(r *Request, prev ctlMsg) (ctlMsg, bool) {
	r.mu.Lock()
	r.parked = true
	r.mu.Unlock()
	s.mu.Lock()
	s.parked = append(s.parked, r)
	s.cond.Broadcast()
	s.mu.Unlock()
	s.emit("parked", r, 0)
	ack(prev)
	var m ctlMsg
	ok := true
	select {
	case m = <-r.ctl:
	case <-s.closed:
		ok = false
	}
	s.mu.Lock()
	for i, p := range s.parked {
		if p == r {
			s.parked = append(s.parked[:i:i], s.parked[i+1:]...)
			break
		}
	}
	s.cond.Broadcast()
	s.mu.Unlock()
	return m, ok
}

func ack(m ctlMsg) {
	if m.ack != nil {
		close(m.ack)
	}
}

func (s *Server) finish(r *Request, how string, status int) {
	r.mu.Lock()
	r.phase = Finished
	r.how = how
	r.mu.Unlock()
	s.emit(how, r, status)
	close(r.done)
}

func (s *Server) drop(w http.ResponseWriter, r *Request) {
	if hj, ok := w.(http.Hijacker); ok {
		if conn, _, err := hj.Hijack(); err == nil {
			conn.Close()
		}
	}
	s.finish(r, "dropped", 0)
}

func (s *Server) fail(w http.ResponseWriter, r *Request, status int, body string) {
	w.WriteHeader(status)
	io.WriteString(w, body)
	if f, ok := w.(http.Flusher); ok {
		f.Flush()
	}
	s.finish(r, "failed", status)
}

func (s *Server) serve(w http.ResponseWriter, hr *http.Request) {
	r := s.admit(hr)
	s.emit("arrived", r, 0)
	if r.Op == OpOther {
		s.serveOther(w, hr, r)
		return
	}
	s.mu.Lock()
	gate, script := s.gate, s.script
	s.mu.Unlock()
	var f *Fault
	if script != nil {
		f = script(r)
	}
	if f != nil && f.Delay > 0 {
		select {
		case <-time.After(f.Delay):
		case <-s.closed:
		}
	}
	if f != nil && !f.AfterApply && (f.Drop || f.Status != 0) {
		if f.Drop {
			s.drop(w, r)
		} else {
			s.fail(w, r, f.Status, f.Body)
		}
		return
	}
	holdAnswer := false
	var cmd ctlMsg
	if f == nil && gate != nil && gate(r) {
		m, ok := s.park(r, ctlMsg{})
		if !ok {
			s.drop(w, r)
			return
		}
		cmd = m
		switch m.kind {
		case ctlDrop:
			s.drop(w, r)
			ack(m)
			return
		case ctlFail:
			s.fail(w, r, m.status, m.body)
			ack(m)
			return
		case ctlApply:
			holdAnswer = true
		}
	}
	// blocking query: wait for the index to move
	if !r.Op.IsWrite() {
		s.waitIndex(r)
	}
	s.mu.Lock()
	res := s.applyLocked(r)
	r.mu.Lock()
	r.res = res
	r.phase = Applied
	r.mu.Unlock()
	onEv := s.onEv
	if onEv != nil {
		onEv(Event{Kind: "applied", Req: r, Res: res})
	}
	s.mu.Unlock()
	if holdAnswer {
		m, ok := s.park(r, cmd)
		if !ok {
			s.drop(w, r)
			return
		}
		cmd = m
		switch m.kind {
		case ctlDrop:
			s.drop(w, r)
			ack(m)
			return
		case ctlFail:
			s.fail(w, r, m.status, m.body)
			ack(m)
			return
		}
	}
	if f != nil && f.AfterApply && (f.Drop || f.Status != 0) {
		if f.Drop {
			s.drop(w, r)
		} else {
			s.fail(w, r, f.Status, f.Body)
		}
		return
	}
	s.answer(w, r, res)
	s.finish(r, "replied", res.Status)
	ack(cmd)
}

func (s *Server) waitIndex(r *Request) {
	is, ok := r.Query["index"]
	if !ok {
		return
	}
	idx, err := strconv.ParseUint(is[0], 10, 64)
	if err != nil {
		return
	}
	wait := 5 * time.Minute
	if ws := r.Query.Get("wait"); ws != "" {
		if d, err := time.ParseDuration(ws); err == nil {
			wait = d
		}
	}
	timer := time.AfterFunc(wait, func() { s.mu.Lock(); s.cond.Broadcast(); s.mu.Unlock() })
	defer timer.Stop()
	deadline := time.Now().Add(wait)
	s.mu.Lock()
	defer s.mu.Unlock()
	for s.index <= idx && time.Now().Before(deadline) {
		select {
		case <-s.closed:
			return
		default:
		}
		s.cond.Wait()
	}
}

// applyLocked executes the request on the store (s.mu held).
func (s *Server) applyLocked(r *Request) Result {
	res := Result{Applied: true, Status: 200}
	switch r.Op {
	case OpGet:
		if e, ok := s.kv[r.Key]; ok {
			res.OK = true
			res.Entries = []Entry{*e.clone()}
		} else {
			res.Status = 404
		}
	case OpList:
		res.Entries = s.listLocked(r.Key)
		res.OK = len(res.Entries) > 0
		if !res.OK {
			res.Status = 404
		}
	case OpKeys:
		sep := r.Query.Get("separator")
		seen := map[string]bool{}
		res.Keys = make([]string, 0)
		for _, e := range s.listLocked(r.Key) {
			k := e.Key
			if sep != "" {
				if i := strings.Index(k[len(r.Key):], sep); i >= 0 {
					k = k[:len(r.Key)+i+len(sep)]
				}
			}
			if !seen[k] {
				seen[k] = true
				res.Keys = append(res.Keys, k)
			}
		}
		res.OK = len(res.Keys) > 0
		if !res.OK {
			res.Status = 404
		}
	case OpPut, OpCAS:
		res.Before = s.kv[r.Key].clone()
		if r.Op == OpCAS && !s.casHolds(r.Key, r.CAS) {
			res.After = res.Before.clone()
			break
		}
		var flags *uint64
		if fs := r.Query.Get("flags"); fs != "" {
			if f, err := strconv.ParseUint(fs, 10, 64); err == nil {
				flags = &f
			}
		}
		res.After = s.putLocked(r.Key, r.Body, flags).clone()
		res.OK = true
	case OpDelete, OpDeleteCAS:
		res.Before = s.kv[r.Key].clone()
		if r.Op == OpDeleteCAS && !(r.CAS == 0 || s.casHolds(r.Key, r.CAS)) {
			res.After = res.Before.clone()
			break
		}
		s.deleteLocked(r.Key)
		res.OK = true
	case OpDeleteTree:
		s.deleteTreeLocked(r.Key)
		res.OK = true
	}
	res.Index = s.index
	return res
}

func (s *Server) answer(w http.ResponseWriter, r *Request, res Result) {
	h := w.Header()
	h.Set("X-Consul-Index", strconv.FormatUint(res.Index, 10))
	h.Set("X-Consul-LastContact", "0")
	h.Set("X-Consul-KnownLeader", "true")
	if r.Op.IsWrite() {
		h.Set("Content-Type", "application/json")
		fmt.Fprintf(w, "%v", res.OK)
		return
	}
	if res.Status == 404 {
		w.WriteHeader(404)
		return
	}
	if _, raw := r.Query["raw"]; raw && r.Op == OpGet {
		h.Set("Content-Type", "application/octet-stream")
		w.Write(res.Entries[0].Value)
		return
	}
	h.Set("Content-Type", "application/json")
	if r.Op == OpKeys {
		json.NewEncoder(w).Encode(res.Keys)
		return
	}
	json.NewEncoder(w).Encode(res.Entries)
}

func (s *Server) serveOther(w http.ResponseWriter, hr *http.Request, r *Request) {
	s.mu.Lock()
	var h http.Handler
	best := -1
	for p, x := range s.extra {
		if strings.HasPrefix(hr.URL.Path, p) && len(p) > best {
			h, best = x, len(p)
		}
	}
	s.mu.Unlock()
	status := 200
	switch {
	case h != nil:
		h.ServeHTTP(w, hr)
	case hr.URL.Path == "/v1/status/leader":
		w.Header().Set("Content-Type", "application/json")
		io.WriteString(w, `"127.0.0.1:8300"`)
	default:
		status = 404
		w.WriteHeader(404)
	}
	s.finish(r, "replied", status)
}
