package fakeconsul

import (
	"sync"
	"testing"
	"time"

	"github.com/hashicorp/consul/api"
)

func client(t *testing.T, s *Server) *api.KV {
	cfg := api.DefaultConfig()
	cfg.Address = s.Addr()
	c, err := api.NewClient(cfg)
	if err != nil {
		t.Fatal(err)
	}
	return c.KV()
}

func TestKVWithRealClient(t *testing.T) {
	s := New()
	defer s.Close()
	kv := client(t, s)
	if p, _, err := kv.Get("a/b", nil); err != nil || p != nil {
		t.Fatalf("absent key: %v %v", p, err)
	}
	if _, err := kv.Put(&api.KVPair{Key: "a/b", Value: []byte("1"), Flags: 7}, nil); err != nil {
		t.Fatal(err)
	}
	p, qm, err := kv.Get("a/b", &api.QueryOptions{RequireConsistent: true})
	if err != nil || p == nil || string(p.Value) != "1" || p.Flags != 7 || p.ModifyIndex != 2 || p.CreateIndex != 2 || qm.LastIndex != 2 {
		t.Fatalf("get: %+v %+v %v", p, qm, err)
	}
	// cas=0 on an existing key fails; matching index succeeds; stale index fails
	if ok, _, _ := kv.CAS(&api.KVPair{Key: "a/b", Value: []byte("x")}, nil); ok {
		t.Fatal("cas=0 on existing key succeeded")
	}
	if ok, _, _ := kv.CAS(&api.KVPair{Key: "a/b", Value: []byte("2"), ModifyIndex: 2}, nil); !ok {
		t.Fatal("cas with matching index failed")
	}
	if ok, _, _ := kv.CAS(&api.KVPair{Key: "a/b", Value: []byte("3"), ModifyIndex: 2}, nil); ok {
		t.Fatal("cas with stale index succeeded")
	}
	if ok, _, _ := kv.CAS(&api.KVPair{Key: "a/new", Value: []byte("n")}, nil); !ok {
		t.Fatal("cas=0 on absent key failed")
	}
	if ok, _, _ := kv.CAS(&api.KVPair{Key: "a/none", Value: []byte("n"), ModifyIndex: 3}, nil); ok {
		t.Fatal("cas=3 on absent key succeeded")
	}
	s.PutString("a/c/d", "deep")
	s.PutString("ab", "other")
	ps, _, err := kv.List("a/", nil)
	if err != nil || len(ps) != 3 || ps[0].Key != "a/b" || ps[1].Key != "a/c/d" || ps[2].Key != "a/new" {
		t.Fatalf("list: %+v %v", ps, err)
	}
	ks, _, err := kv.Keys("a/", "/", nil)
	if err != nil || len(ks) != 3 || ks[1] != "a/c/" {
		t.Fatalf("keys with separator: %v %v", ks, err)
	}
	ks, _, _ = kv.Keys("zz", "", nil)
	if len(ks) != 0 {
		t.Fatalf("keys of nothing: %v", ks)
	}
	if _, err := kv.Delete("a/b", nil); err != nil {
		t.Fatal(err)
	}
	if _, ok := s.Get("a/b"); ok {
		t.Fatal("delete had no effect")
	}
	if _, err := kv.DeleteTree("a/", nil); err != nil {
		t.Fatal(err)
	}
	if l := s.List(""); len(l) != 1 || l[0].Key != "ab" {
		t.Fatalf("after delete tree: %+v", l)
	}
}

func TestGateApplyReplyFailDrop(t *testing.T) {
	s := New()
	defer s.Close()
	kv := client(t, s)
	var mu sync.Mutex
	var log []string
	s.OnEvent(func(e Event) { mu.Lock(); log = append(log, e.Kind); mu.Unlock() })
	s.SetGate(func(r *Request) bool { return r.Op.IsWrite() })
	type res struct {
		ok  bool
		err error
	}
	put := func(v string, idx uint64) chan res {
		ch := make(chan res, 1)
		go func() {
			ok, _, err := kv.CAS(&api.KVPair{Key: "k", Value: []byte(v), ModifyIndex: idx}, nil)
			ch <- res{ok, err}
		}()
		return ch
	}
	// applied but the answer held back
	ch := put("1", 0)
	r := s.WaitParked(nil, 2*time.Second)
	if r == nil || r.Op != OpCAS || !r.HasCAS || r.CAS != 0 || r.Phase() != Arrived {
		t.Fatalf("parked: %+v", r)
	}
	result, err := r.Apply()
	if err != nil || !result.OK || result.After == nil || string(result.After.Value) != "1" || result.Before != nil {
		t.Fatalf("apply: %+v %v", result, err)
	}
	if e, ok := s.Get("k"); !ok || string(e.Value) != "1" {
		t.Fatal("apply had no effect")
	}
	select {
	case <-ch:
		t.Fatal("answered before Reply")
	case <-time.After(20 * time.Millisecond):
	}
	if r.Phase() != Applied || !r.IsParked() {
		t.Fatal("not parked after apply")
	}
	if _, err := r.Reply(); err != nil {
		t.Fatal(err)
	}
	if x := <-ch; !x.ok || x.err != nil {
		t.Fatalf("reply: %+v", x)
	}
	if _, err := r.Reply(); err != ErrNotParked {
		t.Fatalf("second reply: %v", err)
	}
	// failed before taking effect
	ch = put("2", 2)
	r = s.WaitParked(nil, 2*time.Second)
	r.Fail(500, "no leader")
	if x := <-ch; x.err == nil {
		t.Fatal("500 not reported")
	}
	if e, _ := s.Get("k"); string(e.Value) != "1" {
		t.Fatal("failed request took effect")
	}
	// lost reply: takes effect, the caller sees an error
	ch = put("3", 2)
	r = s.WaitParked(nil, 2*time.Second)
	r.Apply()
	r.Drop()
	if x := <-ch; x.err == nil {
		t.Fatal("dropped connection not reported")
	}
	if e, _ := s.Get("k"); string(e.Value) != "3" {
		t.Fatal("lost-reply request had no effect")
	}
	<-r.Done()
	if r.Outcome() != "dropped" {
		t.Fatalf("outcome %q", r.Outcome())
	}
	// reads are not gated here
	if p, _, err := kv.Get("k", nil); err != nil || string(p.Value) != "3" {
		t.Fatalf("get: %v %v", p, err)
	}
	mu.Lock()
	defer mu.Unlock()
	if len(log) == 0 || log[0] != "arrived" {
		t.Fatalf("log: %v", log)
	}
}

func TestScriptAndBlockingQuery(t *testing.T) {
	s := New()
	defer s.Close()
	kv := client(t, s)
	s.PutString("k", "1")
	n := 0
	s.SetScript(func(r *Request) *Fault {
		if r.Op == OpCAS {
			n++
			if n == 1 {
				return &Fault{Status: 500, Body: "boom", AfterApply: true}
			}
		}
		return nil
	})
	if _, _, err := kv.CAS(&api.KVPair{Key: "k", Value: []byte("2"), ModifyIndex: 2}, nil); err == nil {
		t.Fatal("scripted failure not reported")
	}
	if e, _ := s.Get("k"); string(e.Value) != "2" {
		t.Fatal("AfterApply fault did not apply")
	}
	if ok, _, err := kv.CAS(&api.KVPair{Key: "k", Value: []byte("3"), ModifyIndex: 3}, nil); err != nil || !ok {
		t.Fatalf("second cas: %v %v", ok, err)
	}
	// blocking query returns when the index moves
	done := make(chan uint64, 1)
	go func() {
		_, qm, err := kv.Get("k", &api.QueryOptions{WaitIndex: s.Index(), WaitTime: 5 * time.Second})
		if err != nil {
			done <- 0
			return
		}
		done <- qm.LastIndex
	}()
	select {
	case <-done:
		t.Fatal("blocking query did not block")
	case <-time.After(50 * time.Millisecond):
	}
	e := s.PutString("other", "x")
	select {
	case idx := <-done:
		if idx != e.ModifyIndex {
			t.Fatalf("index %d, want %d", idx, e.ModifyIndex)
		}
	case <-time.After(2 * time.Second):
		t.Fatal("blocking query did not wake up")
	}
}
