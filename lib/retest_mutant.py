#!/usr/bin/env python3
"""lib/retest_mutant.py <seeded/<PID>-<X>> [check ids ...]

Re-runs checks against a kept seeded change (scratch worktree of /repo under /tmp with the patch applied, VERIF_REPO)
and updates checks_run_against_it / detected in its meta.json.  /repo itself is never touched."""
import json
import os
import re
import subprocess
import sys

ENV = dict(os.environ, GOFLAGS="-mod=mod", GOPROXY="off", GOSUMDB="off", GOTOOLCHAIN="local")


def main():
    d = os.path.abspath(sys.argv[1])
    meta = json.load(open(os.path.join(d, "meta.json")))
    pid = meta.get("breaks_property") or os.path.basename(d)[:3]
    checks = sys.argv[2:] or [pid]
    wt = "/tmp/ret-%s-%d" % (os.path.basename(d), os.getpid())
    subprocess.check_call("git -C /repo worktree add -q %s HEAD" % wt, shell=True)
    try:
        subprocess.check_call("git -C %s apply %s/patch.diff" % (wt, d), shell=True)
        res = meta.setdefault("checks_run_against_it", {})
        for c in checks:
            p = subprocess.run(["./check", c, "--tier", os.environ.get("MUT_TIER", "quick")], cwd="/verif",
                               env=dict(ENV, VERIF_REPO=wt), stdout=subprocess.PIPE, stderr=subprocess.STDOUT, text=True)
            viol = [l for l in p.stdout.splitlines() if l.startswith("VIOLATION")]
            invs = sorted({re.search(r"inv=(\w+)", v).group(1) for v in viol if re.search(r"inv=(\w+)", v)})
            res[c] = {"rc": p.returncode, "violations": len(viol), "invariants": invs,
                      "summary": next((l for l in p.stdout.splitlines() if l.startswith(("SUMMARY", "INCONCLUSIVE"))), "")[:300]}
            print(c, res[c])
        meta["detected"] = any(v["rc"] == 1 for v in res.values())
        json.dump(meta, open(os.path.join(d, "meta.json"), "w"), indent=1)
    finally:
        subprocess.call("git -C /repo worktree remove --force %s" % wt, shell=True)


if __name__ == "__main__":
    main()
