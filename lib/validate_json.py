#!/usr/bin/env python3
"""Validate MANIFEST.json and evidence/*.json against the schemas (uses the tooling venv's jsonschema)."""
import glob, json, sys
import jsonschema
ok = True
def v(path, schema):
    global ok
    try:
        jsonschema.validate(json.load(open(path)), json.load(open(schema)))
        print("ok  ", path)
    except Exception as e:
        ok = False
        print("FAIL", path, str(e)[:300])
v("/verif/MANIFEST.json", "/root/.vp/MANIFEST.schema.json")
for f in sorted(glob.glob("/verif/evidence/*.json")):
    v(f, "/root/.vp/EVIDENCE.schema.json")
sys.exit(0 if ok else 1)
