"""Python side of the whole-core simulation (harness/cmd/coresim): scenario building helpers,
sharding over parallel core processes, trace merging.  Used by the coresim-based checks."""
import json
import os
import shutil
import subprocess
import time
from concurrent.futures import ThreadPoolExecutor

import vlib

DEFAULT_AGENTS = [
    {"ID": "a1", "Host": "h1", "Attrs": {"machine_id": "h1"}, "CPUs": 16, "Mem": 16384, "Ports": [[9000, 9200], [30000, 30200]]},
    {"ID": "a2", "Host": "h2", "Attrs": {"machine_id": "h2"}, "CPUs": 16, "Mem": 16384, "Ports": [[9000, 9200], [30000, 30200]]},
]


def task_class(name, mode="basic", cpu=0.1, mem=64, bind=None, connect=None, extra=""):
    """A task template (tasks/<name>.yaml). mode: basic | direct | fairmq | hook."""
    y = "name: %s\ncontrol:\n  mode: %s\nwants:\n  cpu: %s\n  memory: %s\n" % (name, mode, cpu, mem)
    if bind:
        y += "bind:\n"
        for b in bind:
            y += "  - name: %s\n    type: %s\n" % (b["name"], b.get("type", "push"))
            for k in ("addressing", "transport", "global", "target"):
                if k in b:
                    y += "    %s: \"%s\"\n" % (k, b[k])
    if connect:
        y += "connect:\n"
        for c in connect:
            y += "  - name: %s\n    type: %s\n    target: \"%s\"\n" % (c["name"], c.get("type", "pull"), c["target"])
            for k in ("transport",):
                if k in c:
                    y += "    %s: \"%s\"\n" % (k, c[k])
    y += extra
    y += "command:\n  shell: true\n  value: \"sleep 1000\"\n"
    return y


def role_task(name, cls, critical=True, host=None, trigger=None, await_=None, timeout=None, indent=2, extra=""):
    sp = " " * indent
    y = "%s- name: \"%s\"\n" % (sp, name)
    if host:
        y += "%s  constraints:\n%s    - attribute: machine_id\n%s      value: \"%s\"\n" % (sp, sp, sp, host)
    y += extra
    y += "%s  task:\n%s    load: %s\n" % (sp, sp, cls)
    if not critical:
        y += "%s    critical: false\n" % sp
    if trigger:
        y += "%s    trigger: %s\n" % (sp, trigger)
        if await_:
            y += "%s    await: %s\n" % (sp, await_)
        y += "%s    timeout: %s\n" % (sp, timeout or "5s")
    return y


def role_call(name, hook_id, trigger, await_=None, critical=True, timeout="5s", indent=2):
    # (timeout: the call's declared timeout trait)
    sp = " " * indent
    y = "%s- name: \"%s\"\n%s  call:\n%s    func: verif.Probe('%s')\n%s    trigger: %s\n" % (sp, name, sp, sp, hook_id, sp, trigger)
    if await_:
        y += "%s    await: %s\n" % (sp, await_)
    elif await_ == "":
        y += "%s    await: \"\"\n" % sp     # present but blank: means "where it is triggered", like an absent one
    y += "%s    timeout: %s\n%s    critical: %s\n" % (sp, timeout, sp, "true" if critical else "false")
    return y


def workflow(name, roles_yaml, defaults=None, vars_=None):
    y = "name: %s\n" % name
    if defaults:
        y += "defaults:\n" + "".join("  %s: \"%s\"\n" % kv for kv in defaults.items())
    if vars_:
        y += "vars:\n" + "".join("  %s: \"%s\"\n" % kv for kv in vars_.items())
    y += "roles:\n" + roles_yaml
    return y


def run_scenarios(ctx, scenarios, procs=None, timeout=1500, rerun_skipped=True, _return_skipped=False):
    """Run scenarios on real cores. Scenarios are grouped by core configuration (json of 'core'),
    sharded over parallel processes; scenarios flagged 'isolated' get a process of their own.
    Returns the merged list of trace lines (dicts), in scenario order per shard."""
    binp = ctx.build("coresim")
    procs = procs or max(2, min(12, vlib.NCPU - 2))
    groups = {}
    for s in scenarios:
        if s.get("isolated"):
            groups.setdefault(("iso", s["id"]), []).append(s)
        else:
            groups.setdefault(json.dumps(s.get("core", {}), sort_keys=True), []).append(s)
    shards = []
    for key, lst in groups.items():
        if isinstance(key, tuple):
            shards.append(lst)
            continue
        n = max(1, min(procs, (len(lst) + 7) // 8))
        for i in range(n):
            part = lst[i::n]
            if part:
                shards.append(part)
    all_lines = []
    skipped_total = []

    def run_shard(idx_part):
        idx, part = idx_part
        d = ctx.path("cs%d_%d" % (ctx.ntlc, idx), "x")
        d = os.path.dirname(d)
        scn = os.path.join(d, "scenarios.ndjson")
        trc = os.path.join(d, "trace.ndjson")
        clean = [{k: v for k, v in s.items() if k != "isolated"} for s in part]
        ctx.write_ndjson(scn, clean)
        t0 = time.time()
        for attempt in (1, 2):
            try:
                p = subprocess.run([binp, "-mode", "run", "-work", d, "-scenarios", scn, "-trace", trc], stdout=subprocess.PIPE,
                                   stderr=subprocess.STDOUT, text=True, timeout=timeout)
            except subprocess.TimeoutExpired:
                raise vlib.Inconclusive("coresim shard %d timed out after %ds" % (idx, timeout))
            out = p.stdout
            # the summary line of the harness; a log line of the in-process core may still follow it
            last = next((x for x in reversed(out.strip().splitlines()) if x.startswith("scenarios=")), "")
            started = os.path.exists(trc) and os.path.getsize(trc) > 0 and '"ev":"End"' in open(trc).read()
            if p.returncode == 0 and last.startswith("scenarios="):
                break
            if started or attempt == 2:
                break
            # the core did not come up (e.g. a port was taken in the meantime): nothing was executed, try once more
            shutil.rmtree(os.path.join(d, "wd"), ignore_errors=True)
            shutil.rmtree(os.path.join(d, "wfrepo"), ignore_errors=True)
        if p.returncode != 0 or not last.startswith("scenarios="):
            ctx.save_debug(type("R", (), {"out": out})(), "coresim_shard%d.txt" % idx)
            crash = vlib.repo_panic(out)
            if crash:     # the core itself panicked under these scenarios
                raise vlib.RepoCrash(crash[0], crash[1], [binp, "-mode", "run", "-work", d + "_replay", "-scenarios", scn, "-trace",
                                                          trc + ".replay"], out)
            raise vlib.Inconclusive("coresim shard %d failed rc=%d: %s" % (idx, p.returncode, vlib.tail(out, 12)))
        skipped = json.loads(last.split("skipped=")[1])
        lines = ctx.read_ndjson(trc) if os.path.exists(trc) else []
        return lines, skipped, time.time() - t0

    ctx.ntlc += 1
    with ThreadPoolExecutor(max_workers=procs) as ex:
        for lines, skipped, wall in ex.map(run_shard, enumerate(shards)):
            all_lines += lines
            skipped_total += skipped
    # a call that exceeds its deadline taints its core: the rest of that shard is skipped and run again elsewhere
    # (the tainting scenario itself is not repeated; its partial trace is kept and judged)
    rounds = 0
    while skipped_total and rerun_skipped:
        rounds += 1
        by_id = {s["id"]: s for s in scenarios}
        again = [by_id[i] for i in skipped_total if i in by_id]
        if rounds > 8:
            raise vlib.Inconclusive("scenarios still skipped after %d re-runs (tainted cores): %s" % (rounds, skipped_total[:10]))
        ctx.log("re-running %d scenarios skipped after a tainted core" % len(again))
        more = run_scenarios(ctx, again, procs=procs, timeout=timeout, rerun_skipped=False, _return_skipped=True)
        all_lines += more[0]
        skipped_total = more[1]
    if _return_skipped:
        return all_lines, skipped_total
    return all_lines


def write_trace(ctx, lines, name="trace.ndjson", keep=None):
    """Write (optionally filtered/projection of) lines for TLC; drops lines before the first Reset
    of each shard (scn = -1)."""
    p = ctx.path(name)
    with open(p, "w") as fh:
        for ln in lines:
            if ln.get("scn", -1) < 0:
                continue
            if keep is not None:
                ln = keep(ln)
                if ln is None:
                    continue
            fh.write(json.dumps(ln, separators=(",", ":")) + "\n")
    return p
