#!/usr/bin/env python3
"""Regenerates the table of DESIGN.md appendix E (between the E:BEGIN / E:END markers) from seeded/*/meta.json."""
import glob
import json
import os
import re

ROOT = os.path.dirname(os.path.dirname(os.path.abspath(__file__)))
NOTES = {
    "C07-N": "not detected - outside what the property and the check cover, like C07-F: the change is in the FILE-backend counter "
             "(runcounter.txt, torn write after a crash), which the code itself marks as an unsafe check-and-set used only without Consul",
    "C16-M": "not detected - out of the harness's reach: the change is in the JSON (OCClite) transport of the executor's device client "
             "(executor/executorcmd/nopb); OCClite answers on bare method names that a grpc-go server refuses, so the demonstration hand-frames "
             "HTTP/2 - the C16 / ExecTask drivers speak the protobuf transport to a grpc-go fake device. The same rewriting of a rejected "
             "step into a refusal-in-place on the protobuf path would be caught (`Truthful`, `AcceptRule`)",
    "C09-M": "not detected - reachable only inside the half second between the loss of a critical hook task and the environment's own "
             "GO_ERROR (C03: the lost task's role is critical, the watcher fires 0.5 s later): the change lets a transition requested in "
             "that window pass instead of being cancelled by the hook that cannot be triggered; for a non-critical hook task skipping it "
             "changes nothing. No scenario of the hook catalogue loses a hook task; a schedule-exact one (loss, request within the grace "
             "period, both racing the watcher) was judged too timing-dependent to be sound",
    "C07-F": "not detected - outside what the property and the check cover: the change is in the FILE-backend counter (runcounter.txt), which "
             "the code itself marks as an unsafe check-and-set used only without Consul; the property's anchors and C07's assumptions name the "
             "Consul key as the shared counter (DESIGN C07, assumption list of the evidence)",
    "C10-C": "not detected - the same change as C07-B (a held run number is used again), written independently for C10; not reachable "
             "through the API for the same reason (needs RECOVER)",
    "C07-B": "not detected - and not reachable: the changed path needs FSM event RECOVER (ERROR -> DEPLOYED), which no API request, timer "
             "or internal caller can issue on this tree (`MakeTransition` has no RECOVER; only the package-internal demonstration fires it); "
             "the reuse after a cancelled START is equally out of reach because a failed START leaves the environment in ERROR. The "
             "environment-level part of C07 (RunStart) was added because of this change: it catches the reachable variants (carrying on with "
             "an unconfirmed number, reusing a number after a failed counter step)",
}


def short(s, n=230):
    s = re.sub(r"\s+", " ", s or "").strip()
    return s if len(s) <= n else s[:n - 1] + "…"


def main():
    rows = []
    for d in sorted(glob.glob(os.path.join(ROOT, "seeded", "*", ""))):
        name = os.path.basename(d.rstrip("/"))
        m = json.load(open(os.path.join(d, "meta.json")))
        files = m.get("files_changed") or m.get("confirmation", {}).get("files_changed", [])
        ch = m.get("checks_run_against_it", {})
        det = []
        for c, v in sorted(ch.items()):
            if v.get("rc") == 1:
                det.append("%s: %s" % (c, ", ".join(v.get("invariants") or ["(violation)"])))
        verdict = "; ".join(det) if det else "**not detected**"
        if name in NOTES:
            verdict = NOTES[name]
        rows.append("| %s | `%s` | %s | %s | %s |" % (name, ", ".join(os.path.basename(f) for f in files), short(m.get("summary", "")),
                                                    short(m.get("needs_to_manifest", ""), 200), verdict))
    table = ("| id | file | change | needs, to show up | caught by (check: monitor invariants) |\n|---|---|---|---|---|\n" + "\n".join(rows))
    p = os.path.join(ROOT, "DESIGN.md")
    s = open(p).read()
    s = re.sub(r"<!-- E:BEGIN -->.*?<!-- E:END -->", "<!-- E:BEGIN -->\n" + table + "\n<!-- E:END -->", s, flags=re.S)
    open(p, "w").write(s)
    print("%d seeded changes, %d detected" % (len(rows), sum(1 for r in rows if "not detected" not in r)))


if __name__ == "__main__":
    main()
