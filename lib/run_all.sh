#!/bin/bash
# lib/run_all.sh [tier] [seed] - every registered check, one after the other; summary lines to work/all_<tier>_<seed>.log
tier=${1:-quick}; seed=${2:-1}
cd /verif
out=work/all_${tier}_${seed}.log; : > $out
for id in $(python3 -c "import json;print(' '.join(c['property_id'] for c in json.load(open('MANIFEST.json'))['checks']))"); do
  s=$(date +%s)
  ./check $id --tier $tier --seed $seed > work/all_${id}.out 2>&1; rc=$?
  echo "$id rc=$rc $(( $(date +%s) - s ))s $(grep -E '^(SUMMARY|INCONCLUSIVE)' work/all_${id}.out | cut -c1-200)" >> $out
  grep -E '^(VIOLATION|MODEL-DRIFT)' work/all_${id}.out | head -5 >> $out
done
echo DONE >> $out
