"""C04 - a task or detector belongs to at most one environment.

Model: spec/Lifecycle.tla (shared with C06), exhaustive on 2-3 environments sharing hosts and detectors, with and
without task reuse.  Scenarios (sequential API histories over 2-3 environments, and concurrent pairs ordered by
gates at hook points) are walked by TLC on spec/LifecycleGen.tla, run on the real core (whole-core simulation,
both values of --reuseUnlockedTasks) and validated by TLC against spec/LifecycleTrace.tla.
"""
import json

import lifecycle_common as lc
import vlib

OPS = {"START_ACTIVITY", "STOP_ACTIVITY", "RESET", "CONFIGURE"}
# deviation of C04 -> (LifecycleGen configuration, invariant its counterexample violates, gates offered)
CEX = {
    "Code_DetectorCheckNotAtomic": (dict(Envs={"e1", "e2"}, DetChoices=[{"TPC"}], MaxCalls=2, Ops=set(), DestroyFlags=[set()]),
                                    "DetExclusive", ["envman.create.snapshot"]),
    "Code_AllClaimedCrashes": (dict(Envs={"e1", "e2"}, ReuseUnlocked=True, DetChoices=[set()], MaxCalls=3, Ops=set(),
                                    DestroyFlags=[{"keep"}]), "NoCrash", ["envman.create.registered"]),
}


def model_cfgs(ctx):
    if ctx.tier == "quick":
        return [("plain", dict(MaxCalls=3, Ops={"START_ACTIVITY", "STOP_ACTIVITY", "RESET"})),
                ("reuse", dict(ReuseUnlocked=True, MaxCalls=4, DetChoices=[set()], Ops={"START_ACTIVITY"}, DestroyFlags=[{"keep"}])),
                # executor / agent reported lost for owned tasks, cleanups and kills for the other environment
                ("lost", dict(Ops=set(), DestroyFlags=[set()], FaultRoles={"a"}, FaultKinds={"EXECUTOR_LOST", "AGENT_LOST"}, MaxCalls=4,
                              MaxInFlight=1))]
    return [("plain", dict(MaxCalls=4)),
            ("two-tasks", dict(BasicChoices=[{"a", "b"}], MaxCalls=3, DestroyFlags=[set(), {"keep"}])),
            ("lost", dict(Ops={"START_ACTIVITY"}, DestroyFlags=[set(), {"force"}], FaultRoles={"a"}, FaultKinds={"EXECUTOR_LOST", "AGENT_LOST"},
                          MaxCalls=3)),
            ("reuse", dict(Envs={"e1", "e2", "e3"}, ReuseUnlocked=True, MaxCalls=4, MaxInFlight=3, DetChoices=[set()],
                           Ops={"START_ACTIVITY"}, DestroyFlags=[{"keep"}]))]


def run(ctx):
    quick = ctx.tier == "quick"
    ctx.assumptions += [
        "Mesos master, agents and executors are simulated (protocol subset the core uses); simulated agents report TASK_RUNNING "
        "only after the core wrote the task to its roster",
        "concurrent schedules imposed on the real core are pairs of API calls, one parked at a hook point of the real code while "
        "the other runs; three calls in flight only in the model and in the hand-scheduled replay of the double claim",
        "deploy_timeout outlasts the three deployment attempts of acquireTasks",
    ]
    ctx.rule = ("scenario = API history (create/control/destroy/cleanup over 2-3 environments sharing hosts and detectors, "
                "sequential or with one concurrent pair ordered by a gate) walked by TLC on LifecycleGen; non-trivial = at least "
                "two environments, or a concurrent pair")
    ctx.observations.append("after_DESTROY hooks replace DESTROY hooks of equal weight in the hooks map TeardownEnvironment merges "
                            "(the replaced hooks never run, replaced hook tasks are released as plain tasks): not a C04/C06 matter")
    # 1. the intended design, exhaustively
    for name, c in model_cfgs(ctx):
        r = ctx.model_check("Lifecycle", None, cfg_text=lc.cfg_model(ctx, c, lc.code_consts(ctx, as_is=False)), workers=vlib.NCPU,
                            timeout=1500)
        ctx.model_runs[-1]["cfg"] = name
        if not r.no_error:
            ctx.save_debug(r, "model_%s.txt" % name)
            raise vlib.Inconclusive("the design model violates %s in configuration %s" % (r.violated, name))
    scenarios = []
    sid = [0]

    def add(hist, family, reuse=False):
        sid[0] += 1
        s = lc.Builder(sid[0], family, hist, reuse=reuse, prefix="c").build()
        scenarios.append(s)
        return s

    # 2. the deviations of the code that are open findings: TLC's counterexample is replayed on the real core
    expected = {}
    crash = None
    for dev, (c, inv, gates) in CEX.items():
        if not lc.dev_open(ctx, dev):
            continue
        h = lc.counterexample(ctx, c, dev, inv, pairs=True, gates=gates)
        if h is None:
            raise vlib.Inconclusive("the model with %s does not violate %s" % (dev, inv))
        if inv == "NoCrash":
            sid[0] += 1
            crash = lc.Builder(sid[0], "cex:" + dev, h, reuse=True, prefix="c").build()
        else:
            expected[add(h, "cex:" + dev, reuse=bool(c.get("ReuseUnlocked")))["id"]] = (dev, inv)
    if lc.dev_open(ctx, "Code_ClaimNotAtomic"):
        # found by TLC on Lifecycle with three calls in flight (configuration "reuse"); scheduled by hand
        sid[0] += 1
        scenarios.append(lc.recipe_double_claim(sid[0]))
        expected[sid[0]] = ("Code_ClaimNotAtomic", "LockUnowned")
    if not lc.dev_open(ctx, "Code_AllClaimedCrashes"):
        # task reuse with a failing claimer (hand-scheduled like the double claim: three calls in flight); nothing is expected to
        # go wrong: the task stays with the environment that locked it
        sid[0] += 1
        scenarios.append(lc.recipe_failed_claimer(sid[0]))
    # 3. scenarios walked by TLC
    nseq, npar, nreuse, nros, novt, nfresh = (30, 40, 12, 25, 15, 10) if quick else (250, 400, 100, 200, 150, 80)
    common = dict(Envs={"e1", "e2", "e3"}, TaskIds={"k%d" % i for i in range(1, 17)}, BasicChoices=[{"a"}, {"a", "b"}],
                  DetChoices=[{"TPC"}, {"ITS"}, {"TPC", "ITS"}], Ops=OPS, DestroyFlags=[set(), {"force"}, {"keep"}, {"allow"}],
                  MaxCalls=6, MaxInFlight=2)
    # (hook tasks at two weights: the ones the teardown leaves locked must not be killed)
    for h in lc.generate(ctx, dict(common, HookChoices=[set(), {"h1", "h2"}]), nseq, pairs=False):
        add(h, "seq")
    for h in lc.generate(ctx, dict(common, MaxCalls=5), npar, pairs=True, max_pairs=2):
        add(h, "par")
    # what blanks the ids of an owned task (executor / agent reported lost; status updates generated by the master, without
    # executor id) followed by cleanups, creates and destroys of the other environments: kills and roster removals for one
    # environment (or for nobody) leave the tasks the others own alone
    # ... and a hook task that died in an environment which still holds it (TASK_FAILED): not ACTIVE, but owned
    ros = dict(common, HookChoices=[set(), {"h1"}], FaultRoles={"a", "b", "h1"},
               FaultKinds={"TASK_FAILED", "EXECUTOR_LOST", "AGENT_LOST", "MASTER_NOEXEC", "MASTER_NOIDS"}, Ops=set(),
               DestroyFlags=[set(), {"force"}], MaxCalls=5, MaxInFlight=1)
    for h in lc.generate(ctx, ros, nros * 2, pairs=False):
        if any(it["do"] == "fault" for it in h) and nros > 0:
            add(h, "roster")
            nros -= 1
    # a destroy parked after it released its tasks, overtaken by a create / cleanup that takes them away
    ovt = dict(common, Ops=set(), DestroyFlags=[set(), {"force"}], MaxCalls=5)
    for h in lc.generate(ctx, ovt, novt, pairs=True, gates=["td.released1", "td.released2", "td.done"], max_pairs=1):
        add(h, "overtake")
    # a deployment parked right after it wrote a task to the roster - a task that will not report TASK_RUNNING before the
    # deploy timeout (silent launch) - overtaken by a cleanup / a destroy / the pre-deployment cleanup of another create
    fresh = dict(common, Scripts={"ok", "silentlaunch"}, Ops=set(), DestroyFlags=[set(), {"force"}], MaxCalls=4)
    for h in lc.generate(ctx, fresh, nfresh * 3, pairs=True, gates=["task.roster.appended"], max_pairs=1):
        # (not against a destroy of the environment being created: whether the failure tail of the create still finds the
        # environment, and whose KillTasks gets the tasks, is decided by timing the recorded lines do not show)
        if nfresh > 0 and any(it["do"] == "par" and it["a"].get("script") == "silentlaunch" and it["gate"] != "missed"
                              and not (it["b"].get("do") == "destroy" and it["b"].get("env") == it["a"].get("env")) for it in h):
            add(h, "fresh")
            nfresh -= 1
    # a cleanup's roster filter against the roster write of a deployment (hand-scheduled: the point task.roster.filtered)
    sid[0] += 1
    scenarios.append(lc.recipe_lost_append(sid[0]))
    # two creations needing the same detector, both held inside their detector re-check (hand-scheduled)
    sid[0] += 1
    scenarios.append(lc.recipe_recheck(sid[0]))
    rc = dict(common, ReuseUnlocked=True, DetChoices=[set(), {"TPC"}], MaxCalls=5)
    for h in lc.generate(ctx, rc, nreuse, pairs=True, max_pairs=1):
        add(h, "reuse", reuse=True)
    for s in scenarios:
        ctx.count_case(json.dumps(s["hist"], sort_keys=True),
                       nontrivial=len(s["model"]["envs"]) >= 2 or any(it["do"] in ("par", "recipe") for it in s["hist"]))
    ctx.log("scenarios: %d" % len(scenarios))
    ctx.sample({"hist": scenarios[0]["hist"]})
    ctx.sample({"hist": scenarios[-1]["hist"], "steps": scenarios[-1]["steps"][:12]})
    # 4. run on the real core, validate
    lc.run_and_validate(ctx, scenarios, lc.C04_INVS, "c04")
    if crash is not None:
        died, evidence, lines = lc.run_expect_crash(ctx, crash)
        ctx.traces += 1
        if died:
            sig = lc.signature0("NoCrash", crash, None)
            sig["cause"] = "all-descriptors-claimed"
            sig["evidence"] = evidence
            ctx.add_violation(sig, replay_obj={"scenario": lc.harness_view(crash), "hist": crash["hist"], "trace": lines[-60:]})
        elif not ctx.violations:
            raise vlib.Inconclusive("MODEL-UNREPRODUCED Code_AllClaimedCrashes: the core survived the scenario of TLC's counterexample")
    # a model counterexample that the real core does not reproduce is a modelling error (unless the run found
    # violations that are not known findings: those are the verdict)
    hit = {v.get("scn") for v in ctx.violations} | set(ctx.extra.get("known_scn", []))
    for i, (dev, inv) in expected.items():
        if i not in hit and not ctx.violations:
            raise vlib.Inconclusive("MODEL-UNREPRODUCED %s: the scenario of TLC's counterexample (%s) ran clean on the real core"
                                    % (dev, inv))
