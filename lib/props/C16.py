"""C16 - the task state reported after a transition is the device's real state.

Model: spec/Transitioner.tla (FairMQ.Commit / doConfigure / doReset, Direct.Commit, the reply
acceptance rule of RpcClient.doTransition, against a scripted device).  TLC enumerates EVERY
behaviour: transitioner kind x requested O2 transition x real device state x SrcState-checking
device or not x every outcome of every device request the algorithm issues; each complete
behaviour is printed (EmitScn) as an outcome vector with the verdicts the model predicts.
Binding: every outcome vector is replayed on the real code (harness/cmd/transitioner), through the
exported NewFairMQTransitioner/NewDirectTransitioner with the scripted device as DoTransitionFunc
("func") and through the real executorcmd.NewClient against a gRPC Occ server ("grpc",
harness/fakeocc), calling Commit directly and via ExecutorCommand_Transition.Commit/PrepareResponse.
The recorded calls are validated by TLC against spec/TransitionerTrace.tla: strict conformance
(requests, reactions, returned values = the model's) and the monitor (property formulas on the
recorded facts).
"""
import json
import os
import random
import re

import vlib

KEY_RB = "no-rollback-after-transport-error"
KEY_NOOP = "unimplemented-transition-reports-success"
F = {"STANDBY": "IDLE", "CONFIGURED": "READY", "RUNNING": "RUNNING", "ERROR": "ERROR", "DONE": "EXITING"}
IMG = {v: k for k, v in F.items()}
INVS = ["Truthful", "SuccessMeansThere", "Rollback", "AcceptRule"]


def tla_bool(b):
    return "TRUE" if b else "FALSE"


def cfg_model(fix_rb, fix_noop, reset_from_initdev=False, hard=False):
    return """SPECIFICATION Spec
CONSTANTS
  FixRollback = %s
  FixNoop = %s
  ResetFromInitDev = %s
INVARIANTS TypeOK %s EmitScn
CHECK_DEADLOCK FALSE
""" % (tla_bool(fix_rb), tla_bool(fix_noop), tla_bool(reset_from_initdev),
       "Truthful SuccessMeansThere Rollback AcceptRule" if hard else "")


def cfg_trace(fix_rb, fix_noop):
    return """SPECIFICATION TraceSpec
CONSTANTS
  FixRollback = %s
  FixNoop = %s
  ResetFromInitDev = FALSE
INVARIANT PrintEnd
CHECK_DEADLOCK FALSE
""" % (tla_bool(fix_rb), tla_bool(fix_noop))


def parse_scn(rec):
    kind, evt, src, dst, dev0, strict, outs, final, err, dev = rec[1:11]
    verdicts = dict(zip(INVS + ["Completes"], rec[11:16]))
    return {"kind": kind, "evt": evt, "src": src, "dst": dst, "dev0": dev0, "strict": strict, "outs": outs,
            "model": {"final": final, "err": err, "dev": dev},
            "predicted": sorted(k for k in INVS if not verdicts[k]), "completes": verdicts["Completes"]}


def consistent(s):
    return s["dev0"] == (F.get(s["src"], "") if s["kind"] == "fairmq" else s["src"])


def image(kind, dev):
    return IMG.get(dev, "") if kind == "fairmq" else dev


def cause_of(s, last):
    """Root-cause class of a violating call, from the transition and its last device request."""
    if s["kind"] == "fairmq" and s["evt"] in ("GO_ERROR", "RECOVER"):
        return "unimplemented-transition"
    if last is None:
        return "none"
    # the call itself failed on a request sent to the device in the state the algorithm believed it in
    if last["out"] in ("tnx", "tx") and last["before"] == last["rsrc"]:
        return "transport-error"
    return last["out"]


def run(ctx):
    quick = ctx.tier == "quick"
    fix_rb = not ctx.deviation_open(KEY_RB)
    fix_noop = not ctx.deviation_open(KEY_NOOP)
    ctx.assumptions += [
        "FairMQ device table as the code assumes it (OccFMQCommon.h EXPECTED_FINAL_STATE; RESET DEVICE from INITIALIZED, BOUND, "
        "DEVICE READY only; ERROR -END-> EXITING); direct devices follow occlib/OccServer.cxx (PAUSE/RESUME left out)",
        "a reply reports the device's state honestly (a bogus reply violates one acceptance condition of doTransition: trigger, "
        "event or expected state, never lies about the state); an exited device (EXITING/DONE) answers nothing",
        "\"\" (shown as UNKNOWN by the core) is the image of the intermediate FairMQ states, and is allowed when the last "
        "request got no reply (DESIGN C16)",
        "outcomes: done, refused in place, error state, transport error not executed / executed, SrcState mismatch "
        "(INVALID_ARGUMENT, device checks SrcState), ok replies with wrong trigger / event / state",
        "timeouts and hangs of the device are outside (every request returns)",
        "JSON control transport (nopb) not exercised: its client uses bare method names a Go gRPC server rejects",
    ]
    ctx.rule = ("scenario = one complete behaviour of spec/Transitioner.tla enumerated by TLC (kind x transition x real device "
                "state x SrcState check x outcome vector), replayed on the real code per binding (func / grpc) and call path; "
                "distinct = distinct (binding, kind, transition, device state, strict, outcome vector); non-trivial = at least "
                "one device request with an outcome other than done")

    # 1. exhaustive model checking; the repaired algorithm must satisfy the property (hard invariants)
    if not (fix_rb and fix_noop):
        rr = ctx.model_check("Transitioner", "repaired", cfg_text=cfg_model(True, True, hard=True), workers=1)
        if not rr.no_error:
            raise vlib.Inconclusive("model of the repaired algorithm violates %s" % rr.violated)
    r = ctx.model_check("Transitioner", "tree" if not (fix_rb and fix_noop) else "repaired",
                        cfg_text=cfg_model(fix_rb, fix_noop, hard=(fix_rb and fix_noop)), workers=1,
                        extra=None if quick else ["-coverage", "1"])
    if not quick:
        ctx.zero_cov = r.coverage_zero()
    if not r.no_error:
        # the tree is modelled as repaired but the repaired model fails: the model is wrong
        raise vlib.Inconclusive("model violates %s with all deviations closed" % r.violated)
    cases = [parse_scn(x) for x in r.records("SCN")]
    printed = len(re.findall(r'(?m)^<<\s*"SCN"', r.out))
    if len(cases) < 1000 or len(cases) != printed:
        ctx.save_debug(r, "tlc_Transitioner_enum.txt")
        raise vlib.Inconclusive("TLC printed %d behaviours, %d parsed" % (printed, len(cases)))
    cases.sort(key=lambda s: json.dumps([s["kind"], s["evt"], s["src"], s["dev0"], s["strict"], s["outs"]]))
    ctx.exhaustive = True
    ctx.extra["behaviours_enumerated"] = len(cases)
    ctx.extra["model_constants"] = {"FixRollback": fix_rb, "FixNoop": fix_noop}

    # 2. scenarios: every behaviour x binding (x call path in the thorough tier)
    rng = random.Random(ctx.seed)
    scenarios = []
    sid = 0
    if ctx.replay:
        # --replay <evidence/replays/C16/*.json>: only that call (the model's verdicts for it are looked up)
        with open(ctx.replay) as fh:
            want = json.load(fh)["replay"]["scenario"]
        match = [c for c in cases if all(c[k] == want[k] for k in ("kind", "evt", "src", "dev0", "strict", "outs"))]
        s = dict(match[0]) if match else dict(want, predicted=[], completes=True, model=None)
        s.update({"id": 1, "bind": want["bind"], "via": want["via"], "dst": want["dst"]})
        scenarios.append(s)
    for bind in (() if ctx.replay else ("func", "grpc")):
        for c in cases:
            vias = ("cmd", "commit") if not quick else (rng.choice(("cmd", "commit")),)
            for via in vias:
                sid += 1
                s = dict(c)
                s.update({"id": sid, "bind": bind, "via": via})
                scenarios.append(s)
    rng.shuffle(scenarios)          # the clients and the gRPC connection are reused across calls: vary the order
    for i, s in enumerate(scenarios):
        s["id"] = i + 1
    by_id = {s["id"]: s for s in scenarios}

    # 3. replay on the real code
    binp = ctx.build("transitioner")
    scn_file = ctx.path("scenarios.ndjson")
    trace_file = ctx.path("trace.ndjson")
    ctx.write_ndjson(scn_file, [{k: s[k] for k in ("id", "bind", "via", "kind", "evt", "src", "dst", "dev0", "strict", "outs")}
                                for s in scenarios])
    out = ctx.run([binp, "-scenarios", scn_file, "-trace", trace_file], timeout=1200)
    ctx.log("replayed: " + out.strip())
    for s in scenarios:
        ctx.count_case([s["bind"], s["via"], s["kind"], s["evt"], s["src"], s["dev0"], s["strict"], s["outs"]],
                       nontrivial=any(o != "done" for o in s["outs"]))
    lines = ctx.read_ndjson(trace_file)
    per = {}
    for x in lines:
        per.setdefault(x["scn"], []).append(x)
    nret = sum(1 for x in lines if x["ev"] == "Return")
    if nret != len(scenarios):
        raise vlib.Inconclusive("harness recorded %d returns for %d calls" % (nret, len(scenarios)))
    ex = next((s for s in scenarios if s["evt"] == "CONFIGURE" and s["bind"] == "grpc" and len(s["outs"]) >= 5), scenarios[0])
    ctx.sample({"scenario": {k: ex[k] for k in ("id", "bind", "via", "kind", "evt", "src", "dst", "dev0", "strict", "outs")},
                "model_predicts": ex["model"], "trace": per.get(ex["id"], [])[:8]})

    # 4. trace validation (conformance + monitor) by TLC
    saved = os.environ.get("JAVA_TOOL_OPTIONS")
    os.environ["JAVA_TOOL_OPTIONS"] = ((saved or "") + " -XX:ParallelGCThreads=1 -Xmx3g").strip()  # one long chain of states
    try:
        viol, drift, tr = ctx.validate("TransitionerTrace", None, trace_file, cfg_text=cfg_trace(fix_rb, fix_noop), timeout=1500)
    finally:
        if saved is None:
            del os.environ["JAVA_TOOL_OPTIONS"]
        else:
            os.environ["JAVA_TOOL_OPTIONS"] = saved
    ctx.traces = len(scenarios)
    ctx.extra["trace_lines"] = len(lines)
    ctx.log("validated %d lines: %d VIOL, %d DRIFT (%.1fs)" % (len(lines), len(viol), len(drift), tr.wall))

    for d in drift:
        s = by_id.get(d[1], {})
        ctx.drift.append({"scn": d[1], "line": d[2], "event": d[3],
                          "scenario": {k: s.get(k) for k in ("bind", "via", "kind", "evt", "src", "dev0", "strict", "outs")}})

    observed = {}
    for v in viol:
        observed.setdefault(v[2], set()).add(v[1])
    groups = {}
    for v in viol:
        inv, scn = v[1], v[2]
        s = by_id.get(scn)
        if s is None:
            raise vlib.Inconclusive("VIOL record for unknown scenario %r" % scn)
        steps = [x for x in per.get(scn, []) if x["ev"] == "Step"]
        last = steps[-1] if steps else None
        sig = {"inv": inv, "bind": s["bind"], "kind": s["kind"], "transition": s["evt"], "src": s["src"],
               "consistent_start": consistent(s), "strict_device": s["strict"],
               "step": len(steps), "step_event": last["rev"] if last else "none", "outcome": last["out"] if last else "none",
               "cause": cause_of(s, last)}
        groups.setdefault(json.dumps(sig, sort_keys=True), (sig, []))[1].append(scn)
    ctx.extra["violating_calls"] = sum(len(g[1]) for g in groups.values())
    for key in sorted(groups):
        sig, scns = groups[key]
        s = by_id[scns[0]]
        ret = [x for x in per.get(s["id"], []) if x["ev"] == "Return"]
        vd = dict(sig)
        vd.update({"scn": s["id"], "dev0": s["dev0"], "outs": s["outs"], "occurrences": len(scns),
                   "returned": {k: ret[0][k] for k in ("final", "err", "dev")} if ret else None})
        ctx.add_violation(vd, replay_obj={"scenario": {k: s[k] for k in ("id", "bind", "via", "kind", "evt", "src", "dst", "dev0", "strict", "outs")},
                                          "trace": per.get(s["id"], [])})

    # 5. model predictions must reproduce on the real code (and nothing else may be flagged silently)
    unrepro = []
    for s in scenarios:
        pred = set(s["predicted"])
        obs = observed.get(s["id"], set()) & set(INVS)
        if pred - obs:
            unrepro.append((s["id"], sorted(pred - obs)))
    if unrepro:
        s = by_id[unrepro[0][0]]
        raise vlib.Inconclusive("MODEL-UNREPRODUCED: the model predicts %s for %d replayed behaviours that the monitor did not flag, e.g. %s"
                                % (unrepro[0][1], len(unrepro), json.dumps({k: s[k] for k in ("bind", "kind", "evt", "src", "dev0", "strict", "outs")})))

    # 6. observations (outside the listed property)
    nc = [c for c in cases if not c["completes"]]
    if nc:
        c = nc[0]
        ctx.observations.append(
            "%d fault-free behaviour(s) do not succeed, e.g. %s %s->%s against a device that checks SrcState: outcomes %s give (final=%r, err=%s) "
            "with the device in %s (doReset asks RESET DEVICE with expected state EXITING, then END with SrcState READY while the device is IDLE)"
            % (len(nc), c["evt"], c["src"], c["dst"], c["outs"], c["model"]["final"], c["model"]["err"], c["model"]["dev"]))
    exc = [c for c in cases if c["kind"] == "fairmq" and c["evt"] == "CONFIGURE" and consistent(c) and c["model"]["final"] == ""
           and image(c["kind"], c["model"]["dev"]) != "" and c["outs"] and c["outs"][-1] == "srcmism"]
    if exc and not fix_rb:
        c = exc[0]
        ctx.observations.append(
            "%d behaviours of CONFIGURE report \"\" (UNKNOWN) for a device in a stable state after a SrcState mismatch: after a rollback "
            "doConfigure still issues the next forward step (e.g. CONNECT with SrcState BOUND to a device back in IDLE); a device that "
            "checks SrcState answers INVALID_ARGUMENT, e.g. outcomes %s -> final \"\", device in %s (allowed by the transport-error "
            "clause of Truthful)" % (len(exc), c["outs"], c["model"]["dev"]))
    stuck = [c for c in cases if c["kind"] == "fairmq" and consistent(c) and c["model"]["dev"] == "INITIALIZING DEVICE"]
    if stuck:
        ctx.observations.append(
            "%d behaviours leave the device in INITIALIZING DEVICE (final \"\"), where the assumed device table has no RESET DEVICE: "
            "no rollback is possible, none is attempted" % len(stuck))
    if not quick:
        # sensitivity: what if the device also accepted RESET DEVICE from INITIALIZING DEVICE (model only)
        rs = ctx.model_check("Transitioner", "sensitivity", cfg_text=cfg_model(fix_rb, fix_noop, reset_from_initdev=True), workers=1)
        extra_rb = [x for x in (parse_scn(y) for y in rs.records("SCN")) if "Rollback" in x["predicted"] and x["model"]["dev"] == "INITIALIZING DEVICE"]
        ctx.observations.append("model only: if the device accepted RESET DEVICE from INITIALIZING DEVICE, %d more behaviours would break "
                                "Rollback (no rollback is ever attempted from that state)" % len(extra_rb))
    ctx.extra["scenarios"] = {"replayed": len(scenarios), "bindings": ["func", "grpc"],
                              "predicted_violating": sum(1 for s in scenarios if s["predicted"])}
