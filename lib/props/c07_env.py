"""C07, environment level: how START_ACTIVITY uses the shared run counter (spec/RunStart*.tla).

Model: spec/RunStart.tla (exhaustive, TLC): environments, the counter, a counter service that may fail, foreign writers;
one call of NewRunNumber is the abstraction RunCounter.tla justifies (advance atomically or fail and change nothing).
Binding: behaviours of spec/RunStartGen.tla (tlc -simulate) become API scenarios for the real core (coresim): START /
STOP requests on three environments, also two STARTs in flight, with the simulated Consul made to fail (GET 500, PUT 500,
CAS lost to a foreign writer) and foreign writers moving the counter; every write of the counter key is recorded at the KV
store's linearization point.  The recorded runs are validated by TLC against spec/RunStartTrace.tla."""
import json
import random

import coresim as cs
import vlib

ENVS = ["e1", "e2", "e3"]
FAULTS = ["get500", "put500", "casfail"]


def cfg_model(envs, maxn, unconfirmed=False):
    return ("SPECIFICATION Spec\nCONSTANTS\n  Envs = %s\n  MaxN = %d\n  Code_UseUnconfirmed = %s\n"
            "INVARIANTS TypeOK Unique Increasing FromCounter RunningHoldsOwn\nCHECK_DEADLOCK FALSE\n"
            % (envs, maxn, "TRUE" if unconfirmed else "FALSE"))


def cfg_gen():
    return ('SPECIFICATION GenSpec\nCONSTANTS\n  Envs = {"e1", "e2", "e3"}\n  MaxN = 1000\n  Code_UseUnconfirmed = FALSE\n'
            "CHECK_DEADLOCK FALSE\n")


def cfg_trace():
    return ('SPECIFICATION TraceSpec\nCONSTANTS\n  Envs = {"e1", "e2", "e3"}\n  MaxN = 1000000000\n  Code_UseUnconfirmed = FALSE\n'
            "INVARIANT PrintEnd\nCHECK_DEADLOCK FALSE\n")


def files_for(sid):
    files = {}
    wfs = {}
    for e in ENVS:
        cls = "c07s%d%s" % (sid, e)
        wf = "c07wf%d%s" % (sid, e)
        roles = cs.role_task("t", cls)
        roles += cs.role_call("p_" + e, "p_" + e, "before_START_ACTIVITY", critical=False)
        roles += cs.role_call("f_" + e, "f_" + e, "leave_CONFIGURED", critical=True)
        files["tasks/%s.yaml" % cls] = cs.task_class(cls)
        files["workflows/%s.yaml" % wf] = cs.workflow(wf, roles)
        wfs[e] = wf
    return files, wfs


def scenario_of(sid, beh, rng):
    """beh: list of (action, args, state) of RunStartGen."""
    acts = [(n[2:] if n.startswith("G_") else n, [a.strip('"') for a in args]) for (n, args, _s) in beh[1:]]
    # cut the tail after the last request
    last = max([i for i, (n, _a) in enumerate(acts) if n in ("Start", "Stop")] + [-1])
    end = last
    for i in range(last + 1, len(acts)):
        if acts[i][0] in ("Obtain", "ObtainFails", "EndStart", "StartFailsLater"):
            end = i
    acts = acts[:end + 1]
    # a START whose end lies beyond the simulated depth: drop it and what follows
    while True:     # (cutting one START may cut the end of an earlier, overlapping one)
        for i, (n, a) in enumerate(acts):
            if n == "Start" and not any(b and b[0] == a[0] and m in ("ObtainFails", "EndStart", "StartFailsLater") for (m, b) in acts[i + 1:]):
                acts = acts[:i]
                break
        else:
            break
    if not any(n == "Start" for n, _a in acts):
        return None
    files, wfs = files_for(sid)
    steps = [{"do": "kvwatch"}]
    for e in ENVS:
        steps.append({"do": "create", "env": e, "wf": wfs[e]})
    exp = []
    nstart = 0
    for i, (n, a) in enumerate(acts):
        if n == "Start":
            e = a[0]
            fate = next(m for (m, b) in acts[i + 1:] if b and b[0] == e and m in ("ObtainFails", "EndStart", "StartFailsLater"))
            if fate == "StartFailsLater":
                steps.append({"do": "hookscript", "hook": "f_" + e, "behaviour": {"outcome": "fail"}})
            steps.append({"do": "control", "env": e, "op": "START_ACTIVITY", "caller": "S" + e})
            exp.append({"env": e, "exp": "ok" if fate == "EndStart" else "fail", "fate": fate})
            nstart += 1
        elif n in ("ObtainFails", "EndStart", "StartFailsLater"):
            e = a[0]
            steps.append({"do": "await", "caller": "S" + e})
            if n == "StartFailsLater":
                steps.append({"do": "hookscript", "hook": "f_" + e, "behaviour": {"outcome": "ok"}})
        elif n == "Stop":
            steps.append({"do": "control", "env": a[0], "op": "STOP_ACTIVITY"})
        elif n == "Fault":
            steps.append({"do": "kvfault", "kind": rng.choice(FAULTS) if a[0] == "TRUE" else "off"})
        elif n == "Foreign":
            steps.append({"do": "kvput", "n": int(a[0])})
    steps.append({"do": "kvfault", "kind": "off"})
    for e in ENVS:
        steps.append({"do": "destroy", "env": e, "force": True, "allow_in_running": True})
    steps += [{"do": "settle", "ms": 30}]
    return {"id": sid, "family": "C07-env", "agents": cs.DEFAULT_AGENTS, "files": files, "core": {}, "scripts": [], "hooks": {},
            "steps": steps, "model": {"acts": [[n] + a for n, a in acts], "exp": exp}}


def project(scenarios, lines):
    by_id = {s["id"]: s for s in scenarios}
    out = []
    expq = {}
    for ln in lines:
        scn = ln.get("scn", -1)
        if scn < 0 or scn not in by_id:
            continue
        ev = ln["ev"]
        if ev == "Reset":
            expq[scn] = {}
            for x in by_id[scn]["model"]["exp"]:
                expq[scn].setdefault(x["env"], []).append(x["fate"])
            out.append({"ev": "Reset", "scn": scn})
        elif ev == "KvState":
            out.append({"ev": "Kv", "scn": scn, "val": int(ln["val"] or 0)})
        elif ev == "Api" and ln.get("call") == "control":
            out.append({"ev": "Begin", "scn": scn, "env": ln["env"], "op": ln["op"]})
        elif ev == "KvPut":
            if ln.get("cas") not in (None, ""):
                out.append({"ev": "Cas", "scn": scn, "val": int(ln["val"]), "ok": bool(ln["ok"])})
            else:
                out.append({"ev": "Foreign", "scn": scn, "val": int(ln["val"])})
        elif ev == "KvForeign":
            out.append({"ev": "Foreign", "scn": scn, "val": int(ln["val"])})
        elif ev == "KvFault":
            out.append({"ev": "Fault", "scn": scn, "on": ln["kind"] not in ("off", "")})
        elif ev == "HookStart" and str(ln.get("hook", "")).startswith(("p_", "f_")):
            env = ln["hook"][2:]
            out.append({"ev": "Hook", "scn": scn, "env": env, "tm": ln.get("trig", ""), "rn": int(ln["rn"]) if ln.get("rn") else 0})
        elif ev == "ApiReply" and ln.get("call") == "control":
            q = expq.get(scn, {}).get(ln["env"], [])
            fate = q.pop(0) if (ln["op"] == "START_ACTIVITY" and q) else ""
            out.append({"ev": "Reply", "scn": scn, "env": ln["env"], "op": ln["op"], "code": ln["code"], "st": ln.get("st", ""),
                        "rn": int(ln.get("rn") or 0), "doom": fate == "StartFailsLater"})
        elif ev == "End":
            out.append({"ev": "End", "scn": scn})
    return out


def run(ctx):
    quick = ctx.tier == "quick"
    rng = random.Random(ctx.seed * 31 + 7)
    # 1. exhaustive: the design; and the variant the property forbids must violate the invariants (non-vacuity)
    ctx.model_check("RunStart", None, cfg_text=cfg_model("{e1, e2}", 6 if quick else 8), workers=4)
    if not quick:
        ctx.model_check("RunStart", None, cfg_text=cfg_model("{e1, e2, e3}", 5), workers=8, timeout=2400)
    rv = ctx.tlc("RunStart", None, cfg_text=cfg_model("{e1, e2}", 6, unconfirmed=True), workers=2)
    ctx.extra["runstart_variant_use_unconfirmed_detected_by"] = rv.violated[0] if rv.violated else "not detected"
    if not rv.violated:
        raise vlib.Inconclusive("RunStart's invariants do not reject the variant that uses an unconfirmed number")
    # 2. scenarios from the model
    n = 60 if quick else 600
    behs = ctx.simulate("RunStartGen", None, n * 2, 26, cfg_text=cfg_gen(), seed=ctx.seed * 6151 + 11)
    scenarios = []
    sid = 7000
    seen = set()
    for b in behs:
        sid += 1
        s = scenario_of(sid, b, rng)
        if s is None:
            continue
        key = json.dumps(s["model"]["acts"])
        if key in seen:
            continue
        seen.add(key)
        scenarios.append(s)
        if len(scenarios) >= n:
            break
    for s in scenarios:
        acts = s["model"]["acts"]
        ctx.count_case("env:" + json.dumps(acts), nontrivial=any(a[0] in ("Fault", "Foreign") for a in acts)
                       or sum(1 for a in acts if a[0] == "Start") > 1)
    # 3. run on real cores, 4. validate
    lines = cs.run_scenarios(ctx, scenarios, timeout=1500)
    proj = project(scenarios, lines)
    tf = ctx.path("runstart_trace.ndjson")
    ctx.write_ndjson(tf, proj)
    ctx.sample({"env_level_scenario": scenarios[0]["model"], "trace": [x for x in proj if x["scn"] == scenarios[0]["id"]][:14]})
    viol, drift, _tr = ctx.validate("RunStartTrace", None, tf, cfg_text=cfg_trace(), timeout=1500)
    ctx.traces += len(scenarios)
    ctx.extra["env_level"] = {"scenarios": len(scenarios), "start_requests": sum(len(s["model"]["exp"]) for s in scenarios),
                              "starts_expected_to_fail": sum(1 for s in scenarios for x in s["model"]["exp"] if x["exp"] == "fail"),
                              "cas_writes_observed": sum(1 for x in proj if x["ev"] == "Cas"),
                              "trace_lines": len(proj)}
    by_id = {s["id"]: s for s in scenarios}
    for d in drift:
        ctx.drift.append({"scn": d[1], "line": d[2], "detail": d[3], "origin": "env-level"})
    seen = set()
    for v in viol:
        inv, scn, line = v[1], v[2], v[3]
        if (inv, scn) in seen:
            continue
        seen.add((inv, scn))
        ctx.add_violation({"inv": inv, "scn": scn, "line": line, "detail": v[4], "origin": "env-level", "cause": ""},
                          replay_obj={"kind": "env", "scenario": by_id.get(scn), "trace": [x for x in proj if x["scn"] == scn]})


def replay(ctx, obj):
    s = obj["scenario"]
    lines = cs.run_scenarios(ctx, [s], timeout=600)
    proj = project([s], lines)
    tf = ctx.path("runstart_trace.ndjson")
    ctx.write_ndjson(tf, proj)
    viol, drift, _tr = ctx.validate("RunStartTrace", None, tf, cfg_text=cfg_trace())
    for v in viol:
        ctx.add_violation({"inv": v[1], "scn": v[2], "line": v[3], "detail": v[4], "origin": "env-level", "cause": ""},
                          replay_obj={"kind": "env", "scenario": s, "trace": proj})
