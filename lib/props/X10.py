"""X10 - beyond the listed properties: the repository manager of the core (core/repos: repomanager.go, reposervice.go, repo.go):
the repo list (identifier -> default revision, which one is the default repo), what it persists through the RepoService in the runtime
KV (o2/runtime/aliecs/default_repo, default_revisions) and on disk (the clones: the list itself is rediscovered from the filesystem),
and a restart that builds a new manager from that.

Model: spec/Repos.tla: one action per public operation as the code does it (AddRepo, RemoveRepoByIndex, UpdateDefaultRepoByIndex,
UpdateDefaultRepo, UpdateDefaultRevisionByIndex, RefreshRepos, RefreshRepoByIndex, GetWorkflow, restart) with its error outcomes, each
possibly with the KV refusing writes; exhaustive with TLC.  Properties: exactly one default repo whenever the list is not empty; removing
the default elects, reports and persists another; identifiers unique; default revisions valid; the clones on disk are the list; after
every successful operation the persisted default / default revisions are the manager's; a failed operation changes nothing; a bad index
is an error, not a crash; a restart restores list, default and default revisions; a workflow looked up without a revision comes from
the default revision.  The repaired design satisfies all; for the code as it is TLC refutes seven, each replayed on the real manager
and reported as an OBSERVATION when the recorded run shows it.

Binding: behaviours of the model (tlc -simulate on spec/ReposGen.tla, seeded, plus TLC's counterexamples) run on the REAL
repos.RepoManager (harness/cmd/reposrun: exported API only; every life of the singleton manager is a child process; RepoService on the
real apricot local service against the in-process fake Consul of harness/coresim, whose PUTs can be refused; repositories are real git
clones of local upstreams placed where git.PlainClone would put them); after every operation its result, the list / default /
default revisions, the KV read back and the clone directories are recorded and validated by TLC against spec/ReposTrace.tla in one
pass: strict conformance (DRIFT) and the properties as soft invariants on the recorded facts (VIOL).

Not a listed property: not registered in MANIFEST.json; evidence goes to evidence/extra/X10.json."""
import json
import os
import shutil
import subprocess
import tempfile

import vlib

LEVEL = "model_checking"

CODE = ["Code_PersistFailureIgnored", "Code_NotAtomic", "Code_NegIndexPanics", "Code_StickyRevision"]
HOLD = "TypeOK OneDefault RevisionsValid RemoveElects DiskIsList WorkflowRevisionRight"
REFUTED = ["PersistedDefaultMatches", "PersistedRevsMatch", "FailedChangesNothing", "NoPanic", "RestartRestores", "WorkflowUsesDefault",
           "FailedLookupNoEffect"]
ALL = HOLD + " " + " ".join(REFUTED)

# deviation -> (properties only it refutes, properties it refutes together with others, what)
DEV = {
    "Code_PersistFailureIgnored": (["PersistedDefaultMatches"], ["RestartRestores"],
        "setDefaultRepo only logs a failed NewDefaultRepo (runtime KV write): UpdateDefaultRepoByIndex / UpdateDefaultRepo / the election in "
        "RemoveRepoByIndex succeed while o2/runtime/aliecs/default_repo keeps the old default - the next restart comes up with the old default "
        "repo (and clones it again if it was the one removed)"),
    "Code_NotAtomic": (["FailedChangesNothing", "PersistedRevsMatch"], ["RestartRestores"],
        "AddRepo, RemoveRepoByIndex and UpdateDefaultRevisionByIndex change the manager (list, default, clone on disk, default revision) first "
        "and return the error of SetRepoDefaultRevisions afterwards: the caller is told the operation failed, yet it has happened, and the "
        "persisted default_revisions stay behind until the next successful write"),
    "Code_NegIndexPanics": (["NoPanic"], [],
        "a negative index (int32 of the gRPC request) passes the bounds checks (index >= len(keys); len(keys)-1 >= index): keys[-1] panics in "
        "RemoveRepoByIndex, RefreshRepoByIndex, UpdateDefaultRepoByIndex and UpdateDefaultRevisionByIndex"),
    "Code_StickyRevision": (["WorkflowUsesDefault", "FailedLookupNoEffect"], [],
        "GetWorkflow without @revision 'uses the default revision of the repo' by wfRepo.setDefaultRevision(wfRepo.GetDefaultRevision()), a "
        "no-op, and checks out Repo.Revision = whatever the last lookup with a revision asked for: after wf@dev every plain lookup in that repo "
        "comes from dev, after a lookup with an unknown revision every plain lookup fails (checkoutRevision: reference not found), and "
        "UpdateDefaultRevisionByIndex does not move it either"),
}


def cfg_model(n, code, invs, spec="Spec", faults=True):
    c = {k: (code if isinstance(code, bool) else code.get(k, True)) for k in CODE}
    return ("SPECIFICATION %s\nCONSTANTS\n  N = %d\n  Faults = %s\n%s%sCHECK_DEADLOCK FALSE\n"
            % (spec, n, "{TRUE, FALSE}" if faults else "{FALSE}", "".join("  %s = %s\n" % (k, "TRUE" if v else "FALSE") for k, v in c.items()),
               ("INVARIANTS %s\n" % invs) if invs else ""))


def split_witnesses(out):
    """Output of `tlc -continue`: {invariant: [behaviour, ...]}, one behaviour per reported violation."""
    import re
    import tlaval
    parts = re.split(r"(?m)^Error: Invariant ([A-Za-z0-9_]+) is violated\.", out)
    res = {}
    for k in range(1, len(parts), 2):
        beh = tlaval.parse_counterexample(parts[k + 1])
        if beh:
            res.setdefault(parts[k], []).append(beh)
    return res


def check_model(ctx, label, n, code, invs, flags=(), workers=4):
    r = ctx.tlc("Repos", None, workers=workers, cfg_text=cfg_model(n, code, invs), extra=list(flags), timeout=1500)
    if r.crashed or (r.generated == 0 and not r.violated):
        ctx.save_debug(r, "tlc_Repos_%s.txt" % label.replace(":", "_"))
        raise vlib.Inconclusive("TLC failed on Repos (%s, rc=%d): %s" % (label, r.rc, vlib.tail(r.out)))
    ctx.states += r.distinct
    ctx.transitions += r.generated
    result = ("violated:" + ",".join(sorted(set(r.violated))) if r.violated else ("ok" if r.no_error else ("deadlock" if r.deadlock else "?")))
    ctx.model_runs.append({"module": "Repos", "cfg": label, "distinct": r.distinct, "generated": r.generated, "result": result,
                           "wall_s": round(r.wall, 1)})
    ctx.log("model Repos/%s: %d distinct, %d generated, %s (%.1fs)" % (label, r.distinct, r.generated, result, r.wall))
    return r


# ---------- behaviours -> scenarios ----------
def q(s):
    return str(s).strip().strip('"')


def beh_to_scenario(beh, origin):
    steps = []
    for (_name, _args, st) in beh[1:]:
        la = st.get("last")
        if not isinstance(la, dict):
            raise vlib.Inconclusive("behaviour state without last: %r" % (st,))
        g = {q(k): v for k, v in la.items()}
        op = q(g["op"])
        step = {"op": op, "n": q(g["n"]), "i": int(q(g["i"])), "r": q(g["r"]), "f": g["f"] is True or q(g["f"]) == "TRUE"}
        steps.append(step)
    return {"id": 0, "cfg": "r1", "steps": steps, "origin": origin}


def nontrivial(s):
    ops = {st["op"] for st in s["steps"]}
    return any(st["f"] or st["i"] < 0 for st in s["steps"]) or "restart" in ops or len(ops) >= 4


def canon(s):
    return json.dumps(s["steps"], sort_keys=True)


def cfg_trace():
    return cfg_model(3, True, None, spec="TraceSpec") + "INVARIANT PrintEnd\n"


def execute(ctx, binp, scenarios, name, shards=1):
    parts = [scenarios[i::shards] for i in range(shards)]
    procs = []
    roots = []
    for i, part in enumerate(parts):
        if not part:
            continue
        sf, tf = ctx.path("scn_%s_%d.ndjson" % (name, i)), ctx.path("run_%s_%d.ndjson" % (name, i))
        ctx.write_ndjson(sf, [{k: v for k, v in s.items() if k != "origin"} for s in part])
        root = tempfile.mkdtemp(prefix="x10run", dir="/tmp")     # no '.' in the path; removed by the driver and below
        roots.append(root)
        procs.append((subprocess.Popen([binp, "-scenarios", sf, "-trace", tf, "-root", os.path.join(root, "w")], cwd=ctx.work,
                                       stdout=subprocess.PIPE, stderr=subprocess.STDOUT, text=True), tf))
    lines = []
    try:
        for p, tf in procs:
            try:
                out, _ = p.communicate(timeout=900)
            except subprocess.TimeoutExpired:
                p.kill()
                raise vlib.Inconclusive("reposrun timeout")
            if p.returncode != 0:
                raise vlib.Inconclusive("reposrun failed rc=%d: %s" % (p.returncode, vlib.tail(out, 20)))
            lines += [x for x in ctx.read_ndjson(tf) if x.get("ev") != "Fin"]
    finally:
        for p, _tf in procs:
            if p.poll() is None:
                p.kill()
        for root in roots:
            shutil.rmtree(root, ignore_errors=True)
    return lines


def project(lines):
    out = []
    for ln in lines:
        ln = dict(ln)
        ln.pop("seq", None)
        if "err" in ln:
            ln["err"] = str(ln["err"])[:120].replace("\n", " ")
        if ln.get("op") == "revidx":
            ln["s1"] = str(ln.get("s1", "")).replace("\n", " ").strip()
        out.append(ln)
    return out


def judge(ctx, scenarios, lines, what):
    plines = project(lines)
    tf = ctx.path("trace_%s.ndjson" % what)
    ctx.write_ndjson(tf, plines)
    viol, drift, r = ctx.validate("ReposTrace", None, tf, cfg_text=cfg_trace(), timeout=1500)
    return plines, viol, drift, r.records("OBS")


def report(ctx, scenarios, lines, viol, drift):
    by_id = {s["id"]: s for s in scenarios}
    for d in drift:
        ctx.drift.append({"scn": d[1], "line": d[2], "origin": (by_id.get(d[1]) or {}).get("origin"), "detail": str(d[3])[:400]})
    told = set()
    for v in viol:
        sid = v[2]
        if (v[1], sid) in told:
            continue
        told.add((v[1], sid))
        ctx.add_violation({"inv": v[1], "scn": sid, "line": v[3], "origin": (by_id.get(sid) or {}).get("origin"), "detail": str(v[4])[:300]},
                          replay_obj={"scenario": by_id.get(sid), "trace": [x for x in lines if x.get("scn") == sid]})


def attribute(obs):
    return [d for d, (own, shared, _w) in DEV.items() if obs[1] in own or obs[1] in shared]


def run(ctx):
    quick = ctx.tier == "quick"
    ctx.assumptions += [
        "repositories are 127.0.0.1/o/r1..r3 ('https' repositories for the code); the network is simulated: before an AddRepo / a start that "
        "has to clone, the driver places a real git clone of the local upstream (origin = a local path) in the clone directory, so "
        "git.PlainClone answers ErrRepositoryAlreadyExists, which AddRepo tolerates; refresh / fetch / revisions / checkout are the real code "
        "on real clones; the upstreams do not change during a scenario (r1, r2: branches master and dev, r3: master; one commit and one "
        "workflow per branch); the global default revision is master and every upstream has it",
        "repos.Instance is a process-wide singleton: every life of the manager (start, restart) is one child process of the driver; what "
        "survives is the fake Consul KV and the working directory; configured default repo (viper defaultRepo) = r1",
        "a KV fault = every PUT to the fake Consul answers 500 for the duration of one operation (reads work); no faults during a restart",
        "operations are called one at a time (the missing locking of UpdateDefaultRepo* / UpdateDefaultRevisionByIndex is not exercised); "
        "SetGlobalDefaultRevision, EnsureReposPresent, GetWorkflowTemplates and local / ssh repositories are not in the model",
    ]
    ctx.rule = ("scenario = a behaviour of ReposGen (tlc -simulate, seeded) or a TLC counterexample of Repos, run operation by operation on "
                "the real RepoManager; non-trivial = contains a KV fault, a negative index, a restart or at least four different operations; "
                "distinct = distinct operation sequences")
    wit = " ".join("W_" + inv for inv in REFUTED)
    # the code as it is, two repositories, KV faults: every refuted property gets its counterexample (one -continue run)
    asis = check_model(ctx, "asis", 2, True, HOLD + " " + wit, flags=["-continue"])
    bad = [v for v in asis.violated if not v.startswith("W_")]
    if bad or asis.deadlock:
        ctx.save_debug(asis, "tlc_Repos_asis.txt")
        raise vlib.Inconclusive("model check asis: %s - the specification does not describe what it claims" % ",".join(bad))
    # the repaired design, three repositories (one without the branch dev), KV faults: everything holds
    rep = check_model(ctx, "repaired", 3, False, ALL)
    if not rep.no_error:
        ctx.save_debug(rep, "tlc_Repos_repaired.txt")
        raise vlib.Inconclusive("model check repaired: %s" % (",".join(rep.violated) or vlib.tail(rep.out, 5)))
    if not quick:
        # the code as it is, three repositories, a KV that never refuses (with faults the state space of the code as it is, where memory,
        # KV and disk drift apart, takes > 12 min for N = 3): what does not depend on faults
        r = ctx.tlc("Repos", None, workers=4, cfg_text=cfg_model(3, True, HOLD + " PersistedDefaultMatches PersistedRevsMatch "
                                                                 "FailedChangesNothing RestartRestores W_NoPanic W_WorkflowUsesDefault "
                                                                 "W_FailedLookupNoEffect", faults=False), extra=["-continue"], timeout=1500)
        bad3 = [v for v in r.violated if not v.startswith("W_")]
        ctx.states += r.distinct
        ctx.transitions += r.generated
        ctx.model_runs.append({"module": "Repos", "cfg": "asis:N=3,no-faults", "distinct": r.distinct, "generated": r.generated,
                               "result": "violated:" + ",".join(sorted(set(r.violated))) if r.violated else "ok", "wall_s": round(r.wall, 1)})
        ctx.log("model Repos/asis:N=3,no-faults: %d distinct, %d generated (%.1fs)" % (r.distinct, r.generated, r.wall))
        if bad3 or r.crashed or r.generated == 0:
            ctx.save_debug(r, "tlc_Repos_asis3.txt")
            raise vlib.Inconclusive("model check asis N=3 without faults: %s" % (",".join(bad3) or vlib.tail(r.out, 5)))
        for dev, (own, _shared, _what) in DEV.items():
            r = check_model(ctx, "only:" + dev, 2, {dev: False}, HOLD + " " + " ".join(own))
            if not r.no_error:
                ctx.save_debug(r, "tlc_Repos_only_%s.txt" % dev)
                raise vlib.Inconclusive("model check only:%s: %s" % (dev, ",".join(r.violated) or vlib.tail(r.out, 5)))
    witnesses = split_witnesses(asis.out)
    for inv in REFUTED:
        if not witnesses.get("W_" + inv):
            raise vlib.Inconclusive("the model of the code as it is no longer refutes %s: the specification changed?" % inv)
    ctx.extra["refuted_as_is"] = sorted(REFUTED)

    scenarios, seen = [], set()

    def add(s):
        k = canon(s)
        if k in seen or not s["steps"]:
            return None
        seen.add(k)
        s["id"] = len(scenarios) + 1
        scenarios.append(s)
        return s["id"]

    cex_of = {}
    for dev, (own, shared, _what) in DEV.items():
        for inv in own + shared:
            for beh in sorted(witnesses["W_" + inv], key=len)[:2]:
                sid = add(beh_to_scenario(beh, "model-counterexample:%s" % inv))
                if sid:
                    cex_of.setdefault(dev, set()).add(sid)
    nsim = 150 if quick else 1500
    depth = 24 if quick else 40
    gen = cfg_model(3, True, None, spec="GenSpec")
    for b in ctx.simulate("ReposGen", None, nsim, depth, cfg_text=gen, seed=ctx.seed * 7919 + 31):
        add(beh_to_scenario(b, "generated"))
    for s in scenarios:
        ctx.count_case(canon(s), nontrivial=nontrivial(s))

    binp = ctx.build("reposrun")
    lines = execute(ctx, binp, scenarios, "all", shards=4)
    ctx.traces = len(scenarios)
    ctx.exhaustive = False
    plines, viol, drift, obs = judge(ctx, scenarios, lines, "all")
    first = scenarios[0]
    ctx.sample({"scenario": first, "trace": [x for x in plines if x.get("scn") == first["id"]][:14]})
    report(ctx, scenarios, plines, viol, drift)

    shown = {}
    for o in obs:
        for dev in attribute(o):
            shown.setdefault(dev, set()).add(o[2])
    ctx.extra["deviations_reproduced"] = {d: len(v) for d, v in shown.items()}
    ctx.extra["operations_run"] = sum(1 for x in plines if x.get("ev") == "Op")
    drifted = {d["scn"] for d in ctx.drift}
    for dev, (own, shared, what) in DEV.items():
        hit = shown.get(dev, set()) - drifted
        cex_hit = bool(cex_of.get(dev, set()) & hit)
        ctx.observations.append(
            "%s: %s (model: %s refuted for the code as it is, satisfied by the repaired design; %s on the real manager: %d recorded "
            "scenario(s) show it%s)" % (dev, what, ", ".join(own + shared), "reproduced" if hit else "NOT reproduced", len(hit),
                                        ", among them TLC's counterexample" if cex_hit else ""))


def replay(ctx, obj):
    s = obj["scenario"]
    if not s:
        raise vlib.Inconclusive("replay object without a scenario")
    binp = ctx.build("reposrun")
    lines = execute(ctx, binp, [s], "replay")
    plines, viol, drift, _obs = judge(ctx, [s], lines, "replay")
    ctx.traces = 1
    report(ctx, [s], plines, viol, drift)
