"""X06 - beyond the listed properties: the data distribution partition lifecycle the DD scheduler integration plugin drives
(core/integration/ddsched: plugin.go CallStack PartitionInitialize / PartitionTerminate / EnsureTermination - a gRPC call followed by
PartitionStatus polled every 100 ms until the wanted state or the deadline -, GetData / GetEnvironmentsData - one PartitionStatus per
environment on demand) and the DD scheduler's own partition table.  The plugin keeps no bookkeeping and no cache: partition id =
environment id, what exists is known to the scheduler alone.

Model: spec/DdRun.tla, one action per gRPC call / poll / deadline / step of the scheduler, exhaustive with TLC.  Properties: a waiting
hook succeeds iff the scheduler reported the wanted state before the deadline; a state it cannot go on from (ERROR, REQUEST_INVALID,
UNKNOWN, ...) fails the hook, which names it; PartitionTerminate is sent only for a partition the scheduler has alive; after a successful
EnsureTermination nothing of the environment is CONFIGURING / CONFIGURED / ERROR; every request names the caller's own partition; the
init request carries exactly the STF builder / sender ids of the workflow's leaves and the ddsched_* parameters; nothing is sent after
the hook returned; GetData reports exactly what the scheduler answered.  The repaired design satisfies all; for the code as it is TLC
refutes two, each replayed on the real plugin and reported as an OBSERVATION when the recorded run shows it.

Binding: behaviours of the model (tlc -simulate on spec/DdRunGen.tla, seeded, plus TLC's counterexamples) run on the REAL plugin
(harness/cmd/ddrun: ddsched.NewPlugin + Init against an in-process fake DD scheduler speaking the real ddsched.proto, in which every
request parks until the scenario lets it take effect; the hooks are the plugin's own CallStack functions with real *callable.Call values
whose parent is a real call role of a real role tree; deadlines are real); requests, returns, the scheduler's table and GetData are
recorded and validated by TLC against spec/DdRunTrace.tla in one pass: strict conformance (DRIFT) and the properties as soft invariants
on the recorded facts (VIOL).

Not a listed property: not registered in MANIFEST.json; evidence goes to evidence/extra/X06.json."""
import json
import os
import shutil
import subprocess
import time

import vlib

LEVEL = "model_checking"

CODE = ["Code_PollTimeoutSilent", "Code_TerminateHookUnconditional"]
HOLD = "TypeOK ReachedImpliesOk BadStateNamed ErrorFailsHook EnsureLeavesNothing RequestNamesEnvironment"
ALL = HOLD + " OkImpliesReached TerminateOnlyAlive"

DEV = {
    "Code_PollTimeoutSilent": ("OkImpliesReached",
        "the polling loop `for ctx.Err() == nil { PartitionStatus(ctx ...); if err != nil { sleep; continue } ... }` simply ends when the "
        "deadline expires while a status call is under way (or while status calls keep failing): no __call_error is set and "
        "PartitionInitialize / PartitionTerminate / EnsureTermination return SUCCESS although the partition never reached CONFIGURED / "
        "TERMINATED (only a deadline that falls into the 100 ms sleep after an 'in progress' answer is reported as 'timeout exceeded')"),
    "Code_TerminateHookUnconditional": ("TerminateOnlyAlive",
        "the PartitionTerminate hook asks nobody: after a PartitionInitialize that failed (non-critical hook) it sends PartitionTerminate "
        "for a partition the scheduler does not know, and fails on the scheduler's answer UNKNOWN"),
}

E1 = '{"e1"}'
E2 = '{"e1", "e2"}'


def cfg_model(envs, maxinit, maxpolls, maxfaults, maxown, maxgd, code, invs, spec="Spec"):
    c = {k: (code if isinstance(code, bool) else code.get(k, True)) for k in CODE}
    return ("SPECIFICATION %s\nCONSTANTS\n  Envs = %s\n  MaxInit = %d\n  MaxPolls = %d\n  MaxFaults = %d\n  MaxOwn = %d\n  MaxGd = %d\n"
            "%s%sCHECK_DEADLOCK FALSE\n"
            % (spec, envs, maxinit, maxpolls, maxfaults, maxown, maxgd,
               "".join("  %s = %s\n" % (k, "TRUE" if v else "FALSE") for k, v in c.items()),
               ("INVARIANTS %s\n" % invs) if invs else ""))


def split_witnesses(out):
    """Output of `tlc -continue`: {invariant: [behaviour, ...]}, one behaviour per reported violation."""
    import re
    import tlaval
    parts = re.split(r"(?m)^Error: Invariant ([A-Za-z0-9_]+) is violated\.", out)
    res = {}
    for k in range(1, len(parts), 2):
        beh = tlaval.parse_counterexample(parts[k + 1])
        if beh:
            res.setdefault(parts[k], []).append(beh)
    return res


def tlc_parallel(ctx, jobs, par=6, workers=2, timeout=900):
    """Run several exhaustive TLC jobs side by side (each in its own scratch directory). jobs: list of (label, module, cfg_text, flags).
    Returns {label: TlcResult}; accounts states / model_runs like ctx.model_check."""
    res = {}
    pend = list(jobs)
    running = []
    e = dict(os.environ)
    e["JAVA_TOOL_OPTIONS"] = (e.get("JAVA_TOOL_OPTIONS", "") + " -Xss64m -Xmx4g").strip()
    try:
        return _tlc_parallel(ctx, pend, running, res, e, par, workers, timeout)
    finally:
        for it in running:      # an error above: do not leave the other jobs behind (timeout forwards the signal to TLC)
            it[2].terminate()
        for it in running:
            try:
                it[2].wait(timeout=30)
            except subprocess.TimeoutExpired:
                it[2].kill()
            it[3].close()


def _tlc_parallel(ctx, pend, running, res, e, par, workers, timeout):
    while pend or running:
        while pend and len(running) < par:
            label, module, cfg, flags = pend.pop(0)
            ctx.ntlc += 1
            d = os.path.join(ctx.work, "tlc%d" % ctx.ntlc)
            os.makedirs(d)
            for f in ("DdRun.tla", "DdRunGen.tla"):
                shutil.copy(os.path.join(vlib.SPEC, f), d)
            with open(os.path.join(d, "run.cfg"), "w") as fh:
                fh.write(cfg)
            out = open(os.path.join(d, "out.txt"), "w")
            p = subprocess.Popen(["timeout", str(timeout), "tlc", "-workers", str(workers), "-metadir", os.path.join(d, "md"),
                                  "-config", "run.cfg"] + flags + [module + ".tla"], cwd=d, env=e, stdout=out, stderr=subprocess.STDOUT)
            running.append((label, module, p, out, d, time.time()))
        time.sleep(0.2)
        for it in list(running):
            label, module, p, out, d, t0 = it
            if p.poll() is None:
                continue
            running.remove(it)
            out.close()
            with open(os.path.join(d, "out.txt")) as fh:
                text = fh.read()
            r = vlib.TlcResult(text, p.returncode, time.time() - t0)
            r.dir = d
            if p.returncode == 124:
                raise vlib.Inconclusive("TLC timeout after %ss on %s (%s)" % (timeout, module, label))
            if "java.lang.OutOfMemoryError" in text or "StackOverflowError" in text:
                raise vlib.Inconclusive("TLC resource failure on %s (%s)" % (module, label))
            if r.crashed or (r.generated == 0 and not r.violated):
                ctx.save_debug(r, "tlc_%s_%s.txt" % (module, label))
                raise vlib.Inconclusive("TLC failed on %s (%s, rc=%d): %s" % (module, label, r.rc, vlib.tail(r.out)))
            ctx.states += r.distinct
            ctx.transitions += r.generated
            result = ("violated:" + ",".join(sorted(set(r.violated))) if r.violated else
                      ("ok" if r.no_error else ("deadlock" if r.deadlock else "?")))
            ctx.model_runs.append({"module": module, "cfg": label, "distinct": r.distinct, "generated": r.generated, "result": result,
                                   "wall_s": round(r.wall, 1)})
            ctx.log("model %s/%s: %d distinct, %d generated, %s (%.1fs)" % (module, label, r.distinct, r.generated, result, r.wall))
            res[label] = r
    return res



# ---------- behaviours -> scenarios ----------
HOOKS = {"InitCall": "PartitionInitialize", "TermCall": "PartitionTerminate", "EnsureStatus": "EnsureTermination",
         "EnsureTerm": "EnsureTermination"}
DEADLINE = "2500ms"


def q(s):
    return s.strip().strip('"')


def beh_to_scenario(sid, beh, origin):
    steps = []
    fn_of = {}       # environment -> hook in progress (for Poll / PollTimeout)
    start = {}       # environment -> index of the first step of the invocation in progress
    for (name, args, st) in beh[1:]:
        name = name[2:] if name.startswith("G_") else name
        a = [q(x) for x in args]
        if name in HOOKS:
            if name != "EnsureTerm":
                start[a[0]] = len(steps)
            fn_of[a[0]] = HOOKS[name]
            steps.append({"k": "hook", "e": a[0], "fn": HOOKS[name], "f": a[1], "c": a[2], "t": "", "new": name != "EnsureTerm"})
        elif name == "Poll":
            steps.append({"k": "hook", "e": a[0], "fn": fn_of[a[0]], "f": a[1], "t": a[2], "c": a[3], "new": False})
            if a[2] == "sleep":
                steps[start[a[0]]]["to"] = DEADLINE
        elif name == "PollTimeout":
            steps.append({"k": "tmo", "e": a[0], "c": a[1]})
            steps[start[a[0]]]["to"] = DEADLINE
        elif name in ("Progress", "Fail"):
            steps.append({"k": "own", "e": a[0], "a": name})
        elif name in ("GoError", "Destroy"):
            steps.append({"k": "ecs", "e": a[0], "fn": name})
        elif name == "GetData":
            fs = {}
            for k, v in (st.get("last", {}).get("out") or {}).items():
                pass
            # the argument is a function [e1 |-> "none", ...]: take it from the label
            txt = ",".join(args)
            for e in ("e1", "e2"):
                fs[e] = "err" if ('%s |-> "err"' % e) in txt else "none"
            steps.append({"k": "gd", "fs": fs})
        else:
            raise vlib.Inconclusive("behaviour with an action the harness cannot impose: %s" % name)
    return {"id": sid, "envs": ["e1", "e2"], "steps": steps, "origin": origin}


def feasible(s):
    """A real deadline must not be eaten up by what the scenario does for the OTHER environment in between: no more than six of its hook
    steps (100 ms sleeps) and none of its own deadlines between the start of a deadline-bound invocation and its scripted end."""
    st = s["steps"]
    for i, x in enumerate(st):
        if not x.get("to"):
            continue
        others = 0
        for y in st[i + 1:]:
            if y.get("e") == x["e"] and (y["k"] == "tmo" or y.get("t") == "sleep"):
                break
            if y.get("e") != x["e"]:
                if y["k"] == "tmo" or y.get("t") == "sleep" or y.get("to"):
                    return False
                if y["k"] in ("hook", "gd"):
                    others += 1
        if others > 6:
            return False
    return True


def nontrivial(s):
    return any(st.get("f", "none") != "none" or st["k"] in ("tmo", "own", "gd") or st.get("t") == "sleep" for st in s["steps"])


def canon(s):
    return json.dumps(s["steps"], sort_keys=True)


def cfg_trace():
    return cfg_model(E2, 1000000, 1000000, 1000000, 1000000, 1000000, True, None, spec="TraceSpec") + "INVARIANT PrintEnd\n"


def execute(ctx, binp, scenarios, name, shards=1):
    parts = [scenarios[i::shards] for i in range(shards)]
    procs = []
    for i, part in enumerate(parts):
        if not part:
            continue
        sf, tf = ctx.path("scn_%s_%d.ndjson" % (name, i)), ctx.path("run_%s_%d.ndjson" % (name, i))
        ctx.write_ndjson(sf, [{k: v for k, v in s.items() if k != "origin"} for s in part])
        procs.append((subprocess.Popen([binp, "-scenarios", sf, "-trace", tf], cwd=ctx.work, stdout=subprocess.PIPE,
                                       stderr=subprocess.STDOUT, text=True), tf))
    lines = []
    for p, tf in procs:
        try:
            out, _ = p.communicate(timeout=1500)
        except subprocess.TimeoutExpired:
            p.kill()
            raise vlib.Inconclusive("ddrun timeout")
        if p.returncode != 0:
            raise vlib.Inconclusive("ddrun failed rc=%d: %s" % (p.returncode, vlib.tail(out, 20)))
        ctx.log("ddrun %s: %s" % (name, out.strip()))
        lines += ctx.read_ndjson(tf)
    return lines


def project(lines):
    """Join a hook's request line (or its Tmo line) with the Ret line that follows it."""
    out = []
    i = 0
    while i < len(lines):
        ln = dict(lines[i])
        ln.pop("seq", None)
        nxt = lines[i + 1] if i + 1 < len(lines) else {}
        joins = ln["ev"] == "Tmo" or (ln["ev"] == "Req" and ln.get("src") == "hook")
        if joins and nxt.get("ev") == "Ret" and nxt.get("e") == ln.get("e") and nxt.get("scn") == ln.get("scn"):
            ln.update({"ret": True, "failed": nxt["failed"], "named": nxt["named"], "c": nxt["c"], "reason": nxt.get("reason", "")})
            i += 2
        else:
            if ln["ev"] == "Req":
                ln.update({"ret": False, "failed": False, "named": "none", "c": "go"})
            i += 1
        if ln["ev"] == "Gd":
            ln["fs"] = {e: (ln.get("fs") or {}).get(e, "none") for e in ("e1", "e2")}
        out.append(ln)
    return out


def judge(ctx, scenarios, lines, what):
    plines = project(lines)
    tf = ctx.path("trace_%s.ndjson" % what)
    ctx.write_ndjson(tf, plines)
    viol, drift, r = ctx.validate("DdRunTrace", None, tf, cfg_text=cfg_trace(), timeout=1500)
    return plines, viol, drift, r.records("OBS")


def report(ctx, scenarios, lines, viol, drift):
    by_id = {s["id"]: s for s in scenarios}

    def trace_of(sid):
        return [x for x in lines if x.get("scn") == sid]

    for d in drift:
        ctx.drift.append({"scn": d[1], "line": d[2], "origin": (by_id.get(d[1]) or {}).get("origin"), "detail": str(d[3])[:300]})
    told = set()
    for v in viol:
        sid = v[2]
        if (v[1], sid) in told:     # one report per property and scenario
            continue
        told.add((v[1], sid))
        ctx.add_violation({"inv": v[1], "scn": sid, "line": v[3], "origin": (by_id.get(sid) or {}).get("origin"), "detail": str(v[4])[:300]},
                          replay_obj={"scenario": by_id.get(sid), "trace": trace_of(sid)})


def attribute(obs):
    return {"OkImpliesReached": ["Code_PollTimeoutSilent"], "TerminateOnlyAlive": ["Code_TerminateHookUnconditional"]}.get(obs[1], [])


def run(ctx):
    quick = ctx.tier == "quick"
    ctx.assumptions += [
        "the DD scheduler is the fake of harness/cmd/ddrun: PartitionInitialize of an UNKNOWN / TERMINATED partition -> CONFIGURING (else "
        "REQUEST_INVALID, unchanged); PartitionTerminate of a CONFIGURING / CONFIGURED / ERROR partition -> TERMINATING (else its state, "
        "unchanged); PartitionStatus -> its state; it moves on (-> CONFIGURED, -> TERMINATED, -> ERROR) when the scenario says so; faults: "
        "gRPC error without effect, gRPC error after the effect (reply lost or too late)",
        "the environment initialises a partition, terminates it, may initialise it again; EnsureTermination at any time between hooks; a "
        "failed hook lets the environment go on or sends it to ERROR",
        "hook deadlines are real: an invocation scripted to run into its deadline gets __call_timeout = %s and its earlier replies are given "
        "at once (a machine that stalls the driver for seconds would show as drift, never as a violation); 'the deadline falls into the "
        "100 ms sleep after an in-progress answer' is imposed in the wrapped client stub, which hands the (timely) reply to the hook once the "
        "deadline has passed - independent of timing" % DEADLINE,
        "the plugin has no cache and no query loop: GetData asks the scheduler when called; ddsched_enabled is the workflow's business, the "
        "plugin only leaves it out of partition_params",
    ]
    ctx.rule = ("scenario = a behaviour of DdRunGen (tlc -simulate, seeded) or a TLC counterexample of DdRun, run step by step on the real "
                "plugin; non-trivial = contains a fault, a deadline, a step of the scheduler or a GetData; distinct = distinct step sequences")

    # ---------- 1. exhaustive ----------
    wit = " ".join("W_" + inv for (inv, _w) in DEV.values())
    if quick:
        jobs = [("asis-1env", "DdRun", cfg_model(E1, 2, 3, 2, 1, 1, True, HOLD + " " + wit), ["-continue"]),
                ("repaired-1env", "DdRun", cfg_model(E1, 2, 3, 2, 1, 1, False, ALL), []),
                ("asis-2env", "DdRun", cfg_model(E2, 1, 2, 1, 1, 1, True, HOLD), [])]
    else:
        jobs = [("asis-1env", "DdRun", cfg_model(E1, 3, 4, 3, 2, 2, True, HOLD + " " + wit), ["-continue"]),
                ("repaired-1env", "DdRun", cfg_model(E1, 3, 4, 3, 2, 2, False, ALL), []),
                ("asis-2env", "DdRun", cfg_model(E2, 2, 2, 2, 1, 1, True, HOLD), []),
                ("repaired-2env", "DdRun", cfg_model(E2, 2, 2, 2, 1, 1, False, ALL), [])]
        for dev, (inv, _what) in DEV.items():
            jobs.append(("only:" + dev, "DdRun", cfg_model(E1, 3, 4, 3, 2, 2, {dev: False}, inv), []))
    res = tlc_parallel(ctx, jobs, par=3 if quick else 6, workers=4, timeout=1500)
    for label, r in res.items():
        bad = [v for v in r.violated if not (label == "asis-1env" and v.startswith("W_"))]
        if bad or r.deadlock or (label != "asis-1env" and not r.no_error):
            ctx.save_debug(r, "tlc_DdRun_%s.txt" % label.replace(":", "_"))
            raise vlib.Inconclusive("model check %s: %s - the specification does not describe what it claims" %
                                    (label, ",".join(bad) or vlib.tail(r.out, 5)))
    witnesses = split_witnesses(res["asis-1env"].out)
    for dev, (inv, _what) in DEV.items():
        if not witnesses.get("W_" + inv):
            raise vlib.Inconclusive("the model of the code as it is no longer refutes %s (%s): the specification changed?" % (inv, dev))
    ctx.extra["refuted_as_is"] = sorted(inv for (inv, _w) in DEV.values())

    # ---------- 2. scenarios ----------
    scenarios, seen = [], set()

    def add(s):
        k = canon(s)
        if k in seen or not s["steps"]:
            return None
        seen.add(k)
        s["id"] = len(scenarios) + 1
        scenarios.append(s)
        return s["id"]

    cex_of = {}
    for dev, (inv, _what) in DEV.items():
        for beh in sorted(witnesses["W_" + inv], key=len)[:3]:
            sid = add(beh_to_scenario(0, beh, "model-counterexample:%s" % inv))
            if sid:
                cex_of.setdefault(dev, set()).add(sid)
    nsim = 200 if quick else 2500
    gen = cfg_model(E2, 2, 4, 2, 2, 2, True, None, spec="GenSpec")
    for b in ctx.simulate("DdRunGen", None, nsim, 40, cfg_text=gen, seed=ctx.seed * 7919 + 17):
        sc = beh_to_scenario(0, b, "generated")
        if feasible(sc):
            add(sc)
    for s in scenarios:
        ctx.count_case(canon(s), nontrivial=nontrivial(s))

    # ---------- 3. run on the real plugin, 4. validate ----------
    binp = ctx.build("ddrun")
    lines = execute(ctx, binp, scenarios, "all", shards=24)
    ctx.traces = len(scenarios)
    ctx.exhaustive = False
    plines, viol, drift, obs = judge(ctx, scenarios, lines, "all")
    first = scenarios[0]
    ctx.sample({"scenario": first, "trace": [x for x in plines if x.get("scn") == first["id"]][:14]})
    report(ctx, scenarios, plines, viol, drift)

    # ---------- 5. what TLC refutes for the code as it is, reproduced on the real plugin ----------
    shown = {}
    for o in obs:
        for dev in attribute(o):
            shown.setdefault(dev, set()).add(o[2])
    ctx.extra["deviations_reproduced"] = {d: len(v) for d, v in shown.items()}
    drifted = {d["scn"] for d in ctx.drift}
    for dev, (inv, what) in DEV.items():
        hit = shown.get(dev, set()) - drifted
        cex_hit = bool(cex_of.get(dev, set()) & hit)
        ctx.observations.append(
            "%s: %s (model: %s refuted for the code as it is, satisfied by the repaired design; %s on the real plugin: %d recorded "
            "scenario(s) show it%s)" % (dev, what, inv, "reproduced" if hit else "NOT reproduced", len(hit),
                                        ", among them TLC's counterexample" if cex_hit else ""))


def replay(ctx, obj):
    s = obj["scenario"]
    if not s:
        raise vlib.Inconclusive("replay object without a scenario")
    binp = ctx.build("ddrun")
    lines = execute(ctx, binp, [s], "replay")
    plines, viol, drift, _obs = judge(ctx, [s], lines, "replay")
    ctx.traces = 1
    report(ctx, [s], plines, viol, drift)
