"""C19 - published events are delivered once, in order, and flushed on shutdown.

Model: spec/EventWriter.tla (exhaustive, TLC).  Binding: schedules generated from the model
(spec/EventWriterGen.tla, tlc -simulate, plus model counterexamples) are imposed on the real
common/event.KafkaWriter through gated verifhook points (harness/cmd/eventwriter); the recorded
runs are validated by TLC against spec/EventWriterTrace.tla (conformance + property monitor).
"""
import json
import random

import vlib

DEV_KEY = "writer-exits-without-drain"


def cfg_model(drain, producers="{p1, p2}", nevents=2, chancap=1, maxbatch=2, invs=True, extra=""):
    return """SPECIFICATION Spec
CONSTANTS
  Producers = %s
  NEvents = %d
  ChanCap = %d
  MaxBatch = %d
  DrainOnDone = %s
%s
%s
CHECK_DEADLOCK FALSE
""" % (producers, nevents, chancap, maxbatch, "TRUE" if drain else "FALSE",
       "INVARIANTS TypeOK OnceInOrder BatchBound FlushOnClose ProducersNeverWaitForBroker" if invs else "", extra)


def cfg_gen(drain, producers, nevents, chancap, burst="none"):
    return """SPECIFICATION GenSpec
CONSTANTS
  Producers = %s
  NEvents = %d
  ChanCap = %d
  MaxBatch = 100
  DrainOnDone = %s
  Burst = %s
CHECK_DEADLOCK FALSE
""" % (producers, nevents, chancap, "TRUE" if drain else "FALSE", '"%s"' % burst)


def cfg_trace(drain, chancap):
    return """SPECIFICATION TraceSpec
CONSTANTS
  Producers = {"p1", "p2", "p3"}
  NEvents = 100000
  ChanCap = %d
  MaxBatch = 100
  DrainOnDone = %s
INVARIANT PrintEnd
CHECK_DEADLOCK FALSE
""" % (chancap, "TRUE" if drain else "FALSE")


def beh_to_scenario(sid, beh, producers, chancap):
    steps = []
    for (name, args, st) in beh[1:]:
        if name.startswith("G_"):
            name = name[2:]
        s = {"a": name, "exp": {"wpc": st["wpc"], "bpc": st["bpc"], "woken": st["woken"], "cpc": st["cpc"]}}
        if name == "Write":
            s["p"] = args[0].strip('"')
        steps.append(s)
    return {"id": sid, "cfg": {"producers": producers, "chancap": chancap}, "steps": steps}


def run(ctx):
    drain = not ctx.deviation_open(DEV_KEY)
    quick = ctx.tier == "quick"
    ctx.assumptions += [
        "the broker boundary is writeFunction (Kafka itself is outside)",
        "MaxBatch is 2 in the exhaustive model and 100 (the code's constant) in trace validation",
        "a schedule is imposed at the granularity of the verifhook points evw.w.* / evw.b.*; steps the code takes on its own "
        "(woken writer, channel receive) are given priority in the generator",
    ]
    ctx.rule = ("scenario = a behaviour of EventWriterGen (TLC -simulate, seeded) or a model counterexample, replayed on the real "
                "KafkaWriter under gates; non-trivial = contains a Close or a broker hold; distinct = distinct action sequences; "
                "plus free-running stress runs (no gates)")

    # 1. exhaustive model checking
    if quick:
        r = ctx.model_check("EventWriter", None, cfg_text=cfg_model(drain, "{p1, p2}", 2, 1, 2))
    else:
        r = ctx.model_check("EventWriter", None, cfg_text=cfg_model(drain, "{p1, p2}", 3, 2, 2), extra=["-coverage", "1"])
        ctx.zero_cov = r.coverage_zero()
        r2 = ctx.model_check("EventWriter", None, cfg_text=cfg_model(drain, "{p1, p2, p3}", 2, 1, 2))
        if r2.violated and not r.violated:
            r = r2
    scenarios = []
    predicted = None
    if r.violated:
        predicted = r.violated[0]
        scenarios.append(beh_to_scenario(1, r.counterexample(), ["p1", "p2"], 1 if quick else 2))
        scenarios[-1]["origin"] = "model-counterexample:" + predicted
    # liveness beyond the listed property: can Close hang?  (safety formulation, reported as observation)
    rh = ctx.model_check("EventWriter", None, cfg_text=cfg_model(
        drain, "{p1}", 1, 1, 2, invs=False, extra="INVARIANT NoHang"))
    hang_scn = None
    if rh.violated:
        hang_scn = beh_to_scenario(2, rh.counterexample(), ["p1"], 1)
        hang_scn["origin"] = "model-counterexample:NoHang"

    # 2. scenario generation from the model
    n = 150 if quick else 1500
    sid = 10
    chancap = 1
    for (prods, nev, num, depth) in [('{"p1", "p2"}', 3, n, 70), ('{"p1", "p2", "p3"}', 2, n // 3, 70)]:
        behs = ctx.simulate("EventWriterGen", None, num, depth, cfg_text=cfg_gen(drain, prods, nev, chancap),
                            seed=ctx.seed * 7919 + sid)
        for b in behs:
            sid += 1
            scenarios.append(beh_to_scenario(sid, b, json.loads("[" + prods.strip("{}") + "]"), chancap))
    # directed: a burst larger than the batch bound (writer kept away until everything is buffered)
    for burst in ("pop", "close"):
        behs = ctx.simulate("EventWriterGen", None, 1 if quick else 3, 900,
                            cfg_text=cfg_gen(drain, '{"p1"}', 130 if burst == "pop" else 230, chancap, burst=burst), seed=ctx.seed + 5)
        for b in behs:
            sid += 1
            scenarios.append(beh_to_scenario(sid, b, ["p1"], chancap))
            scenarios[-1]["origin"] = "burst-" + burst
    if hang_scn:
        scenarios.append(hang_scn)
    # free-running stress
    rng = random.Random(ctx.seed)
    nfree = 20 if quick else 300
    for i in range(nfree):
        sid += 1
        scenarios.append({"id": sid, "cfg": {"producers": ["p1", "p2", "p3"][:rng.randint(1, 3)], "chancap": rng.choice([1, 4, 10000])},
                          "steps": [], "free": {"nevents": rng.choice([1, 5, 40, 250]), "broker_us": rng.choice([0, 0, 50, 500, 3000]),
                                                "close_at_us": rng.choice([0, 0, 10, 200, 2000]), "seed": rng.randint(1, 1 << 30)}})

    # a flood against a stalled broker: more events than any plausible internal bound, nothing taken by the broker
    for (np_, nev) in ([(3, 30000)] if quick else [(3, 30000), (1, 120000), (2, 60000)]):
        sid += 1
        scenarios.append({"id": sid, "cfg": {"producers": ["p1", "p2", "p3", "p4"][:np_], "chancap": 10000}, "steps": [], "origin": "flood",
                          "free": {"nevents": nev, "broker_us": 0, "close_at_us": 0, "seed": rng.randint(1, 1 << 30), "stall": True}})
        nfree += 1
    # ... and a backlog of LARGE events (a few megabytes in one pop) behind a stalled broker
    for (np_, nev, pad) in ([(2, 8, 150)] if quick else [(2, 8, 150), (1, 30, 90), (3, 12, 300)]):
        sid += 1
        scenarios.append({"id": sid, "cfg": {"producers": ["p1", "p2", "p3"][:np_], "chancap": 10000}, "steps": [], "origin": "flood-large",
                          "free": {"nevents": nev, "broker_us": 0, "close_at_us": 0, "seed": rng.randint(1, 1 << 30), "stall": True, "pad_kb": pad}})
        nfree += 1

    # ... and a backlog whose flush at shutdown takes longer than any plausible patience of Close(): the broker is stalled while
    # 6600 events pile up, then takes 100 ms per batch of 100; Close() is called at once and returns when everything is written
    for (np_, nev, us) in ([(3, 2200, 100000)] if quick else [(3, 2200, 100000), (2, 6000, 100000)]):
        sid += 1
        scenarios.append({"id": sid, "cfg": {"producers": ["p1", "p2", "p3"][:np_], "chancap": 10000}, "steps": [], "origin": "flood-slowflush",
                          "free": {"nevents": nev, "broker_us": us, "close_at_us": 0, "seed": rng.randint(1, 1 << 30), "stall": True}})
        nfree += 1

    # ... and a broker that takes seven seconds over the first batch only: nothing overtakes it, Close() waits for it
    sid += 1
    scenarios.append({"id": sid, "cfg": {"producers": ["p1", "p2"], "chancap": 10000}, "steps": [], "origin": "slow-first-batch",
                      "free": {"nevents": 150, "broker_us": 0, "close_at_us": 0, "seed": rng.randint(1, 1 << 30), "first_ms": 7000}})
    nfree += 1

    # 3. replay on the real code
    binp = ctx.build("eventwriter")
    scn_file = ctx.path("scenarios.ndjson")
    trace_file = ctx.path("trace.ndjson")
    ctx.write_ndjson(scn_file, scenarios)
    out = ctx.run([binp, "-scenarios", scn_file, "-trace", trace_file], timeout=1500)
    ctx.log("replayed: " + out.strip())
    by_id = {s["id"]: s for s in scenarios}
    for s in scenarios:
        seq = json.dumps([(st["a"], st.get("p")) for st in s["steps"]]) if not s.get("free") else json.dumps(s["free"])
        acts = {st["a"] for st in s["steps"]}
        ctx.count_case(seq + json.dumps(s["cfg"]), nontrivial=bool(s.get("free")) or "CloseBegin" in acts or "BrokerAck" in acts)
    ctx.sample({"scenario": {k: scenarios[0][k] for k in ("id", "cfg")}, "steps": [(st["a"], st.get("p")) for st in scenarios[0]["steps"]][:40]})
    lines = ctx.read_ndjson(trace_file)
    ctx.sample({"trace_prefix": lines[:6]})

    # 4. trace validation (conformance + monitor) by TLC
    viol, drift, tr = ctx.validate("EventWriterTrace", None, trace_file, cfg_text=cfg_trace(drain, chancap))
    ctx.traces = len(scenarios)
    ctx.extra["trace_lines"] = len(lines)
    ctx.exhaustive = False

    def trace_of(scn):
        return [x for x in lines if x.get("scn") == scn]

    for d in drift:
        s = by_id.get(d[1], {})
        ctx.drift.append({"scn": d[1], "line": d[2], "event": d[3], "origin": s.get("origin", "generated")})
    seen = set()
    for v in viol:
        inv, scn, line = v[1], v[2], v[3]
        if (inv, scn) in seen:
            continue
        seen.add((inv, scn))
        s = by_id.get(scn, {})
        phase = "end" if (isinstance(v[4], list) and v[4] and v[4][0] == "end") else "step"
        mode = "free" if s.get("free") else "sched"
        ctx.add_violation({"inv": inv, "scn": scn, "line": line, "phase": phase, "mode": mode, "origin": s.get("origin", "generated")},
                          replay_obj={"scenario": s, "trace": trace_of(scn)})
    # model counterexample must reproduce on the implementation
    if predicted:
        hit = [v for v in viol if v[2] == 1 and v[1] == predicted]
        if not hit:
            raise vlib.Inconclusive("MODEL-UNREPRODUCED: model violates %s but the replayed counterexample did not" % predicted)
    if hang_scn:
        end = [x for x in lines if x.get("scn") == 2 and x["ev"] == "FreeRunEnd"]
        if end and not end[0]["closed"]:
            ctx.observations.append("Close() never returns when the writing loop is between its select and PopMultiple while the "
                                    "batching loop finishes (model invariant NoHang violated, reproduced on the real writer; liveness, "
                                    "outside the listed property: nothing accepted is lost)")
        elif end:
            ctx.observations.append("model predicts a Close() hang (NoHang) that did not reproduce on the real writer")
    ctx.extra["scenarios"] = {"generated": len(scenarios), "free": nfree}
    registry(ctx)


def cfg_registry(variant):
    return ("SPECIFICATION Spec\nCONSTANTS\n  Producers = {p1, p2, p3}\n  Topics = {ta, tb}\n  MaxW = 4\n  Code_CheckThenCreate = %s\n"
            "INVARIANTS OnePipelinePerTopic ShutdownClosesAll\nCHECK_DEADLOCK FALSE\n" % ("TRUE" if variant else "FALSE"))


def registry(ctx):
    """The writer registry (core/the/eventwriter.go): one pipeline per topic, every pipeline closed (= flushed) at shutdown."""
    quick = ctx.tier == "quick"
    ctx.model_check("EventRegistry", None, cfg_text=cfg_registry(False), workers=2)
    rv = ctx.tlc("EventRegistry", None, cfg_text=cfg_registry(True), workers=2)
    ctx.extra["registry_variant_check_then_create_detected_by"] = rv.violated[0] if rv.violated else "not detected"
    if not rv.violated:
        raise vlib.Inconclusive("EventRegistry's invariants do not reject the check-then-create variant")
    binp = ctx.build("evregistry")
    tf = ctx.path("registry.ndjson")
    rounds, topics = (12, 60) if quick else (60, 120)
    out = ctx.run([binp, "-trace", tf, "-rounds", str(rounds), "-topics", str(topics), "-producers", "8"], timeout=1500)
    ctx.log("registry: " + out.strip().splitlines()[-1])
    viol, _drift, _tr = ctx.validate("EventRegistryTrace", None, tf, cfg_text="SPECIFICATION TraceSpec\nINVARIANT PrintEnd\nCHECK_DEADLOCK FALSE\n")
    ctx.traces += rounds
    ctx.extra["registry"] = {"rounds": rounds, "fresh_topics_per_round": topics, "producers_released_together": 8}
    for i in range(rounds):
        ctx.count_case("registry-round-%d-%d" % (ctx.seed, i), nontrivial=True)
    seen = set()
    for v in viol:
        if (v[1], v[2]) in seen:
            continue
        seen.add((v[1], v[2]))
        ctx.add_violation({"inv": v[1], "scn": v[2], "line": v[3], "phase": "registry", "mode": "free", "origin": "registry", "detail": str(v[4])[:200]},
                          replay_obj={"kind": "registry", "rounds": rounds, "topics": topics})


def replay(ctx, obj):
    if obj.get("kind") == "registry":
        return registry(ctx)
    drain = not ctx.deviation_open(DEV_KEY)
    s = obj["scenario"]
    binp = ctx.build("eventwriter")
    scn_file, trace_file = ctx.path("scenarios.ndjson"), ctx.path("trace.ndjson")
    ctx.write_ndjson(scn_file, [s])
    ctx.run([binp, "-scenarios", scn_file, "-trace", trace_file], timeout=600)
    viol, _drift, _tr = ctx.validate("EventWriterTrace", None, trace_file, cfg_text=cfg_trace(drain, s.get("cfg", {}).get("chancap", 1)))
    lines = ctx.read_ndjson(trace_file)
    for v in viol:
        ctx.add_violation({"inv": v[1], "scn": v[2], "line": v[3], "phase": "replay", "mode": "free" if s.get("free") else "sched",
                           "origin": s.get("origin", "generated")}, replay_obj={"scenario": s, "trace": lines})
