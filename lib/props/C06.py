"""C06 - destroying or failing to create an environment leaves nothing behind.

Model: spec/Lifecycle.tla (shared with C04): teardown phases, DESTROY / after_DESTROY hooks (calls and hook tasks at
several weights), destroy flags, creation failing at each stage, kill outcomes.  Scenarios are walked by TLC on
spec/LifecycleGen.tla (destroy from every reachable state x flags x hook sets, create failing at every stage, kills
that are never acknowledged, create||destroy pairs), run on the real core (whole-core simulation) and validated by TLC
against spec/LifecycleTrace.tla (Post on every return, DestroyHooksLast, Returns).
"""
import json

import coresim as cs
import lifecycle_common as lc
import vlib

OPS = {"START_ACTIVITY", "STOP_ACTIVITY", "RESET", "CONFIGURE"}
HOOKSETS = [set(), {"h1"}, {"d1"}, {"h1", "h2"}, {"h1", "d2"}, {"d1", "h2"}, {"h1", "h3"}, {"d1", "d3"}, {"h1", "h2", "d1"}]
FLAGS = [set(), {"force"}, {"keep"}, {"allow"}, {"force", "keep"}, {"allow", "keep"}]
SCRIPTS = {"ok", "load", "undeployable", "partial", "launchfail", "silentlaunch", "configfail", "hookfail"}
ONE = dict(Envs={"e1"}, Dets={"TPC"}, DetChoices=[{"TPC"}], MaxInFlight=1)
# deviation of C06 -> LifecycleGen configuration whose exhaustive search violates PostOnReturn
CEX = {
    "Code_OnlyLastWeightHooksReleased": dict(ONE, HookChoices=[{"h1", "h2"}], MaxCalls=2, Ops=set(), DestroyFlags=[set()]),
    "Code_InactiveHookNotReleased": dict(ONE, HookChoices=[{"h1"}], FaultRoles={"h1"}, MaxCalls=2, Ops=set(), DestroyFlags=[set()]),
    "Code_RetryForgetsLaunched": dict(ONE, BasicChoices=[{"a", "b"}], Scripts={"partial"}, MaxCalls=1, Ops=set(), DestroyFlags=[set()],
                                      TaskIds={"k%d" % i for i in range(1, 7)}),
    "Code_InactiveDroppedUnkilled": dict(ONE, BasicChoices=[{"a", "b"}], Scripts={"silentlaunch"}, MaxCalls=1, Ops=set(),
                                         DestroyFlags=[set()]),
}


def model_cfgs(ctx):
    if ctx.tier == "quick":
        return [("one-env", dict(ONE, TaskIds={"k1", "k2", "k3", "k4", "k5"}, BasicChoices=[{"a"}, {"a", "b"}],
                                 HookChoices=[set(), {"h1"}, {"h1", "h2"}, {"h1", "h3"}], PendChoices=[False, True],
                                 Scripts=SCRIPTS, Ops={"START_ACTIVITY", "STOP_ACTIVITY"}, DestroyFlags=FLAGS, KillOutcomes={"ack", "silent", "refuse"},
                                 FaultRoles={"h1"}, MaxCalls=3)),
                # executor / agent reported lost (ids blanked, role still set), then destroy / cleanup
                ("lost", dict(ONE, BasicChoices=[{"a"}, {"a", "b"}], HookChoices=[set(), {"h1"}, {"h2"}], Ops={"START_ACTIVITY"},
                              DestroyFlags=FLAGS, FaultRoles={"a", "b", "h1", "h2"}, FaultKinds={"EXECUTOR_LOST", "AGENT_LOST"}, MaxCalls=3)),
                ("create||destroy", dict(Envs={"e1"}, DetChoices=[{"TPC"}], HookChoices=[set(), {"h1"}], Scripts={"ok", "configfail"},
                                         Ops=set(), DestroyFlags=[set(), {"force"}, {"keep"}], MaxCalls=3, MaxInFlight=2))]
    return [("one-env", dict(ONE, TaskIds={"k1", "k2", "k3", "k4", "k5"}, BasicChoices=[{"a"}, {"a", "b"}], HookChoices=HOOKSETS,
                             PendChoices=[False, True], Scripts=SCRIPTS, Ops=OPS - {"CONFIGURE"} | {"RESET"}, DestroyFlags=FLAGS,
                             KillOutcomes={"ack", "silent", "refuse"}, FaultRoles={"h1"}, MaxCalls=4)),
            ("lost", dict(ONE, BasicChoices=[{"a"}, {"a", "b"}], HookChoices=[set(), {"h1"}, {"h2"}, {"h1", "h2"}],
                          Ops={"START_ACTIVITY", "RESET"}, DestroyFlags=FLAGS, FaultRoles={"a", "b", "h1", "h2"},
                          FaultKinds={"EXECUTOR_LOST", "AGENT_LOST"}, MaxCalls=4)),
            ("create||destroy", dict(Envs={"e1"}, DetChoices=[{"TPC"}], HookChoices=[set(), {"h1"}, {"h1", "h2"}],
                                     Scripts={"ok", "configfail", "launchfail"}, Ops={"START_ACTIVITY"},
                                     DestroyFlags=[set(), {"force"}, {"keep"}], MaxCalls=3, MaxInFlight=2))]


def recipe_rendezvous(sid):
    """The teardown / event loop rendezvous is not part of the model (TdReleased1/2 abstract it).  The loss of the second
    rendezvous shows up on its own in loaded runs; this schedule forces it: the event loop is parked between handing the
    first TasksReleasedEvent to the teardown and removing the pending channel from its map."""
    pre = "d%d" % sid
    c = pre + "a"
    files = {"tasks/%s.yaml" % c: cs.task_class(c), "workflows/%sw.yaml" % pre: cs.workflow(pre + "w", cs.role_task("a", c, host="h1"))}
    p = "envman.released.delivered"
    steps = [{"do": "mutepoint", "point": p}, {"do": "create", "env": "e1", "wf": pre + "w", "vars": {"detectors": "[\"TPC\"]"}, "timeout_ms": 12000},
             {"do": "gate", "point": p}, {"do": "destroy", "env": "e1", "caller": "A", "timeout_ms": 5000},
             {"do": "waitgate", "point": p, "timeout_ms": 4000}, {"do": "settle", "ms": 200}, {"do": "ungate", "point": p},
             {"do": "await", "caller": "A", "timeout_ms": 8000}]
    mk = {"basic": ["a"], "hooks": [], "pend": False, "dets": ["TPC"], "script": "ok"}
    return {"id": sid, "family": "recipe:release-rendezvous", "agents": cs.DEFAULT_AGENTS, "files": files, "core": {}, "scripts": [],
            "hooks": {}, "steps": steps, "isolated": True, "classes": {c: "a"}, "hist": [{"do": "recipe", "name": "release-rendezvous"}],
            "model": {"reuse": False, "strict": False, "family": "recipe", "kill": "ack", "envs": {"e1": mk}}}


def run(ctx):
    quick = ctx.tier == "quick"
    ctx.assumptions += [
        "Mesos master, agents and executors are simulated (protocol subset the core uses); a kill is either acknowledged "
        "(TASK_KILLED) or never answered; hook tasks exit when triggered",
        "deploy_timeout (3 s in the scenarios that need it) outlasts the three deployment attempts of acquireTasks",
        "a call that has not returned within 12 s (5 s when kills are never acknowledged) is reported as not returning",
        "the rendezvous between TeardownEnvironment and the environment manager's event loop is abstracted in the model "
        "(TdReleased1/TdReleased2); its loss is observed by the monitor (Returns)",
    ]
    ctx.rule = ("scenario = API history on 1-2 environments walked by TLC on LifecycleGen: create (hook set x pending call x "
                "failure stage), controls, destroy (flags), faults on hook tasks, cleanup; non-trivial = a destroy or a failing create")
    # 1. the intended design, exhaustively
    for name, c in model_cfgs(ctx):
        r = ctx.model_check("Lifecycle", None, cfg_text=lc.cfg_model(ctx, c, lc.code_consts(ctx, as_is=False)), workers=vlib.NCPU,
                            timeout=1500)
        ctx.model_runs[-1]["cfg"] = name
        if not r.no_error:
            ctx.save_debug(r, "model_%s.txt" % name)
            raise vlib.Inconclusive("the design model violates %s in configuration %s" % (r.violated, name))
    scenarios = []
    sid = [0]

    def add(hist, family, kill="ack"):
        sid[0] += 1
        s = lc.Builder(sid[0], family, hist, kill=kill, prefix="d").build()
        scenarios.append(s)
        return s

    # 2. open deviations: TLC's counterexample on the schedules the harness can impose, replayed on the real core
    expected = {}
    for dev, c in CEX.items():
        if not lc.dev_open(ctx, dev):
            continue
        h = lc.counterexample(ctx, c, dev, "PostOnReturn", pairs=False)
        if h is None:
            raise vlib.Inconclusive("the model with %s does not violate PostOnReturn" % dev)
        expected[add(h, "cex:" + dev)["id"]] = dev
    if ctx.finding_status("release-rendezvous-lost") == "open":
        sid[0] += 1
        scenarios.append(recipe_rendezvous(sid[0]))
        expected[sid[0]] = "release-rendezvous-lost"
    # a KILL call rejected by the master in the middle of a destroy's batch: the destroy must not report success
    sid[0] += 1
    scenarios.append(lc.recipe_kill_refused(sid[0]))
    if not lc.dev_open(ctx, "Code_AllClaimedCrashes"):
        # task reuse: a deployment that picked a kept task for reuse and then fails (its other role cannot be placed) leaves
        # nothing of its own behind - the task is not its own at any time before the deployment succeeded
        sid[0] += 1
        scenarios.append(lc.recipe_failed_claimer(sid[0], prefix="d"))
    if lc.dev_open(ctx, "Code_ClaimNotAtomic"):
        # a destroy that cannot be honoured (HonestError): after the double claim (finding of C04, task reuse) the release of
        # the task the other environment took over is refused, the forced teardown fails and the destroy must say so
        sid[0] += 1
        scenarios.append(lc.recipe_double_claim(sid[0], prefix="d", then_destroy=True))
    # 3. scenarios walked by TLC
    ndes, nfail, npar, nsil, nlost = (50, 30, 20, 3, 20) if quick else (450, 250, 250, 10, 200)
    big = {"k%d" % i for i in range(1, 21)}
    des = dict(Envs={"e1", "e2"}, TaskIds=big, BasicChoices=[{"a"}, {"a", "b"}], HookChoices=HOOKSETS, PendChoices=[False, True],
               DetChoices=[{"TPC"}, {"ITS"}], Ops=OPS, DestroyFlags=FLAGS, FaultRoles={"h1"}, MaxCalls=5, MaxInFlight=1)
    # executor / agent reported lost (FAILURE event: ids blanked, role still set) for a basic task or a hook task of a live
    # environment, then destroy (any flags) from the state the environment is in then (ERROR once its watcher has fired)
    lost = dict(des, HookChoices=[set(), {"h1"}, {"h2"}, {"h1", "h2"}], PendChoices=[False], FaultRoles={"a", "b", "h1", "h2"},
                FaultKinds={"EXECUTOR_LOST", "AGENT_LOST"}, Ops={"START_ACTIVITY", "RESET"}, MaxCalls=4)
    for h in lc.generate(ctx, des, ndes, pairs=False):
        add(h, "destroy")
    for h in lc.generate(ctx, lost, nlost * 2, pairs=False):
        if any(it["do"] == "fault" for it in h) and nlost > 0:
            add(h, "lost")
            nlost -= 1
    for h in lc.generate(ctx, dict(des, Scripts=SCRIPTS, MaxCalls=3, Ops={"START_ACTIVITY"}), nfail, pairs=False):
        add(h, "createfail")
    par = dict(des, HookChoices=[set(), {"h1"}, {"h1", "h2"}, {"d1", "h2"}], PendChoices=[False], Ops={"START_ACTIVITY", "STOP_ACTIVITY"},
               FaultRoles=set(), MaxCalls=4, MaxInFlight=2)
    for h in lc.generate(ctx, par, npar, pairs=True, max_pairs=1):
        add(h, "par")
    sil = dict(ONE, TaskIds=big, BasicChoices=[{"a"}, {"a", "b"}], HookChoices=[set(), {"h1"}], Ops={"START_ACTIVITY"}, DestroyFlags=FLAGS,
               KillOutcomes={"silent"}, MaxCalls=3)
    for h in lc.generate(ctx, sil, nsil * 3, pairs=False)[:nsil]:
        add(h, "killsilent", kill="silent")
    for s in scenarios:
        h = s["hist"]
        ctx.count_case(json.dumps(h, sort_keys=True),
                       nontrivial=any(it["do"] in ("destroy", "recipe") or (it["do"] == "create" and it["script"] != "ok") or
                                      (it["do"] == "par") for it in h))
    ctx.log("scenarios: %d" % len(scenarios))
    ctx.sample({"hist": scenarios[0]["hist"]})
    ctx.sample({"hist": scenarios[-1]["hist"], "steps": scenarios[-1]["steps"][:10]})
    # 4. run on the real core, validate
    lc.run_and_validate(ctx, scenarios, lc.C06_INVS, "c06")
    hit = {v.get("scn") for v in ctx.violations} | set(ctx.extra.get("known_scn", []))
    for i, dev in expected.items():
        if i not in hit and not ctx.violations:
            raise vlib.Inconclusive("MODEL-UNREPRODUCED %s: its scenario ran clean on the real core" % dev)
