"""X09 - beyond the listed properties: what the Kafka integration plugin publishes about environments and runs
(core/integration/kafka/plugin.go CallStack: PublishStartActivityUpdate = one NewStateNotification on aliecs.before_start_activity;
PublishLeaveStateUpdate = one on aliecs.env_leave_state.<state>; PublishEnterStateUpdate = envsInRunning updated, one on
aliecs.env_state.<state>, then the ActiveRunsList on aliecs.env_list.RUNNING; the state comes from the trigger, everything else from the
VarStack) and the plugin's memory envsInRunning.

Model: spec/KafkaRun.tla: environments walking through the documented transition points (docs/handbook/operation_order.md; start, stop,
error, exit), the documented hook called once at each point or skipped, each broker write failing or not, a variable possibly missing;
exhaustive with TLC.  Properties: the state published is the environment's own with its id; its current run number; every list published
is what the plugin has seen entering RUNNING and not leaving; gone environments are in no list; nothing of another environment changes;
state message before list; a failed write is the call's error and the memory is what was published; a missing variable is no crash.
The repaired design satisfies all; for the code as it is TLC refutes six, each replayed on the real plugin and reported as an
OBSERVATION when the recorded run shows it.

Binding: behaviours of the model (tlc -simulate on spec/KafkaRunGen.tla, seeded, plus TLC's counterexamples) run on the REAL plugin
(harness/cmd/kafkarun: kafka.NewPlugin, whose raw *kafka.Writer field is replaced, by reflection, by a kafka.Writer with the settings of
Init and a fake kafka.RoundTripper as Transport that answers the metadata and produce requests, records and decodes what is produced and
fails the scripted writes; the hooks are the plugin's own CallStack functions with real *callable.Call values); messages per call, the
call's outcome and envsInRunning after every step are recorded and validated by TLC against spec/KafkaRunTrace.tla in one pass: strict
conformance (DRIFT) and the properties as soft invariants on the recorded facts (VIOL).

Not a listed property: not registered in MANIFEST.json; evidence goes to evidence/extra/X09.json."""
import json
import os
import shutil
import subprocess
import time

import vlib

LEVEL = "model_checking"

CODE = ["Code_WriteErrorSwallowed", "Code_LeaveNotTracked", "Code_ListOnlyFromHooks", "Code_RunOnlyInRunning", "Code_NilDeref"]
HOLD = "TypeOK StateIsEnvState OthersUntouched StateBeforeList ListRunNumbers"
ALL = HOLD + " RunNumberIsCurrent ListIsSeenRunning GoneDisappears FailureReported MemoryIsPublished NoPanic"

# deviation -> (refuted properties, what)
DEV = {
    "Code_WriteErrorSwallowed": (["FailureReported", "MemoryIsPublished"],
        "produceMessage only logs a failed WriteMessages: the hook returns as if nothing happened (no __call_error), envsInRunning is "
        "updated before anything is written, so after a failed write the memory (and the next list) says what the broker never got - "
        "e.g. the state message of enter_RUNNING is lost and the list that follows contains the environment"),
    "Code_LeaveNotTracked": (["ListIsSeenRunning"],
        "PublishLeaveStateUpdate(leave_RUNNING) does not touch envsInRunning: until the environment's next PublishEnterStateUpdate the lists "
        "published for other environments still contain the environment the plugin was told is leaving RUNNING"),
    "Code_ListOnlyFromHooks": (["GoneDisappears"],
        "an environment leaves envsInRunning only through its own PublishEnterStateUpdate with another state: if that hook is skipped or "
        "crashes (enter_ERROR, enter_DONE; teardown without transition) it stays in every later list"),
    "Code_RunOnlyInRunning": (["RunNumberIsCurrent"],
        "the run number is published only with state RUNNING or a START_ACTIVITY trigger: the messages of leave_CONFIGURED (run number set "
        "since before_START_ACTIVITY), enter_CONFIGURED after a stop and enter_ERROR from RUNNING (run number cleared only afterwards) carry none"),
    "Code_NilDeref": (["NoPanic"],
        "a missing variable (detectors, enter_state_time_ms, ...) makes newEnvStateObject return nil, and all three functions dereference it "
        "(envInfo.State / envInfo.EnvironmentId): the hook panics with a nil pointer dereference instead of failing"),
}

E1 = '{"e1"}'
E2 = '{"e1", "e2"}'


def cfg_model(envs, maxrun, code, invs, spec="Spec"):
    c = {k: (code if isinstance(code, bool) else code.get(k, True)) for k in CODE}
    return ("SPECIFICATION %s\nCONSTANTS\n  Envs = %s\n  MaxRun = %d\n%s%sCHECK_DEADLOCK FALSE\n"
            % (spec, envs, maxrun, "".join("  %s = %s\n" % (k, "TRUE" if v else "FALSE") for k, v in c.items()),
               ("INVARIANTS %s\n" % invs) if invs else ""))


def split_witnesses(out):
    """Output of `tlc -continue`: {invariant: [behaviour, ...]}, one behaviour per reported violation."""
    import re
    import tlaval
    parts = re.split(r"(?m)^Error: Invariant ([A-Za-z0-9_]+) is violated\.", out)
    res = {}
    for k in range(1, len(parts), 2):
        beh = tlaval.parse_counterexample(parts[k + 1])
        if beh:
            res.setdefault(parts[k], []).append(beh)
    return res


def tlc_parallel(ctx, jobs, par=6, workers=2, timeout=900):
    """Run several exhaustive TLC jobs side by side (each in its own scratch directory). jobs: list of (label, module, cfg_text, flags).
    Returns {label: TlcResult}; accounts states / model_runs like ctx.model_check."""
    res = {}
    pend = list(jobs)
    running = []
    e = dict(os.environ)
    e["JAVA_TOOL_OPTIONS"] = (e.get("JAVA_TOOL_OPTIONS", "") + " -Xss64m -Xmx4g").strip()
    try:
        return _tlc_parallel(ctx, pend, running, res, e, par, workers, timeout)
    finally:
        for it in running:      # an error above: do not leave the other jobs behind (timeout forwards the signal to TLC)
            it[2].terminate()
        for it in running:
            try:
                it[2].wait(timeout=30)
            except subprocess.TimeoutExpired:
                it[2].kill()
            it[3].close()


def _tlc_parallel(ctx, pend, running, res, e, par, workers, timeout):
    while pend or running:
        while pend and len(running) < par:
            label, module, cfg, flags = pend.pop(0)
            ctx.ntlc += 1
            d = os.path.join(ctx.work, "tlc%d" % ctx.ntlc)
            os.makedirs(d)
            for f in ("KafkaRun.tla", "KafkaRunGen.tla"):
                shutil.copy(os.path.join(vlib.SPEC, f), d)
            with open(os.path.join(d, "run.cfg"), "w") as fh:
                fh.write(cfg)
            out = open(os.path.join(d, "out.txt"), "w")
            p = subprocess.Popen(["timeout", str(timeout), "tlc", "-workers", str(workers), "-metadir", os.path.join(d, "md"),
                                  "-config", "run.cfg"] + flags + [module + ".tla"], cwd=d, env=e, stdout=out, stderr=subprocess.STDOUT)
            running.append((label, module, p, out, d, time.time()))
        time.sleep(0.2)
        for it in list(running):
            label, module, p, out, d, t0 = it
            if p.poll() is None:
                continue
            running.remove(it)
            out.close()
            with open(os.path.join(d, "out.txt")) as fh:
                text = fh.read()
            r = vlib.TlcResult(text, p.returncode, time.time() - t0)
            r.dir = d
            if p.returncode == 124:
                raise vlib.Inconclusive("TLC timeout after %ss on %s (%s)" % (timeout, module, label))
            if "java.lang.OutOfMemoryError" in text or "StackOverflowError" in text:
                raise vlib.Inconclusive("TLC resource failure on %s (%s)" % (module, label))
            if r.crashed or (r.generated == 0 and not r.violated):
                ctx.save_debug(r, "tlc_%s_%s.txt" % (module, label))
                raise vlib.Inconclusive("TLC failed on %s (%s, rc=%d): %s" % (module, label, r.rc, vlib.tail(r.out)))
            ctx.states += r.distinct
            ctx.transitions += r.generated
            result = ("violated:" + ",".join(sorted(set(r.violated))) if r.violated else
                      ("ok" if r.no_error else ("deadlock" if r.deadlock else "?")))
            ctx.model_runs.append({"module": module, "cfg": label, "distinct": r.distinct, "generated": r.generated, "result": result,
                                   "wall_s": round(r.wall, 1)})
            ctx.log("model %s/%s: %d distinct, %d generated, %s (%.1fs)" % (module, label, r.distinct, r.generated, result, r.wall))
            res[label] = r
    return res



# ---------- behaviours -> scenarios ----------
def q(s):
    return str(s).strip().strip('"')


def fn_of(p):
    if p == "before_START_ACTIVITY":
        return "PublishStartActivityUpdate"
    return "PublishLeaveStateUpdate" if p.startswith("leave_") else "PublishEnterStateUpdate"


def look(st, var, e):
    m = st.get(var) or {}
    v = m.get(e, m.get('"%s"' % e))
    if v is None:
        raise vlib.Inconclusive("behaviour state without %s[%s]: %r" % (var, e, st))
    return q(v)


def beh_to_scenario(sid, beh, origin):
    steps = []
    pt = {}
    for (name, args, st) in beh[1:]:
        name = name[2:] if name.startswith("G_") else name
        a = [q(x) for x in args]
        e = a[0]
        if name in ("Begin", "Adv", "Move"):
            p = look(st, "pt", e)
            pt[e] = p
            steps.append({"k": "ecs", "e": e, "s": look(st, "st", e), "r": int(look(st, "run", e)), "pt": p, "t": look(st, "tr", e)})
        elif name == "Hook":
            p = pt.get(e, "none")
            steps.append({"k": "hook", "e": e, "fn": fn_of(p), "trig": p, "f": a[1], "miss": a[2] == "TRUE"})
        else:
            raise vlib.Inconclusive("behaviour with an action the harness cannot impose: %s" % name)
    return {"id": sid, "envs": ["e1", "e2"], "steps": steps, "origin": origin}


def nontrivial(s):
    return any(st.get("f", "ok") != "ok" or st.get("miss") or st.get("pt") in ("enter_ERROR", "enter_DONE") for st in s["steps"]) or \
        len({st["e"] for st in s["steps"] if st["k"] == "hook"}) > 1


def canon(s):
    return json.dumps(s["steps"], sort_keys=True)


def cfg_trace(maxrun):
    return cfg_model(E2, maxrun, True, None, spec="TraceSpec") + "INVARIANT PrintEnd\n"


def execute(ctx, binp, scenarios, name, shards=1):
    parts = [scenarios[i::shards] for i in range(shards)]
    procs = []
    for i, part in enumerate(parts):
        if not part:
            continue
        sf, tf = ctx.path("scn_%s_%d.ndjson" % (name, i)), ctx.path("run_%s_%d.ndjson" % (name, i))
        ctx.write_ndjson(sf, [{k: v for k, v in s.items() if k != "origin"} for s in part])
        procs.append((subprocess.Popen([binp, "-scenarios", sf, "-trace", tf], cwd=ctx.work, stdout=subprocess.PIPE,
                                       stderr=subprocess.STDOUT, text=True), tf))
    lines = []
    for p, tf in procs:
        try:
            out, _ = p.communicate(timeout=600)
        except subprocess.TimeoutExpired:
            p.kill()
            raise vlib.Inconclusive("kafkarun timeout")
        if p.returncode != 0:
            raise vlib.Inconclusive("kafkarun failed rc=%d: %s" % (p.returncode, vlib.tail(out, 20)))
        lines += [x for x in ctx.read_ndjson(tf) if x.get("ev") != "Fin"]
    return lines


def project(lines):
    out = []
    for ln in lines:
        ln = dict(ln)
        ln.pop("seq", None)
        out.append(ln)
    return out


def judge(ctx, scenarios, lines, what):
    plines = project(lines)
    tf = ctx.path("trace_%s.ndjson" % what)
    ctx.write_ndjson(tf, plines)
    maxrun = max([st.get("r", 0) for s in scenarios for st in s["steps"]] + [1]) + 1
    viol, drift, r = ctx.validate("KafkaRunTrace", None, tf, cfg_text=cfg_trace(maxrun), timeout=1500)
    return plines, viol, drift, r.records("OBS")


def report(ctx, scenarios, lines, viol, drift):
    by_id = {s["id"]: s for s in scenarios}
    for d in drift:
        ctx.drift.append({"scn": d[1], "line": d[2], "origin": (by_id.get(d[1]) or {}).get("origin"), "detail": str(d[3])[:300]})
    told = set()
    for v in viol:
        sid = v[2]
        if (v[1], sid) in told:
            continue
        told.add((v[1], sid))
        ctx.add_violation({"inv": v[1], "scn": sid, "line": v[3], "origin": (by_id.get(sid) or {}).get("origin"), "detail": str(v[4])[:300]},
                          replay_obj={"scenario": by_id.get(sid), "trace": [x for x in lines if x.get("scn") == sid]})


def attribute(obs):
    return [d for d, (invs, _w) in DEV.items() if obs[1] in invs]


def run(ctx):
    quick = ctx.tier == "quick"
    ctx.assumptions += [
        "the broker is the fake kafka.RoundTripper of harness/cmd/kafkarun behind a real kafka.Writer (one broker, one partition per topic, "
        "topics created on demand); a failing write fails at the metadata request the writer sends first, i.e. at once and without retry; "
        "Init (which publishes an empty list through a writer to the configured endpoint) is not called",
        "the environment follows docs/handbook/operation_order.md: start = before_START_ACTIVITY (run number set), leave_CONFIGURED, "
        "enter_RUNNING; stop = leave_RUNNING, enter_CONFIGURED, run number cleared afterwards; error and exit = leave_<state>, enter_ERROR / "
        "enter_DONE; at each point the documented hook is called at most once (or skipped); enter_state_time_ms is fresh at each point",
        "the VarStack is built by the driver (environment_id, __call_trigger, run_number while a run number is set, run_type, detectors, "
        "enter_state_time_ms); a missing variable is modelled by leaving out detectors",
        "timestamps of the messages are only checked to be recent wall-clock times; the per-topic logs are judged by what each call appends",
    ]
    ctx.rule = ("scenario = a behaviour of KafkaRunGen (tlc -simulate, seeded) or a TLC counterexample of KafkaRun, run step by step on the "
                "real plugin; non-trivial = contains a failing write, a missing variable, an error / exit or hooks of two environments; "
                "distinct = distinct step sequences")
    refuted = [inv for (invs, _w) in DEV.values() for inv in invs]
    wit = " ".join("W_" + inv for inv in refuted)
    jobs = [("asis", "KafkaRun", cfg_model(E2, 2, True, HOLD + " " + wit), ["-continue"]),
            ("repaired", "KafkaRun", cfg_model(E2, 2, False, ALL), [])]
    if not quick:
        for dev, (invs, _what) in DEV.items():
            jobs.append(("only:" + dev, "KafkaRun", cfg_model(E2, 2, {dev: False}, HOLD + " " + " ".join(invs)), []))
    res = tlc_parallel(ctx, jobs, par=2 if quick else 4, workers=6 if quick else 4, timeout=1500)
    for label, r in res.items():
        bad = [v for v in r.violated if not (label == "asis" and v.startswith("W_"))]
        if bad or r.deadlock or (label != "asis" and not r.no_error):
            ctx.save_debug(r, "tlc_KafkaRun_%s.txt" % label.replace(":", "_"))
            raise vlib.Inconclusive("model check %s: %s - the specification does not describe what it claims" %
                                    (label, ",".join(bad) or vlib.tail(r.out, 5)))
    witnesses = split_witnesses(res["asis"].out)
    for inv in refuted:
        if not witnesses.get("W_" + inv):
            raise vlib.Inconclusive("the model of the code as it is no longer refutes %s: the specification changed?" % inv)
    ctx.extra["refuted_as_is"] = sorted(refuted)

    scenarios, seen = [], set()

    def add(s):
        k = canon(s)
        if k in seen or not s["steps"]:
            return None
        seen.add(k)
        s["id"] = len(scenarios) + 1
        scenarios.append(s)
        return s["id"]

    cex_of = {}
    for dev, (invs, _what) in DEV.items():
        for inv in invs:
            for beh in sorted(witnesses["W_" + inv], key=len)[:2]:
                sid = add(beh_to_scenario(0, beh, "model-counterexample:%s" % inv))
                if sid:
                    cex_of.setdefault(dev, set()).add(sid)
    nsim = 400 if quick else 5000
    gen = cfg_model(E2, 3, True, None, spec="GenSpec")
    for b in ctx.simulate("KafkaRunGen", None, nsim, 40, cfg_text=gen, seed=ctx.seed * 7919 + 29):
        add(beh_to_scenario(0, b, "generated"))
    for s in scenarios:
        ctx.count_case(canon(s), nontrivial=nontrivial(s))

    binp = ctx.build("kafkarun")
    lines = execute(ctx, binp, scenarios, "all", shards=2 if quick else 4)
    ctx.traces = len(scenarios)
    ctx.exhaustive = False
    plines, viol, drift, obs = judge(ctx, scenarios, lines, "all")
    first = scenarios[0]
    ctx.sample({"scenario": first, "trace": [x for x in plines if x.get("scn") == first["id"]][:14]})
    report(ctx, scenarios, plines, viol, drift)

    shown = {}
    for o in obs:
        for dev in attribute(o):
            shown.setdefault(dev, set()).add(o[2])
    ctx.extra["deviations_reproduced"] = {d: len(v) for d, v in shown.items()}
    drifted = {d["scn"] for d in ctx.drift}
    for dev, (invs, what) in DEV.items():
        hit = shown.get(dev, set()) - drifted
        cex_hit = bool(cex_of.get(dev, set()) & hit)
        ctx.observations.append(
            "%s: %s (model: %s refuted for the code as it is, satisfied by the repaired design; %s on the real plugin: %d recorded "
            "scenario(s) show it%s)" % (dev, what, ", ".join(invs), "reproduced" if hit else "NOT reproduced", len(hit),
                                        ", among them TLC's counterexample" if cex_hit else ""))


def replay(ctx, obj):
    s = obj["scenario"]
    if not s:
        raise vlib.Inconclusive("replay object without a scenario")
    binp = ctx.build("kafkarun")
    lines = execute(ctx, binp, [s], "replay")
    plines, viol, drift, _obs = judge(ctx, [s], lines, "replay")
    ctx.traces = 1
    report(ctx, [s], plines, viol, drift)
