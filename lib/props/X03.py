"""X03 - beyond the listed properties: the auto-stop timer of an environment (core/environment/environment.go
scheduleAutoStopTransition / invalidateAutoStopTransition) racing with API requests through the transition lock.

Model: spec/AutoStop.tla (exhaustive, TLC).  With the code as it is (Code_FiredTimerNotRevoked = TRUE) TLC refutes
NoCollateralError (a timer that fires while a manual STOP holds the lock is not revoked: its goroutine then finds the environment
CONFIGURED, its STOP is refused and it drives the healthy environment to ERROR) and StopsOwnRunOnly (the same goroutine may stop the
NEXT run); the repaired design satisfies both.  Binding: behaviours of the model (tlc -simulate) that the harness can impose
(requests that return; a STOP held inside its transition across the timer's deadline by a gated hook; waiting for the timer) run on
the real core (coresim); the states the core reports at quiescence are validated by TLC against spec/AutoStopTrace.tla.

Not a listed property: not registered in MANIFEST.json; evidence goes to evidence/extra/X03.json."""
import json

import coresim as cs
import vlib

LEVEL = "model_checking"
TIMEOUT_MS = 500
OPS = {"START": "START_ACTIVITY", "STOP": "STOP_ACTIVITY"}


def cfg(asis, invs, maxruns=3):
    return ("SPECIFICATION Spec\nCONSTANTS\n  MaxRuns = %d\n  Code_FiredTimerNotRevoked = %s\nINVARIANTS %s\nCHECK_DEADLOCK FALSE\n"
            % (maxruns, "TRUE" if asis else "FALSE", invs))


def macros(beh):
    """Group the primitive actions of a behaviour into what the harness can impose; returns (macro list, primitive lines) or None."""
    acts = [(n, [a.strip('"') for a in args]) for (n, args, _s) in beh[1:]]
    out, i = [], 0
    while i < len(acts):
        n, a = acts[i]
        nxt = acts[i + 1][0] if i + 1 < len(acts) else None
        if n == "ApiBegin" and a[0] in ("START", "STOP", "DESTROY") and nxt == "ApiEnd":
            out.append((a[0].lower(), [("ApiBegin", a[0]), ("ApiEnd", "")]))
            i += 2
        elif (n == "ApiBegin" and a[0] == "STOP" and nxt == "TimerFires" and i + 3 < len(acts) and acts[i + 2][0] == "ApiEnd"
              and acts[i + 3][0] == "AutoStopRuns"):
            out.append(("holdstop", [("ApiBegin", "STOP"), ("TimerFires", ""), ("ApiEnd", ""), ("AutoStopRuns", "")]))
            i += 4
        elif n == "TimerFires" and nxt == "AutoStopRuns":
            out.append(("wait", [("TimerFires", ""), ("AutoStopRuns", "")]))
            i += 2
        else:
            break
    return out


def scenario(sid, ms):
    cls = "x03s%dt1" % sid
    roles = cs.role_task("t1", cls) + cs.role_call("bstop", "bstop", "before_STOP_ACTIVITY", critical=False)
    wf = "x03wf%d" % sid
    files = {"tasks/%s.yaml" % cls: cs.task_class(cls),
             "workflows/%s.yaml" % wf: cs.workflow(wf, roles, vars_={"auto_stop_enabled": "true", "auto_stop_timeout": "%dms" % TIMEOUT_MS})}
    steps = [{"do": "create", "env": "e1", "wf": wf}, {"do": "snapshot"}]
    gone = False
    for (m, _p) in ms:
        if gone:
            break
        if m in ("start", "stop"):
            steps += [{"do": "control", "env": "e1", "op": OPS[m.upper()]}]
        elif m == "destroy":
            steps += [{"do": "destroy", "env": "e1", "force": True, "allow_in_running": True}]
            gone = True
        elif m == "wait":
            steps += [{"do": "sleep", "ms": TIMEOUT_MS + 400}]
        elif m == "holdstop":
            steps += [{"do": "hookscript", "hook": "bstop", "behaviour": {"outcome": "ok", "gate": "S"}},
                      {"do": "control", "env": "e1", "op": "STOP_ACTIVITY", "caller": "S"},
                      {"do": "waitgate", "point": "probe:S", "timeout_ms": 3000},
                      {"do": "sleep", "ms": TIMEOUT_MS + 400},
                      {"do": "ungate", "point": "probe:S"}, {"do": "await", "caller": "S"},
                      {"do": "hookscript", "hook": "bstop", "behaviour": {"outcome": "ok"}}]
        steps += [{"do": "settle", "ms": 350}, {"do": "snapshot"}]
    if not gone:
        steps += [{"do": "destroy", "env": "e1", "force": True, "allow_in_running": True}]
    return {"id": sid, "family": "X03", "agents": cs.DEFAULT_AGENTS, "files": files, "core": {}, "scripts": [], "hooks": {},
            "steps": steps, "model": {"macros": [m for (m, _p) in ms]}}


def run(ctx):
    quick = ctx.tier == "quick"
    ctx.assumptions += ["a timer is taken to have fired %d ms after its deadline; the order in which a fired auto-stop goroutine and a "
                        "later request get the transition lock is not imposed (such behaviours are not replayed)" % 400]
    ctx.rule = ("scenario = a behaviour of AutoStop (tlc -simulate) grouped into harness steps (request; STOP held across the timer's "
                "deadline; wait for the timer); non-trivial = contains a held STOP or a wait; distinct = distinct step sequences")
    ctx.model_check("AutoStop", None, cfg_text=cfg(False, "TypeOK NoCollateralError StopsOwnRunOnly TimerOfCurrentRun"), workers=2)
    ra = ctx.model_check("AutoStop", None, cfg_text=cfg(True, "TypeOK NoCollateralError"), workers=2)
    rb = ctx.model_check("AutoStop", None, cfg_text=cfg(True, "TypeOK StopsOwnRunOnly"), workers=2)
    scenarios, seen, sid = [], set(), 0
    cex = macros(ra.counterexample()) if ra.violated else None
    behs = ctx.simulate("AutoStop", None, 120 if quick else 1200, 14, cfg_text=cfg(True, "TypeOK"), seed=ctx.seed * 13 + 5)
    cand = ([cex] if cex else []) + [macros(b) for b in behs]
    for ms in cand:
        if not ms:
            continue
        ms = ms[:6]
        key = json.dumps([m for (m, _p) in ms])
        if key in seen:
            continue
        seen.add(key)
        sid += 1
        s = scenario(sid, ms)
        s["prims"] = ms
        scenarios.append(s)
        if len(scenarios) >= (14 if quick else 60):
            break
    for s in scenarios:
        ctx.count_case(json.dumps(s["model"]["macros"]), nontrivial=any(m in ("holdstop", "wait") for m in s["model"]["macros"]))
    prims = {s["id"]: s.pop("prims") for s in scenarios}
    lines = cs.run_scenarios(ctx, scenarios, timeout=900)
    # expand: per scenario, the model's primitive actions interleaved with the observed states
    out = []
    by = {}
    for ln in lines:
        by.setdefault(ln.get("scn", -1), []).append(ln)
    finals = {}
    for s in scenarios:
        obs = []
        for ln in by.get(s["id"], []):
            if ln["ev"] == "Snapshot":
                es = [e for e in ln.get("envs", []) if e.get("env") == "e1"]
                obs.append(es[0]["st"] if es else "DONE")
        out.append({"ev": "Reset", "scn": s["id"]})
        if len(obs) != len(prims[s["id"]][:len(obs) - 1]) + 1:
            raise vlib.Inconclusive("scenario %d: %d observations for %d steps" % (s["id"], len(obs), len(prims[s["id"]])))
        out.append({"ev": "Obs", "scn": s["id"], "st": obs[0]})
        for (m, ps), o in zip(prims[s["id"]], obs[1:]):
            for (a, op) in ps:
                out.append({"ev": "Act", "scn": s["id"], "a": a, "op": op})
            out.append({"ev": "Obs", "scn": s["id"], "st": o})
        finals[s["id"]] = obs[-1]
        out.append({"ev": "End", "scn": s["id"]})
    tf = ctx.path("autostop_trace.ndjson")
    ctx.write_ndjson(tf, out)
    ctx.sample({"scenario": scenarios[0]["model"], "trace": [x for x in out if x["scn"] == scenarios[0]["id"]][:16]})
    viol, drift, _tr = ctx.validate("AutoStopTrace", None, tf, cfg_text="SPECIFICATION TraceSpec\nCONSTANTS\n  MaxRuns = 50\n  "
                                    "Code_FiredTimerNotRevoked = TRUE\nINVARIANT PrintEnd\nCHECK_DEADLOCK FALSE\n")
    ctx.traces = len(scenarios)
    ctx.exhaustive = False
    by_id = {s["id"]: s for s in scenarios}
    for d in drift:
        ctx.add_violation({"inv": "Conformance", "scn": d[1], "line": d[2], "detail": str(d[3])[:200]},
                          replay_obj={"scenario": by_id.get(d[1]), "trace": [x for x in out if x["scn"] == d[1]]})
    if ra.violated:
        hit = [s for s in scenarios if "holdstop" in s["model"]["macros"] and finals.get(s["id"]) == "ERROR"]
        ctx.observations.append(
            "the auto-stop timer is not revoked once it has fired: when it fires while a manual STOP_ACTIVITY holds the transition lock, its "
            "goroutine afterwards finds the environment CONFIGURED, its STOP is refused and it drives the healthy environment to ERROR "
            "(model: NoCollateralError violated%s; %s on the real core: %d scenario(s) with a STOP held across the timer's deadline ended in "
            "ERROR)" % ("; StopsOwnRunOnly violated too: the goroutine can stop the next run" if rb.violated else "",
                        "reproduced" if hit else "NOT reproduced", len(hit)))


def replay(ctx, obj):
    raise vlib.Inconclusive("X03 has no replay of single scenarios: run the check")
