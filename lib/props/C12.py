"""C12 - each control command gets exactly one answer per target, never someone else's.

Model: spec/CmdServent.tla (CommandQueue + Servent + consolidateResponses; exhaustive, TLC).
Binding: behaviours of spec/CmdServentGen.tla (tlc -simulate: shape, behaviour vector, arrival order)
are imposed on the real core/controlcommands through its exported API (harness/cmd/cmdq: real
NewServent(sendFunc), NewCommandQueue, MesosCommand_Transition with a short ResponseTimeout, replies
through the real ProcessResponse from separate goroutines); the recorded runs are validated by TLC
against spec/CmdServentTrace.tla (conformance incl. the callback value + property monitor on the
recorded facts).  Free-running runs (nothing ordered, races included) are judged by the monitor only.
"""
import json
import os
import random

import vlib

TO_MS = 150          # ResponseTimeout given to the real commands
SLACK_MS = 2000      # "completes within its response timeout" = timeout + this
ALL_BEHS = ["ok", "err", "sendfail", "silent", "dup", "late", "foreign", "wrongsender", "crossid", "failreply", "fastreply"]
# "late" is, in the base model, the same as "ok" (any reply may be processed at any later time)
MODEL_BEHS = [b for b in ALL_BEHS if b != "late"]
# "slow": SendFunc takes time to return, so the response windows of the targets of one command are staggered
SLOW = "slow"
STAG_BEHS = [SLOW, "silent", "ok", "dup", "sendfail"]
TICK_MS = TO_MS // 2   # one logical tick of the generator (TO = 2 ticks) in driver time
CROSS_BEHS = ["ok", "silent", "dup", "crossid", "sendfail"]
INVS = "TypeOK AtMostOnce Completion OwnAnswer NoCrossTalk PendingAwaits AwaitingPending PromptSend Bounded TimeoutNotEarly"
TO_MANY_MS = 1000    # ResponseTimeout of the many-target runs (= the slack of "handed the command promptly")
MANY = ["n%d" % i for i in range(1, 101)]


def tla_set(xs):
    return "{" + ", ".join('"%s"' % x for x in xs) + "}"


def mc_module(name, base, shapes, qmaps, enq):
    return """---- MODULE %s ----
EXTENDS %s
MC_Shapes == %s
MC_QueueMaps == %s
MC_EnqOrders == %s
====
""" % (name, base, shapes, qmaps, enq)


def cfg_common(cmds, targets, queues, behs, to, mutant="none"):
    return """CONSTANTS
  Cmds = %s
  Targets = %s
  Queues = %s
  Shapes <- MC_Shapes
  QueueMaps <- MC_QueueMaps
  EnqOrders <- MC_EnqOrders
  Behs = %s
  TO = %d
  Ghost = "tx"
  ForeignId = "cx"
  Mutant = "%s"
""" % (tla_set(cmds), tla_set(targets), tla_set(queues), tla_set(behs), to, mutant)


def cfg_model(cmds, targets, queues, behs, mutant="none", live=False):
    return ("SPECIFICATION %s\n" % ("FairSpec" if live else "Spec")) + cfg_common(cmds, targets, queues, behs, 2, mutant) + \
        "INVARIANTS %s\nPROPERTY UnknownDropped\n%sCHECK_DEADLOCK FALSE\n" % (INVS, "PROPERTY ExactlyOnceLive\n" if live else "")


def cfg_gen(cmds, targets, queues, behs, stagger="off"):
    return "SPECIFICATION GenSpec\n" + cfg_common(cmds, targets, queues, behs, 2) + \
        "  Stagger = \"%s\"\nCHECK_DEADLOCK FALSE\n" % stagger


def cfg_trace():
    return """SPECIFICATION TraceSpec
CONSTANTS
  Cmds = {"c1", "c2"}
  Targets = {"t1", "t2", "t3"}
  Queues = {"q1", "q2"}
  Shapes = {}
  QueueMaps = {}
  EnqOrders = {}
  Behs = %s
  TO = %d
  Ghost = "tx"
  ForeignId = "cx"
  Mutant = "none"
  Slack = %d
  PromptMin = 1000
  LoopSlack = 600
INVARIANT PrintEnd
CHECK_DEADLOCK FALSE
""" % (tla_set(ALL_BEHS + [SLOW]), TO_MS, SLACK_MS)


def model(ctx, label, cmds, targets, queues, behs, shapes, qmaps, enq, mutant="none", live=False, workers=None):
    name = "CmdServentMC"
    r = ctx.model_check(name, None, cfg_text=cfg_model(cmds, targets, queues, behs, mutant, live),
                        files={name + ".tla": mc_module(name, "CmdServent", shapes, qmaps, enq)}, workers=workers, timeout=1500)
    ctx.model_runs[-1]["cfg"] = label
    return r


# ---------------------------------------------------------------- scenarios from TLC behaviours
def pk(c, t):
    return repr([c, t])


def set_of(v):
    return v.get("$set", []) if isinstance(v, dict) else list(v)


def msg_key(m):
    return ".".join(str(x) for x in m["tok"])


def beh_to_scenario(sid, beh, stagger=False):
    st0 = beh[0][2]
    tg = {c: sorted(set_of(v)) for c, v in st0["tg"].items()}
    qof = dict(st0["qof"])
    steps, behv, msgs, gated = [], {}, {}, []
    prev_net = {}
    enq = 0
    for (name, args, st) in beh[1:]:
        if name.startswith("G_"):
            name = name[2:]
        a = [x.strip().strip('"') for x in args]
        net = {msg_key(m): m for m in set_of(st["net"])}
        if name == "Enqueue":
            steps.append({"a": "Enqueue", "c": a[0]})
            enq += 1
        elif name == "SendBegin":
            c, t, b = a
            behv[c + "/" + t] = b
            msgs[c + "/" + t] = [net[k] for k in sorted(net) if k not in prev_net]
            if b in ("fastreply", "failreply", SLOW):
                gated.append(c + "/" + t)
            steps.append({"a": "SendBegin", "c": c, "t": t})
        elif name == "SendEnd":
            step = {"a": "SendEnd", "c": a[0], "t": a[1]}
            h = st["held"][pk(a[0], a[1])]
            if isinstance(h, dict) and h.get("tok") and st["pc"][pk(a[0], a[1])] == "waiting":
                step["tok"] = h["tok"]   # this reply is handed over now: its ProcessResponse returns
            if stagger and behv.get(a[0] + "/" + a[1]) == SLOW and st["clock"] > 0:
                step["at_ms"] = st["clock"] * TICK_MS     # the slow SendFunc returns at this logical instant
            steps.append(step)
        elif name == "PRecv":
            tok = [a[0], a[1], int(a[2])]
            ret = True
            for o, h in st["held"].items():
                if isinstance(h, dict) and h.get("tok") == tok:
                    ret = st["pc"][o] == "waiting"
            step = {"a": "PRecv", "tok": tok, "ret": ret}
            if stagger:
                for o, h in st["held"].items():
                    if isinstance(h, dict) and h.get("tok") == tok and st["pc"][o] == "waiting" \
                            and st["deadline"][o] != st["clock"] + 2:
                        # placed by the clock: half a tick after this logical instant (its own timer has
                        # at least a full tick left, the timers of this instant have fired)
                        step["at_ms"] = st["clock"] * TICK_MS + TICK_MS // 2
            steps.append(step)
        elif name == "Deliver":
            steps.append({"a": "Deliver", "c": a[0]})
        prev_net = net
    if enq == 0:
        return None
    return {"id": sid, "mode": "sched", "to_ms": TO_MS, "tg": tg, "qof": qof, "beh": behv, "msgs": msgs, "gated": gated,
            "steps": steps}


def emits_table(ctx):
    """Emits(c,t,b) for every command/target/behaviour, evaluated by TLC (input script of the free runs)."""
    name = "CmdServentTab"
    mod = """---- MODULE %s ----
EXTENDS CmdServent
MC_Shapes == {}
MC_QueueMaps == {}
MC_EnqOrders == {}
ASSUME PrintT(<<"TAB", [x \\in Cmds \\X Targets \\X Behs |-> Emits(x[1], x[2], x[3])]>>)
====
""" % name
    cfg = "SPECIFICATION Spec\n" + cfg_common(["c1", "c2"], ["t1", "t2", "t3"] + MANY, ["q1", "q2"], ALL_BEHS + [SLOW], 2)
    r = ctx.tlc(name, None, workers=1, cfg_text=cfg, files={name + ".tla": mod}, timeout=120)
    recs = r.records("TAB")
    if not recs:
        ctx.save_debug(r, "tlc_tab.txt")
        raise vlib.Inconclusive("TLC did not print the Emits table: " + vlib.tail(r.out))
    tab = {}
    for k, v in recs[0][1].items():
        c, t, b = json.loads(k.replace("'", '"'))
        tab[(c, t, b)] = sorted(set_of(v), key=msg_key)
    return tab


def free_scenario(sid, rng, tab):
    ncmd = rng.choice([1, 2, 2])
    cmds = ["c1", "c2"][:ncmd]
    tg = {c: sorted(rng.sample(["t1", "t2", "t3"], rng.choice([1, 2, 2, 3]))) for c in cmds}
    if rng.random() < 0.05:
        tg[cmds[-1]] = []
    twoq = rng.random() < 0.5
    qof = {c: ("q2" if (twoq and c == "c2") else "q1") for c in cmds}
    if ncmd == 1:
        tg["c2"] = []      # the other command of the shape exists but is never enqueued
        qof["c2"] = "q1"
    behv, msgs, delay, hold = {}, {}, {}, {}
    for c in cmds:
        for t in tg[c]:
            b = rng.choice(ALL_BEHS + [SLOW, SLOW])
            behv[c + "/" + t] = b
            if b == SLOW:
                hold[c + "/" + t] = rng.randint(20, TO_MS) * 1000
            ms = tab[(c, t, b)]
            msgs[c + "/" + t] = ms
            for m in ms:
                kind = rng.random()
                if b == "late":
                    d = rng.randint(TO_MS + 30, TO_MS + 120) * 1000
                elif b == SLOW and kind < 0.7:
                    # inside its own response window, which starts when its SendFunc returns: possibly after
                    # the deadline of a sibling whose SendFunc returned at once
                    d = hold[c + "/" + t] + rng.randint(5, TO_MS - 30) * 1000
                elif kind < 0.6:
                    d = rng.choice([0, 0, 50, 300, 2000, 15000])
                elif kind < 0.85:
                    d = rng.randint(TO_MS - 4, TO_MS + 4) * 1000 + rng.randint(0, 999)   # races the timer
                else:
                    d = rng.randint(TO_MS + 10, TO_MS + 100) * 1000
                delay[msg_key(m)] = max(d, 1)
    order = list(cmds)
    rng.shuffle(order)
    return {"id": sid, "mode": "free", "to_ms": TO_MS, "tg": tg, "qof": qof, "beh": behv, "msgs": msgs, "gated": [],
            "steps": [], "order": order, "enq_us": {c: rng.choice([0, 0, 200, 5000]) for c in order}, "delay_us": delay,
            "hold_us": hold}


def many_scenario(sid, rng, tab, n, k):
    """One command with n targets (ids are data), k of them silent, the rest answer; nothing ordered (free mode)."""
    ts = MANY[:n]
    silent = set(rng.sample(ts, k))
    behv, msgs, delay = {}, {}, {}
    for t in ts:
        b = "silent" if t in silent else "ok"
        behv["c1/" + t] = b
        msgs["c1/" + t] = tab[("c1", t, b)]
        for m in msgs["c1/" + t]:
            delay[msg_key(m)] = rng.choice([1, 1, 200, 3000, 20000])
    return {"id": sid, "mode": "free", "to_ms": TO_MANY_MS, "tg": {"c1": ts, "c2": []}, "qof": {"c1": "q1", "c2": "q1"},
            "beh": behv, "msgs": msgs, "gated": [], "steps": [], "order": ["c1"], "enq_us": {"c1": 0}, "delay_us": delay,
            "hold_us": {}, "many": [n, k]}


def loop_scenario(sid, tab, cmds, hold_ms=80):
    """Two commands, one after the other, through the scheduler's own send function and MESSAGE event handler
    (serial event loop). cmds: [(kind, {target: behaviour})] for c1, c2."""
    tg, behv, msgs, hold, kind, steps = {}, {}, {}, {}, {}, []
    for i, (knd, tb) in enumerate(cmds):
        c = "c%d" % (i + 1)
        kind[c] = knd
        tg[c] = sorted(tb)
        for t, b in tb.items():
            behv[c + "/" + t] = b
            msgs[c + "/" + t] = tab[(c, t, b)]
            if b == "failreply":   # delivered and answered, but the call reports an error afterwards (lost HTTP response)
                hold[c + "/" + t] = hold_ms * 1000
        steps += [{"a": "Enqueue", "c": c}, {"a": "Deliver", "c": c}]
    for c in ("c1", "c2"):
        tg.setdefault(c, [])
    return {"id": sid, "mode": "loop", "to_ms": TO_MANY_MS, "tg": tg, "qof": {"c1": "q1", "c2": "q1"}, "beh": behv, "msgs": msgs,
            "gated": [], "steps": steps, "hold_us": hold, "kind": kind}


LOOP_CASES = [
    [("hook", {"t1": "failreply"}), ("hook", {"t1": "ok", "t2": "ok"})],
    [("hook", {"t1": "failreply", "t2": "ok"}), ("trans", {"t1": "ok", "t2": "ok"})],
    [("trans", {"t1": "failreply"}), ("hook", {"t2": "ok", "t3": "ok"})],
    [("hook", {"t1": "sendfail", "t2": "err"}), ("trans", {"t1": "ok"})],
    [("hook", {"t1": "ok", "t2": "silent"}), ("hook", {"t1": "ok"})],
    [("trans", {"t1": "failreply", "t2": "failreply"}), ("trans", {"t1": "ok", "t2": "err", "t3": "ok"})],
]


def build_loop(ctx):
    """cmdq with the loop family: needs core/task.VerifCommandLoop (work/patches/C12n-hooks.diff) in the tree under test."""
    import shutil
    import subprocess
    out = os.path.join(ctx.work, "bin", "cmdq_loop")
    os.makedirs(os.path.dirname(out), exist_ok=True)
    e = dict(os.environ)
    e.update(vlib.GOENV)
    cmd = ["go", "build", "-tags", "verif c12loop", "-o", out, "./cmd/cmdq"]
    if vlib.REPO != "/repo":
        modfile = os.path.join(ctx.work, "go.loop.mod")
        with open(os.path.join(vlib.HARNESS, "go.mod")) as fh:
            txt = fh.read().replace("=> /repo\n", "=> %s\n" % vlib.REPO)
        with open(modfile, "w") as fh:
            fh.write(txt)
        shutil.copy(os.path.join(vlib.HARNESS, "go.sum"), os.path.join(ctx.work, "go.loop.sum"))
        cmd[2:2] = ["-modfile", modfile]
    p = subprocess.run(cmd, cwd=vlib.HARNESS, env=e, stdout=subprocess.PIPE, stderr=subprocess.STDOUT, text=True)
    if p.returncode == 0:
        return out
    if "VerifCommandLoop" in p.stdout:
        return None
    raise vlib.Inconclusive("harness build failed (cmdq, loop family): %s" % vlib.tail(p.stdout, 20))


def vector_of(s):
    return json.dumps([s["tg"], s["qof"], s["beh"]], sort_keys=True)


def run(ctx):
    quick = ctx.tier == "quick"
    workers = int(os.environ.get("VERIF_TLC_WORKERS", "0")) or vlib.NCPU
    ctx.assumptions += [
        "the boundary is the exported API of core/controlcommands: SendFunc (transport) and the callers of ProcessResponse/Enqueue are the environment",
        "logical time in the exhaustive model: implementation steps take no time, a response timer fires when clock >= time of SendFunc's return + TO "
        "(TO = 2 ticks); in trace validation the clock is the recorded monotonic clock (ms) and TO = %d ms" % TO_MS,
        "'within its response timeout' is judged on recorded clock readings as: callback no later than (last SendFunc return) + timeout + %d ms; "
        "a timeout entry no earlier than (SendFunc return) + timeout" % SLACK_MS,
        "a reply is attributed by (command id it carries, sender it is handed in with): 'own reply' = a reply handed to ProcessResponse with "
        "this command's id and this target as sender",
        "exhaustive bounds: 1 command x 3 targets x 10 behaviours; 2 commands x 2 targets (one queue as in production, and two queues sharing "
        "the servent = truly concurrent commands) with the cross-command behaviours; Enqueue order fixed at the start in the 2-command configurations",
        "send duration: a slow SendFunc (behaviour 'slow') returns after 0..TO logical ticks, so the response windows of the targets of one "
        "command are staggered; the driver holds its SendFunc for that target and places replies by its clock half a tick (%d ms) away from "
        "every deadline - only the imposed schedule depends on that placement, verdicts come from recorded clock readings" % (TICK_MS // 2),
        "scheduled runs impose only orders a driver can impose without hooks (reply while inside SendFunc / right after it returned / when the call "
        "cannot be pending any more); the reply-vs-timer race itself is exercised by the free runs and judged by the monitor only",
    ]
    ctx.rule = ("scenario = behaviour of CmdServentGen (TLC -simulate, seeded): shape + behaviour vector + arrival order, replayed on the real "
                "CommandQueue/Servent; distinct = distinct (shape, vector, step sequence); non-trivial = at least one target whose behaviour is not "
                "a plain in-time reply; plus free-running runs (seeded delays, nothing ordered)")

    # ------------------------------------------------------------------ 1. exhaustive model checking
    T3 = '{[c \\in Cmds |-> {"t1", "t2", "t3"}]}'
    T2 = '{[c \\in Cmds |-> {"t1", "t2"}]}'
    Q1 = '{[c \\in Cmds |-> "q1"]}'
    Q2 = '{[c \\in Cmds |-> IF c = "c1" THEN "q1" ELSE "q2"]}'
    ORD = '{<<"c1", "c2">>}'
    preds = []
    runs = []
    Q_BEHS = ["ok", "sendfail", "silent", "dup", "wrongsender", "crossid"] if quick else []
    X_BEHS = ["ok", "silent", "dup", "crossid"]
    if quick:
        runs = [("1 cmd x 3 targets, 6 behaviours", ["c1"], ["t1", "t2", "t3"], ["q1"], Q_BEHS, T3, Q1, "{}"),
                ("1 cmd x 3 targets, staggered deadlines (slow send)", ["c1"], ["t1", "t2", "t3"], ["q1"],
                 ["ok", "silent", SLOW, "sendfail"], T3, Q1, "{}"),
                ("2 cmds x 2 targets, one queue, cross-command behaviours", ["c1", "c2"], ["t1", "t2"], ["q1"], ["ok", "silent", "crossid"],
                 T2, Q1, ORD)]
    else:
        runs = [("1 cmd x 3 targets, all behaviours incl. slow send (staggered deadlines)", ["c1"], ["t1", "t2", "t3"], ["q1"],
                 MODEL_BEHS + [SLOW], T3, Q1, "{}"),
                ("2 cmds x 2 targets, one queue, all behaviours", ["c1", "c2"], ["t1", "t2"], ["q1"], MODEL_BEHS, T2, Q1, ORD),
                ("2 cmds x 2 targets, two queues (concurrent commands), cross-command behaviours", ["c1", "c2"], ["t1", "t2"],
                 ["q1", "q2"], X_BEHS, T2, Q2, ORD),
                ("all shapes of 2 cmds over <=2 targets incl. none, both queue maps, Enqueue at any time",
                 ["c1", "c2"], ["t1", "t2"], ["q1", "q2"], ["ok", "silent", "sendfail"],
                 "[Cmds -> SUBSET Targets]", "[Cmds -> Queues]", "{}")]
    for (label, cmds, tgs, qs, behs, sh, qm, enq) in runs:
        r = model(ctx, label, cmds, tgs, qs, behs, sh, qm, enq, workers=workers)
        if r.violated or r.deadlock:
            preds.append((label, r))
    # liveness half of "exactly once" (fair implementation + time): small configuration
    r = model(ctx, "1 cmd x 2 targets, all behaviours incl. slow send: invariants + liveness", ["c1"], ["t1", "t2"], ["q1"], MODEL_BEHS + [SLOW],
              T2, Q1, "{}", live=True, workers=workers)
    if r.violated:
        preds.append(("liveness", r))
    # the invariants have teeth: broken variants of the code are rejected by the model
    muts = (("idonly", "NoCrossTalk"), ("cmdwide", "AwaitingPending"), ("inflight", "PromptSend"), ("errszero", "OwnAnswer"),
            ("tgtonly", "NoCrossTalk"), ("nounreg", "PendingAwaits"))
    for mut, expect in (muts[1:4] if quick else muts):
        r = model(ctx, "mutant %s (must be rejected)" % mut, ["c1", "c2"], ["t1", "t2"], ["q1"], CROSS_BEHS + [SLOW], T2, Q1, ORD,
                  mutant=mut, workers=2)
        if not r.violated:
            raise vlib.Inconclusive("model sanity: mutant %s is not rejected by the invariants" % mut)
        ctx.states -= r.distinct          # (not part of the explored state space of the code as it is)
        ctx.transitions -= r.generated
    if preds:
        # the model of the code as it is violates a property: no such finding is known; the scenarios below
        # replay generated behaviours on the real code, but a model counterexample that the monitor does not
        # confirm is a modelling error
        label, r = preds[0]
        ctx.save_debug(r, "tlc_model_violation.txt")
        raise vlib.Inconclusive("MODEL-UNREPRODUCED: the model (%s) violates %s; no counterexample replay is implemented because none is "
                                "expected - fix the model" % (label, ",".join(r.violated) or "deadlock"))

    # ------------------------------------------------------------------ 2. scenarios generated from the model
    scenarios = []
    sid = 0
    seen = set()
    ONE = "{f \\in [Cmds -> SUBSET Targets] : f[\"c1\"] # {}}"
    TWO = "{f \\in [Cmds -> SUBSET Targets] : Cardinality(f[\"c1\"]) >= 2}"
    gens = [
        # (cmds, targets, queues, shapes, queue maps, behaviours, staggered deadlines, number of behaviours, depth)
        (["c1"], ["t1", "t2", "t3"], ["q1"], ONE, "[Cmds -> Queues]", ALL_BEHS, "off", 400 if quick else 4000, 60),
        (["c1", "c2"], ["t1", "t2"], ["q1", "q2"], "[Cmds -> SUBSET Targets]", "[Cmds -> Queues]", ALL_BEHS, "off", 500 if quick else 5500, 90),
        # staggered deadlines: one command, >= 2 targets, the SendFunc of some target slow (its response window starts and
        # ends later than its siblings'); replies placed by the clock; "gap": after a sibling's timeout, inside the own window
        (["c1"], ["t1", "t2", "t3"], ["q1"], TWO, "[Cmds -> Queues]", STAG_BEHS, "gap", 200 if quick else 1200, 70),
    ]
    if not quick:
        gens.append((["c1"], ["t1", "t2", "t3"], ["q1"], TWO, "[Cmds -> Queues]", STAG_BEHS, "any", 1200, 70))
    gi = 0
    for (cmds, tgs, qs, sh, qm, gbehs, stag, num, depth) in gens:
        gi += 1
        name = "CmdServentMCG"
        behs = ctx.simulate(name, None, num, depth, cfg_text=cfg_gen(cmds, tgs, qs, sorted(set(gbehs)), stag), seed=ctx.seed * 7919 + gi,
                            files={name + ".tla": mc_module(name, "CmdServentGen", sh, qm, "{}")}, timeout=600)
        for b in behs:
            sid += 1
            s = beh_to_scenario(sid, b, stag != "off")
            if s is None:
                continue
            if "c2" not in s["tg"]:
                s["tg"]["c2"] = []
                s["qof"]["c2"] = "q1"
            canon = json.dumps([s["tg"], s["qof"], s["beh"], s["steps"]], sort_keys=True)
            if canon in seen:
                continue
            seen.add(canon)
            scenarios.append(s)
    tab = emits_table(ctx)
    rng = random.Random(ctx.seed)
    nfree = 150 if quick else 2500
    for i in range(nfree):
        sid += 1
        scenarios.append(free_scenario(sid, rng, tab))
    # many targets (beyond any small constant), many of them silent: every target must be handed the command promptly
    many = [(33, 33), (40, 34), (64, 48), (100, 70)] if quick else \
        [(33, 33), (33, 5), (40, 34), (48, 48), (64, 40), (64, 64), (100, 60), (100, 100), (100, 35), (70, 33)]
    for (n, k) in many:
        sid += 1
        scenarios.append(many_scenario(sid, rng, tab, n, k))
    # the scheduler's own path around the servent: replies fed by the serial MESSAGE event handler
    for case in LOOP_CASES:
        sid += 1
        scenarios.append(loop_scenario(sid, tab, case))
    execute(ctx, scenarios)


def replay(ctx, obj):
    """./check C12 --replay <file>: run the recorded scenario again on the real code and judge the new recording."""
    s = dict(obj["scenario"])
    s["id"] = 1
    execute(ctx, [s])


def execute(ctx, scenarios):
    nsched = sum(1 for s in scenarios if s["mode"] == "sched")
    ctx.log("scenarios: %d scheduled (distinct), %d free" % (nsched, len(scenarios) - nsched))

    # ------------------------------------------------------------------ 3. replay on the real code
    binp = None
    if any(s["mode"] == "loop" for s in scenarios):
        binp = build_loop(ctx)
        if binp is None:
            scenarios = [s for s in scenarios if s["mode"] != "loop"]
            ctx.observations.append("the loop family (replies fed through the scheduler's MESSAGE event handler, one after the other) was "
                                    "SKIPPED: core/task.VerifCommandLoop (work/patches/C12n-hooks.diff, build tag verif) is not in the tree")
    if not scenarios:
        return
    if binp is None:
        binp = ctx.build("cmdq")
    scn_file = ctx.path("scenarios.ndjson")
    trace_file = ctx.path("trace.ndjson")
    ctx.write_ndjson(scn_file, scenarios)
    out = ctx.run([binp, "-scenarios", scn_file, "-trace", trace_file, "-par", "24"], timeout=1500)
    ctx.log("replayed: " + out.strip().splitlines()[-1])
    lines = ctx.read_ndjson(trace_file)
    by_id = {s["id"]: s for s in scenarios}
    by_scn = {}
    for x in lines:
        by_scn.setdefault(x.get("scn"), []).append(x)
    vectors = set()
    behs_seen = {}
    for s in scenarios:
        plain = all(b == "ok" for b in s["beh"].values())
        ctx.count_case(json.dumps([s["mode"], s["tg"], s["qof"], s["beh"], s["steps"], s.get("delay_us")], sort_keys=True),
                       nontrivial=not plain)
        vectors.add(vector_of(s))
        for b in s["beh"].values():
            behs_seen[b] = behs_seen.get(b, 0) + 1
    s0 = scenarios[0]
    ctx.sample({"scenario": {k: s0[k] for k in ("id", "mode", "tg", "qof", "beh")}, "steps": s0["steps"][:30]})
    ctx.sample({"trace_prefix": by_scn.get(s0["id"], [])[:8]})
    harness_failed = [x for x in lines if x["ev"] == "End" and x.get("failed")]
    if harness_failed:
        raise vlib.Inconclusive("harness-internal error: %s" % harness_failed[0])

    # ------------------------------------------------------------------ 4. trace validation by TLC
    viol, drift, tr = ctx.validate("CmdServentTrace", None, trace_file, cfg_text=cfg_trace(), timeout=1500)
    ctx.log("trace validation: %d lines, %d VIOL, %d DRIFT (%.1fs)" % (len(lines), len(viol), len(drift), tr.wall))
    ctx.traces = len(scenarios)
    ctx.exhaustive = False
    ctx.extra["trace_lines"] = len(lines)
    ctx.extra["scenarios"] = {"scheduled": nsched, "free": len(scenarios) - nsched, "distinct_shape_and_behaviour_vectors": len(vectors),
                              "behaviours_exercised": behs_seen}
    for d in drift:
        s = by_id.get(d[1], {})
        ctx.drift.append({"scn": d[1], "line": d[2], "event": d[3], "beh": s.get("beh"), "steps": s.get("steps")})
    seen_v = set()
    for v in viol:
        inv, scn, line = v[1], v[2], v[3]
        if (inv, scn) in seen_v:
            continue
        seen_v.add((inv, scn))
        s = by_id.get(scn, {})
        ctx.add_violation({"inv": inv, "scn": scn, "line": line, "mode": s.get("mode"), "tg": s.get("tg"), "qof": s.get("qof"),
                           "beh": s.get("beh") if not s.get("many") else None, "many": s.get("many"),
                           "detail": v[4] if len(v) > 4 else None},
                          replay_obj={"scenario": s, "trace": by_scn.get(scn, [])})
    # observation (not part of the property): ProcessResponse goroutines that never return
    leaked = 0
    for x in lines:
        if x["ev"] == "End" and x.get("stuck"):
            leaked += len(x["stuck"])
    if leaked:
        ctx.observations.append("%d ProcessResponse call(s) never returned (reply found its call, then the call left through the timeout or "
                                "send-error path: `call.Done <- empty{}` has no receiver - a leaked goroutine per such reply; no command "
                                "result is affected, outside the listed property)" % leaked)
