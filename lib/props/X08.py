"""X08 - beyond the listed properties: what the Bookkeeping integration plugin records in the Bookkeeping service
(core/integration/bookkeeping/plugin.go CallStack: StartOfRun = Run.Create, Log.Create, Flp.CreateMany; UpdateRunStart / UpdateRunStop =
one or two Run.Update with the four run timestamps; CreateEnv / UpdateEnv = Environment.Create / Update with the state machine's state;
the six per-environment maps missingUpdateRunStarts, pendingRunStops, pendingO2Starts/Stops, pendingTrgStarts/Stops) and the service's
tables.

Model: spec/BkpRun.tla, one action per gRPC call (outcome none | err | lost), exhaustive with TLC; timestamps abstracted to what they
are (the environment's own variable of that kind, time.Now(), unset).  Properties: a run is created at most once; a StartOfRun that
succeeds has created the run; updates only for created runs; the unrecorded end of a created run stays pending; every timestamp sent is
the environment's own of that kind; nothing for run 0; one FLP entry per host; the status sent is the caller's own state; no hook
panics.  The repaired design satisfies all; for the code as it is TLC refutes six, each replayed on the real plugin and reported as an
OBSERVATION when the recorded run shows it.

Binding: behaviours of the model (tlc -simulate on spec/BkpRunGen.tla, seeded, plus TLC's counterexamples) run on the REAL plugin
(harness/cmd/bkprun: bookkeeping.NewPlugin + Init against an in-process fake Bookkeeping service speaking the real gRPC services, in which
every request parks until the scenario lets it take effect; the hooks are the plugin's own CallStack functions with real *callable.Call
values; the environments the plugin looks up are REAL environments with a real workflow in the real manager); requests, returns, the
plugin's six maps and the service's tables are recorded and validated by TLC against spec/BkpRunTrace.tla in one pass: strict
conformance (DRIFT) and the properties as soft invariants on the recorded facts (VIOL).

Not a listed property: not registered in MANIFEST.json; evidence goes to evidence/extra/X08.json."""
import json
import os
import shutil
import subprocess
import time

import vlib

LEVEL = "model_checking"

CODE = ["Code_RunCreateFailureMasked", "Code_UpdateRunStartUnconditional", "Code_PendingStopKeyedByEnv", "Code_IncompleteStopForgotten",
        "Code_MissingTimesFilledIn", "Code_FlpListPadded", "Code_UpdateEnvUnknownTriggerPanics"]
HOLD = "TypeOK CreatedOnce NoRunZero EnvStatusFaithful"
ALL = HOLD + " StartOkImpliesRunCreated UpdateOnlyCreated EndNeverForgotten TimesAreOwn FlpsOncePerHost NoPanic"

DEV = {
    "Code_RunCreateFailureMasked": ("StartOkImpliesRunCreated",
        "StartOfRun: when Run.Create fails the plugin creates a log without run number instead and, if that works, returns SUCCESS - the "
        "environment starts a run that does not exist in Bookkeeping (no FLPs, no pending flags)"),
    "Code_UpdateRunStartUnconditional": ("UpdateOnlyCreated",
        "UpdateRunStart never asks whether the run was created (pendingRunStops is not consulted): after a masked or non-critical creation "
        "failure it sends Run.Update for a run the service does not know, and fails on the answer"),
    "Code_IncompleteStopForgotten": ("EndNeverForgotten",
        "UpdateRunStop registers the deferred deletion of pendingRunStops as soon as its first Run.Update succeeded; when the second one - "
        "the 'INCOMPLETE STOP' update that carries the missing end time - fails, the stop is dequeued all the same: the end is never "
        "recorded and the later UpdateRunStop calls (GO_ERROR, DESTROY) send nothing"),
    "Code_MissingTimesFilledIn": ("TimesAreOwn",
        "a start / end time that is still pending is filled with time.Now(), and the trigger time of that second update points at the O2 "
        "time of the same request (timeTrgStartOutput = &timeO2StartTemp, timeTrgEndOutput = &timeO2EndTemp): Bookkeeping gets trigger "
        "times that are the O2 times (by design for Now(); the aliasing looks unintended)"),
    "Code_FlpListPadded": ("FlpsOncePerHost",
        "StartOfRun builds the FLP request with make([]*FlpCreationRequest, len(flps)) and then appends: the request carries len(flps) nil "
        "entries in front of the real ones, which reach the service as FLPs without name, hostname and run number"),
    "Code_UpdateEnvUnknownTriggerPanics": ("NoPanic",
        "UpdateEnv with a trigger that contains none of the transition names it knows (e.g. enter_RUNNING) ends in err.Error() on a nil "
        "error: the hook panics with a nil pointer dereference"),
}

E1 = '{"e1"}'
E2 = '{"e1", "e2"}'


def cfg_model(envs, maxrun, maxfaults, maxenv, code, invs, spec="Spec"):
    c = {k: (code if isinstance(code, bool) else code.get(k, True)) for k in CODE}
    return ("SPECIFICATION %s\nCONSTANTS\n  Envs = %s\n  TrgOn = {\"e1\"}\n  MaxRun = %d\n  MaxFaults = %d\n  MaxEnvCalls = %d\n"
            "%s%sCHECK_DEADLOCK FALSE\n"
            % (spec, envs, maxrun, maxfaults, maxenv,
               "".join("  %s = %s\n" % (k, "TRUE" if v else "FALSE") for k, v in c.items()),
               ("INVARIANTS %s\n" % invs) if invs else ""))


def split_witnesses(out):
    """Output of `tlc -continue`: {invariant: [behaviour, ...]}, one behaviour per reported violation."""
    import re
    import tlaval
    parts = re.split(r"(?m)^Error: Invariant ([A-Za-z0-9_]+) is violated\.", out)
    res = {}
    for k in range(1, len(parts), 2):
        beh = tlaval.parse_counterexample(parts[k + 1])
        if beh:
            res.setdefault(parts[k], []).append(beh)
    return res


def tlc_parallel(ctx, jobs, par=6, workers=2, timeout=900):
    """Run several exhaustive TLC jobs side by side (each in its own scratch directory). jobs: list of (label, module, cfg_text, flags).
    Returns {label: TlcResult}; accounts states / model_runs like ctx.model_check."""
    res = {}
    pend = list(jobs)
    running = []
    e = dict(os.environ)
    e["JAVA_TOOL_OPTIONS"] = (e.get("JAVA_TOOL_OPTIONS", "") + " -Xss64m -Xmx4g").strip()
    try:
        return _tlc_parallel(ctx, pend, running, res, e, par, workers, timeout)
    finally:
        for it in running:      # an error above: do not leave the other jobs behind (timeout forwards the signal to TLC)
            it[2].terminate()
        for it in running:
            try:
                it[2].wait(timeout=30)
            except subprocess.TimeoutExpired:
                it[2].kill()
            it[3].close()


def _tlc_parallel(ctx, pend, running, res, e, par, workers, timeout):
    while pend or running:
        while pend and len(running) < par:
            label, module, cfg, flags = pend.pop(0)
            ctx.ntlc += 1
            d = os.path.join(ctx.work, "tlc%d" % ctx.ntlc)
            os.makedirs(d)
            for f in ("BkpRun.tla", "BkpRunGen.tla"):
                shutil.copy(os.path.join(vlib.SPEC, f), d)
            with open(os.path.join(d, "run.cfg"), "w") as fh:
                fh.write(cfg)
            out = open(os.path.join(d, "out.txt"), "w")
            p = subprocess.Popen(["timeout", str(timeout), "tlc", "-workers", str(workers), "-metadir", os.path.join(d, "md"),
                                  "-config", "run.cfg"] + flags + [module + ".tla"], cwd=d, env=e, stdout=out, stderr=subprocess.STDOUT)
            running.append((label, module, p, out, d, time.time()))
        time.sleep(0.2)
        for it in list(running):
            label, module, p, out, d, t0 = it
            if p.poll() is None:
                continue
            running.remove(it)
            out.close()
            with open(os.path.join(d, "out.txt")) as fh:
                text = fh.read()
            r = vlib.TlcResult(text, p.returncode, time.time() - t0)
            r.dir = d
            if p.returncode == 124:
                raise vlib.Inconclusive("TLC timeout after %ss on %s (%s)" % (timeout, module, label))
            if "java.lang.OutOfMemoryError" in text or "StackOverflowError" in text:
                raise vlib.Inconclusive("TLC resource failure on %s (%s)" % (module, label))
            if r.crashed or (r.generated == 0 and not r.violated):
                ctx.save_debug(r, "tlc_%s_%s.txt" % (module, label))
                raise vlib.Inconclusive("TLC failed on %s (%s, rc=%d): %s" % (module, label, r.rc, vlib.tail(r.out)))
            ctx.states += r.distinct
            ctx.transitions += r.generated
            result = ("violated:" + ",".join(sorted(set(r.violated))) if r.violated else
                      ("ok" if r.no_error else ("deadlock" if r.deadlock else "?")))
            ctx.model_runs.append({"module": module, "cfg": label, "distinct": r.distinct, "generated": r.generated, "result": result,
                                   "wall_s": round(r.wall, 1)})
            ctx.log("model %s/%s: %d distinct, %d generated, %s (%.1fs)" % (module, label, r.distinct, r.generated, result, r.wall))
            res[label] = r
    return res



# ---------- behaviours -> scenarios ----------
def q(s):
    return s.strip().strip('"')


def beh_to_scenario(sid, beh, origin):
    steps = []
    trig_of = {}
    for (name, args, st) in beh[1:]:
        name = name[2:] if name.startswith("G_") else name
        a = [q(x) for x in args]
        e = a[0]
        if name == "NewRun":
            rn = st.get("rn") or {}
            steps.append({"k": "ecs", "e": e, "a": "NewRun", "r": int(rn.get(e, rn.get('"%s"' % e)))})
        elif name == "EndRun":
            steps.append({"k": "ecs", "e": e, "a": "EndRun"})
        elif name == "SetTime":
            steps.append({"k": "ecs", "e": e, "a": "SetTime", "w": a[1]})
        elif name == "SetState":
            steps.append({"k": "ecs", "e": e, "a": "State", "s": a[1]})
        elif name in ("SorCreate", "SorLog", "SorFlp"):
            steps.append({"k": "hook", "e": e, "fn": "StartOfRun", "trig": "START_ACTIVITY", "f": a[1], "new": name == "SorCreate"})
        elif name in ("UrsFirst", "UrsSecond"):
            steps.append({"k": "hook", "e": e, "fn": "UpdateRunStart", "trig": "START_ACTIVITY", "f": a[1], "new": name == "UrsFirst"})
        elif name == "UrstFirst":
            trig_of[e] = a[1]
            steps.append({"k": "hook", "e": e, "fn": "UpdateRunStop", "trig": a[1], "f": a[2], "new": True})
        elif name == "UrstSecond":
            steps.append({"k": "hook", "e": e, "fn": "UpdateRunStop", "trig": trig_of.get(e, "STOP_ACTIVITY"), "f": a[1], "new": False})
        elif name == "EnvCall":
            steps.append({"k": "hook", "e": e, "fn": a[1], "trig": a[2], "f": a[3], "new": True})
        else:
            raise vlib.Inconclusive("behaviour with an action the harness cannot impose: %s" % name)
    return {"id": sid, "envs": ["e1", "e2"], "trg": {"e1": True, "e2": False}, "steps": steps, "origin": origin}


def nontrivial(s):
    return any(st.get("f", "none") != "none" or st.get("fn") in ("UpdateRunStop", "UpdateEnv") for st in s["steps"])


def canon(s):
    return json.dumps(s["steps"], sort_keys=True)


def cfg_trace(maxrun):
    return cfg_model(E2, maxrun, 1000000, 1000000, True, None, spec="TraceSpec") + "INVARIANT PrintEnd\n"


def execute(ctx, binp, scenarios, name, shards=1):
    parts = [scenarios[i::shards] for i in range(shards)]
    procs = []
    for i, part in enumerate(parts):
        if not part:
            continue
        sf, tf = ctx.path("scn_%s_%d.ndjson" % (name, i)), ctx.path("run_%s_%d.ndjson" % (name, i))
        ctx.write_ndjson(sf, [{k: v for k, v in s.items() if k != "origin"} for s in part])
        procs.append((subprocess.Popen([binp, "-scenarios", sf, "-trace", tf], cwd=ctx.work, stdout=subprocess.PIPE,
                                       stderr=subprocess.STDOUT, text=True), tf))
    lines = []
    for p, tf in procs:
        try:
            out, _ = p.communicate(timeout=600)
        except subprocess.TimeoutExpired:
            p.kill()
            raise vlib.Inconclusive("bkprun timeout")
        if p.returncode != 0:
            raise vlib.Inconclusive("bkprun failed rc=%d: %s" % (p.returncode, vlib.tail(out, 20)))
        ctx.log("bkprun %s: %s" % (name, out.strip()))
        lines += ctx.read_ndjson(tf)
    return lines


def project(lines):
    out = []
    i = 0
    while i < len(lines):
        ln = dict(lines[i])
        ln.pop("seq", None)
        nxt = lines[i + 1] if i + 1 < len(lines) else {}
        if ln["ev"] in ("Req", "Skip") and nxt.get("ev") == "Ret" and nxt.get("e") == ln.get("e") and nxt.get("scn") == ln.get("scn"):
            ln.update({"ret": True, "failed": nxt["failed"], "panic": nxt["panic"], "reason": nxt.get("reason", "")})
            i += 2
        else:
            if ln["ev"] in ("Req", "Skip"):
                ln.update({"ret": False, "failed": False, "panic": False})
            i += 1
        out.append(ln)
    return out


def judge(ctx, scenarios, lines, what):
    plines = project(lines)
    tf = ctx.path("trace_%s.ndjson" % what)
    ctx.write_ndjson(tf, plines)
    maxrun = max([st.get("r", 0) for s in scenarios for st in s["steps"]] + [1]) + 1
    viol, drift, r = ctx.validate("BkpRunTrace", None, tf, cfg_text=cfg_trace(maxrun), timeout=1500)
    return plines, viol, drift, r.records("OBS")


def report(ctx, scenarios, lines, viol, drift):
    by_id = {s["id"]: s for s in scenarios}
    for d in drift:
        ctx.drift.append({"scn": d[1], "line": d[2], "origin": (by_id.get(d[1]) or {}).get("origin"), "detail": str(d[3])[:300]})
    told = set()
    for v in viol:
        sid = v[2]
        if (v[1], sid) in told:
            continue
        told.add((v[1], sid))
        ctx.add_violation({"inv": v[1], "scn": sid, "line": v[3], "origin": (by_id.get(sid) or {}).get("origin"), "detail": str(v[4])[:300]},
                          replay_obj={"scenario": by_id.get(sid), "trace": [x for x in lines if x.get("scn") == sid]})


def attribute(obs):
    return {"StartOkImpliesRunCreated": ["Code_RunCreateFailureMasked"], "UpdateOnlyCreated": ["Code_UpdateRunStartUnconditional"],
            "EndNeverForgotten": ["Code_IncompleteStopForgotten"], "TimesAreOwn": ["Code_MissingTimesFilledIn"],
            "FlpsOncePerHost": ["Code_FlpListPadded"], "NoPanic": ["Code_UpdateEnvUnknownTriggerPanics"]}.get(obs[1], [])


def run(ctx):
    quick = ctx.tier == "quick"
    ctx.assumptions += [
        "the Bookkeeping service is the fake of harness/cmd/bkprun: runs (created; how often each timestamp was recorded; FLP entries), "
        "environments (statuses recorded); creating an existing run / updating an unknown run or environment is answered with a gRPC error; "
        "faults: gRPC error without effect, gRPC error after the effect; a lost reply to Run.Create is not modelled",
        "the environment gives a run number, sets run_start_time_ms before or after StartOfRun, trg_start_time_ms / run_end_time_ms / "
        "trg_end_time_ms after it, calls StartOfRun and UpdateRunStart once per run, UpdateRunStop at STOP_ACTIVITY, GO_ERROR and DESTROY "
        "(possibly several times); e1 runs with trg_enabled, e2 without; two hosts",
        "left out: RetrieveFillInfo, every payload field but identities (run number, environment id, FLP names, log run numbers, status) "
        "and the four timestamps; timestamps are judged by what they are (own variable of which kind, Now, unset), not by value",
        "Code_PendingStopKeyedByEnv (UpdateRunStop updates run_number although pendingRunStops names another run) is in the model but "
        "needs two runs of one environment; the registered configurations (one run) do not exercise it",
    ]
    ctx.rule = ("scenario = a behaviour of BkpRunGen (tlc -simulate, seeded) or a TLC counterexample of BkpRun, run step by step on the real "
                "plugin; non-trivial = contains a fault, an UpdateRunStop or an UpdateEnv; distinct = distinct step sequences")
    wit = " ".join("W_" + inv for (inv, _w) in DEV.values())
    jobs = [("asis-1env", "BkpRun", cfg_model(E1, 1, 1, 1, True, HOLD + " " + wit), ["-continue"]),
            ("repaired-1env", "BkpRun", cfg_model(E1, 1, 1, 1, False, ALL), [])]
    if not quick:
        jobs.append(("asis-2env", "BkpRun", cfg_model(E2, 1, 0, 0, True, HOLD), []))
        for dev, (inv, _what) in DEV.items():
            jobs.append(("only:" + dev, "BkpRun", cfg_model(E1, 1, 1, 1, {dev: False}, inv), []))
    res = tlc_parallel(ctx, jobs, par=2 if quick else 5, workers=6 if quick else 4, timeout=1500)
    for label, r in res.items():
        bad = [v for v in r.violated if not (label == "asis-1env" and v.startswith("W_"))]
        if bad or r.deadlock or (label != "asis-1env" and not r.no_error):
            ctx.save_debug(r, "tlc_BkpRun_%s.txt" % label.replace(":", "_"))
            raise vlib.Inconclusive("model check %s: %s - the specification does not describe what it claims" %
                                    (label, ",".join(bad) or vlib.tail(r.out, 5)))
    witnesses = split_witnesses(res["asis-1env"].out)
    for dev, (inv, _what) in DEV.items():
        if not witnesses.get("W_" + inv):
            raise vlib.Inconclusive("the model of the code as it is no longer refutes %s (%s): the specification changed?" % (inv, dev))
    ctx.extra["refuted_as_is"] = sorted(inv for (inv, _w) in DEV.values())

    scenarios, seen = [], set()

    def add(s):
        k = canon(s)
        if k in seen or not s["steps"]:
            return None
        seen.add(k)
        s["id"] = len(scenarios) + 1
        scenarios.append(s)
        return s["id"]

    cex_of = {}
    for dev, (inv, _what) in DEV.items():
        for beh in sorted(witnesses["W_" + inv], key=len)[:2]:
            sid = add(beh_to_scenario(0, beh, "model-counterexample:%s" % inv))
            if sid:
                cex_of.setdefault(dev, set()).add(sid)
    nsim = 300 if quick else 4000
    gen = cfg_model(E2, 3, 2, 4, True, None, spec="GenSpec")
    for b in ctx.simulate("BkpRunGen", None, nsim, 40, cfg_text=gen, seed=ctx.seed * 7919 + 23):
        add(beh_to_scenario(0, b, "generated"))
    for s in scenarios:
        ctx.count_case(canon(s), nontrivial=nontrivial(s))

    binp = ctx.build("bkprun")
    lines = execute(ctx, binp, scenarios, "all", shards=4 if quick else 8)
    ctx.traces = len(scenarios)
    ctx.exhaustive = False
    plines, viol, drift, obs = judge(ctx, scenarios, lines, "all")
    first = scenarios[0]
    ctx.sample({"scenario": first, "trace": [x for x in plines if x.get("scn") == first["id"]][:14]})
    report(ctx, scenarios, plines, viol, drift)

    shown = {}
    for o in obs:
        for dev in attribute(o):
            shown.setdefault(dev, set()).add(o[2])
    ctx.extra["deviations_reproduced"] = {d: len(v) for d, v in shown.items()}
    drifted = {d["scn"] for d in ctx.drift}
    for dev, (inv, what) in DEV.items():
        hit = shown.get(dev, set()) - drifted
        cex_hit = bool(cex_of.get(dev, set()) & hit)
        ctx.observations.append(
            "%s: %s (model: %s refuted for the code as it is, satisfied by the repaired design; %s on the real plugin: %d recorded "
            "scenario(s) show it%s)" % (dev, what, inv, "reproduced" if hit else "NOT reproduced", len(hit),
                                        ", among them TLC's counterexample" if cex_hit else ""))


def replay(ctx, obj):
    s = obj["scenario"]
    if not s:
        raise vlib.Inconclusive("replay object without a scenario")
    binp = ctx.build("bkprun")
    lines = execute(ctx, binp, [s], "replay")
    plines, viol, drift, _obs = judge(ctx, [s], lines, "replay")
    ctx.traces = 1
    report(ctx, [s], plines, viol, drift)
