"""X07 - beyond the listed properties: the EPN partition lifecycle the ODC integration plugin drives on ODC
(core/integration/odc: plugin.go CallStack + handlers.go - each hook a fixed sequence of ODC gRPC calls: PartitionInitialize = Run;
Configure = SetProperties, Configure; Start = SetProperties, Start; Stop = SetProperties, Stop; Reset; PartitionTerminate = Terminate,
Shutdown; EnsureCleanup = Status + parallel Shutdowns of orphans and of the caller; EnsureCleanupLegacy = Reset, Terminate, Shutdown -,
the polling goroutine queryPartitionStatus -> cachedStatus -> NotifyIntegratedServiceEvent(OdcPartitionStateChangeEvent), GetData) and
ODC's own partition table.

Model: spec/OdcRun.tla, one action per gRPC call (outcome none | rc | err | lost), per device crash, per poll snapshot and per cache
replacement; exhaustive with TLC.  Properties: a hook whose calls all succeeded succeeds; a failed call fails the hook and ends the
sequence; PartitionTerminate / a cleanup that succeeded leaves nothing of the environment in ODC; Start only for a partition that was
READY when the hook began; Shutdown at most once per session; every request names the caller's partition (a cleanup: or an orphan's)
and the current run; state changes are reported for the right partition, once, and an ERROR is never missed; the cache is what the
last poll answered.  The repaired design satisfies all; for the code as it is TLC refutes six, each replayed on the real plugin and
reported as an OBSERVATION when the recorded run shows it.

Binding: behaviours of the model (tlc -simulate on spec/OdcRunGen.tla, seeded, plus TLC's counterexamples) run on the REAL plugin
(harness/cmd/odcrun: odc.NewPlugin + Init against an in-process fake ODC server speaking the real odc.proto, in which every request
parks until the scenario lets it take effect; the hooks are the plugin's own CallStack functions with real *callable.Call values; the
notifications are read from the real environment manager's incoming channel); requests, returns, ODC's table, GetData and the
notifications are recorded and validated by TLC against spec/OdcRunTrace.tla in one pass: strict conformance (DRIFT) and the
properties as soft invariants on the recorded facts (VIOL).

Not a listed property: not registered in MANIFEST.json; evidence goes to evidence/extra/X07.json."""
import json
import os
import shutil
import subprocess
import time

import vlib

LEVEL = "model_checking"

CODE = ["Code_StopIgnoresSetProperties", "Code_CleanupClobbersErrors", "Code_NoStateCheck", "Code_CleanupShutsDownAgain",
        "Code_FailedPollWipesCache", "Code_FirstSightingSilent"]
HOLD = "TypeOK CallsOkImpliesOk TerminateLeavesNothing RequestNamesCaller NotifyOnlyOnChange CacheFaithful"
ALL = (HOLD + " OkImpliesCallsOk StopOkImpliesPropsSet FailStopsSequence CleanupLeavesNothing StartOnlyReady ShutdownAtMostOnce "
       "NotifyAcrossFailedPoll NotifyOnFirstSighting")

DEV = {
    "Code_StopIgnoresSetProperties": ("StopOkImpliesPropsSet",
        "handleStop logs a failed SetProperties ('will continue with odc.Stop') and goes on: the Stop hook sends Stop after a failed call "
        "of its sequence and succeeds although run_end_time_ms never reached the devices (by design, per the comment)"),
    "Code_CleanupClobbersErrors": ("CleanupLeavesNothing",
        "handleCleanup / handleCleanupLegacy drop every error after the Status call ('We clobber the error because nothing can be done for "
        "a failed cleanup'): EnsureCleanup succeeds although its Shutdown was refused or failed and the partition is still there"),
    "Code_NoStateCheck": ("StartOnlyReady",
        "no hook consults the state of the partition (handleGetState is never called, the cache is only for the GUI): after a Configure that "
        "failed in a non-critical hook, or after a crash, Start is sent for a partition that is not READY (ODC refuses it)"),
    "Code_CleanupShutsDownAgain": ("ShutdownAtMostOnce",
        "EnsureCleanup adds the caller's partition 'just in case' and EnsureCleanupLegacy asks nobody: after a PartitionTerminate that shut "
        "the session down, the cleanup sends Shutdown for it again"),
    "Code_FailedPollWipesCache": ("NotifyAcrossFailedPoll",
        "when the poller's Status call fails, queryPartitionStatus replaces cachedStatus by an empty non-SUCCESS answer; the next poll has "
        "nothing to compare with: a partition that was RUNNING before the failed poll and is in ERROR after it is never reported to the "
        "environment manager (the run is not stopped), and GetData shows nothing in between"),
    "Code_FirstSightingSilent": ("NotifyOnFirstSighting",
        "a partition the cache does not hold yet is recorded without any event: one that is already in ERROR at its first sighting (created "
        "and crashed between two polls, 3 s apart by default) is never reported to the environment manager"),
}

E1 = '{"e1"}'
E2 = '{"e1", "e2"}'


def cfg_model(envs, maxrun, maxfaults, maxown, maxpolls, maxclean, code, invs, spec="Spec"):
    c = {k: (code if isinstance(code, bool) else code.get(k, True)) for k in CODE}
    return ("SPECIFICATION %s\nCONSTANTS\n  Envs = %s\n  MaxRun = %d\n  MaxFaults = %d\n  MaxOwn = %d\n  MaxPolls = %d\n  MaxCleanups = %d\n"
            "%s%sCHECK_DEADLOCK FALSE\n"
            % (spec, envs, maxrun, maxfaults, maxown, maxpolls, maxclean,
               "".join("  %s = %s\n" % (k, "TRUE" if v else "FALSE") for k, v in c.items()),
               ("INVARIANTS %s\n" % invs) if invs else ""))


def split_witnesses(out):
    """Output of `tlc -continue`: {invariant: [behaviour, ...]}, one behaviour per reported violation."""
    import re
    import tlaval
    parts = re.split(r"(?m)^Error: Invariant ([A-Za-z0-9_]+) is violated\.", out)
    res = {}
    for k in range(1, len(parts), 2):
        beh = tlaval.parse_counterexample(parts[k + 1])
        if beh:
            res.setdefault(parts[k], []).append(beh)
    return res


def tlc_parallel(ctx, jobs, par=6, workers=2, timeout=900):
    """Run several exhaustive TLC jobs side by side (each in its own scratch directory). jobs: list of (label, module, cfg_text, flags).
    Returns {label: TlcResult}; accounts states / model_runs like ctx.model_check."""
    res = {}
    pend = list(jobs)
    running = []
    e = dict(os.environ)
    e["JAVA_TOOL_OPTIONS"] = (e.get("JAVA_TOOL_OPTIONS", "") + " -Xss64m -Xmx4g").strip()
    try:
        return _tlc_parallel(ctx, pend, running, res, e, par, workers, timeout)
    finally:
        for it in running:      # an error above: do not leave the other jobs behind (timeout forwards the signal to TLC)
            it[2].terminate()
        for it in running:
            try:
                it[2].wait(timeout=30)
            except subprocess.TimeoutExpired:
                it[2].kill()
            it[3].close()


def _tlc_parallel(ctx, pend, running, res, e, par, workers, timeout):
    while pend or running:
        while pend and len(running) < par:
            label, module, cfg, flags = pend.pop(0)
            ctx.ntlc += 1
            d = os.path.join(ctx.work, "tlc%d" % ctx.ntlc)
            os.makedirs(d)
            for f in ("OdcRun.tla", "OdcRunGen.tla"):
                shutil.copy(os.path.join(vlib.SPEC, f), d)
            with open(os.path.join(d, "run.cfg"), "w") as fh:
                fh.write(cfg)
            out = open(os.path.join(d, "out.txt"), "w")
            p = subprocess.Popen(["timeout", str(timeout), "tlc", "-workers", str(workers), "-metadir", os.path.join(d, "md"),
                                  "-config", "run.cfg"] + flags + [module + ".tla"], cwd=d, env=e, stdout=out, stderr=subprocess.STDOUT)
            running.append((label, module, p, out, d, time.time()))
        time.sleep(0.2)
        for it in list(running):
            label, module, p, out, d, t0 = it
            if p.poll() is None:
                continue
            running.remove(it)
            out.close()
            with open(os.path.join(d, "out.txt")) as fh:
                text = fh.read()
            r = vlib.TlcResult(text, p.returncode, time.time() - t0)
            r.dir = d
            if p.returncode == 124:
                raise vlib.Inconclusive("TLC timeout after %ss on %s (%s)" % (timeout, module, label))
            if "java.lang.OutOfMemoryError" in text or "StackOverflowError" in text:
                raise vlib.Inconclusive("TLC resource failure on %s (%s)" % (module, label))
            if r.crashed or (r.generated == 0 and not r.violated):
                ctx.save_debug(r, "tlc_%s_%s.txt" % (module, label))
                raise vlib.Inconclusive("TLC failed on %s (%s, rc=%d): %s" % (module, label, r.rc, vlib.tail(r.out)))
            ctx.states += r.distinct
            ctx.transitions += r.generated
            result = ("violated:" + ",".join(sorted(set(r.violated))) if r.violated else
                      ("ok" if r.no_error else ("deadlock" if r.deadlock else "?")))
            ctx.model_runs.append({"module": module, "cfg": label, "distinct": r.distinct, "generated": r.generated, "result": result,
                                   "wall_s": round(r.wall, 1)})
            ctx.log("model %s/%s: %d distinct, %d generated, %s (%.1fs)" % (module, label, r.distinct, r.generated, result, r.wall))
            res[label] = r
    return res



# ---------- behaviours -> scenarios ----------
def q(s):
    return s.strip().strip('"')


def setsize(x):
    if isinstance(x, dict) and "$set" in x:
        return len(x["$set"])
    return len(x) if isinstance(x, (list, set, tuple)) else 0


def beh_to_scenario(sid, beh, origin):
    steps = []
    for (name, args, st) in beh[1:]:
        name = name[2:] if name.startswith("G_") else name
        a = [q(x) for x in args]
        if name in ("HookCall", "NextCall"):
            e = a[0]
            h = (st.get("hook") or {}).get(e) or {}
            n = 1
            fn = a[1] if name == "HookCall" else None
            if h.get("fn", "none") in ("none", '"none"'):
                n = 0                                   # the hook returns on this call
            elif q(str(h.get("fn"))) == "EnsureCleanup" and not h.get("todo"):
                n = setsize(h.get("tgts"))              # the parallel Shutdowns the Status answer leads to
            if name == "HookCall":
                steps.append({"k": "hook", "e": e, "fn": fn, "f": a[2], "c": a[3], "new": True, "n": n})
            else:
                fn = [x["fn"] for x in steps if x["k"] == "hook" and x["e"] == e and x["new"]][-1]
                steps.append({"k": "hook", "e": e, "fn": fn, "f": a[1], "c": a[2], "new": False, "n": n})
        elif name == "CleanShutdown":
            steps.append({"k": "shut", "e": a[0], "p": a[1], "f": a[2], "c": a[3]})
        elif name == "Fail":
            steps.append({"k": "own", "p": a[0]})
        elif name == "NewRun":
            rn = st.get("rn") or {}
            steps.append({"k": "ecs", "e": a[0], "fn": "NewRun", "r": int(rn.get(a[0], rn.get('"%s"' % a[0])))})
        elif name in ("GoError", "Destroy"):
            steps.append({"k": "ecs", "e": a[0], "fn": name})
        elif name == "PollQuery":
            steps.append({"k": "pollq", "f": a[0]})
        elif name == "PollStore":
            steps.append({"k": "polls"})
        else:
            raise vlib.Inconclusive("behaviour with an action the harness cannot impose: %s" % name)
    return {"id": sid, "envs": ["e1", "e2"], "steps": steps, "origin": origin}


def nontrivial(s):
    return any(st.get("f", "none") != "none" or st["k"] in ("own", "polls", "shut") for st in s["steps"])


def canon(s):
    return json.dumps(s["steps"], sort_keys=True)


def cfg_trace():
    return cfg_model(E2, 1000000, 1000000, 1000000, 1000000, 1000000, True, None, spec="TraceSpec") + "INVARIANT PrintEnd\n"


def execute(ctx, binp, scenarios, name, shards=1):
    parts = [scenarios[i::shards] for i in range(shards)]
    procs = []
    for i, part in enumerate(parts):
        if not part:
            continue
        sf, tf = ctx.path("scn_%s_%d.ndjson" % (name, i)), ctx.path("run_%s_%d.ndjson" % (name, i))
        ctx.write_ndjson(sf, [{k: v for k, v in s.items() if k != "origin"} for s in part])
        procs.append((subprocess.Popen([binp, "-scenarios", sf, "-trace", tf], cwd=ctx.work, stdout=subprocess.PIPE,
                                       stderr=subprocess.STDOUT, text=True), tf))
    lines = []
    for p, tf in procs:
        try:
            out, _ = p.communicate(timeout=600)
        except subprocess.TimeoutExpired:
            p.kill()
            raise vlib.Inconclusive("odcrun timeout")
        if p.returncode != 0:
            raise vlib.Inconclusive("odcrun failed rc=%d: %s" % (p.returncode, vlib.tail(out, 20)))
        ctx.log("odcrun %s: %s" % (name, out.strip()))
        lines += ctx.read_ndjson(tf)
    return lines


def project(lines):
    """Join a hook's request line (or its Skip line) with the Ret line that follows it."""
    out = []
    i = 0
    while i < len(lines):
        ln = dict(lines[i])
        ln.pop("seq", None)
        nxt = lines[i + 1] if i + 1 < len(lines) else {}
        joins = ln["ev"] == "Skip" or (ln["ev"] == "Req" and ln.get("src") == "hook")
        if joins and nxt.get("ev") == "Ret" and nxt.get("e") == ln.get("e") and nxt.get("scn") == ln.get("scn"):
            ln.update({"ret": True, "failed": nxt["failed"], "c": nxt["c"], "reason": nxt.get("reason", "")})
            i += 2
        else:
            if ln["ev"] in ("Req", "Skip"):
                ln.update({"ret": False, "failed": False, "c": "go"})
            i += 1
        if ln["ev"] == "Req":
            ln.setdefault("list", {})
        out.append(ln)
    return out


def judge(ctx, scenarios, lines, what):
    plines = project(lines)
    tf = ctx.path("trace_%s.ndjson" % what)
    ctx.write_ndjson(tf, plines)
    viol, drift, r = ctx.validate("OdcRunTrace", None, tf, cfg_text=cfg_trace(), timeout=1500)
    return plines, viol, drift, r.records("OBS")


def report(ctx, scenarios, lines, viol, drift):
    by_id = {s["id"]: s for s in scenarios}

    def trace_of(sid):
        return [x for x in lines if x.get("scn") == sid]

    for d in drift:
        ctx.drift.append({"scn": d[1], "line": d[2], "origin": (by_id.get(d[1]) or {}).get("origin"), "detail": str(d[3])[:300]})
    told = set()
    for v in viol:
        sid = v[2]
        if (v[1], sid) in told:     # one report per property and scenario
            continue
        told.add((v[1], sid))
        ctx.add_violation({"inv": v[1], "scn": sid, "line": v[3], "origin": (by_id.get(sid) or {}).get("origin"), "detail": str(v[4])[:300]},
                          replay_obj={"scenario": by_id.get(sid), "trace": trace_of(sid)})


def attribute(obs):
    name, detail = obs[1], obs[4]
    if name == "OkImpliesCallsOk":
        return ["Code_StopIgnoresSetProperties"] if detail[1] == "Stop" else []
    return {"FailStopsSequence": ["Code_StopIgnoresSetProperties"], "CleanupLeavesNothing": ["Code_CleanupClobbersErrors"],
            "StartOnlyReady": ["Code_NoStateCheck"], "ShutdownAtMostOnce": ["Code_CleanupShutsDownAgain"],
            "NotifyAcrossFailedPoll": ["Code_FailedPollWipesCache"], "NotifyOnFirstSighting": ["Code_FirstSightingSilent"]}.get(name, [])


def run(ctx):
    quick = ctx.tier == "quick"
    ctx.assumptions += [
        "ODC is the fake of harness/cmd/odcrun: partition -> none | IDLE | READY | RUNNING | EXITING | ERROR; Run: none -> IDLE; Configure: "
        "IDLE -> READY; Start: READY -> RUNNING; Stop: RUNNING -> READY; Reset: READY -> IDLE; Terminate: IDLE -> EXITING; Shutdown: "
        "anything -> none; SetProperties needs IDLE / READY / RUNNING; anything else is refused (status ERROR + error); a device may crash "
        "(-> ERROR); faults: refusal, gRPC error without effect, gRPC error after the effect",
        "the environment calls the hooks in the order PartitionInitialize, Configure, Start, Stop, (Start, Stop,) Reset, "
        "PartitionTerminate; a failed hook lets it go on or sends it to ERROR; the cleanup hooks at any time between hooks; a destroyed "
        "environment leaves the manager's map, its partition - if any - becomes an orphan",
        "left out: ObjectStack (GenerateEPNWorkflowScript / GenerateEPNTopologyFullname), the contents of topology / script / plugin / "
        "resources / properties (the driver always supplies valid ones: pdp_config_option = Manual XML), device lists and the "
        "deviceStateChanged events (GetState is always answered), ecsState, PreDeploymentCleanup (= EnsureCleanup without the caller), "
        "hook deadlines (__call_timeout = 1h); the environment manager's reaction to the notification (it needs real environments) - the "
        "check stops at the event arriving on the manager's incoming channel",
        "requests of one goroutine at a time are in motion, except the parallel Shutdowns of one EnsureCleanup, which are released one by one",
    ]
    ctx.rule = ("scenario = a behaviour of OdcRunGen (tlc -simulate, seeded) or a TLC counterexample of OdcRun, run step by step on the real "
                "plugin; non-trivial = contains a fault, a crash, a completed poll or a cleanup Shutdown; distinct = distinct step sequences")

    # ---------- 1. exhaustive ----------
    wit = " ".join("W_" + inv for (inv, _w) in DEV.values())
    if quick:
        jobs = [("asis-1env", "OdcRun", cfg_model(E1, 1, 1, 1, 3, 1, True, HOLD + " " + wit), ["-continue"]),
                ("repaired-1env", "OdcRun", cfg_model(E1, 1, 1, 1, 3, 1, False, ALL), []),
                ("asis-2env", "OdcRun", cfg_model(E2, 1, 0, 0, 1, 1, True, HOLD), [])]
    else:
        jobs = [("asis-1env", "OdcRun", cfg_model(E1, 2, 2, 1, 3, 2, True, HOLD + " " + wit), ["-continue"]),
                ("repaired-1env", "OdcRun", cfg_model(E1, 2, 2, 1, 3, 2, False, ALL), []),
                ("asis-2env", "OdcRun", cfg_model(E2, 1, 1, 0, 1, 1, True, HOLD), [])]
        for dev, (inv, _what) in DEV.items():
            jobs.append(("only:" + dev, "OdcRun", cfg_model(E1, 1, 1, 1, 3, 1, {dev: False}, inv), []))
    res = tlc_parallel(ctx, jobs, par=3 if quick else 6, workers=4, timeout=1500)
    for label, r in res.items():
        bad = [v for v in r.violated if not (label == "asis-1env" and v.startswith("W_"))]
        if bad or r.deadlock or (label != "asis-1env" and not r.no_error):
            ctx.save_debug(r, "tlc_OdcRun_%s.txt" % label.replace(":", "_"))
            raise vlib.Inconclusive("model check %s: %s - the specification does not describe what it claims" %
                                    (label, ",".join(bad) or vlib.tail(r.out, 5)))
    witnesses = split_witnesses(res["asis-1env"].out)
    for dev, (inv, _what) in DEV.items():
        if not witnesses.get("W_" + inv):
            raise vlib.Inconclusive("the model of the code as it is no longer refutes %s (%s): the specification changed?" % (inv, dev))
    ctx.extra["refuted_as_is"] = sorted(inv for (inv, _w) in DEV.values())

    # ---------- 2. scenarios ----------
    scenarios, seen = [], set()

    def add(s):
        k = canon(s)
        if k in seen or not s["steps"]:
            return None
        seen.add(k)
        s["id"] = len(scenarios) + 1
        scenarios.append(s)
        return s["id"]

    cex_of = {}
    for dev, (inv, _what) in DEV.items():
        for beh in sorted(witnesses["W_" + inv], key=len)[:2]:
            sid = add(beh_to_scenario(0, beh, "model-counterexample:%s" % inv))
            if sid:
                cex_of.setdefault(dev, set()).add(sid)
    nsim = 300 if quick else 4000
    gen = cfg_model(E2, 3, 2, 2, 6, 3, True, None, spec="GenSpec")
    for b in ctx.simulate("OdcRunGen", None, nsim, 45, cfg_text=gen, seed=ctx.seed * 7919 + 19):
        add(beh_to_scenario(0, b, "generated"))
    for s in scenarios:
        ctx.count_case(canon(s), nontrivial=nontrivial(s))

    # ---------- 3. run on the real plugin, 4. validate ----------
    binp = ctx.build("odcrun")
    lines = execute(ctx, binp, scenarios, "all", shards=4 if quick else 8)
    ctx.traces = len(scenarios)
    ctx.exhaustive = False
    plines, viol, drift, obs = judge(ctx, scenarios, lines, "all")
    first = scenarios[0]
    ctx.sample({"scenario": first, "trace": [x for x in plines if x.get("scn") == first["id"]][:14]})
    report(ctx, scenarios, plines, viol, drift)

    # ---------- 5. what TLC refutes for the code as it is, reproduced on the real plugin ----------
    shown = {}
    for o in obs:
        for dev in attribute(o):
            shown.setdefault(dev, set()).add(o[2])
    ctx.extra["deviations_reproduced"] = {d: len(v) for d, v in shown.items()}
    drifted = {d["scn"] for d in ctx.drift}
    for dev, (inv, what) in DEV.items():
        hit = shown.get(dev, set()) - drifted
        cex_hit = bool(cex_of.get(dev, set()) & hit)
        ctx.observations.append(
            "%s: %s (model: %s refuted for the code as it is, satisfied by the repaired design; %s on the real plugin: %d recorded "
            "scenario(s) show it%s)" % (dev, what, inv, "reproduced" if hit else "NOT reproduced", len(hit),
                                        ", among them TLC's counterexample" if cex_hit else ""))


def replay(ctx, obj):
    s = obj["scenario"]
    if not s:
        raise vlib.Inconclusive("replay object without a scenario")
    binp = ctx.build("odcrun")
    lines = execute(ctx, binp, [s], "replay")
    plines, viol, drift, _obs = judge(ctx, [s], lines, "replay")
    ctx.traces = 1
    report(ctx, [s], plines, viol, drift)
