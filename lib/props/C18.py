"""C18 - a restarted core kills what it no longer owns, and only that.

Model: spec/Restart.tla (exhaustive, safety + liveness under fairness). Scenarios are behaviours of
spec/RestartGen.tla (tlc -simulate; the schedules the whole-core simulation can impose) and TLC
counterexamples; each is replayed on the REAL core with harness/cmd/coresim (+ coresim/ext_c18.go):
crash = SIGKILL of a child-process core held at a master-side gate, restart against the same simulated
Consul and Mesos master; reconnection = the master closes the event stream of an in-process core (hook
records available); lost KILL call = a held KILL answered 202-and-forgotten / 503; overlapping requests = a
teardown held at its KILL calls (or parked at the roster write-back) while another environment is created. The recorded runs are validated by TLC against spec/RestartTrace.tla (strict
conformance with the model + monitor of the property formulas over the recorded facts).
"""
import json
import os

import coresim as cs
import vlib

DEVS = {"Code_ReconcileKillIgnoresRoster": "reconcile-kills-owned-tasks",
        "Code_ReconcileUnawareOfLaunching": "reconcile-kills-task-being-deployed",
        "Code_RosterRewriteNotAtomic": "roster-rewrite-loses-concurrent-append"}
DEV_PROP = {"Code_ReconcileKillIgnoresRoster": "NoFriendlyFireRostered",
            "Code_ReconcileUnawareOfLaunching": "NoFriendlyFireLaunching",
            "Code_RosterRewriteNotAtomic": "NoFriendlyFireForgotten"}
TRANSIENT = {"deploying", "launched", "locked", "deployed", "configuring", "starting", "releasing", "rewriting", "killing"}
ROSTER_HOOK = "task.roster.update"   # verifhook point at the entry of roster.updateTasks (work/patches/C18-hooks.patch)


def has_roster_hook():
    try:
        with open(os.path.join(vlib.REPO, "core", "task", "roster.go")) as fh:
            return ROSTER_HOOK in fh.read()
    except OSError:
        return False

LAUNCHPH = {"launched", "locked", "deployed"}
SAFETY = "SameIdentity IdentityStable"
# RestartGen "invariants" whose shortest counterexamples are scenario shapes: leftovers + a KILL accepted and lost + the
# round that is due; the same with a KILL refused while other leftovers keep the core talking; the same with an environment
# deployed by the new life between the lost KILL and the reconnection; a deployment completed while a teardown was held
# at its KILL calls, then a reconnection
PROBES = ["ProbeLostKill", "ProbeRefusedKill", "ProbeLostKillDeployed", "ProbeDeployDuringAnswer", "ProbeOverlap",
          "ProbeErrorEvent", "ProbeErrorEventLater", "ProbeCleanupNamed"]
WORKERS = max(4, vlib.NCPU // 2)


def devs(ctx):
    return {c: bool(ctx.deviation_open(k)) for c, k in DEVS.items()}


def consts(tasks, envs, crash, drop, dv, lost=1):
    lines = ["  Tasks = {%s}" % ", ".join('"%s"' % t for t in tasks), "  Envs = {%s}" % ", ".join('"%s"' % e for e in envs),
             "  MaxCrash = %d" % crash, "  MaxDrop = %d" % drop, "  MaxLost = %d" % lost]
    for c in DEVS:
        lines.append("  %s = %s" % (c, "TRUE" if dv[c] else "FALSE"))
    return "\n".join(lines)


def cfg_model(cs_, props, invs="TypeOK TasksUnderIdentity RosterOfThisLife"):
    return "SPECIFICATION Spec\nCONSTANTS\n%s\nINVARIANTS %s\nPROPERTIES %s\nCHECK_DEADLOCK FALSE\n" % (cs_, invs, props)


# Core options the property must be indifferent to: the identity is kept and leftovers are killed whatever the agent
# checkpointing flag, the (positive) failover timeout, the framework capabilities. The generator draws one per scenario;
# every core of the scenario (all its lives) is started with them. (A failover timeout of 0 is not among them: Mesos then
# removes the framework and its tasks when the scheduler disconnects, and the scheduler library subscribes without an id.)
CORE_OPTS = [[],
             ["--mesosCheckpoint=false"],
             ["--mesosFailoverTimeout=2h"],
             ["--mesosCheckpoint=false", "--mesosFailoverTimeout=45m", "--mesosGpuClusterCompat=true"]]


def cfg_gen(cs_, starts="{6, 9, 12, 14, 16, 18, 20, 23, 26, 30, 34}", gaps="{3, 8, 13, 18, 24}", extra="", opts=None):
    opts = list(range(len(CORE_OPTS))) if opts is None else opts
    return ("SPECIFICATION GenSpec\nCONSTANTS\n%s\n  FaultStarts = %s\n  FaultGaps = %s\n  CoreOpts = {%s}\n%sCHECK_DEADLOCK FALSE\n"
            % (cs_, starts, gaps, ", ".join(str(o) for o in opts), extra))


def cfg_trace(dv):
    return "SPECIFICATION TraceSpec\nCONSTANTS\n%s\nINVARIANT PrintEnd\nCHECK_DEADLOCK FALSE\n" % consts(
        ["k%d" % i for i in range(1, 9)], ["e1", "e2"], 9, 9, dv, 9)


# ------------------------------------------------------------------------------------------------
# behaviour of the model -> scenario for the whole-core simulation

def tset(v):
    return set(v["$set"]) if isinstance(v, dict) and "$set" in v else set(v or [])


def norm(beh):
    out = []
    for (a, args, st) in beh:
        if a.startswith("G_"):
            a = a[2:]
        how = ""
        if a == "StreamError":
            a, how = "DropConnection", "error"   # for the driver a disconnection like the others, brought about by an ERROR event
        out.append({"act": a, "arg": (args[0].strip().strip('"') if args else None), "st": st, "how": how})
    return out


def kill_cond(st, t, dv):
    if dv["Code_ReconcileKillIgnoresRoster"]:
        return True
    launching = set()
    for e in st["pend"]:
        launching |= tset(st["pend"][e])
    return t not in tset(st["roster"]) and (dv["Code_ReconcileUnawareOfLaunching"] or t not in launching)


class Undrivable(Exception):
    pass


class Conv:
    """Turns (a prefix of) a model behaviour into driver steps."""

    roster_hook = False   # the tree under test has the hook point ROSTER_HOOK

    def __init__(self, sid, acts, dv, seed, origin):
        self.sid, self.acts, self.dv, self.seed, self.origin = sid, acts, dv, seed, origin
        self.owed = False       # a KILL call has been lost: the disconnection that is due has not come yet ("driver" | "client")
        self.client_drop = False
        self.restarted = False    # the core has been killed and started again in this scenario
        self.round = (0, 0)       # updates / KILL calls of the reconciliation round under way, as the model has them
        self.appended = 0         # tasks written to the roster so far (in-process core: hook point task.roster.appended)
        self.steps, self.files = [], {}
        self.child = any(a["act"] == "Crash" for a in acts)
        self.op = None          # outstanding asynchronous request
        self.held = {}          # master-side gates currently armed: point -> True
        self.hookgate = False
        self.nrec = 0
        self.ncreate = 0
        self.quiesce = None     # "restart" | "reconnect" pending
        self.booted = False
        self.down = False
        self.points = []
        self.doomed = False
        self.nasync = 0
        self.after_crash = False
        self.fresh_life = False   # restarted, and no environment requested of the new life yet
        self.cur_st = None

    # -- helpers
    def emit(self, **st):
        self.steps.append(st)

    def flush(self, st, final=False):
        """recovery has settled: observe before the driver does anything else"""
        q, self.quiesce = self.quiesce, None
        if q is None:
            return
        if not final and (tset(st["rq"]) or tset(st["rcv"])):
            # the model lets the core go on while reconciliation updates are still queued; the driver cannot
            raise Undrivable("a driver step before the recovery has settled")
        # the core has acknowledged the updates of the reconciliation answer and sent the KILL calls the model expects:
        # how long that takes depends on the machine, so the driver waits for the calls, not for a pause
        upd, kills = self.round
        self.round = (0, 0)
        if upd:
            self.emit(do="c18_waitacks", n=upd, timeout_ms=10000)
        if kills:
            self.emit(do="c18_waitkills", n=kills, timeout_ms=6000)
        if self.fresh_life:
            self.emit(do="c18_waitdead", timeout_ms=6000)
            self.emit(do="settle", ms=150)
            self.emit(do="c18_fid")
            self.emit(do="snapshot")
        else:
            self.emit(do="settle", ms=200)
            if self.restarted and not self.op and all(ph not in TRANSIENT for ph in st["env"].values()):
                # a later life, nothing in progress: whatever the master has alive must be in the roster by now
                self.emit(do="c18_waitorphans", timeout_ms=6000)
            self.emit(do="snapshot")
            for e in sorted(st["env"]):
                if st["env"][e] in ("configured", "running"):
                    self.emit(do="poll", env=e, until=["ERROR"], timeout_ms=700)
                elif st["env"][e] == "error" and not (self.op and self.op["env"] == e):
                    self.emit(do="poll", env=e, until=["ERROR"], timeout_ms=4000)
                    self.emit(do="snapshot")

    def lookahead(self, i, e, done_act):
        """What ends the request started at i for env e: ('done', j) | ('fault', j) | ('end', None)."""
        for j in range(i + 1, len(self.acts)):
            a = self.acts[j]
            if a["act"] == done_act and a["arg"] == e:
                return "done", j
            if a["act"] in ("Crash", "DropConnection"):
                return "fault", j
            if a["act"] == "NewEnv" and a["arg"] != e:
                return "overlap", j   # another environment is requested while this request is held
        return "end", None

    def will_err(self, i, e):
        for j in range(i + 1, len(self.acts)):
            a = self.acts[j]
            if a["act"] == "EnvError" and a["arg"] == e:
                return True
            if a["act"] in ("ConfigureDone", "StartDone", "KillSend") and a["arg"] == e:
                return False
        return False

    def ntasks_for(self, i, e):
        for j in range(i + 1, len(self.acts)):
            a = self.acts[j]
            if a["act"] == "Launch" and len(tset(a["st"]["etasks"][e])) > 0:
                return len(tset(a["st"]["etasks"][e]))
            if a["act"] == "Crash":
                break
        return 1 + (self.seed + self.sid) % 2

    def new_wf(self, n):
        self.ncreate += 1
        roles = ""
        for j in range(1, n + 1):
            cls = "c18s%dn%dt%d" % (self.sid, self.ncreate, j)
            self.files["tasks/%s.yaml" % cls] = cs.task_class(cls)
            roles += cs.role_task("t%d" % j, cls, host="h1")
        wf = "c18w%dn%d" % (self.sid, self.ncreate)
        self.files["workflows/%s.yaml" % wf] = cs.workflow(wf, roles)
        return wf

    def arm(self, point, n=1, kind=""):
        if point in self.held:
            raise Undrivable("gate %s already in use" % point)
        if point.startswith("HOOK:"):
            if self.child or not (self.roster_hook or point != "HOOK:" + ROSTER_HOOK):
                raise Undrivable("no hook point %s here" % point)
            self.emit(do="gate", point=point[5:])
        else:
            self.emit(do="c18_arm", point=point, n=n, kind=kind)
        self.held[point] = True

    def release(self, point, kind="pass"):
        if self.held.pop(point, None):
            if point.startswith("HOOK:"):
                self.emit(do="release", point=point[5:])   # the one parked there (later arrivals were let through)
                self.emit(do="settle", ms=60)
            else:
                self.emit(do="c18_release", point=point, kind=kind)

    def fault_need(self, i, e, done_act, gbp):
        """The next fault that interrupts the request of env e after step i: (index, gates, hook) or None."""
        what, j = self.lookahead(i, e, done_act)
        if what not in ("fault", "overlap"):
            return None
        ph = self.acts[j - 1]["st"]["env"][e]
        gates = gbp.get(ph)
        if gates is None:
            raise Undrivable("no hold point in phase %s" % ph)
        hook = what == "fault" and ph == "locked" and self.acts[j]["act"] == "DropConnection" and not self.child
        return j, list(gates), hook

    def start_async(self, i, e, st, kind, done_act, gates_by_phase, **call):
        """Issue a request; asynchronously with gates when a fault interrupts it."""
        ntasks0 = call.pop("_ntasks", None)
        need = self.fault_need(i, e, done_act, gates_by_phase)
        if need is None:
            self.emit(**call)
            return
        j, gates, hook = need
        ntasks = ntasks0 or len(tset(self.acts[j - 1]["st"]["etasks"][e])) or 1
        for g in gates:
            self.arm(g)
        if hook:
            self.emit(do="gate", point="task.lock")
            self.hookgate = True
        self.nasync += 1
        caller = "A%d" % self.nasync
        doomed = self.will_err(i, e)
        self.op = {"kind": kind, "env": e, "caller": caller, "done": done_act, "gbp": gates_by_phase, "ntasks": ntasks, "doomed": doomed}
        self.emit(caller=caller, timeout_ms=6000 if doomed else 60000, **call)

    def wait_op_held(self, i):
        """The fault at step i interrupts the outstanding request: wait until the core sits at the hold point of its phase."""
        op = self.op
        ph = self.acts[i - 1]["st"]["env"][op["env"]]
        gates = op["gbp"].get(ph)
        if gates is None or any(g not in self.held for g in gates):
            raise Undrivable("the request cannot be held in phase %s" % ph)
        if self.hookgate:
            self.emit(do="waitgate", point="task.lock", timeout_ms=25000)
        for g in gates:
            if g.startswith("HOOK:"):
                self.emit(do="waitgate", point=g[5:], timeout_ms=25000)
                self.emit(do="c18_ungate_keep", point=g[5:])   # whoever comes by later (another request's cleanup) passes
                continue
            n = op["ntasks"] if (g == "LAUNCH" or g.startswith("MESSAGE:")) else 1
            self.emit(do="c18_waitgate", point=g, n=n, timeout_ms=25000)
        if "LAUNCH" in gates and not self.hookgate:
            if not self.child:
                # the roster is written right after the ACCEPT: wait for the hook point, not for a pause
                self.emit(do="c18_waitarrived", point="task.roster.appended", n=self.appended, timeout_ms=10000)
            self.emit(do="settle", ms=100)
        return gates

    def op_release(self, i, g, kind="pass"):
        """Let the request go past hold point g; the hold point of the next fault that interrupts it is armed first."""
        keep = []
        if self.op:
            need = self.fault_need(i, self.op["env"], self.op["done"], self.op["gbp"])
            if need:
                keep = need[1]
                for ng in keep:
                    if ng not in self.held:
                        self.arm(ng)
                if need[2] and not self.hookgate:
                    raise Undrivable("cannot park the deployment again")
        if g not in keep:
            self.release(g, kind)

    def await_op(self, last=False):
        op, self.op = self.op, None
        if op is None:
            return
        self.emit(do="await", caller=op["caller"], timeout_ms=7000 if op["doomed"] else 65000)

    # -- the walk
    def convert(self):
        acts = self.acts
        # crash while the KILL calls of a reconciliation are being sent: the gate must be armed before that reconciliation starts
        arm_kill_at = {}
        for j, a in enumerate(acts):
            pj = acts[j - 1]["st"]
            if a["act"] == "Crash" and (tset(pj["rcv"]) or tset(pj["kq"])):
                r = max(k for k in range(j) if acts[k]["act"] == "Reconcile")
                arrived = sum(1 for k in range(r, j) if acts[k]["act"] == "KillArrives")
                if not tset(pj["kq"]) and not any(kill_cond(pj, t, self.dv) for t in tset(pj["rcv"])):
                    raise Undrivable("crash during a reconciliation with nothing left to kill")
                p = [k for k in range(r) if acts[k]["act"] in ("Crash", "DropConnection")]
                if not p or any(acts[k]["act"] in ("KillLost", "KillRefused") for k in range(r, j)):
                    raise Undrivable("crash during the first reconciliation / after a refused KILL")
                arm_kill_at[p[-1]] = (arrived + 1, j, "")
        # a KILL call of a reconciliation refused by the master: the n-th KILL of that round is held, then dropped
        lost_at = {}
        for j, a in enumerate(acts):
            if a["act"] in ("KillLost", "KillRefused"):
                r = max(k for k in range(j) if acts[k]["act"] == "Reconcile")
                sends = [acts[k]["arg"] for k in range(r, j) if acts[k]["act"] == "KillOnReconcile"]
                p = [k for k in range(r) if acts[k]["act"] in ("Crash", "DropConnection")]
                if (not p or p[-1] in arm_kill_at or a["arg"] not in sends
                        or any(acts[k]["act"] in ("KillLost", "KillRefused") for k in range(r, j))):
                    raise Undrivable("cannot hold this KILL call")
                nth = sends.index(a["arg"]) + 1
                arm_kill_at[p[-1]] = (nth, None, "chain" if a["act"] == "KillRefused" else "")
                # KILL calls of that round which follow this one
                nxt = [k for k in range(j + 1, len(acts)) if acts[k]["act"] in ("Reconcile", "Crash")]
                total = sum(1 for k in range(r, nxt[0] if nxt else len(acts)) if acts[k]["act"] == "KillOnReconcile")
                lost_at[j] = (nth, total - nth)
        midrec = {v[1] for v in arm_kill_at.values() if v[1] is not None}
        # stream dropped while the answer to a RECONCILE call is on its way: the call must be held at the master
        arm_rec_at, lostans = {}, set()
        for j, a in enumerate(acts):
            if a["act"] == "DropConnection" and tset(acts[j - 1]["st"]["rq"]):
                r = max(k for k in range(j) if acts[k]["act"] == "Reconcile")
                p = [k for k in range(r) if acts[k]["act"] in ("Crash", "DropConnection")]
                if not p or p[-1] in arm_kill_at or any(acts[k]["act"] == "ReconcileUpdate" for k in range(r, j)):
                    raise Undrivable("cannot hold this RECONCILE call")
                arm_rec_at[p[-1]] = j
                lostans.add(j)
        # an environment requested while the whole answer to a RECONCILE call is pending: that call is held at the master and
        # so is the REVIVE call of the deployment (it then waits for its offers inside acquireTasks while the answer is handled)
        arm_dda_at, dda_new = {}, set()
        for j, a in enumerate(acts):
            if a["act"] == "NewEnv" and j > 0 and tset(acts[j - 1]["st"]["rq"]):
                rs = [k for k in range(j) if acts[k]["act"] == "Reconcile"]
                p = [k for k in range(rs[-1]) if acts[k]["act"] in ("Crash", "DropConnection")] if rs else []
                if (not p or p[-1] in arm_kill_at or p[-1] in arm_rec_at
                        or any(acts[k]["act"] == "ReconcileUpdate" for k in range(rs[-1], j))):
                    raise Undrivable("cannot hold this RECONCILE call")
                arm_dda_at[p[-1]] = j
                dda_new.add(j)
        for i, a in enumerate(acts):
            act, e, st = a["act"], a["arg"], a["st"]
            prev = acts[i - 1]["st"] if i > 0 else None
            if not self.booted:
                if act == "Reconcile":
                    self.booted = True
                    self.emit(do="c18_init")
                elif i > 0 and act not in ("CoreStart", "Subscribe", "Subscribed", "StoreFid"):
                    raise Undrivable("activity before the core is up")
                continue
            if self.doomed:
                break
            self.cur_st = st
            if act == "NewEnv" and i in dda_new:
                if self.op or self.lookahead(i, e, "ConfigureDone")[0] != "done":
                    raise Undrivable("the request made while the answer is held does not complete")
                self.fresh_life = False
                n = self.ntasks_for(i, e)
                wf = self.new_wf(n)
                self.emit(do="c18_waitgate", point="RECONCILE", timeout_ms=25000)
                self.nasync += 1
                self.op = {"kind": "create", "env": e, "caller": "A%d" % self.nasync, "done": "ConfigureDone", "gbp": {}, "ntasks": n,
                           "doomed": False, "revive": True}
                self.emit(do="create", env=e, wf=wf, caller=self.op["caller"], timeout_ms=60000)
                self.emit(do="c18_waitgate", point="REVIVE", timeout_ms=25000)   # the deployment waits for its offers
                self.release("RECONCILE")                                        # ... and now the answer comes
                expected = sum(1 for t in tset(prev["rq"]) if kill_cond(prev, t, self.dv))
                self.emit(do="c18_waitacks", n=len(tset(prev["rq"])), timeout_ms=10000)
                if expected:
                    self.emit(do="c18_waitkills", n=expected, timeout_ms=6000)
                self.release("REVIVE")
            elif act == "NewEnv" and self.op:
                # requested while a teardown is held at the master / parked at the roster: that one first, then this one, whole
                self.flush(prev)
                self.fresh_life = False
                self.wait_op_held(i)
                n = self.ntasks_for(i, e)
                if self.lookahead(i, e, "ConfigureDone")[0] != "done":
                    raise Undrivable("the overlapping request does not complete")
                self.emit(do="create", env=e, wf=self.new_wf(n))
            elif act == "NewEnv":
                self.flush(prev)
                self.fresh_life = False
                if "LAUNCH" in self.held:
                    # reports held back for the tasks of an earlier request (leftovers by now): the new deployment needs its own
                    self.release("LAUNCH")
                    self.emit(do="settle", ms=60)
                n = self.ntasks_for(i, e)
                wf = self.new_wf(n)
                self.start_async(i, e, st, "create", "ConfigureDone",
                                 {"deploying": ["ACCEPT"], "launched": ["LAUNCH"], "locked": ["LAUNCH"], "deployed": ["LAUNCH"],
                                  "configuring": ["MESSAGE:CONFIGURE"]}, do="create", env=e, wf=wf, _ntasks=n)
            elif act == "StartSend":
                self.flush(prev)
                self.start_async(i, e, st, "start", "StartDone", {"starting": ["MESSAGE:START"]}, do="control", env=e,
                                 op="START_ACTIVITY")
            elif act == "Release":
                self.flush(prev)
                self.start_async(i, e, st, "destroy", "KillSend", {"killing": ["KILL"], "rewriting": ["HOOK:" + ROSTER_HOOK]},
                                 do="destroy", env=e)
            elif act in ("Crash", "DropConnection"):
                trans = [(x, prev["env"][x]) for x in sorted(prev["env"]) if prev["env"][x] in TRANSIENT]
                mid = i in midrec
                if mid:
                    self.quiesce, self.round = None, (0, 0)
                    self.emit(do="c18_waitgate", point="KILL", timeout_ms=25000)
                elif i in lostans:
                    self.quiesce, self.round = None, (0, 0)
                    self.emit(do="c18_waitgate", point="RECONCILE", timeout_ms=25000)
                else:
                    self.flush(prev)
                    opgates = self.wait_op_held(i) if self.op else []
                    if self.owed:
                        self.emit(do="settle", ms=150)   # the rest of the round the lost KILL belongs to
                by_client = self.owed == "client" and act == "DropConnection"
                self.owed = False
                if by_client:
                    # nothing to drop: the core's HTTP client has given the subscription up itself (it comes back after its
                    # registration back-off, 1 s or more)
                    if i in arm_kill_at:
                        self.arm("KILL", arm_kill_at[i][0], arm_kill_at[i][2])
                    if i in arm_rec_at:
                        self.arm("RECONCILE")
                    if i in arm_dda_at:
                        raise Undrivable("no hold for the core's own re-subscription")
                    self.client_drop = True
                    continue
                self.emit(do="snapshot")
                self.emit(do="c18_mark")
                if act == "Crash":
                    self.emit(do="killcore")
                    self.down = True
                    self.after_crash = True
                    self.fresh_life = True
                    self.restarted = True
                    if mid:
                        self.release("KILL", "drop")
                    if self.op:
                        for g in [x for x in self.held if x != "LAUNCH" and not (mid and x == "KILL")]:
                            kind = "drop" if g in ("ACCEPT", "KILL") else ("drop" if (self.seed + self.sid + i) % 2 else "pass")
                            self.release(g, kind)
                        self.op["doomed"] = False
                        self.await_op()
                    if i in arm_kill_at:
                        self.arm("KILL", arm_kill_at[i][0], arm_kill_at[i][2])
                    if i in arm_rec_at or i in arm_dda_at:
                        self.arm("RECONCILE")
                    if i in arm_dda_at:
                        self.arm("REVIVE")
                else:
                    if (i in arm_kill_at or i in arm_rec_at or i in arm_dda_at) and self.op:
                        raise Undrivable("a request is still outstanding")
                    if i in arm_kill_at:
                        self.arm("KILL", arm_kill_at[i][0], arm_kill_at[i][2])
                    if i in arm_rec_at:
                        if i in lostans:
                            raise Undrivable("two RECONCILE answers lost in a row")
                        self.arm("RECONCILE")      # before the stream goes: the core is back within milliseconds
                    if i in arm_dda_at:
                        self.arm("RECONCILE")
                        self.arm("REVIVE")
                    self.emit(do="c18_errorevent" if a.get("how") == "error" else "dropstream")
                    if i in lostans:
                        self.release("RECONCILE")   # answered into the void
            elif act == "CoreStart":
                self.emit(do="startcore")
                self.down = False
            elif act == "Reconcile":
                self.emit(do="c18_waitreconcile", timeout_ms=8000 if self.client_drop else 20000)
                self.client_drop = False
                self.quiesce = "restart" if self.after_crash else "reconnect"
                self.after_crash = False
                self.round = (len(tset(st["rq"])), 0)
            elif act == "KillOnReconcile":
                launching = set()
                for x in prev["pend"]:
                    launching |= tset(prev["pend"][x])
                if not (self.child and e in launching):
                    # (a child core cannot be parked between locking and the roster write: by now the task is in its roster
                    # and this KILL of the model will not come)
                    self.round = (self.round[0], self.round[1] + 1)
            elif act == "TaskRunning":
                if "LAUNCH" in self.held and not self.hookgate:
                    if not self.down:
                        self.flush(prev)
                    self.op_release(i, "LAUNCH")
            elif act == "CleanupNamed":
                self.flush(prev)
                self.emit(do="c18_cleanupids", env=e)
                self.emit(do="settle", ms=60)
                self.emit(do="snapshot")
            elif act in ("KillLost", "KillRefused"):
                if i not in lost_at:
                    raise Undrivable("a lost KILL nobody armed")
                self.quiesce, self.round = None, (0, 0)   # observation comes after the reconciliation round that is now due
                self.emit(do="c18_waitgate", point="KILL", timeout_ms=25000)
                if act == "KillLost":
                    self.release("KILL", "swallow")      # 202 and forgotten: the disconnection that is due is the driver's
                    self.owed = "driver"
                else:
                    # refused (503) once the core has sent what it sends meanwhile: its HTTP client then gives the subscription
                    # up by itself and subscribes again
                    nth, more = lost_at[i]
                    self.emit(do="c18_mark")
                    self.emit(do="c18_poke")                       # a status update the core acknowledges: a call of its own
                    self.emit(do="c18_waitacks", n=1, timeout_ms=10000)   # ... issued while the KILL call is out
                    if more > 0:
                        # the next KILL of the round is out while the client gives the subscription up
                        self.emit(do="c18_release", point="KILL", kind="drop", op="more")
                        self.emit(do="c18_waitgate", point="KILL", n=nth + 1, op="seen", timeout_ms=25000)
                        self.emit(do="settle", ms=100)
                        self.release("KILL", "pass")
                    else:
                        self.release("KILL", "drop")
                    self.owed = "client"
            elif act == "RosterWrite":
                if self.op and self.op["env"] == e and ("HOOK:" + ROSTER_HOOK) in self.held:
                    self.flush(prev)
                    self.op_release(i, "HOOK:" + ROSTER_HOOK)
            elif act == "RosterAppend":
                self.appended += len(tset(st["etasks"][e]))
                if self.hookgate:
                    self.flush(prev)
                    self.emit(do="ungate", point="task.lock")
                    self.hookgate = False
                    self.emit(do="settle", ms=60)
            elif act in ("ConfigureDone", "StartDone", "KillSend"):
                if self.op and self.op["env"] == e and self.op.get("revive"):
                    for g in list(self.held):
                        self.release(g)
                    self.await_op()
                    pending = self.quiesce is not None
                    self.flush(st)
                    if not pending and self.restarted:
                        # (recovery was observed while the deployment went on) the request is over: whatever the master has
                        # alive must be in the roster by now
                        self.emit(do="c18_waitorphans", timeout_ms=6000)
                        self.emit(do="snapshot")
                elif self.op and self.op["env"] == e:
                    self.flush(prev)
                    for g in list(self.held):
                        self.release(g)
                    self.await_op()
            elif act == "EnvError":
                if self.op and self.op["env"] == e:
                    self.doomed = True   # the request hangs on the core's own timeouts: observe and stop
            # Subscribe*, StoreFid, ReconcileUpdate, Kill/RefreshOnReconcile, Launch, Lock, ConfigureSend, RosterRemove: the core's own steps
        last = self.cur_st or acts[-1]["st"]
        if self.owed:
            raise Undrivable("the behaviour ends before the disconnection that is due")
        if self.down:
            self.emit(do="startcore")
            self.emit(do="c18_waitreconcile", timeout_ms=20000)
            self.quiesce = "restart"
            last = dict(last, env={x: "none" for x in last["env"]})
        self.flush(last, final=True)
        if self.hookgate:
            self.emit(do="ungate", point="task.lock")
            self.emit(do="settle", ms=60)
        if self.op and self.op["doomed"]:
            self.emit(do="settle", ms=100)
            self.emit(do="snapshot")
            for g in list(self.held):
                self.release(g)
            self.await_op()
        else:
            for g in list(self.held):
                self.release(g)
            self.await_op()
            self.emit(do="settle", ms=100)
            self.emit(do="c18_fid")
            self.emit(do="snapshot")
        self.points = fault_points(self.acts)
        if not self.points:
            raise Undrivable("no fault in the behaviour")
        flags = CORE_OPTS[int(self.acts[0]["st"].get("opt", 0)) % len(CORE_OPTS)]
        core = {"flags": list(flags)} if flags else {}
        if self.child:
            core["child"] = True
        return {"id": self.sid, "family": "C18", "agents": cs.DEFAULT_AGENTS, "files": self.files,
                "core": core, "scripts": [], "hooks": {}, "steps": self.steps, "isolated": True,
                "model": {"child": self.child, "points": self.points, "origin": self.origin, "core_flags": list(flags),
                          "behaviour": ["%s(%s)" % (a["act"], a["arg"]) if a["arg"] else a["act"] for a in self.acts[1:]]}}


def point_key(p):
    # tasks: states of the interrupted request's tasks when the fault hits, then (crash) when the next life reconciles
    return (p["fault"], p["class"], p["tasks"] + (">" + p["seen_as"] if p.get("seen_as") else ""), p["midreconcile"], tuple(p["stable"]))


CRASH_RANK = ["deploying", "launch", "configuring", "-:configured", "starting", "-:running", "killing", "-:midreconcile", "-:done"]
DROP_RANK = ["-:configured", "-:running", "overlap", "configuring", "starting", "-:midreconcile", "locked", "deployed", "killing"]


def rank(key):
    """Order in which single-fault points are taken: the points named in the design first."""
    fault, cls, tasks, mid, stable = key
    name = cls
    if "+overlap" in tasks and fault == "drop":
        # a deployment completed while a teardown was held at its KILL calls / roster write-back, then a reconnection
        return (0, DROP_RANK.index("overlap"), stable)
    if cls == "-":
        name = "-:midreconcile" if mid else "-:" + ("running" if "running" in stable else "configured" if "configured" in stable
                                                     else "done" if "done" in stable else "other")
    lst = CRASH_RANK if fault == "crash" else DROP_RANK
    others = len(stable) - (1 if cls == "-" and not mid else 0)   # environments around beyond the one concerned
    return (others, lst.index(name) if name in lst else len(lst), stable)


def fault_points(acts):
    pts, prev, overlap = [], None, False
    for i, a in enumerate(acts):
        if a["act"] == "RosterAppend" and prev is not None and any(
                ph in ("rewriting", "killing") for x, ph in prev["env"].items() if x != a["arg"]):
            overlap = True   # the roster written by a deployment while a teardown is re-writing it / sending its KILL calls
        if a["act"] in ("Crash", "DropConnection") and prev is not None:
            seen_as = ""
            if a["act"] == "Crash":
                # what the next life's reconciliation finds: tasks still TASK_STAGING or already TASK_RUNNING
                for b in acts[i + 1:]:
                    if b["act"] == "Reconcile":
                        seen_as = "/".join(sorted({b["st"]["mt"][t]["st"] for t in tset(b["st"]["rq"])}))
                        break
                    if b["act"] in ("Crash", "DropConnection"):
                        break
            crash = a["act"] == "Crash"
            tr = [x for x in sorted(prev["env"]) if prev["env"][x] in TRANSIENT]
            ph = prev["env"][tr[0]] if tr else "-"
            cls = "launch" if (crash and ph in LAUNCHPH) else ph
            stg = sorted({prev["mt"][t]["st"] for x in tr for t in tset(prev["etasks"][x])})
            alive = sum(1 for t in prev["mt"] if prev["mt"][t]["st"] in ("staging", "running"))
            lostflag = ""
            if not crash and prev.get("owed"):
                kind = [b["act"] for b in acts[:i] if b["act"] in ("KillLost", "KillRefused")]
                lostflag = "!refusedkill" if kind and kind[-1] == "KillRefused" else "!lostkill"
                if any(v in ("configured", "running") for v in prev["env"].values()):
                    lostflag += "@deployed"   # an environment deployed between the lost KILL and the reconnection
            held = False   # an environment requested after this fault while the reconciliation answer is still pending
            for k in range(i + 1, len(acts)):
                if acts[k]["act"] in ("Crash", "DropConnection"):
                    break
                if acts[k]["act"] == "NewEnv" and tset(acts[k - 1]["st"]["rq"]):
                    held = True
            named = False   # a cleanup request has named the tasks of a live environment earlier in this life
            for k in range(i - 1, -1, -1):
                if acts[k]["act"] == "Crash":
                    break
                if acts[k]["act"] == "CleanupNamed":
                    named = True
            flags = (lostflag + ("+overlap" if overlap else "") + (">answerheld" if held else "")
                     + ("!errorevent" if a.get("how") == "error" else "") + ("+cleanupnamed" if named else ""))
            overlap = False
            pts.append({"fault": "crash" if crash else "drop", "class": cls, "transient": ph, "tasks": ("/".join(stg) or "-") + flags,
                        "midreconcile": bool(tset(prev["rcv"]) or tset(prev["rq"]) or tset(prev.get("kq"))), "alive": alive,
                        "life": prev["life"],
                        "seen_as": seen_as if "staging" in stg else "",
                        "stable": sorted(v for v in prev["env"].values() if v not in TRANSIENT and v != "none")})
        prev = a["st"]
    return pts


def prefixes(acts):
    """Prefixes of a behaviour ending where the recovery from its k-th fault has settled."""
    out = []
    faults = [i for i, a in enumerate(acts) if a["act"] in ("Crash", "DropConnection")]
    for k, f in enumerate(faults):
        end = len(acts)
        seen_rec = False
        for j in range(f + 1, len(acts)):
            a = acts[j]
            if a["act"] == "Reconcile":
                seen_rec = True
            st = a["st"]
            quiet = (st["up"] and st["conn"] == "up" and not tset(st["rq"]) and not tset(st["rcv"]) and not tset(st.get("kq"))
                     and not st.get("owed"))
            if a["act"] in ("Crash", "DropConnection"):
                end = j
                break
            if seen_rec and quiet and all(ph not in TRANSIENT for ph in st["env"].values()):
                end = j + 1
                break
        out.append(acts[:end])
    return out


# ------------------------------------------------------------------------------------------------

def run_isolated(ctx, scenarios, procs=8, timeout=240, tries=3):
    """Every scenario in a coresim process of its own (fresh registration back-off, fresh master and Consul), in a process
    group of its own so that no child core survives a timeout; a process that fails to boot is started again."""
    import os
    import signal
    import subprocess
    import time
    from concurrent.futures import ThreadPoolExecutor
    binp = ctx.build("coresim")
    ctx.ntlc += 1
    base = ctx.ntlc

    def one(s):
        last = ""
        for attempt in range(tries):
            d = os.path.dirname(ctx.path("cs%d_%d_%d" % (base, s["id"], attempt), "x"))
            scn, trc = os.path.join(d, "scenarios.ndjson"), os.path.join(d, "trace.ndjson")
            ctx.write_ndjson(scn, [{k: v for k, v in s.items() if k != "isolated"}])
            p = subprocess.Popen([binp, "-mode", "run", "-work", d, "-scenarios", scn, "-trace", trc], stdout=subprocess.PIPE,
                                 stderr=subprocess.STDOUT, text=True, start_new_session=True)
            try:
                out, _ = p.communicate(timeout=timeout)
            except subprocess.TimeoutExpired:
                out = "timeout"
            finally:
                try:
                    os.killpg(p.pid, signal.SIGKILL)   # the runner and whatever child core it left behind
                except (ProcessLookupError, PermissionError):
                    pass
            if out == "timeout":
                p.wait()
                last = "timeout after %ds" % timeout
                continue
            tail = next((x for x in reversed(out.strip().splitlines()) if x.startswith("scenarios=")), "")
            if p.returncode == 0 and tail.startswith("scenarios=1") and os.path.exists(trc):
                return ctx.read_ndjson(trc), attempt
            last = "rc=%s: %s" % (p.returncode, vlib.tail(out, 6))
            time.sleep(0.5 + attempt)
        raise vlib.Inconclusive("coresim could not run scenario %d: %s" % (s["id"], last))

    lines, retried = [], 0
    with ThreadPoolExecutor(max_workers=procs) as ex:
        for ls, attempt in ex.map(one, scenarios):
            lines += ls
            retried += attempt
    if retried:
        ctx.log("coresim processes started again after a failed boot: %d" % retried)
    return lines


def fidnum(s):
    if s in ("", None):
        return 0
    try:
        return int(str(s).split("-")[-1])
    except ValueError:
        return 99


def project(lines):
    out, ended, started, poked = [], set(), set(), set()
    # a child core's environment gets its alias only when the create request returns: until then the recorder shows the
    # real id. The environment an ACCEPT launches for is the one being created (the last create request).
    raw, creating = {}, {}
    for ln in lines:
        if ln["ev"] == "Api" and ln.get("call") == "create":
            creating[ln.get("scn")] = ln.get("env")
        elif ln["ev"] == "MAccept":
            for t in ln["tasks"]:
                if t.get("env") and creating.get(ln.get("scn")) and t["env"] != creating[ln.get("scn")]:
                    raw[(ln.get("scn"), t["env"])] = creating[ln.get("scn")]
    for ln in lines:
        scn, ev = ln.get("scn", -1), ln["ev"]
        if scn < 0 or scn in ended:
            continue
        alias = lambda x: raw.get((scn, x), x)  # noqa: E731
        if ev == "Fid":
            started.add(scn)
        if scn not in started and ev != "Reset":
            continue  # the tail of the core's boot (its first RECONCILE may come late)
        g = lambda k, d="": ln.get(k, d)  # noqa: E731
        if ev == "End":
            ended.add(scn)
            out.append({"ev": "End", "scn": scn})
        elif ev == "Reset":
            out.append({"ev": ev, "scn": scn, "model": {"child": bool(ln["model"].get("child"))}})
        elif ev == "Fid":
            out.append({"ev": ev, "scn": scn, "stored": fidnum(g("stored")), "present": bool(g("present", False)),
                        "frameworks": [fidnum(x) for x in g("frameworks", [])]})
        elif ev == "Api":
            out.append({"ev": ev, "scn": scn, "call": g("call"), "env": g("env"), "op": g("op")})
        elif ev == "ApiReply":
            out.append({"ev": ev, "scn": scn, "call": g("call"), "env": g("env"), "op": g("op"), "code": g("code"), "st": g("st")})
        elif ev == "MAccept":
            if ln["tasks"]:
                out.append({"ev": ev, "scn": scn, "tasks": [t["task"] for t in ln["tasks"]]})
        elif ev == "Hook":
            if g("point") in ("task.lock", "task.unlock", "task.roster.appended", ROSTER_HOOK):
                out.append({"ev": ev, "scn": scn, "point": g("point"), "task": g("task"), "env": g("env")})
        elif ev == "Poke":
            poked.add((scn, g("task")))
        elif ev == "MUpdate" and (scn, g("task")) in poked and not g("reason"):
            poked.discard((scn, g("task")))   # the repetition of a status the core already has (c18_poke)
        elif ev == "MUpdate":
            out.append({"ev": ev, "scn": scn, "task": g("task"), "state": g("state"), "reason": g("reason")})
        elif ev == "MMessage":
            out.append({"ev": ev, "scn": scn, "task": g("task"), "event": g("event")})
        elif ev == "MKill":
            out.append({"ev": ev, "scn": scn, "task": g("task")})
        elif ev == "MSubscribe":
            out.append({"ev": ev, "scn": scn, "fid": fidnum(g("fid")), "assigned": fidnum(g("assigned"))})
        elif ev in ("MReconcile", "MStreamDropped", "MErrorEvent", "CoreKilled"):
            out.append({"ev": ev, "scn": scn})
        elif ev == "MGateReached":
            out.append({"ev": ev, "scn": scn, "point": g("point"), "task": g("task")})
        elif ev == "GateReleased":
            out.append({"ev": ev, "scn": scn, "point": g("point")})
        elif ev == "MGateReleased":
            out.append({"ev": ev, "scn": scn, "point": g("point"), "kind": g("kind")})
        elif ev == "Snapshot":
            out.append({"ev": ev, "scn": scn, "envs": [{"env": alias(e["env"]), "st": e["st"]} for e in ln["envs"]],
                        "roster": [{"task": t["task"], "locked": bool(t["locked"]), "owner": alias(t.get("owner", ""))} for t in ln["tasks"]],
                        # alive = no KILL call has reached the master for it (the master turns it TASK_KILLED a few ms later)
                        "alive": [t["task"] for t in ln["master"] if not t["terminal"] and not t.get("kills", 0)]})
        elif ev == "Poll":
            out.append({"ev": ev, "scn": scn, "env": g("env"), "st": g("st"), "reached": bool(g("reached", False))})
        elif ev in ("Quiesced", "Orphans"):
            out.append({"ev": ev, "scn": scn, "alive": list(g("alive", []))})
    return out


def run(ctx):
    quick = ctx.tier == "quick"
    dv = devs(ctx)
    fixed = {c: False for c in DEVS}
    ctx.assumptions += [
        "Mesos master, agents, executors and the Consul KV are simulated (protocol subset the core uses); the simulated master "
        "answers an implicit reconciliation with one update per non-terminal task of the framework and keeps frameworks and tasks "
        "across core restarts",
        "crash = SIGKILL of the core process; crash points are those at which the simulation can hold the core: between requests, "
        "at the ACCEPT call, while launched tasks are staging, while a CONFIGURE/START command or the KILL calls of a teardown / of "
        "a reconciliation are on their way",
        "a crash between SUBSCRIBED and the write of the framework id, and a reconnection between ACCEPT and the locking of the "
        "launched tasks, are covered by the model only (no hold point there)",
        "every scenario runs in a coresim process of its own (fresh registration back-off); the simulated master refuses a command "
        "whose target tasks it has already killed (harness/coresim/ext_c18.go)",
        "lost KILL calls: only those of a reconciliation (a teardown whose KILL call fails puts the task back on the roster); "
        "'accepted and lost' = the simulated master answers 202 and forgets the call, 'refused' = it answers 503 while another "
        "call of the core is out; NoOrphans is claimed under the assumption that a scheduler whose calls get lost is eventually "
        "disconnected (the core does not reconcile periodically)",
        "core options the property must be indifferent to are drawn per scenario (CORE_OPTS: --mesosCheckpoint=false, other positive "
        "--mesosFailoverTimeout values, --mesosGpuClusterCompat); a failover timeout of 0 is outside the property",
        "the window between the read and the write-back of the roster in doKillTasks is replayed only on a tree that has the "
        "hook point task.roster.update (work/patches/C18-hooks.patch)",
    ]
    ctx.rule = ("scenario = prefix of a behaviour of RestartGen (tlc -simulate, seeded) ending where recovery from its k-th fault has "
                "settled, or a TLC counterexample (open deviations), or the shortest RestartGen behaviour reaching a required shape "
                "(lost KILL, refused KILL, deployment overlapping a held teardown then reconnection); selected greedily for new fault "
                "points (fault, phase of the interrupted request, task states, mid-reconciliation, lost/refused KILL, overlap, "
                "environments around); non-trivial = something is alive at the master when the fault hits")
    # 1. the repaired design satisfies everything (safety + liveness), exhaustively
    small = consts(["k1", "k2"], ["e1"], 2, 1 if quick else 2, fixed)   # (a disconnection due to a refused KILL comes on top)
    allp = SAFETY + " NoFriendlyFire NoOrphans"
    INVS = "TypeOK TasksUnderIdentity RosterOfThisLife RosterKeepsOwned EnvsStay"
    ctx.model_check("Restart", "repaired-1env", cfg_text=cfg_model(small, allp, INVS),
                    workers=WORKERS, timeout=900)
    if ctx.model_runs[-1]["result"] != "ok":
        raise vlib.Inconclusive("the repaired design violates its own properties: " + ctx.model_runs[-1]["result"])
    two = consts(["k1", "k2"], ["e1", "e2"], 1 if quick else 2, 1 if quick else 2, fixed, 0 if quick else 1)
    ctx.model_check("Restart", "repaired-2env", cfg_text=cfg_model(two, allp, INVS),
                    workers=WORKERS, timeout=900)
    if ctx.model_runs[-1]["result"] != "ok":
        raise vlib.Inconclusive("the repaired design violates its own properties: " + ctx.model_runs[-1]["result"])
    if not quick:
        # three tasks: one restart with a lost KILL (the disconnection that is due comes on top), and one reconnection
        for name, c, d, l in (("repaired-3tasks-restart", 1, 0, 1), ("repaired-3tasks-reconnect", 0, 1, 0)):
            three = consts(["k1", "k2", "k3"], ["e1", "e2"], c, d, fixed, l)
            ctx.model_check("Restart", name, cfg_text=cfg_model(three, allp, INVS), workers=WORKERS, timeout=1500)
            if ctx.model_runs[-1]["result"] != "ok":
                raise vlib.Inconclusive("the repaired design violates its own properties: " + ctx.model_runs[-1]["result"])
    # 2. the tree as described by the open deviations: the other properties hold, the deviation shows
    cex = []
    if any(dv.values()):
        asis = consts(["k1", "k2"], ["e1"], 2, 1 if quick else 2, dv, 0 if quick else 1)
        ctx.model_check("Restart", "as-found", cfg_text=cfg_model(asis, SAFETY + " NoOrphans"), workers=WORKERS, timeout=900)
        if ctx.model_runs[-1]["result"] != "ok":
            raise vlib.Inconclusive("the model of the tree as found breaks a property it should keep: " + ctx.model_runs[-1]["result"])
        for c, prop in DEV_PROP.items():
            if not dv[c]:
                continue
            # searched among the schedules the simulation can impose (RestartGen), so that it can be replayed
            r = ctx.model_check("RestartGen", "as-found:" + prop, workers=1, timeout=600,  # one worker: the same shortest counterexample every time
                                cfg_text=cfg_gen(consts(["k1", "k2"], ["e1", "e2"] if prop == "NoFriendlyFireForgotten" else ["e1"],
                                                        0, 1, dv, 0), "{0}", "{1}", "PROPERTIES %s\nCONSTRAINT TickBound\n" % prop,
                                                 opts=[0]))
            if prop not in r.violated:
                raise vlib.Inconclusive("deviation %s is open but the model does not break %s" % (DEVS[c], prop))
            cex.append((prop, norm(r.counterexample())))
    # 3. scenarios from the model
    nsim, depth = (500, 70) if quick else (2500, 80)
    want = 21 if quick else 64
    gen = consts(["k1", "k2", "k3"], ["e1", "e2"], 2, 2, dv)
    behs = ctx.simulate("RestartGen", None, nsim, depth, cfg_text=cfg_gen(gen), seed=ctx.seed * 104729 + 17)
    scenarios, by_id = [], {}
    sid = 0
    Conv.roster_hook = has_roster_hook()
    if dv["Code_RosterRewriteNotAtomic"] and not Conv.roster_hook:
        raise vlib.Inconclusive("finding %s is open but the tree has no hook point %s to park the roster write-back at "
                                "(work/patches/C18-hooks.patch)" % (DEVS["Code_RosterRewriteNotAtomic"], ROSTER_HOOK))

    def try_conv(acts, origin):
        nonlocal sid
        try:
            s = Conv(sid + 1, acts, dv, ctx.seed, origin).convert()
        except Undrivable:
            return None
        sid += 1
        return s

    for prop, beh in cex:
        s = try_conv(beh, "counterexample:" + prop)
        if s is None:
            raise vlib.Inconclusive("cannot drive the counterexample of %s" % prop)
        scenarios.append(s)
    # scenario shapes every run must contain, whatever the simulation draws: shortest behaviours of RestartGen reaching them
    for k, probe in enumerate(PROBES):
        # (each shape under another set of core options, the non-default ones first, rotating with the seed)
        r = ctx.model_check("RestartGen", "shape:" + probe, workers=1, timeout=600,
                            cfg_text=cfg_gen(consts(["k1", "k2"], ["e1", "e2"], 1, 1, dv, 1), "{0}", "{1}",
                                             "INVARIANT %s\nCONSTRAINT TickBound\n" % probe,
                                             opts=[(1 + k + ctx.seed) % len(CORE_OPTS)]))
        if probe not in r.violated:
            raise vlib.Inconclusive("the generator does not reach the scenario shape %s" % probe)
        s = try_conv(norm(r.counterexample()), "shape:" + probe)
        if s is None:
            raise vlib.Inconclusive("cannot drive the scenario shape %s" % probe)
        scenarios.append(s)
    cands, undr = [], 0
    for b in behs:
        cands += prefixes(norm(b))
    cands.sort(key=len)
    single, multi = {}, {}
    for acts in cands:
        keys = tuple(point_key(p) for p in fault_points(acts))
        if len(keys) == 1:
            single.setdefault(keys[0], [])
            if len(single[keys[0]]) < 6:
                single[keys[0]].append(acts)   # the shortest few: the first one the driver can impose is taken
        elif len(keys) > 1:
            multi.setdefault(keys, acts)
    total = want + len(scenarios)
    nseq = 4 if quick else want // 3
    # one fault per scenario: every distinct fault point, the ones named in the design first; then fault sequences
    for key in sorted(single, key=rank):
        if len(scenarios) >= total - min(nseq, len(multi)):
            break
        for acts in single[key]:
            s = try_conv(acts, "simulation")
            if s is not None:
                scenarios.append(s)
                break
            undr += 1
    covered = {point_key(p) for s in scenarios for p in s["model"]["points"]}
    rest = dict(multi)
    while rest and len(scenarios) < total:
        def prio(ks):
            new = [k for k in ks if k not in covered]
            lostk = any(("!lostkill" in k[2] or "!refusedkill" in k[2]) and k not in covered for k in ks)   # a KILL call lost
            lost = any(k[0] == "drop" and k[3] and k not in covered for k in ks)      # answer to RECONCILE lost
            midk = any(k[0] == "crash" and k[3] and k not in covered for k in ks)     # killed while reconciling
            return (0 if lostk else 1 if lost else 2 if midk else 3, len(ks), -len(new), ks)
        keys = min(rest, key=prio)
        acts = rest.pop(keys)
        s = try_conv(acts, "simulation")
        if s is None:
            undr += 1
            continue
        scenarios.append(s)
        covered.update(keys)
    if len(scenarios) < (6 if quick else 25):
        raise vlib.Inconclusive("only %d scenarios could be generated" % len(scenarios))
    ctx.log("behaviours: %d, candidate prefixes: %d (single-fault points: %d, fault sequences: %d), scenarios: %d (undrivable skipped: %d)"
            % (len(behs), len(cands), len(single), len(multi), len(scenarios), undr))
    for s in scenarios:
        by_id[s["id"]] = s
        for p in s["model"]["points"]:
            ctx.count_case(json.dumps(point_key(p)), nontrivial=p["alive"] > 0)
    ctx.exhaustive = False
    ctx.extra["fault_points"] = sorted({json.dumps(point_key(p)) for s in scenarios for p in s["model"]["points"]})
    # 4. replay on the real core
    def unmet(ls):
        return [ln for ln in ls if ln["ev"] in ("MGateWait", "Reconciled", "CoreStarted", "GateReached", "Acked", "Orphans")
                and not ln.get("ok", True)]

    lines = run_isolated(ctx, scenarios)
    bad = unmet(lines)
    if bad:
        # a hold point not reached in time (the machine may be starved): those scenarios once more, on a quieter machine
        again = sorted({b["scn"] for b in bad})
        ctx.log("hold points not reached in scenarios %s: running them again" % again)
        lines = [ln for ln in lines if ln.get("scn") not in again] + run_isolated(ctx, [by_id[i] for i in again], procs=3)
        bad = unmet(lines)
    plines = project(lines)
    tf = ctx.path("trace.ndjson")
    ctx.write_ndjson(tf, plines)
    ctx.sample({"scenario_model": scenarios[0]["model"], "steps": scenarios[0]["steps"]})
    ctx.sample({"scenario_model": scenarios[-1]["model"], "steps": scenarios[-1]["steps"]})
    ctx.sample({"trace_prefix": [l for l in plines if l.get("scn") == scenarios[0]["id"]][:14]})
    # 5. validate
    viol, drift, tr = ctx.validate("RestartTrace", None, tf, cfg_text=cfg_trace(dv))
    ctx.traces = len(scenarios)
    ctx.extra["trace_lines"] = len(plines)
    for d in drift:
        ctx.save_debug("\n".join(json.dumps(l) for l in lines if l.get("scn") == d[1]), "drift_scn%s_seed%s.ndjson" % (d[1], ctx.seed))
        ctx.drift.append({"scn": d[1], "line": d[2], "ev": d[3], "line_text": plines[d[2] - 1] if 0 < d[2] <= len(plines) else None,
                          "model": by_id.get(d[1], {}).get("model")})
    ff = {v[2] for v in viol if v[1] == "NoFriendlyFire"}
    seen, flagged = set(), set()
    for v in viol:
        inv, scn, detail = v[1], v[2], v[4]
        m = by_id.get(scn, {}).get("model", {})
        sig = {"inv": inv}
        if inv == "NoFriendlyFire":
            # inroster: the task has been in the roster (hook task.roster.appended / a GetTasks listing); listed: it still was
            # in the last listing
            # held_at: the scenario parks the core at that hook point (a window no call to the master opens)
            parked = [st.get("point") for st in by_id.get(scn, {}).get("steps", []) if st.get("do") == "gate"]
            sig.update({"trigger": detail[0], "inroster": bool(detail[1]), "listed": bool(detail[3]),
                        "held_at": ROSTER_HOOK if ROSTER_HOOK in parked else "-"})
        elif inv == "NoOrphans":
            # resubscribed: the core has subscribed again since the last fault / refused call
            sig.update({"trigger": detail[0], "resubscribed": bool(detail[2]),
                        "point": json.dumps([(p["fault"], p["transient"]) for p in m.get("points", [])])})
        elif inv == "EnvStays":
            if scn in ff:
                continue  # the consequence of the friendly fire already reported for this run
            sig.update({"trigger": "reconnect"})
        key = (scn, json.dumps(sig, sort_keys=True))
        if key in seen:
            continue
        seen.add(key)
        flagged.add((scn, inv))
        sig["scn"] = scn
        sig["points"] = json.dumps([(p["fault"], p["transient"], p["tasks"]) for p in m.get("points", [])])
        ctx.add_violation(sig, replay_obj={"scenario": by_id.get(scn), "trace": [l for l in lines if l.get("scn") == scn]})
    if bad:
        # a hold point that is never reached: the core did not do what the model expects of it there. With violations on
        # record that is part of the picture; without any it is a schedule the simulation failed to impose - no verdict.
        ctx.observations.append("hold points not reached / waits not satisfied: %s" % json.dumps(
            [{k: b.get(k) for k in ("scn", "ev", "point")} for b in bad[:6]]))
        if not ctx.violations and not ctx.known_hit:
            raise vlib.Inconclusive("the simulation could not impose a schedule: %s" % json.dumps(bad[:3]))
    for prop, _ in cex:
        s = [x for x in scenarios if x["model"]["origin"] == "counterexample:" + prop][0]
        if (s["id"], "NoFriendlyFire") not in flagged:
            # the counterexample of a model configured WITH a Code_* deviation: a documented open finding the tree did not show
            # this time (it may have been repaired, or changed otherwise). No verdict hangs on it: noted, and on we go
            key = [DEVS[c] for c, pr in DEV_PROP.items() if pr == prop][0]
            ctx.log("known finding %s not reproduced in this run (counterexample of %s, scenario %d)" % (key, prop, s["id"]))
            ctx.observations.append("known finding %s not reproduced in this run: the counterexample of %s did not break "
                                    "NoFriendlyFire on the real core" % (key, prop))
