"""X02 - beyond the listed properties: the event stream of auto-environments (core/environment/eventStream.go).

Model: spec/EventStream.tla (exhaustive, TLC; safety, and liveness with a reader that keeps reading; with a reader that may go
away a Send stays blocked holding the stream's mutex - reported).  Binding: call schedules from spec/EventStreamGen.tla run on the
real eventSub/eventStream with a reader goroutine shaped like RpcServer.Subscribe (harness/cmd/evstream); the recorded invocations,
completions, receptions and blocked sets are validated by TLC against spec/EventStreamTrace.tla (silent internal steps).

Not a listed property: not registered in MANIFEST.json; evidence goes to evidence/extra/X02.json."""
import json

import vlib

LEVEL = "model_checking"
CONST = 'CONSTANTS\n  Senders = {"s1", "s2"}\n  Closers = {"c1", "c2"}\n  MaxEv = %d\n  ReaderGivesUp = %s\n'


def cfg_model(maxev, gives_up, fair):
    return ("SPECIFICATION %s\n" % ("FairSpec" if fair else "Spec") + CONST % (maxev, "TRUE" if gives_up else "FALSE") +
            "INVARIANTS TypeOK NoPanic PerSenderOrder NothingAfterClose OneInChannel\n" +
            ("PROPERTIES UnsubReturns SendReturns\n" if fair else "") + "CHECK_DEADLOCK FALSE\n")


def cfg_gen():
    return "SPECIFICATION GenSpec\n" + CONST % (3, "TRUE") + "CHECK_DEADLOCK FALSE\n"


def cfg_trace():
    return ("SPECIFICATION TraceSpec\n" + CONST % (1000000, "TRUE") +
            "INVARIANT PrintEnd\nCONSTRAINT Furthest\nPOSTCONDITION Post\nCHECK_DEADLOCK FALSE\n")


def beh_to_scenario(sid, beh):
    steps = []
    for (name, args, _st) in beh[1:]:
        if name in ("G_Send", "SendCall"):
            steps.append({"t": args[0].strip('"'), "op": "send"})
        elif name in ("G_Unsub", "UnsubCall"):
            steps.append({"t": args[0].strip('"'), "op": "unsub"})
        elif name in ("G_Leave", "ReaderLeaves"):
            steps.append({"op": "leave"})
    return {"id": sid, "steps": steps}


def validate(ctx, lines):
    bad = []
    for rnd in range(6):
        f = ctx.path("trace_%d.ndjson" % rnd)
        ctx.write_ndjson(f, lines)
        r = ctx.tlc("EventStreamTrace", None, workers=1, env={"TRACE_FILE": f}, cfg_text=cfg_trace(), timeout=1200)
        ctx.states += r.distinct
        ctx.transitions += r.generated
        if r.records("END"):
            return bad
        fur = r.records("FURTHEST")
        if not fur or r.crashed:
            ctx.save_debug(r, "tlc_trace_EventStream.txt")
            raise vlib.Inconclusive("trace validation of EventStream failed: " + vlib.tail(r.out, 20))
        lno = int(fur[-1][1])
        if not (1 <= lno <= len(lines)):
            raise vlib.Inconclusive("trace validation of EventStream: furthest line %d out of range" % lno)
        scn = lines[lno - 1].get("scn")
        bad.append((scn, lines[lno - 1]))
        lines = [x for x in lines if x.get("scn") != scn]
    return bad


def run(ctx):
    quick = ctx.tier == "quick"
    ctx.assumptions += ["the reader is a goroutine shaped like RpcServer.Subscribe (receive until the channel is closed); it can be "
                        "told to go away (client gone)",
                        "a call that has not returned after the grace period (150 ms) is called blocked by the driver"]
    ctx.rule = ("scenario = the calls of a behaviour of EventStreamGen (TLC -simulate, seeded) on the real eventSub, one goroutine per "
                "call; non-trivial = an Unsubscribe or a departing reader with a Send around it; distinct = distinct call sequences")
    ctx.model_check("EventStream", None, cfg_text=cfg_model(2 if quick else 3, False, True), workers=4)
    ctx.model_check("EventStream", None, cfg_text=cfg_model(2 if quick else 3, True, False), workers=4)
    rs = ctx.model_check("EventStream", None, workers=2, cfg_text="SPECIFICATION Spec\n" + CONST % (1, "TRUE") +
                         "INVARIANT NeverStuck\nCHECK_DEADLOCK FALSE\n")
    scenarios = []
    sid = 10
    n = 300 if quick else 4000
    for b in ctx.simulate("EventStreamGen", None, n, 40, cfg_text=cfg_gen(), seed=ctx.seed * 7561 + 5):
        sid += 1
        scenarios.append(beh_to_scenario(sid, b))
    scenarios.append({"id": 1, "steps": [{"op": "leave"}, {"t": "s1", "op": "send"}, {"t": "c1", "op": "unsub"}, {"t": "s2", "op": "send"}]})
    binp = ctx.build("evstream")
    sf, tf = ctx.path("scn.ndjson"), ctx.path("run.ndjson")
    ctx.write_ndjson(sf, scenarios)
    out = ctx.run([binp, "-scenarios", sf, "-trace", tf], timeout=3000)
    ctx.log(out.strip())
    lines = ctx.read_ndjson(tf)
    for s in scenarios:
        ops = [st["op"] for st in s["steps"]]
        ctx.count_case(json.dumps(s["steps"]), nontrivial=("send" in ops and ("unsub" in ops or "leave" in ops)))
    ctx.sample({"scenario": scenarios[0], "trace": [x for x in lines if x.get("scn") == scenarios[0]["id"]][:14]})
    ctx.traces = len(scenarios)
    ctx.exhaustive = False
    by_id = {s["id"]: s for s in scenarios}
    for (scn, line) in validate(ctx, lines):
        ctx.add_violation({"inv": "Conformance", "scn": scn, "line": line.get("seq"), "event": line.get("ev")},
                          replay_obj={"scenario": by_id.get(scn), "trace": [x for x in lines if x.get("scn") == scn]})
    blocked = [x for x in lines if x.get("ev") == "End" and x.get("blocked")]
    ctx.extra["runs_ending_with_blocked_calls"] = len(blocked)
    if rs.violated:
        # (the counterexample parks the reader's departure between the sender's lock and its channel operation, which the driver
        # cannot impose without hooks; the generated runs in which the reader leaves first show the same blocked calls)
        ctx.observations.append(
            "a Send whose reader has gone away blocks for ever holding the stream's mutex, and Unsubscribe and every other Send wait "
            "behind it (model: NeverStuck violated; on the real eventSub %d generated runs end with calls still blocked, e.g. %s, all "
            "explained by the model). For an auto-environment env.Mu is held around Send as well: a client that stops reading its "
            "Subscribe stream stops the environment" % (len(blocked), json.dumps(blocked[0]["blocked"]) if blocked else "-"))


def replay(ctx, obj):
    s = obj["scenario"]
    binp = ctx.build("evstream")
    sf, tf = ctx.path("scn.ndjson"), ctx.path("run.ndjson")
    ctx.write_ndjson(sf, [s])
    ctx.run([binp, "-scenarios", sf, "-trace", tf], timeout=600)
    lines = ctx.read_ndjson(tf)
    for (scn, line) in validate(ctx, lines):
        ctx.add_violation({"inv": "Conformance", "scn": scn, "line": line.get("seq"), "event": line.get("ev")},
                          replay_obj={"scenario": s, "trace": lines})
