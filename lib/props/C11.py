"""C11 - a role's state and status are the fold of its subtree.

Model: spec/RoleTree.tla (the two products transcribed and their algebra decided exhaustively,
the property's order-free folds, and the implementation's incremental merge as update "threads"
climbing the tree one critical section at a time), checked exhaustively by TLC: every sequence
of leaf updates (unbounded length) on a family of 19 tree shapes (5 of them pruned by the loader: disabled roles), and every interleaving of two
concurrent updates of different leaves.
Binding: behaviours of spec/RoleTreeGen.tla (tlc -simulate) and TLC counterexamples are replayed
by harness/cmd/roletree on REAL role trees loaded from generated workflow templates by the
repository's own unmarshalling + template processing, under the real ParentAdapter, driving the
leaves through UpdateState / UpdateStatus; concurrent interleavings are forced by gating the hook
points role.enter / role.merged per goroutine. The recorded runs are validated by TLC against
spec/RoleTreeTrace.tla (strict conformance + property monitor).
"""
import json
import os
import random
import re

import vlib

DEV_DEAD = "aggregator-without-critical-descendant"
DEV_STALE = "stale-carried-value"

ALL_STATES = ["UNKNOWN", "STANDBY", "CONFIGURED", "RUNNING", "ERROR", "DONE", "MIXED", "INVARIANT"]
ALL_STATUSES = ["UNDEFINED", "INACTIVE", "PARTIAL", "ACTIVE", "UNDEPLOYABLE"]
TASK_STATES = ["STANDBY", "CONFIGURED", "RUNNING", "ERROR", "DONE"]      # what a task reports (task/manager.go)
CALL_STATES = ["STANDBY", "INVARIANT", "ERROR"]                          # callrole.go: INVARIANT
REAL_STATUSES = ["INACTIVE", "ACTIVE", "UNDEPLOYABLE"]                   # what the callers of UpdateStatus send


def tset(xs):
    return "{" + ", ".join('"%s"' % x for x in xs) + "}"


def tbool(b):
    return "TRUE" if b else "FALSE"


def cfg(spec, shapes, kinds, threads, episodes, dead_fixed, trust, invs=(), view=False,
        task_states=TASK_STATES, call_states=CALL_STATES, statuses=REAL_STATUSES, extra="", merge_atomic=True,
        priority=False, propagate=True, sample_step=True):
    return """SPECIFICATION %s
CONSTANTS
  ShapeNames = %s
  Kinds = %s
  TaskStates = %s
  CallStates = %s
  LeafStatuses = %s
  MaxThreads = %d
  MaxEpisodes = %d
  NoOpinionInit = %s
  TrustCarried = %s
  MergeAtomic = %s
  PropagateAlways = %s
  SampleStep = %s
%s
%s
%s
%s
CHECK_DEADLOCK FALSE
""" % (spec, tset(shapes), tset(kinds), tset(task_states), tset(call_states), tset(statuses), threads, episodes,
       tbool(dead_fixed), tbool(trust), tbool(merge_atomic), tbool(propagate), tbool(sample_step),
       ("  Priority = " + tbool(priority)) if spec == "GenSpec" else "",
       ("INVARIANTS " + " ".join(invs)) if invs else "",
       "VIEW ViewNoLast" if view else "", extra)


# ---------------------------------------------------------------- trees -> workflow templates
class Shape:
    """A role tree as the model sees it (after pruning). `source` = the workflow template it is loaded from when that
    has roles disabled by their `enabled` field (same class, with `en`); `src` = template id of every node."""

    def __init__(self, name, parent, kind, crit, src=None, en=None):
        self.name, self.parent, self.kind, self.crit = name, parent, kind, crit
        self.src = src or list(range(1, len(parent) + 1))
        self.en = en or [True] * len(parent)
        self.source = None
        self.n = len(parent)
        self.children = {i: [j for j in range(1, self.n + 1) if parent[j - 1] == i] for i in range(1, self.n + 1)}

    def is_leaf(self, i):
        return self.kind[i - 1] in ("task", "call")

    def leaves_under(self, i):
        if self.is_leaf(i):
            return [i]
        return [x for c in self.children[i] for x in self.leaves_under(c)]

    def has_dead_agg(self):
        return any((not self.is_leaf(i)) and not any(self.crit[x - 1] for x in self.leaves_under(i))
                   for i in range(1, self.n + 1))

    def node_name(self, i):
        return {"agg": "a", "inc": "i", "task": "t", "call": "c"}[self.kind[i - 1]] + str(self.src[i - 1])

    def names(self):
        return [self.node_name(i) for i in range(1, self.n + 1)]

    def templates(self, rng=None):
        """(root document, {subworkflow name: document}); children optionally listed in a shuffled order.
        A template with disabled roles is rendered from its source: `enabled: "false"` or an expression on a
        variable defined in the root's defaults (which of the two: seeded)."""
        if self.source is not None:
            return self.source.templates(rng)
        subs = {}
        flags = {}

        def enabled_line(i, pad):
            if self.en[i - 1]:
                if rng is not None and rng.random() < 0.25:       # an expression that holds
                    flags["en_%d" % i] = "on"
                    return [pad + "  enabled: \"{{ en_%d == 'on' }}\"" % i]
                return []
            if rng is not None and rng.random() < 0.5:            # an expression that does not hold
                flags["en_%d" % i] = "off"
                return [pad + "  enabled: \"{{ en_%d == 'on' }}\"" % i]
            return [pad + "  enabled: \"false\""]

        def role_lines(i, ind):
            pad = " " * ind
            k = self.kind[i - 1]
            nm = self.node_name(i)
            head = [pad + "- name: " + nm] + enabled_line(i, pad)
            if k == "task":
                return head + [pad + "  task:", pad + "    load: dummy",
                               pad + "    critical: " + ("true" if self.crit[i - 1] else "false")]
            if k == "call":
                return head + [pad + "  call:", pad + "    func: testplugin.Noop()",
                               pad + "    trigger: before_START",
                               pad + "    critical: " + ("true" if self.crit[i - 1] else "false")]
            if k == "inc":
                sub = "sub_" + nm
                subs[sub] = "\n".join(["name: " + sub, "roles:"] + kids(i, 2)) + "\n"
                return head + [pad + "  include: " + sub]
            return head + [pad + "  roles:"] + kids(i, ind + 4)

        def kids(i, ind):
            ch = list(self.children[i])
            if rng is not None:
                rng.shuffle(ch)
            out = []
            for c in ch:
                out += role_lines(c, ind)
            return out

        body = kids(1, 2)
        dfl = (["defaults:"] + ["  %s: \"%s\"" % kv for kv in sorted(flags.items())]) if flags else []
        root = "\n".join(["name: " + self.node_name(1)] + dfl + ["roles:"] + body) + "\n"
        return root, subs


def ctx_free_viol(viol, by_id):
    out, seen = [], set()
    for v in viol:
        s = by_id.get(v[2], {})
        if s.get("mode") == "free" and (v[1], v[2]) not in seen and isinstance(v[4], list) and len(v[4]) > 1 \
                and v[4][1] == "free-concurrent":
            seen.add((v[1], v[2]))
            out.append({"inv": v[1], "shape": s.get("shape"), "threads": s.get("threads"), "detail": v[4]})
    return out


def unq(x):
    return x.strip().strip('"')


def beh_to_steps(beh, add_sample=False):
    """Steps of a TLC behaviour. add_sample: the behaviour comes from a model run with SampleStep = FALSE (the sample of
    the old value taken together with MergeEnter); the gates have the finer granularity, so the sample is put in front
    of every merge (a thread that found the role locked waits at the sample already)."""
    steps = []
    for (name, args, st) in beh[1:]:
        if name.startswith("G_"):
            name = name[2:]
        if name == "Begin":
            steps.append({"a": "Begin", "t": int(args[0]), "leaf": int(args[1]), "kind": unq(args[2]), "v": unq(args[3])})
        elif name in ("Sample", "MergeEnter", "MergeUnblock", "MergeAssign", "ReadCache", "Deliver"):
            t = int(args[0])
            if add_sample and name == "MergeEnter":
                steps.append({"a": "Sample", "t": t})
                if st["thr"][t - 1]["pc"] == "blocked":
                    continue
            steps.append({"a": name, "t": t})
            if add_sample and name == "MergeUnblock":
                steps.append({"a": "MergeEnter", "t": t})
        else:
            raise vlib.Inconclusive("unlabelled step in a TLC behaviour: %r" % (name,))
    return steps


def run(ctx):
    quick = ctx.tier == "quick"
    dead_open = ctx.deviation_open(DEV_DEAD)
    stale_open = ctx.deviation_open(DEV_STALE)
    dead_fixed = not dead_open     # model constant NoOpinionInit
    trust = stale_open             # model constant TrustCarried
    W = int(os.environ.get("VERIF_TLC_WORKERS", "0")) or min(vlib.NCPU, 8)
    rng = random.Random(ctx.seed)
    ctx.assumptions += [
        "a role tree is what VerifRTLoad builds: the repository's YAML unmarshalling + ProcessTemplates (include roles resolved "
        "from memory, no repository manager / task manager); iterator roles are out of scope (GetRoles flattens them)",
        "leaves are told: tasks %s, calls %s, statuses %s in the exhaustive model (the values the callers in core/ send); "
        "the recorded runs and the trace validation use the full carriers; the two-update concurrency runs use three healthy "
        "states + ERROR (healthy states are interchangeable in State.X)" % (TASK_STATES, CALL_STATES, REAL_STATUSES),
        "an update is atomic per critical section: leaf merge; lock(role) + read + compute of an aggregator merge; the "
        "assignment + unlock; the unlocked re-read of the cache + call of the parent; delivery to the ParentAdapter; forced "
        "interleavings have this granularity (gates role.enter / merge.computed / role.merged). The role's write lock is an "
        "explicit model variable; read locks (the re-read, the walk over the children) are over-approximated in the exhaustive "
        "model (a read never waits) and avoided in the imposed schedules",
        "propagation probes: counterexamples of the model with PropagateAlways = FALSE (an aggregator that tells its parent "
        "only when its value differs from the one sampled before the merge; three overlapping updates through one non-root "
        "aggregator) are imposed on the real code through the gate role.sampled: every update must be seen entering the parent",
        "lock probes: counterexamples of the model with MergeAtomic = FALSE (merge computes outside the lock), cut after the "
        "first contended merge, are imposed on the real code: the entering update must be observed waiting (no gate reached "
        "within 30 ms while the holder is parked inside the merge - it cannot progress, so the wait only bounds 'nothing more "
        "happens'); an update that gets through is driven to completion first",
        "concurrent = two updates of different leaves in flight (any number of such episodes in the recorded runs, %s in the "
        "exhaustive model); free-running runs with up to 4 goroutines are checked at quiescence only" % ("1 episode"),
        "tree shapes: the 19 shapes of RoleTree!Shapes (depth <= 3, <= 5 leaves); 5 of them are what the loader leaves of "
        "templates with roles disabled by `enabled` (literal or expression): the model tree is the tree after pruning",
    ]
    ctx.rule = ("scenario = a behaviour of RoleTreeGen (TLC -simulate, seeded; shape drawn by TLC, children listed in a seeded "
                "random order) or a TLC counterexample, replayed step by step on a real role tree under gates; plus free-running "
                "runs; non-trivial = at least one update that is forwarded to an aggregator; distinct = distinct (shape, child "
                "order, step sequence)")

    # ------------------------------------------------------------------ 0. algebra + shape table
    r = ctx.tlc("RoleTreeAlgebra", None, workers=1, timeout=300,
                cfg_text=cfg("Spec", ["S01"], ["state"], 1, 0, dead_fixed, trust, task_states=["STANDBY"],
                             call_states=["STANDBY"], statuses=["INACTIVE"]))
    alg = r.records("ALGEBRA")
    if not r.no_error or not alg:
        ctx.save_debug(r, "tlc_algebra.txt")
        # (an ASSUME that fails means the TRANSCRIBED tables lack the algebra: model trouble; the real tables are
        # compared with the transcription pair by pair by the monitor - ProductTable)
        raise vlib.Inconclusive("algebra evaluation failed: " + vlib.tail(r.out, 8))
    ctx.extra["algebra"] = {"states": alg[0][1], "statuses": alg[0][2], "perm_fold_evaluations_state": alg[0][3],
                            "perm_fold_evaluations_status": alg[0][4],
                            "decided": "commutative, associative, idempotent, ERROR/UNDEFINED absorbing, INVARIANT neutral, "
                                       "left folds invariant under all permutations of <= 4 children (full carriers)"}
    ctx.evaluations += alg[0][3] + alg[0][4]
    shapes = {}
    for rec in r.records("SHAPE"):
        shapes[rec[1]] = Shape(rec[1], rec[2], rec[3], rec[4], src=rec[5])
    pruned = []
    for rec in r.records("SOURCE"):
        if rec[1] in shapes:
            shapes[rec[1]].source = Shape(rec[1], rec[2], rec[3], rec[4], en=rec[5])
            pruned.append(rec[1])
    if len(shapes) < 10:
        raise vlib.Inconclusive("shape table not printed by TLC")
    names = sorted(shapes)
    dead = [s for s in names if shapes[s].has_dead_agg()]
    live = [s for s in names if s not in dead]
    ctx.extra["shapes"] = {"all": names, "with_aggregator_without_critical_descendant": dead,
                           "loaded_from_templates_with_disabled_roles": sorted(pruned)}

    scenarios = []
    predicted = []    # (scenario id, invariant, cls or None)
    replay_only = None
    if ctx.replay:
        with open(ctx.replay) as fh:
            replay_only = json.load(fh)["replay"]["scenario"]

    def add_cex(res, sid, origin, add_sample=False):
        m = re.search(r"is violated by the initial state:(.*?)\n\s*\n", res.out, re.S)
        if m:
            # the freshly loaded tree already breaks the invariant: a scenario without steps
            shp = re.search(r'shape = "([A-Za-z0-9]+)"', m.group(1)).group(1)
            scenarios.append(mk_scenario(sid, shp, [], None, origin))
            return
        beh = res.counterexample()
        if not beh:
            raise vlib.Inconclusive("no counterexample parsed for " + origin)
        shp = beh[0][2]["shape"]
        scenarios.append(mk_scenario(sid, shp, beh_to_steps(beh, add_sample), None, origin))

    def mk_scenario(sid, shp, steps, prng, origin):
        root, subs = shapes[shp].templates(prng)
        return {"id": sid, "mode": "sched", "shape": shp, "yaml": root, "subs": subs, "names": shapes[shp].names(),
                "steps": steps, "origin": origin, "perm": prng is not None}

    def mc(shp, kinds, threads, episodes, invs, view=True, **kw):
        return ctx.model_check("RoleTreeGen", None, workers=W, timeout=840,
                               cfg_text=cfg("GenSpec", shp, kinds, threads, episodes, dead_fixed, trust, invs, view, **kw))

    def must_hold(res, what):
        if res.violated:
            # the model as configured (known deviations included) breaks the property: replay it; the
            # monitor decides whether the real code does
            sid = 100 + len(predicted)
            add_cex(res, sid, "model-counterexample:" + res.violated[0] + ":" + what, add_sample=True)
            predicted.append((sid, res.violated[0], None))

    if replay_only is not None:
        _replay_and_validate(ctx, [replay_only], [], None, dead_fixed, trust, quick=True, free=[])
        return
    adapter_sid = _model_check(ctx, quick, names, dead, live, dead_open, stale_open, mc, must_hold, add_cex, predicted,
                               dead_fixed, W, trust, lambda sid, shp, steps, origin: scenarios.append(mk_scenario(sid, shp, steps, None, origin)))
    free = _generate(ctx, quick, names, shapes, scenarios, mk_scenario, rng, dead_fixed, trust)
    _replay_and_validate(ctx, scenarios, predicted, adapter_sid, dead_fixed, trust, quick, free)


def _model_check(ctx, quick, names, dead, live, dead_open, stale_open, mc, must_hold, add_cex, predicted, dead_fixed, W,
                 trust, add_probe):
    # ------------------------------------------------------------------ 1. exhaustive model checking
    ERR = ["ErrorNotLost", "ErrorNotInvented"]

    def mch(*a, **kw):
        # runs expected to hold describe the code as it is, where the sampled value is used for the role events only:
        # the sample is taken together with MergeEnter (same reachable caches, fewer states)
        return mc(*a, sample_step=False, **kw)

    # 1a/1b sequential, state: every sequence of updates (unbounded length), all shapes. With the deviation open the
    # model is checked against FoldStateAsIs (= FoldState wherever no aggregator lacks a critical descendant), which
    # shows that the deviation is the only one; FoldInv proper is then expected to fail on the remaining shapes.
    SEQ = ["TypeOK", "ErrorNotInventedEver", "AdapterFresh"] + ERR
    seq_states = TASK_STATES[:4] if quick else TASK_STATES
    if dead_open:
        must_hold(mch(names, ["state"], 1, 0, SEQ + ["FoldStateAsIsInv"], view=False, task_states=seq_states),
                  "sequential state, deviation taken as given")
        rd = mch(dead, ["state"], 1, 0, ["FoldStateInv"])
        if rd.violated:
            add_cex(rd, 1, "model-counterexample:FoldInv:" + DEV_DEAD, add_sample=True)
            predicted.append((1, "FoldInv", DEV_DEAD))
        else:
            ctx.observations.append("deviation %s is open but the model does not violate FoldInv" % DEV_DEAD)
    else:
        must_hold(mch(names, ["state"], 1, 0, SEQ + ["FoldStateInv"], view=False, task_states=seq_states), "sequential state")
    # 1c sequential, status
    must_hold(mch(names, ["status"], 1, 0, ["TypeOK", "FoldStatusInv", "AdapterFresh"], view=False,
                 statuses=REAL_STATUSES if quick else ALL_STATUSES), "sequential status")
    # 1d order independence of two updates of different leaves, from every reachable quiescent state
    oi_shapes = ["S03", "S10"] if quick else [s for s in names if s != "S12"]
    oi_states = ["CONFIGURED", "RUNNING", "ERROR"] if quick else TASK_STATES
    must_hold(mch(oi_shapes, ["state"], 1, 0, ["OrderIndependent"], task_states=oi_states), "order independence (state)")
    must_hold(mch(oi_shapes, ["status"], 1, 0, ["OrderIndependent"]), "order independence (status)")
    # 1e two concurrent updates, state
    con_shapes = ["S03", "S10"] if quick else live
    # (the healthy states are interchangeable in XS: three of them and ERROR are enough for two concurrent updates)
    con_states = ["CONFIGURED", "RUNNING", "ERROR"] if quick else TASK_STATES[:4]
    if stale_open:
        must_hold(mch(con_shapes, ["state"], 2, 1, ["ErrorNotLost"], task_states=con_states), "concurrent state: ErrorNotLost")
        rf = mch(con_shapes, ["state"], 2, 1, ["FoldStateInv"], task_states=con_states)
        if rf.violated:
            add_cex(rf, 2, "model-counterexample:FoldInv:" + DEV_STALE, add_sample=True)
            predicted.append((2, "FoldInv", DEV_STALE))
        ri = mch(con_shapes, ["state"], 2, 1, ["ErrorNotInvented"], task_states=con_states)
        if ri.violated:
            add_cex(ri, 3, "model-counterexample:ErrorNotInvented:" + DEV_STALE, add_sample=True)
            predicted.append((3, "ErrorNotInvented", DEV_STALE))
        if not (rf.violated or ri.violated):
            ctx.observations.append("deviation %s is open but the model violates nothing under concurrency" % DEV_STALE)
    else:
        must_hold(mch(con_shapes, ["state"], 2, 1, ["TypeOK", "FoldStateInv"] + ERR, task_states=con_states), "concurrent state")
    # 1f two concurrent updates, status (the statuses the callers send: no UNDEFINED)
    must_hold(mch(con_shapes if quick else names, ["status"], 2, 1, ["FoldStatusInv"]), "concurrent status")
    if not quick and stale_open:
        # with UNDEFINED told to a leaf the same stale shortcut exists for status
        ru = mch(["S03", "S06", "S11"], ["status"], 2, 1, ["FoldStatusInv"], statuses=ALL_STATUSES)
        if ru.violated:
            add_cex(ru, 4, "model-counterexample:FoldInv(status):" + DEV_STALE, add_sample=True)
            predicted.append((4, "FoldInv", DEV_STALE))
    # 1i lock probes. The model of a merge that computes outside the role's lock (MergeAtomic = FALSE) loses an
    # ERROR / breaks the fold; its counterexample, cut right after the step where the two models part (an update
    # entering the merge of a role another update is parked in), is imposed on the real code: there the entering
    # update must be found waiting for the lock ("blocked"); if it gets through, the driver lets it finish first.
    probes = []
    for (pid, pshapes, pkind, pinv, pstates) in [(7, ["S03", "S10"], "state", "ErrorNotLost", con_states),
                                                  (8, ["S03"], "status", "FoldStatusInv", None)] + \
            ([] if quick else [(9, ["S05"], "state", "ErrorNotLost", con_states), (10, ["S06"], "state", "FoldStateInv", con_states),
                               (11, ["S11"], "state", "ErrorNotLost", con_states)]):
        kw = {"task_states": pstates} if pstates else {}
        rp = ctx.model_check("RoleTreeGen", None, workers=W, timeout=840,
                             cfg_text=cfg("GenSpec", pshapes, [pkind], 2, 1, dead_fixed,
                                          trust if pinv == "ErrorNotLost" else False, [pinv], True,
                                          merge_atomic=False, priority=True, **kw))
        if not rp.violated:
            raise vlib.Inconclusive("the model with MergeAtomic = FALSE does not violate %s on %s" % (pinv, pshapes))
        beh = rp.counterexample()
        cut = None
        for i in range(1, len(beh)):
            name, args, _ = beh[i]
            if name.replace("G_", "") not in ("Sample", "MergeEnter"):
                continue
            pre = beh[i - 1][2]["thr"]
            u = int(args[0])
            me = pre[u - 1]
            if any(j + 1 != u and w["pc"] == "computed" and w["at"] == me["at"] and w["kind"] == me["kind"] for j, w in enumerate(pre)):
                cut = i
                break
        if cut is None:
            raise vlib.Inconclusive("no contended merge in the MergeAtomic = FALSE counterexample of " + pinv)
        add_probe(pid, beh[0][2]["shape"], beh_to_steps(beh[:cut + 1]), "lock-probe:%s:%s" % (pkind, pinv))
        probes.append(pid)
    ctx.extra["lock_probes"] = {"scenarios": probes}
    # 1j propagation probes. The model of an aggregator that passes its value on only when it differs from the value it
    # sampled before the merge (PropagateAlways = FALSE) leaves an ancestor stale once an update that sampled, was
    # overtaken and merged the role back to the sampled value is dropped. Its counterexample (three overlapping updates
    # through one non-root aggregator) is imposed on the real code, where every update must be seen entering the parent.
    pprobes = []
    for (pid, pshapes, pkind, pinv, nthr, pstat) in [(12, ["S20"], "status", "FoldStatusInv", 2, ["INACTIVE", "ACTIVE"])] + \
            ([] if quick else [(13, ["S03"], "state", "FoldStateInv", 2, None),
                               (14, ["S20"], "status", "FoldStatusInv", 3, REAL_STATUSES)]):
        kw = {"statuses": pstat} if pstat else {"task_states": ["CONFIGURED", "RUNNING", "ERROR"]}
        rp = ctx.model_check("RoleTreeGen", None, workers=W, timeout=840,
                             cfg_text=cfg("GenSpec", pshapes, [pkind], nthr, 2, dead_fixed, False, [pinv], True,
                                          propagate=False, priority=True, **kw))
        if not rp.violated:
            raise vlib.Inconclusive("the model with PropagateAlways = FALSE does not violate %s on %s" % (pinv, pshapes))
        beh = rp.counterexample()
        cut, dropped = len(beh), False
        for i in range(1, len(beh)):
            name, args, post = beh[i]
            name = name.replace("G_", "")
            if name == "ReadCache" and post["thr"][int(args[0]) - 1]["pc"] == "idle":
                dropped = True          # from here on the real code has one more update in flight than this model
            elif name == "Begin" and dropped:
                cut = i
                break
        if not dropped:
            raise vlib.Inconclusive("no dropped update in the PropagateAlways = FALSE counterexample of " + pinv)
        add_probe(pid, beh[0][2]["shape"], beh_to_steps(beh[:cut]), "propagation-probe:%s:%s" % (pkind, pinv))
        pprobes.append(pid)
    ctx.extra["propagation_probes"] = {"scenarios": pprobes}
    # 1g what the adapter saw last (observation, outside C11)
    ra = mch(["S01", "S03"], ["state"], 2, 1, ["AdapterFresh"], view=False, task_states=["CONFIGURED", "RUNNING"])
    adapter_sid = None
    if ra.violated:
        adapter_sid = 5
        add_cex(ra, adapter_sid, "model-counterexample:AdapterFresh", add_sample=True)
    # 1h the model as repaired satisfies everything, also under concurrency (supports the proposed repairs)
    if not quick and (dead_open or stale_open):
        rr = ctx.model_check("RoleTreeGen", None, workers=W, timeout=840,
                             cfg_text=cfg("GenSpec", names, ["state"], 2, 1, True, False,
                                          ["TypeOK", "FoldStateInv"] + ERR, True, task_states=["CONFIGURED", "RUNNING", "ERROR"],
                                          sample_step=False))
        ctx.extra["repaired_model"] = {"NoOpinionInit": True, "TrustCarried": False, "distinct": rr.distinct,
                                       "result": "ok" if rr.no_error else "violated:" + ",".join(rr.violated)}
        if not rr.no_error:
            ctx.observations.append("the model with both repairs still violates " + ",".join(rr.violated))
    ctx.exhaustive = False   # the model is decided exhaustively; the scenarios replayed on the real code are a seeded sample
    return adapter_sid


def _generate(ctx, quick, names, shapes, scenarios, mk_scenario, rng, dead_fixed, trust):
    # ------------------------------------------------------------------ 2. scenarios from the model
    sid = 1000
    nseq, ncon = (120, 160) if quick else (1200, 1800)
    gen_cfgs = [
        ("seq", names, ["state", "status"], 1, nseq, 45),
        ("con", names, ["state"], 2, ncon, 40),
        ("con-mixed", names, ["state", "status"], 2, ncon // 2, 40),
    ]
    for (tag, shp, kinds, threads, num, depth) in gen_cfgs:
        behs = ctx.simulate("RoleTreeGen", None, num, depth, seed=ctx.seed * 7919 + sid,
                            cfg_text=cfg("GenSpec", shp, kinds, threads, 1000000, dead_fixed, trust,
                                         task_states=ALL_STATES if tag == "seq" else TASK_STATES + ["INVARIANT"],
                                         call_states=CALL_STATES, statuses=ALL_STATUSES, priority=True))
        for b in behs:
            sid += 1
            shp_name = b[0][2]["shape"]
            scenarios.append(mk_scenario(sid, shp_name, beh_to_steps(b), rng if rng.random() < 0.6 else None, "generated:" + tag))
    # the documented example (DESIGN.md): root{a{t,t critical}, b{non-critical}}, every task CONFIGURED, one update at a time
    # ... and the same on every tree loaded from a template with disabled roles (the fold is over the SURVIVING leaves:
    # an aggregator whose critical leaves were all pruned has no opinion), both renderings of `enabled`
    dsid = 20
    for nm in ["S04"] + sorted(x for x in names if shapes[x].source is not None):
        shp = shapes[nm]
        steps = []
        for lf in [x for x in range(1, shp.n + 1) if shp.is_leaf(x)]:
            # "Run" = the driver takes the update to completion, one recorded step per critical section
            steps += [{"a": "Begin", "t": 1, "leaf": lf, "kind": "state", "v": "CONFIGURED"}, {"a": "Run", "t": 1}]
        for prng in ([None] if shp.source is None else [None, random.Random(ctx.seed * 31 + dsid)]):
            dsid += 1
            scenarios.append(mk_scenario(6 if nm == "S04" else dsid, nm, steps, prng, "directed:all-tasks-CONFIGURED"))
    # free-running runs: one goroutine per leaf
    nfree = 60 if quick else 400
    free = []
    for i in range(nfree):
        sid += 1
        shp = shapes[rng.choice(names)]
        leaves = [x for x in range(1, shp.n + 1) if shp.is_leaf(x)]
        nth = rng.randint(1, min(4, len(leaves)))
        ths = []
        for lf in rng.sample(leaves, nth):
            ups = []
            for _ in range(rng.randint(1, 6)):
                if rng.random() < 0.7:
                    ups.append({"leaf": lf, "kind": "state", "v": rng.choice(TASK_STATES if shp.kind[lf - 1] == "task" else CALL_STATES)})
                else:
                    ups.append({"leaf": lf, "kind": "status", "v": rng.choice(REAL_STATUSES)})
            ths.append(ups)
        root, subs = shp.templates(rng if rng.random() < 0.6 else None)
        free.append({"id": sid, "mode": "free", "shape": shp.name, "yaml": root, "subs": subs, "names": shp.names(),
                     "threads": ths, "rounds": 15 if quick else 5, "origin": "free"})
    scenarios += free
    sid += 1
    scenarios.append({"id": sid, "mode": "algebra", "origin": "algebra"})
    ctx.extra["scenarios"] = {"generated_sequential": nseq, "generated_concurrent": ncon + ncon // 2, "free": nfree}
    return free


def _replay_and_validate(ctx, scenarios, predicted, adapter_sid, dead_fixed, trust, quick, free):
    # ------------------------------------------------------------------ 3. replay on the real code
    binp = ctx.build("roletree")
    scn_file = ctx.path("scenarios.ndjson")
    trace_file = ctx.path("trace.ndjson")
    ctx.write_ndjson(scn_file, scenarios)
    out = ctx.run([binp, "-scenarios", scn_file, "-trace", trace_file], timeout=900)
    ctx.log("replayed: " + out.strip())
    races = None
    if not quick and free:
        # the same free-running runs under the race detector (gated runs are serialised by the gates)
        binr = ctx.build("roletree", race=True)
        rs = ctx.path("scenarios_race.ndjson")
        rt = ctx.path("trace_race.ndjson")
        racelog = ctx.path("race", "log")
        for f in free:
            f["rounds"] = 20
        ctx.write_ndjson(rs, free)
        ctx.run([binr, "-scenarios", rs, "-trace", rt], timeout=900,
                env={"GORACE": "halt_on_error=0 exitcode=0 log_path=" + racelog})
        races = []
        d = os.path.dirname(racelog)
        for fn in sorted(os.listdir(d)):
            with open(os.path.join(d, fn)) as fh:
                txt = fh.read()
            for blk in txt.split("WARNING: DATA RACE")[1:]:
                fr = re.findall(r"^\s+([A-Za-z0-9_./()*\-]+)\(\)\n\s+(\S+:\d+)", blk, re.M)
                races.append([x[0] + " " + os.path.basename(x[1]) for x in fr[:4]])
        # append the race-build runs to the trace that is validated
        with open(trace_file, "a") as fh, open(rt) as fr:
            fh.write(fr.read())
        ctx.extra["race_detector"] = {"runs": len(free) * 20, "reports": len(races), "samples": races[:3]}
        if races:
            sites = sorted({" <- ".join(x[:2]) for x in races})
            ctx.observations.append("race detector: %d report(s) in free-running concurrent updates: %s" % (len(races), "; ".join(sites[:4])))
    by_id = {s["id"]: s for s in scenarios}
    for s in scenarios:
        if s["mode"] == "sched":
            canon = json.dumps([s["shape"], s["yaml"], [(st["a"], st.get("t"), st.get("leaf"), st.get("kind"), st.get("v")) for st in s["steps"]]])
            ctx.count_case(canon, nontrivial=any(st["a"] in ("MergeEnter", "Run") for st in s["steps"]))
        elif s["mode"] == "free":
            ctx.count_case(json.dumps([s["shape"], s["yaml"], s["threads"]]), nontrivial=True)
    ex = next((s for s in scenarios if s["mode"] == "sched" and s["origin"].startswith("generated:con") and len(s["steps"]) > 8), scenarios[0])
    ctx.sample({"scenario": {k: ex[k] for k in ("id", "shape", "origin", "names")}, "yaml": ex["yaml"],
                "steps": [[st["a"], st.get("t"), st.get("leaf"), st.get("kind"), st.get("v")] for st in ex["steps"]][:30]})
    lines = ctx.read_ndjson(trace_file)
    ctx.sample({"trace_lines_of_that_scenario": [x for x in lines if x.get("scn") == ex["id"]][:4]})
    if "lock_probes" in ctx.extra:
        pids = ctx.extra["lock_probes"]["scenarios"]
        ctx.extra["lock_probes"]["updates_observed_waiting_for_a_role_lock"] = sum(1 for x in lines if x.get("pc") == "blocked")
        ctx.extra["lock_probes"]["probes_blocked"] = sorted({x["scn"] for x in lines if x.get("pc") == "blocked" and x.get("scn") in pids})

    # ------------------------------------------------------------------ 4. trace validation by TLC
    tcfg = cfg("TraceSpec", ["S01"], ["state", "status"], 3, 1000000, dead_fixed, trust, ["PrintEnd"], False,
               task_states=ALL_STATES, call_states=ALL_STATES, statuses=ALL_STATUSES).replace("INVARIANTS", "INVARIANT")
    viol, drift, tr = ctx.validate("RoleTreeTrace", None, trace_file, cfg_text=tcfg, timeout=1200)
    ctx.traces = sum(1 for x in lines if x["ev"] == "Reset")
    ctx.extra["trace_lines"] = len(lines)
    ctx.extra.setdefault("scenarios", {})["from_model_counterexamples"] = len(
        [s for s in scenarios if s.get("origin", "").startswith("model-")])

    def trace_of(scn):
        return [x for x in lines if x.get("scn") == scn][:80]

    for d in drift:
        s = by_id.get(d[1], {})
        ctx.drift.append({"scn": d[1], "line": d[2], "what": d[3], "origin": s.get("origin", "?"), "shape": s.get("shape")})
    seen = set()
    flagged = set()
    harness = [v for v in viol if v[1] == "Harness"]
    if harness:
        raise vlib.Inconclusive("harness trouble in %d recorded run(s): %s" % (len(harness), json.dumps(harness[0])[:200]))
    for v in viol:
        inv, scn, line, det = v[1], v[2], v[3], v[4]
        kind = det[0] if isinstance(det, list) and det and det[0] in ("state", "status") else "-"
        cls = det[1] if kind != "-" and len(det) > 1 and isinstance(det[1], str) else "-"
        flagged.add((scn, inv))
        if (inv, scn, kind, cls) in seen:
            continue
        seen.add((inv, scn, kind, cls))
        s = by_id.get(scn, {})
        ctx.add_violation({"inv": inv, "cls": cls, "kind": kind, "scn": scn, "line": line, "shape": s.get("shape"),
                           "mode": s.get("mode"), "origin": s.get("origin", "?"), "detail": det},
                          replay_obj={"scenario": s, "trace": trace_of(scn)})
    fr = [v for v in ctx_free_viol(viol, by_id)]
    if fr:
        ctx.extra["free_run_violations"] = fr[:5]
        ctx.observations.append("%d free-running concurrent run(s) (no forced schedule) ended with a cache that is not the fold of "
                                "the leaves, e.g. %s" % (len(fr), json.dumps(fr[0])[:300]))
    # every model counterexample must reproduce on the real code
    for (psid, inv, dev) in predicted:
        if (psid, inv) not in flagged and not ctx.violations:
            raise vlib.Inconclusive("MODEL-UNREPRODUCED: the model violates %s (%s) but the replayed counterexample %d did not"
                                    % (inv, by_id[psid]["origin"], psid))
    notes = tr.records("NOTE")
    if adapter_sid is not None:
        hit = [n for n in notes if n[2] == adapter_sid]
        if hit:
            ctx.observations.append("under concurrency the LAST value the ParentAdapter receives can differ from the root's final "
                                    "value (root re-reads its cache outside the lock, deliveries overtake each other): model "
                                    "invariant AdapterFresh violated and reproduced on the real code (%s); outside C11, which speaks "
                                    "of the roles' own values" % json.dumps(hit[0][4]))
        else:
            ctx.observations.append("model predicts a stale last delivery to the ParentAdapter (AdapterFresh) that did not reproduce")
    ctx.extra["adapter_stale_notes"] = len(notes)
