"""C17 - every launched task ends with exactly one terminal status and no survivors.

Model: spec/ExecTask.tla (one task inside the executor: handlers.go routing + basic / hook /
controllable task objects + the child's life), checked exhaustively by TLC per task kind.
Scenarios: spec/ExecTaskGen.tla - TLC enumerates kind x child behaviour x (request, instant) x
(second request, instant, distance) and prints the model behaviour of each plan.
Binding: harness/cmd/exectask replays every scenario on the REAL executor handlers and task objects
(executor.VerifExecutor, tag verif) with REAL child processes, each scenario in its own process;
spec/ExecTaskTrace.tla validates the recorded runs (conformance with candidate sets + monitor).
"""
import itertools
import json
import os
import random
import re

import vlib

DEV_STOP = "stop-running-basic-nil-processstate"
DEV_REAPER = "kill-races-with-reaper-start"

KINDS = ["basic", "hook", "ctl"]
BEHS = ["sleep", "ignore", "fork", "exit0", "exit3", "crash", "noready", "stuck", "done0", "done3", "donesig", "nodone", "fmq",
        "midstate", "resetstuck", "slow"]
REQS = ["CONFIGURE", "START", "STOP", "Trigger", "Kill"]
INSTS = ["launching", "nochild", "starting", "polling", "running", "exiting", "reaped", "gone"]
NTHS = [1, 2, 3]   # first / repeated back to back / repeated after a terminal status had been reported
INVS = ["OneTerminal", "KilledNotFailed", "NoSurvivors", "ExecutorSurvives"]
IMPL = {"basic": "basicTaskBase", "hook": "basicTaskBase", "ctl": "ControllableTask"}
WORKERS = min(8, vlib.NCPU)


def tla_set(xs):
    return "{" + ", ".join('"%s"' % x for x in xs) + "}"


def known_classes(ctx):
    """Violation classes <<inv, kind, beh, r, inst, nth>> covered by open findings (model level:
    the panic site is a fact of the recorded run only)."""
    out = set()
    for f in ctx.findings:
        if f.get("property") != ctx.pid or f.get("status") != "open":
            continue
        m = f.get("match", {})
        kinds = [k for k in KINDS if m.get("kind", k) == k and m.get("impl", IMPL[k]) == IMPL[k]]
        for tup in itertools.product([m["inv"]] if "inv" in m else INVS, kinds,
                                     [m["beh"]] if "beh" in m else BEHS, [m["r"]] if "r" in m else REQS,
                                     [m["inst"]] if "inst" in m else INSTS, [m["nth"]] if "nth" in m else NTHS):
            out.add(tup)
    return out


def mc_module(known):
    rows = ",\n  ".join('<<"%s", "%s", "%s", "%s", "%s", %d>>' % t for t in sorted(known))
    return "---- MODULE ExecTaskMC ----\nEXTENDS ExecTask\nKnownSet == {\n  %s}\n====\n" % rows


def tf(b):
    return "TRUE" if b else "FALSE"


def cfg_model(kind, maxreq, dev, invs, behs=None, reqs=None):
    return """SPECIFICATION Spec
CONSTANTS
  Kinds = {"%s"}
  Behs = %s
  Holds = {FALSE}
  MaxReq = %d
  Reqs = %s
  DevStopNilDeref = %s
  DevReaperField = %s
  Known <- KnownSet
INVARIANTS %s
CHECK_DEADLOCK FALSE
""" % (kind, tla_set(behs or BEHS), maxreq, tla_set(reqs or REQS), tf(dev[0]), tf(dev[1]), " ".join(invs))


def cfg_gen(dev):
    return """SPECIFICATION GenSpec
CONSTANTS
  Kinds = %s
  Behs = %s
  Holds = {TRUE, FALSE}
  MaxReq = 6
  Reqs = {}
  DevStopNilDeref = %s
  DevReaperField = %s
  Known = {}
  Seconds = TRUE
INVARIANT PrintScn
CHECK_DEADLOCK FALSE
""" % (tla_set(KINDS), tla_set(BEHS), tf(dev[0]), tf(dev[1]))


def cfg_trace(dev):
    return """SPECIFICATION TraceSpec
CONSTANTS
  Kinds = %s
  Behs = %s
  Holds = {TRUE, FALSE}
  MaxReq = 8
  Reqs = {}
  DevStopNilDeref = %s
  DevReaperField = %s
  Known = {}
INVARIANT PrintEnd
CHECK_DEADLOCK FALSE
""" % (tla_set(KINDS), tla_set(BEHS), tf(dev[0]), tf(dev[1]))


def scn_from_gen(sid, rec):
    plan = [(p["r"], p["when"], p["at"]) for p in rec["plan"]]
    steps = [{"a": h["a"], "r": h["r"]} if h["r"] else {"a": h["a"]} for h in rec["hist"]]
    if rec.get("second") and rec["exec"] == "ok":
        steps.append({"a": "Second"})   # the same executor is given a second task afterwards
    bad = sorted(tuple(b) for b in rec["bad"]["$set"])
    cls = "%s/%s/%s%s" % (rec["kind"], rec["beh"], "+".join("%s@%s%s" % (r, w, "" if a == "calm" else ":" + a)
                                                           for (r, w, a) in plan) or "-",
                          ("/deep" if rec["deep"] else "") + ("/hold" if rec["hold"] and rec["kind"] != "ctl" else "")
                          + ("/user" if rec.get("usr") else "") + ("/down" if rec.get("down") else "") + ("/second" if rec.get("second") else ""))
    return {"id": sid, "kind": rec["kind"], "beh": rec["beh"], "hold": bool(rec["hold"]), "user": bool(rec.get("usr")), "down": bool(rec.get("down")),
            "steps": steps, "cls": cls,
            "plan": plan, "predicted": [list(b) for b in bad], "origin": "generated"}


STEP_OF = {"Launch": "Launch", "Release": "Release", "Timer": "Timer", "Reap": "Reap", "LDial": "LDial", "LPoll": "LPoll",
           "LWait": "LWait", "LDialTimeout": "LFail", "LPollTimeout": "LFail", "KClose": "KClose", "KEnd": "KEnd"}


def scn_from_counterexample(sid, beh, inv):
    """A TLC counterexample of ExecTask (arbitrary interleaving) as a scenario for the driver."""
    steps = []
    prev = beh[0][2]
    for (name, args, st) in beh[1:]:
        if name in STEP_OF:
            steps.append({"a": STEP_OF[name]})
        elif name == "Req":
            steps.append({"a": "Req", "r": str(args[0]).strip('"')})
        elif name == "Proc":
            nxt = prev["sent"][prev["procd"]]
            steps.append({"a": "ProcHeld" if nxt in ("FINISHED", "FAILED", "KILLED") else "Proc"})
        elif name in ("Respond", "KillSend"):
            steps.append({"a": "Body", "r": prev["hs"][int(args[0]) - 1]["r"]})
        elif name in ("WaitRet", "KillBodyBasic", "TransBody", "ReaperStart", "NoopBody", "StartBody", "StopBody", "StopPush", "StopKill", "KPush", "KGrace", "DoneExit", "TransCommit",
                      "LWaitRet"):
            steps.append({"a": "Nop"})
        elif name == "KBody":
            steps.append({"a": "KWalk"})
        elif name in ("KTerm", "KInt", "KKill9"):
            sig = {"KTerm": "TERM", "KInt": "INT", "KKill9": "KILL"}[name]
            steps.append({"a": "KSig", "r": sig} if prev["child"] == "running" else {"a": "Settle"})
        else:
            steps.append({"a": "Settle"})
        prev = st
    first = beh[0][2]
    return {"id": sid, "kind": first["kind"], "beh": first["beh"], "hold": True, "steps": steps,
            "cls": "model-counterexample:" + inv, "plan": [], "predicted": [[inv]], "origin": "model-counterexample:" + inv}


def racy(s):
    return any(w == "exiting" or a != "calm" for (_, w, a) in s["plan"])


def run(ctx):
    _run(ctx, None)


def replay(ctx, obj):
    """./check C17 --replay evidence/replays/C17/<file>: run that scenario again on the real code and validate it."""
    _run(ctx, obj["scenario"])


def _run(ctx, replay_scn):
    dev_stop = (ctx.deviation_open(DEV_STOP), ctx.deviation_open(DEV_REAPER))
    quick = ctx.tier == "quick"
    known = known_classes(ctx)
    ctx.assumptions += [
        "a task starts at most one child (one START / Trigger per task)",
        "the 30 s start-up timeouts of a controllable task do not expire while a request is being handled",
        "the agent connection is the boundary: status updates and messages are observed where the executor hands them to its "
        "calls.Sender; the event loop's select is played by the driver (a queued terminal status may be served after an agent event)",
        "children are /bin/sh scripts and a fake OCC device (control mode DIRECT); process-group members are found through an "
        "environment tag in /proc and probed with kill(-pgid, 0)",
        "a request handler goroutine that blocks for ever is reported as an observation, not as an executor hang",
    ]
    ctx.rule = ("scenario = one plan of ExecTaskGen (kind x child behaviour x request@instant [x second request@instant, "
                "calm/now/mid]) enumerated exhaustively by TLC, replayed on the real executor handlers with real child processes, "
                "one process per scenario; distinct = distinct plans; non-trivial = at least one request beyond LAUNCH")

    replay_only = None
    if replay_scn:
        replay_only = dict(replay_scn)
        replay_only.update({"plan": [], "predicted": [], "origin": "replay"})

    # 1. exhaustive model checking, per task kind; violations outside the classes of open findings are new
    invs = ["TypeOK", "OneTerminalX", "KilledNotFailedX", "NoSurvivorsX", "ExecutorSurvivesX", "GoneIsGone"]
    # for the shell-script kinds "ignore" behaves like "sleep" (only SIGKILL is ever sent) and exit0 like exit3
    b4 = ["sleep", "fork", "exit3", "crash"]
    if quick:
        runs = [("basic", 3, b4, ["START", "STOP", "Kill"]), ("hook", 3, b4, None),
                ("ctl", 2, ["fork", "noready", "stuck", "done3", "nodone", "midstate", "resetstuck"], None)]
    else:
        # (controllable tasks: the Kill goroutine has seven steps; three overlapping requests are beyond 20M states,
        #  so their exhaustive bound stays at two requests at any instant - the replayed plans add the
        #  CONFIGURE/START preamble in front of up to two Kills)
        runs = [("basic", 4, ["fork", "crash"], ["START", "STOP", "Kill"]), ("basic", 3, None, None),
                ("hook", 4, ["sleep", "fork"], None), ("hook", 3, None, None), ("ctl", 2, None, None)]
    scenarios = []
    predicted_new = []
    sid = 0
    for (kind, maxreq, behs, reqs) in ([] if replay_only else runs):
        r = ctx.model_check("ExecTaskMC", None, cfg_text=cfg_model(kind, maxreq, dev_stop, invs, behs, reqs),
                            files={"ExecTaskMC.tla": mc_module(known)}, workers=WORKERS, timeout=1500)
        ctx.model_runs[-1]["cfg"] = "%s MaxReq=%d behs=%s reqs=%s" % (kind, maxreq, ",".join(behs or ["all"]), ",".join(reqs or ["all"]))
        if r.violated:
            inv = r.violated[0][:-1] if r.violated[0].endswith("X") else r.violated[0]
            sid += 1
            scenarios.append(scn_from_counterexample(sid, r.counterexample(), inv))
            predicted_new.append((sid, inv))
    # beyond the listed property (information): can a request handler goroutine block for ever?
    if not quick and not replay_only:
        rs = ctx.model_check("ExecTaskMC", None, cfg_text=cfg_model("ctl", 2, dev_stop, ["NoStuckHandler"], ["sleep"], ["Kill"]),
                             files={"ExecTaskMC.tla": mc_module(known)}, workers=WORKERS, timeout=600)
        if rs.violated:
            ctx.observations.append("model: two overlapping Kill requests for a controllable task can leave one Kill goroutine blocked for "
                                    "ever on the one-slot pendingFinalTaskStateCh (invariant NoStuckHandler violated; a goroutine leak, "
                                    "not an executor hang; not replayed - nothing observable from outside)")

    # 2. scenarios: exhaustive enumeration of the plans by TLC
    recs = []
    if not replay_only:
        g = ctx.tlc("ExecTaskGen", None, workers=1, cfg_text=cfg_gen(dev_stop), timeout=600)
        recs = g.records("SCN")
        if not g.no_error or len(recs) < 100:
            ctx.save_debug(g, "tlc_gen.txt")
            raise vlib.Inconclusive("scenario generation failed: %s" % vlib.tail(g.out))
        ctx.states += g.distinct
        ctx.transitions += g.generated
        ctx.model_runs.append({"module": "ExecTaskGen", "cfg": "plans", "distinct": g.distinct, "generated": g.generated,
                               "result": "%d plans printed" % len(recs), "wall_s": round(g.wall, 1)})
    sid = 100
    allscn = []
    for rec in recs:
        sid += 1
        allscn.append(scn_from_gen(sid, rec[1]))
    if os.geteuid() != 0:
        # a configured user needs an executor that may change credentials
        allscn = [s for s in allscn if not s.get("user")]
        ctx.assumptions.append("not running as root: the plans for tasks with a configured user were left out")
    rng = random.Random(ctx.seed)
    if replay_only:
        chosen = [replay_only]
    elif quick:
        single = [s for s in allscn if len(s["plan"]) <= 1]
        double = [s for s in allscn if len(s["plan"]) == 2]
        rng.shuffle(double)
        # every plan in which a second Kill of a basic / hook task comes after the first one is done while its
        # TASK_FINISHED is still queued; a seeded sample of the other pairs
        late = [s for s in double if s["cls"].endswith("/hold")]
        chosen = single + late + [s for s in double if not s["cls"].endswith("/hold")][:50]
    else:
        chosen = list(allscn)
        # racy instants: repeat, the recorded facts say which order actually occurred
        extra = []
        for s in allscn:
            if racy(s):
                for k in range(2):
                    sid += 1
                    c = dict(s)
                    c["id"] = sid
                    extra.append(c)
        chosen += extra
    # (the supervisor starts them in this order: the ones that take 12 s of real time first, in parallel with the rest)
    scenarios += sorted(chosen, key=lambda s: (0 if s["beh"] == "slow" else 1, s["id"]))
    ctx.log("plans enumerated by TLC: %d; replaying %d scenarios" % (len(allscn), len(scenarios)))

    # 3. replay on the real code
    binp = ctx.build("exectask")
    scn_file = ctx.path("scenarios.ndjson")
    trace_file = ctx.path("trace.ndjson")
    ctx.write_ndjson(scn_file, [dict({k: s[k] for k in ("id", "kind", "beh", "hold", "steps", "cls")}, user=bool(s.get("user")), down=bool(s.get("down")))
                                for s in scenarios])
    par = 12 if vlib.NCPU >= 12 else max(4, vlib.NCPU)
    out = ctx.run([binp, "-scenarios", scn_file, "-trace", trace_file, "-work", ctx.path("scn"), "-par", str(par)],
                  timeout=2400)
    ctx.log("replayed: " + out.strip())
    lines = ctx.read_ndjson(trace_file)
    herr = [x for x in lines if x["ev"] == "HarnessError"]
    if herr:
        raise vlib.Inconclusive("harness trouble in %d scenario(s), e.g. %s" % (len(herr), json.dumps(herr[0])[:300]))
    by_id = {s["id"]: s for s in scenarios}
    for s in scenarios:
        ctx.count_case(s["cls"], nontrivial=len(s["steps"]) > 3)
    ctx.sample({"scenario": {k: scenarios[-1][k] for k in ("id", "kind", "beh", "hold", "cls")},
                "steps": [(st["a"], st.get("r", "")) for st in scenarios[-1]["steps"]]})
    ctx.sample({"trace": [x for x in lines if x.get("scn") == scenarios[-1]["id"]][:14]})

    # 4. trace validation (conformance + monitor) by TLC
    viol, drift, tr = ctx.validate("ExecTaskTrace", None, trace_file, cfg_text=cfg_trace(dev_stop), timeout=1200)
    ctx.traces = len(scenarios)
    ctx.extra["trace_lines"] = len(lines)
    ctx.exhaustive = not quick

    def trace_of(scn):
        return [x for x in lines if x.get("scn") == scn]

    for d in drift:
        s = by_id.get(d[1], {})
        ctx.drift.append({"scn": d[1], "line": d[2], "event": d[3], "cls": s.get("cls"),
                          "tail": [{k: v for k, v in x.items() if k not in ("scn", "seq", "cls", "msg", "errs")}
                                   for x in trace_of(d[1]) if x["ev"] != "Note"][-8:]})
    observed = {}
    seen = set()
    for v in viol:
        inv, scn, line, det = v[1], v[2], v[3], v[4]
        s = by_id.get(scn, {})
        observed.setdefault(scn, set()).add(inv)
        sig = {"inv": inv, "kind": s.get("kind"), "impl": IMPL.get(s.get("kind")), "beh": s.get("beh"), "r": det[0], "inst": det[1],
               "nth": det[2] if det[2] <= 1 else (3 if det[4] else 2), "site": re.sub(r"(\.func[0-9]+)+$", "", det[3])}   # closures count as their method
        if inv == "TransitionTruthful":
            sig.update({"clause": "C16 (the state reported after a transition is the device's real state), at executable.Task.Transition",
                        "detail": det[3], "site": ""})
        key = (scn, json.dumps(sig, sort_keys=True))
        if key in seen:
            continue
        seen.add(key)
        sig.update({"scn": scn, "line": line, "cls": s.get("cls"), "origin": s.get("origin")})
        ctx.add_violation(sig, replay_obj={"scenario": {k: s.get(k) for k in ("id", "kind", "beh", "hold", "user", "down", "steps", "cls")},
                                           "trace": trace_of(scn)})
    # a violation predicted by the exhaustive model outside the known classes must reproduce on the real code
    for (scn, inv) in predicted_new:
        if inv not in observed.get(scn, set()):
            raise vlib.Inconclusive("MODEL-UNREPRODUCED: the model violates %s outside the known classes, but the replayed "
                                    "counterexample (scenario %d) did not" % (inv, scn))
    # prediction vs observation per scenario (information; racy instants may legitimately go the other way)
    npred = nhit = 0
    missed = {}
    for s in scenarios:
        pred = {p[0] for p in s.get("predicted", [])}
        if not pred:
            continue
        npred += 1
        if pred <= observed.get(s["id"], set()):
            nhit += 1
        else:
            missed[s["cls"]] = sorted(pred - observed.get(s["id"], set()))
    ctx.extra["scenarios"] = {"plans": len(allscn), "replayed": len(scenarios), "with_predicted_violation": npred,
                              "predicted_and_observed": nhit}
    if missed:
        ctx.observations.append("%d scenario(s) for which the model predicts a violation that the recorded run did not show "
                                "(races that went the other way), e.g. %s" % (len(missed), json.dumps(list(missed.items())[:3])))
    stuck = [x for x in lines if x["ev"] == "Note" and "timeout" in x]
    ctx.extra["driver_wait_timeouts"] = len(stuck)
